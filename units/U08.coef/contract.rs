//@ C08 — "has exactly one coefficient per variable in every row and in the objective": the dense vector built from a sparse
//@ linear form has one entry per variable index, equal to the form's coefficient of that variable, and 0 where the form has none.
@fn extract_coeffs -> r
    requires exp.wf(), vars.wf(),
        forall|k: Seq<char>| vars.has(k) ==> #[trigger] vars.map()[k] < vars.keys().len(),
        forall|k1: Seq<char>, k2: Seq<char>| vars.has(k1) && vars.has(k2) && #[trigger] vars.map()[k1] == #[trigger] vars.map()[k2] ==> k1 == k2,
    ensures
        r@.len() == vars.keys().len(),
        forall|k: Seq<char>| exp.has(k) && vars.has(k) ==> r@[#[trigger] vars.map()[k] as int] == exp.map()[k],
        forall|i: int| 0 <= i < r@.len() && (forall|k: Seq<char>| exp.has(k) && vars.has(k) ==> #[trigger] vars.map()[k] != i) ==> fv(#[trigger] r@[i]) == Ext::Fin(0real),
@fn extract_coeffs @loop 1
    invariant
        exp.wf(), vars.wf(), vx_n1 == exp.keys().len(), vec@.len() == vars.keys().len(),
        forall|k: Seq<char>| vars.has(k) ==> #[trigger] vars.map()[k] < vars.keys().len(),
        forall|k1: Seq<char>, k2: Seq<char>| vars.has(k1) && vars.has(k2) && #[trigger] vars.map()[k1] == #[trigger] vars.map()[k2] ==> k1 == k2,
        // keys processed so far are in place
        forall|j: int| 0 <= j < vx_i1 && vars.has(exp.keys()[j]) ==> vec@[vars.map()[#[trigger] exp.keys()[j]] as int] == exp.map()[exp.keys()[j]],
        // an index that no processed key maps to still holds 0
        forall|i: int| 0 <= i < vec@.len() && (forall|j: int| 0 <= j < vx_i1 && vars.has(#[trigger] exp.keys()[j]) ==> vars.map()[exp.keys()[j]] != i) ==> fv(#[trigger] vec@[i]) == Ext::Fin(0real),
@fn extract_coeffs @tail 1
    proof {
        assert forall|k: Seq<char>| exp.has(k) && vars.has(k) implies r__@[#[trigger] vars.map()[k] as int] == exp.map()[k] by {
            assert(exp.keys().contains(k));
            let j = choose|j: int| 0 <= j < exp.keys().len() && exp.keys()[j] == k;
            assert(vars.has(exp.keys()[j]));
        }
        assert forall|i: int| 0 <= i < r__@.len() && (forall|k: Seq<char>| exp.has(k) && vars.has(k) ==> #[trigger] vars.map()[k] != i) implies fv(#[trigger] r__@[i]) == Ext::Fin(0real) by {
            assert forall|j: int| 0 <= j < exp.keys().len() && vars.has(#[trigger] exp.keys()[j]) implies vars.map()[exp.keys()[j]] != i by {
                assert(exp.keys().contains(exp.keys()[j])); assert(exp.has(exp.keys()[j]));
            }
        }
    }
