    // Executable form of U10.simp's postcondition (+ idempotence and the division clause, bounded), run against the REAL Exp::simplify:
    // for every small expression tree and assignment where the original is defined, the flattened one evaluates to the same number.
    // Grid: integers and halves only, divisors that are powers of two -> every intermediate value is exact in f64.
    fn ev(e: &Exp, x: f64, y: f64) -> Option<f64> {
        match e {
            Exp::Number(v) => Some(*v),
            Exp::Variable(n) => Some(if n == "x" { x } else { y }),
            Exp::UnOp(UnOp::Neg, a) => ev(a, x, y).map(|v| -v),
            Exp::Abs(a) => ev(a, x, y).map(|v| v.abs()),
            Exp::BinOp(op, a, b) => {
                let (a, b) = (ev(a, x, y)?, ev(b, x, y)?);
                match op {
                    BinOp::Add => Some(a + b),
                    BinOp::Sub => Some(a - b),
                    BinOp::Mul => Some(a * b),
                    BinOp::Div => if b == 0.0 { None } else { Some(a / b) },
                    _ => None,
                }
            }
            _ => None,
        }
    }
    // a division by zero, or by an expression containing a variable
    fn has_var(e: &Exp) -> bool { match e { Exp::Variable(_) => true, Exp::Number(_) => false, Exp::UnOp(_, a) | Exp::Abs(a) => has_var(a), Exp::BinOp(_, a, b) => has_var(a) || has_var(b), _ => false } }
    fn bad(e: &Exp) -> bool {
        match e {
            Exp::BinOp(op, a, b) => (matches!(op, BinOp::Div) && (has_var(b) || ev(b, 0.0, 0.0).map(|v| v == 0.0).unwrap_or(true))) || bad(a) || bad(b),
            Exp::UnOp(_, a) | Exp::Abs(a) => bad(a),
            _ => false,
        }
    }
    fn leaves() -> Vec<Exp> {
        vec![Exp::Number(0.0), Exp::Number(1.0), Exp::Number(-2.0), Exp::Number(4.0), Exp::Variable("x".to_string()), Exp::Variable("y".to_string())]
    }
    fn grow(prev: &[Exp], all: &[Exp]) -> Vec<Exp> {
        let mut out = vec![];
        for a in prev {
            out.push(Exp::UnOp(UnOp::Neg, a.clone().to_box()));
            out.push(Exp::Abs(a.clone().to_box()));
            for b in all {
                for op in [BinOp::Add, BinOp::Sub, BinOp::Mul, BinOp::Div] {
                    out.push(Exp::BinOp(op, a.clone().to_box(), b.clone().to_box()));
                    out.push(Exp::BinOp(op, b.clone().to_box(), a.clone().to_box()));
                }
            }
        }
        out
    }
    #[test]
    fn search() {
        let l0 = leaves();
        let l1 = grow(&l0, &l0);
        let mut pool: Vec<Exp> = l0.clone();
        pool.extend(l1.iter().cloned());
        // depth 3: combine depth-2 terms with leaves and depth-2 terms taken on a stride (keeps the run to a few seconds)
        let mut l2: Vec<Exp> = vec![];
        for (i, a) in l1.iter().enumerate() {
            for b in l0.iter() {
                for op in [BinOp::Mul, BinOp::Div, BinOp::Add, BinOp::Sub] {
                    l2.push(Exp::BinOp(op, a.clone().to_box(), b.clone().to_box()));
                    l2.push(Exp::BinOp(op, b.clone().to_box(), a.clone().to_box()));
                }
            }
            if i % 7 == 0 {
                for (j, b) in l1.iter().enumerate() {
                    if j % 11 == 0 { l2.push(Exp::BinOp(BinOp::Mul, a.clone().to_box(), b.clone().to_box())); l2.push(Exp::BinOp(BinOp::Div, a.clone().to_box(), b.clone().to_box())); }
                }
            }
        }
        pool.extend(l2);
        let envs = [(-2.0, 0.5), (0.5, 3.0), (3.0, -2.0), (1.0, 1.0)];
        let mut cases = 0u64;
        let mut fails = 0;
        for e in &pool {
            let f = e.simplify();
            cases += 1;
            if format!("{:?}", f.simplify()) != format!("{:?}", f) && fails < 5 {
                fails += 1;
                println!("WITNESS-FAIL {{\"fn\": \"Exp::simplify\", \"clause\": \"idempotence (bounded)\", \"expression\": \"{}\", \"once\": \"{}\", \"twice\": \"{}\"}}", e, f, f.simplify());
            }
            if bad(e) && !bad(&f) && fails < 5 {
                fails += 1;
                println!("WITNESS-FAIL {{\"fn\": \"Exp::simplify\", \"clause\": \"a division by zero or by a non-constant is never rewritten away (bounded)\", \"expression\": \"{}\", \"simplified\": \"{}\"}}", e, f);
            }
            for (x, y) in envs {
                cases += 1;
                if let Some(v) = ev(e, x, y) {
                    let ok = match ev(&f, x, y) { Some(w) => (w - v).abs() <= 1e-9 * (1.0 + v.abs()), None => false };
                    if !ok && fails < 5 {
                        fails += 1;
                        println!("WITNESS-FAIL {{\"fn\": \"Exp::simplify\", \"clause\": \"sem(r, env) == sem(self, env)\", \"expression\": \"{}\", \"x\": {}, \"y\": {}, \"original_value\": {}, \"simplified\": \"{}\", \"simplified_value\": \"{:?}\"}}", e, x, y, v, f, ev(&f, x, y));
                    }
                }
            }
        }
        println!("WITNESS-DONE cases={}", cases);
    }
