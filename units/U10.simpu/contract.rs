//@ C10 — "simplifying an expression never changes its value ... and a division by zero or by a non-constant is never rewritten away".
@fn Exp::to_box -> r
    ensures *r == self,
@fn num_truthy -> r
    ensures fv(value) is Fin ==> r == truthy(rv(value)),
@fn logic_number -> r
    ensures fv(r) == Ext::Fin(b2r(value)),
@fn simplify_logic_nary @assumed -> r
    ensures true,
//@ the guard of the zero-product rule; what it computes is proved in unit U10.div (nothing here depends on its value)
@fn Exp::has_unsafe_division @assumed -> r
    ensures true,
@fn Exp::simplify @attr
#[verifier::exec_allows_no_decreases_clause]
@fn Exp::simplify -> r
    ensures
        exp_fin(*self) ==> exp_fin(r),
        forall|env: Env| sem(*self, env) is Some ==> #[trigger] sem(r, env) == sem(*self, env),
@fn Exp::simplify @keep-arms
    Exp::UnOp / UnOp::Neg
    Exp::Abs
@fn Exp::simplify @entry
    proof { lemma_exp_fin(*self); lemma_simp_arith(); }
@fn Exp::simplify @after "let exp = exp.simplify();" #1
    let ghost i1 = exp;
    let ghost i0 = *self->UnOp_1;
    proof { lemma_exp_fin(i1); }
@fn Exp::simplify @tail 2-3
    proof {
        lemma_exp_fin(r__); lemma_exp_fin(*r__->UnOp_1);
        assert forall|env: Env| sem(*self, env) is Some implies #[trigger] sem(r__, env) == sem(*self, env) by {
            assert(sem(i0, env) is Some); assert(sem(i1, env) == sem(i0, env));
        }
    }
@fn Exp::simplify @after "let exp = exp.simplify();" #2
    let ghost j1 = exp;
    let ghost j0 = *self->Abs_0;
    proof { lemma_exp_fin(j1); }
@fn Exp::simplify @tail 5-6
    proof {
        lemma_exp_fin(r__); lemma_exp_fin(*r__->Abs_0);
        assert forall|env: Env| sem(*self, env) is Some implies #[trigger] sem(r__, env) == sem(*self, env) by {
            assert(sem(j0, env) is Some); assert(sem(j1, env) == sem(j0, env));
        }
    }
@raw
// real-arithmetic identities behind the folding rules (0 + x, x * 1, x * 0, x / 1): pure facts about the opaque product / quotient
pub proof fn lemma_simp_arith()
    ensures
        forall|x: real| #[trigger] rmul_s(0real, x) == 0real,
        forall|x: real| #[trigger] rmul_s(x, 0real) == 0real,
        forall|x: real| #[trigger] rmul_s(1real, x) == x,
        forall|x: real| #[trigger] rmul_s(x, 1real) == x,
        forall|x: real| #[trigger] rdiv_s(x, 1real) == x,
{
    reveal(rmul_s); reveal(rdiv_s);
    assert forall|x: real| #[trigger] rmul_s(0real, x) == 0real by { assert(0real * x == 0real) by (nonlinear_arith); }
    assert forall|x: real| #[trigger] rmul_s(x, 0real) == 0real by { assert(x * 0real == 0real) by (nonlinear_arith); }
    assert forall|x: real| #[trigger] rmul_s(1real, x) == x by { assert(1real * x == x) by (nonlinear_arith); }
    assert forall|x: real| #[trigger] rmul_s(x, 1real) == x by { assert(x * 1real == x) by (nonlinear_arith); }
    assert forall|x: real| #[trigger] rdiv_s(x, 1real) == x by { assert(x / 1real == x) by (nonlinear_arith); }
}
