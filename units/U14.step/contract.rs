//@ C14/C05 — one simplex step.  The contracts of is_optimal / find_h / find_t are the ones proved in U14.ratio (their iterator chains are
//@ read through rules R37, R51, R60, R61), pivot's contract is the one proved in U14.pivot.
@fn Tableau::step_inner -> res
    requires tab_wf(*old(self)),
    ensures
        tab_wf(*final(self)),
        res matches Ok(StepAction::Finished) ==> *final(self) == *old(self) && no_improving_column(*old(self)),
        res matches Err(e) ==> e is Unbounded && *final(self) == *old(self) && exists|h: int| unbounded_witness(*old(self), h),
        res matches Ok(StepAction::Pivot { entering, leaving, ratio }) ==> {
            &&& entering < old(self).c.len() && leaving < old(self).a.len()
            &&& !old(self).in_basis@.contains(entering)
            &&& t_lt(rv(old(self).c[entering as int]), 0real, EPS())
            &&& ratio_ok(*old(self), entering as int, leaving as int, ratio)
            &&& pivoted(*old(self), *final(self), leaving as int, entering as int)
        },
@fn Tableau::step_inner @tail 2
    proof { assert(unbounded_witness(*old(self), h as int)); }
@fn Tableau::step -> res
    requires tab_wf(*old(self)),
    ensures
        tab_wf(*final(self)),
        res matches Ok(StepAction::Finished) ==> *final(self) == *old(self) && no_improving_column(*old(self)),
        res matches Err(e) ==> e is Unbounded && *final(self) == *old(self),
