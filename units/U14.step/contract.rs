//@ C14/C05 — one simplex step.  is_optimal / find_h / find_t use lazy iterator chains Verus does not
//@ take; their contracts are ASSUMED here and checked on the real functions by the bounded Kani unit
//@ U14.select (labelled bounded).  pivot's contract is the one proved in U14.pivot.
@fn Tableau::is_optimal @assumed -> r
    requires tab_wf(*self),
    ensures r == (forall|j: int| 0 <= j < self.c.len() ==> t_ge(rv(#[trigger] self.c[j]), 0real, EPS())),
@fn Tableau::find_h @assumed -> r
    requires tab_wf(*self),
    ensures
        r matches Some(h) ==> h < self.c.len() && !self.in_basis@.contains(h) && t_lt(rv(self.c[h as int]), 0real, EPS()),
        r is None ==> forall|j: int| 0 <= j < self.c.len() ==> self.in_basis@.contains(j as usize) || !t_lt(rv(#[trigger] self.c[j]), 0real, EPS()),
@fn Tableau::find_t @assumed -> r
    requires tab_wf(*self), h < self.c.len(),
    ensures
        r matches Some(tr) ==> ratio_ok(*self, h as int, tr.0 as int, tr.1),
        r is None ==> forall|i: int| 0 <= i < self.a.len() ==> !t_gt(rv((#[trigger] self.a[i])[h as int]), 0real, EPS()),
@fn Tableau::step_inner -> res
    requires tab_wf(*old(self)),
    ensures
        tab_wf(*final(self)),
        res matches Ok(StepAction::Finished) ==> *final(self) == *old(self) && no_improving_column(*old(self)),
        res matches Err(e) ==> e is Unbounded && *final(self) == *old(self) && exists|h: int| unbounded_witness(*old(self), h),
        res matches Ok(StepAction::Pivot { entering, leaving, ratio }) ==> {
            &&& entering < old(self).c.len() && leaving < old(self).a.len()
            &&& !old(self).in_basis@.contains(entering)
            &&& t_lt(rv(old(self).c[entering as int]), 0real, EPS())
            &&& ratio_ok(*old(self), entering as int, leaving as int, ratio)
            &&& pivoted(*old(self), *final(self), leaving as int, entering as int)
        },
@fn Tableau::step_inner @tail 2
    proof { assert(unbounded_witness(*old(self), h as int)); }
@fn Tableau::step -> res
    requires tab_wf(*old(self)),
    ensures
        tab_wf(*final(self)),
        res matches Ok(StepAction::Finished) ==> *final(self) == *old(self) && no_improving_column(*old(self)),
        res matches Err(e) ==> e is Unbounded && *final(self) == *old(self),
