//@ C13 — "the split of free variables into two non-negative parts": the appending half.  n is the width of every row, of the
//@ objective and of the variable list on entry; z ranges over ALL real vectors of the new width.
@fn DomainVariable::new -> r
    ensures r.as_type == as_type,
@fn DomainVariable::get_type -> r
    ensures *r == self.as_type,
@fn LinearConstraint::coefficients -> r
    ensures *r == self.coefficients,
@fn LinearConstraint::coefficients_mut -> r
    ensures *r == old(self).coefficients, final(self).coefficients == *final(r),
        final(self).rhs == old(self).rhs, final(self).constraint_type == old(self).constraint_type, final(self).name == old(self).name,
@fn std_split_append
    requires old(domain).wf(),
        old(variables)@.len() == old(objective)@.len(), fin_seq(old(objective)@),
        forall|r: int| 0 <= r < old(constraints)@.len() ==> (#[trigger] old(constraints)@[r]).coefficients.len() == old(variables)@.len() && fin_seq(old(constraints)@[r].coefficients@),
        forall|j: int| 0 <= j < free_variables@.len() ==> (#[trigger] free_variables@[j]) < old(variables)@.len(),
        old(context).total_variables + free_variables@.len() <= usize::MAX,
    ensures
        final(domain).wf(),
        final(context).total_variables == old(context).total_variables + free_variables@.len(),
        final(context).slack_index == old(context).slack_index, final(context).surplus_index == old(context).surplus_index,
        final(variables)@.len() == old(variables)@.len() + 2 * free_variables@.len(),
        forall|j: int| 0 <= j < old(variables)@.len() ==> final(variables)@[j] == old(variables)@[j],
        forall|j: int| old(variables)@.len() <= j < final(variables)@.len() ==> final(domain).has(#[trigger] final(variables)@[j]@) && nn_unbounded(final(domain).map()[final(variables)@[j]@].as_type),
        final(constraints)@.len() == old(constraints)@.len(),
        forall|r: int| 0 <= r < old(constraints)@.len() ==> {
            &&& (#[trigger] final(constraints)@[r]).rhs == old(constraints)@[r].rhs
            &&& final(constraints)@[r].constraint_type == old(constraints)@[r].constraint_type
            &&& final(constraints)@[r].name == old(constraints)@[r].name
            &&& split_row(old(constraints)@[r].coefficients@, final(constraints)@[r].coefficients@, free_variables@, old(variables)@.len() as int, free_variables@.len() as int)
        },
        split_row(old(objective)@, final(objective)@, free_variables@, old(variables)@.len() as int, free_variables@.len() as int),
        // what the appended pairs mean: the value of a row at z is its old value plus c[f_j] * (z_p - z_m) per free variable
        forall|r: int, z: Seq<real>| 0 <= r < old(constraints)@.len() && z.len() >= old(variables)@.len() + 2 * free_variables@.len() ==>
            #[trigger] pdot(final(constraints)@[r].coefficients@, z) == pdot(old(constraints)@[r].coefficients@, z)
                + split_sum(old(constraints)@[r].coefficients@, free_variables@, z, old(variables)@.len() as int, free_variables@.len() as int),
        forall|z: Seq<real>| z.len() >= old(variables)@.len() + 2 * free_variables@.len() ==>
            #[trigger] pdot(final(objective)@, z) == pdot(old(objective)@, z) + split_sum(old(objective)@, free_variables@, z, old(variables)@.len() as int, free_variables@.len() as int),
@fn std_split_append @entry
    let ghost f = free_variables@;
    let ghost n = variables@.len() as int;
    let ghost v0 = variables@;
    let ghost cs0 = constraints@;
    let ghost o0 = objective@;
    let ghost t0 = context.total_variables as int;
@fn std_split_append @loop 1
    invariant
        vx_n1 == f.len(), vx_v1@ == f, f == free_variables@, n == v0.len(), v0 == old(variables)@, cs0 == old(constraints)@, o0 == old(objective)@, t0 == old(context).total_variables,
        o0.len() == n, fin_seq(o0), t0 + f.len() <= usize::MAX, domain.wf(),
        forall|r: int| 0 <= r < cs0.len() ==> (#[trigger] cs0[r]).coefficients.len() == n && fin_seq(cs0[r].coefficients@),
        forall|j: int| 0 <= j < f.len() ==> (#[trigger] f[j]) < n,
        context.total_variables == t0 + vx_i1, context.slack_index == old(context).slack_index, context.surplus_index == old(context).surplus_index,
        variables@.len() == n + 2 * vx_i1,
        forall|j: int| 0 <= j < n ==> variables@[j] == v0[j],
        forall|j: int| n <= j < variables@.len() ==> domain.has(#[trigger] variables@[j]@) && nn_unbounded(domain.map()[variables@[j]@].as_type),
        constraints@.len() == cs0.len(),
        forall|r: int| 0 <= r < cs0.len() ==> (#[trigger] constraints@[r]).rhs == cs0[r].rhs && constraints@[r].constraint_type == cs0[r].constraint_type && constraints@[r].name == cs0[r].name
            && split_row(cs0[r].coefficients@, constraints@[r].coefficients@, f, n, vx_i1 as int),
        split_row(o0, objective@, f, n, vx_i1 as int),
@fn std_split_append @after "let i = "
    let ghost k = vx_i1 as int;
    proof { assert(*i == f[k]); assert(f[k] < n); }
@fn std_split_append @loop 2
    invariant
        vx_n2 == constraints@.len(), constraints@.len() == cs0.len(), *i == f[k], f[k] < n, k == vx_i1, 0 <= k < f.len(), n == v0.len(),
        forall|r: int| 0 <= r < cs0.len() ==> (#[trigger] cs0[r]).coefficients.len() == n && fin_seq(cs0[r].coefficients@),
        forall|r: int| 0 <= r < cs0.len() ==> (#[trigger] constraints@[r]).rhs == cs0[r].rhs && constraints@[r].constraint_type == cs0[r].constraint_type && constraints@[r].name == cs0[r].name
            && split_row(cs0[r].coefficients@, constraints@[r].coefficients@, f, n, if r < vx_i2 { k + 1 } else { k }),
@fn std_split_append @after "let mut c = vx_vec_take"
    let ghost r = vx_i2 as int;
    let ghost cc = c.coefficients@;
    proof { assert(c == constraints@[r]); assert(split_row(cs0[r].coefficients@, cc, f, n, k)); assert(cc[f[k] as int] == cs0[r].coefficients@[f[k] as int]); assert(fv(cs0[r].coefficients@[f[k] as int]) is Fin); }
@fn std_split_append @before "constraints.set"
    proof {
        let c1 = c.coefficients@;
        assert(c1 =~= cc.push(c1[n + 2 * k]).push(c1[n + 2 * k + 1]));
        assert(c1[n + 2 * k] == cc[f[k] as int]);
        assert(split_row(cs0[r].coefficients@, c1, f, n, k + 1)) by {
            assert forall|j: int| 0 <= j < n implies #[trigger] c1[j] == cs0[r].coefficients@[j] by { assert(c1[j] == cc[j]); }
            assert forall|j: int| 0 <= j < k + 1 implies c1[n + 2 * j] == cs0[r].coefficients@[#[trigger] f[j] as int] && fv(c1[n + 2 * j + 1]) == Ext::Fin(-rv(cs0[r].coefficients@[f[j] as int])) by {
                if j < k { assert(c1[n + 2 * j] == cc[n + 2 * j]); assert(c1[n + 2 * j + 1] == cc[n + 2 * j + 1]); }
            }
        }
    }
@fn std_split_append @end
    proof {
        assert forall|r: int, z: Seq<real>| 0 <= r < cs0.len() && z.len() >= n + 2 * f.len() implies
            #[trigger] pdot(constraints@[r].coefficients@, z) == pdot(cs0[r].coefficients@, z) + split_sum(cs0[r].coefficients@, f, z, n, f.len() as int) by {
            lemma_split_row(cs0[r].coefficients@, constraints@[r].coefficients@, f, n, f.len() as int, z);
        }
        assert forall|z: Seq<real>| z.len() >= n + 2 * f.len() implies #[trigger] pdot(objective@, z) == pdot(o0, z) + split_sum(o0, f, z, n, f.len() as int) by {
            lemma_split_row(o0, objective@, f, n, f.len() as int, z);
        }
    }
@raw
impl InputSpan { #[verifier::external_body] pub fn default() -> (r: InputSpan) { unimplemented!() } }
