//@ C01/C02 — "value-requirement propagation (lower/higher/exact) through +,-,scale".  The postcondition is the
//@ semantic law (what a requirement MEANS for the value a sub-term may take), not the shape of the `if`.
@fn ValueRequirement::reversed -> r
    ensures
        forall|a: real, b: real| #[trigger] relaxes(r, a, b) ==> relaxes(self, -a, -b),
        forall|a: real, b: real| #[trigger] relaxes(self, a, b) ==> relaxes(r, -a, -b),
@fn ValueRequirement::through_scale -> r
    ensures
        finite(coefficient) && rv(coefficient) != 0real ==> forall|a: real, b: real| #[trigger] relaxes(r, a, b) ==> relaxes(self, rmul_s(rv(coefficient), a), rmul_s(rv(coefficient), b)),
@fn ValueRequirement::through_scale @entry
    proof { lemma_scale_order(rv(coefficient)); lemma_scale_order(-rv(coefficient)); lemma_scale_neg(rv(coefficient)); }
@raw
pub proof fn lemma_scale_order(c: real)
    ensures forall|a: real, b: real| a <= b ==> (c > 0real ==> #[trigger] rmul_s(c, a) <= #[trigger] rmul_s(c, b)) && (c < 0real ==> rmul_s(c, a) >= rmul_s(c, b)),
{
    reveal(rmul_s); reveal(rdiv_s);
    assert forall|a: real, b: real| a <= b implies (c > 0real ==> #[trigger] rmul_s(c, a) <= #[trigger] rmul_s(c, b)) && (c < 0real ==> rmul_s(c, a) >= rmul_s(c, b)) by {
        assert(a <= b && c > 0real ==> c * a <= c * b) by (nonlinear_arith);
        assert(a <= b && c < 0real ==> c * a >= c * b) by (nonlinear_arith);
    }
}
pub proof fn lemma_scale_neg(c: real)
    ensures forall|a: real| #[trigger] rmul_s(c, a) == rmul_s(-c, -a),
{
    reveal(rmul_s); reveal(rdiv_s);
    assert forall|a: real| #[trigger] rmul_s(c, a) == rmul_s(-c, -a) by { assert(c * a == (-c) * (-a)) by (nonlinear_arith); }
}
