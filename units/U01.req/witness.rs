    // Executable form of the law of ValueRequirement::{reversed, through_scale} on the REAL functions, bounded grid:
    // if the sub-term may deviate as r allows (relaxes(r, a, b)), then after scaling by c the scaled term deviates as self allows.
    fn relaxes(r: ValueRequirement, v_lin: f64, v_true: f64) -> bool {
        match r { ValueRequirement::Exact => v_lin == v_true, ValueRequirement::PreferLower => v_lin >= v_true, ValueRequirement::PreferHigher => v_lin <= v_true }
    }
    #[test]
    fn search() {
        let reqs = [ValueRequirement::Exact, ValueRequirement::PreferLower, ValueRequirement::PreferHigher];
        // powers of two and small integers: products with the grid below are exact
        let coefs = [1.0, -1.0, 2.0, -2.0, 0.5, -0.5, 1024.0, -1024.0, 1.0 / 1048576.0, -1.0 / 1048576.0, 1.0 / 1073741824.0, -1.0 / 1073741824.0, 3.0, -3.0];
        let vals = [-4.0, -1.0, 0.0, 0.5, 2.0, 8.0];
        let (mut cases, mut fails) = (0u64, 0u32);
        for req in reqs {
            let r = req.reversed();
            for a in vals { for b in vals {
                cases += 1;
                if relaxes(r, a, b) && !relaxes(req, -a, -b) && fails < 6 {
                    fails += 1;
                    println!("WITNESS-FAIL {{\"fn\": \"ValueRequirement::reversed\", \"clause\": \"relaxes(r, a, b) ==> relaxes(self, -a, -b)\", \"self\": \"{:?}\", \"result\": \"{:?}\", \"a\": {}, \"b\": {}}}", req, r, a, b);
                }
            } }
            for c in coefs {
                let r = req.through_scale(c);
                for a in vals { for b in vals {
                    cases += 1;
                    if relaxes(r, a, b) && !relaxes(req, c * a, c * b) && fails < 6 {
                        fails += 1;
                        println!("WITNESS-FAIL {{\"fn\": \"ValueRequirement::through_scale\", \"clause\": \"relaxes(r, a, b) ==> relaxes(self, c*a, c*b)\", \"self\": \"{:?}\", \"coefficient\": {:e}, \"result\": \"{:?}\", \"a\": {}, \"b\": {}}}", req, c, r, a, b);
                    }
                } }
            }
        }
        println!("WITNESS-DONE cases={}", cases);
    }
