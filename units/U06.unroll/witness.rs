    // Executable form of C06 on the REAL front end, bounded corpus: a model written with iteration / aggregation constructs and the text obtained by
    // unrolling those constructs by hand (in iteration order) must compile to the same linear model: rows in the same order with the same names,
    // coefficients and right-hand sides, the same objective, variables and domains.
    fn lin(src: &str) -> Result<LinearModel, String> { RoocParser::new(src.to_string()).parse_and_transform(vec![], &IndexMap::new()).and_then(|m| Linearizer::linearize(m).map_err(|e| e.to_string())) }
    fn same(a: &LinearModel, b: &LinearModel) -> Result<(), String> {
        if a.to_string() != b.to_string() { return Err(format!("compact: {} || unrolled: {}", a, b)); }
        if a.variables() != b.variables() || a.objective() != b.objective() || a.objective_offset() != b.objective_offset() { return Err("objective / variables differ numerically".to_string()); }
        for (x, y) in a.constraints().iter().zip(b.constraints()) { if x.coefficients() != y.coefficients() || x.rhs() != y.rhs() || x.name() != y.name() || x.constraint_type() != y.constraint_type() { return Err(format!("row {} differs numerically from {}", x, y)); } }
        for (n, d) in a.domain().iter() { match b.domain().get(n) { Some(e) if e.get_type() == d.get_type() => {}, other => return Err(format!("domain of {}: {:?} vs {:?}", n, d.get_type(), other.map(|e| *e.get_type()))) } }
        Ok(())
    }
    fn pairs() -> Vec<(&'static str, String, String)> {
        let g = "    let G = Graph {\n        A -> [B: 2, C],\n        B -> [A, C: 3],\n        C -> [A]\n    }\n";
        vec![
            ("sum over a range, indexed names", "max sum(i in 0..3) { (i + 1) * x_i }\ns.t.\n    sum(i in 0..3) { x_i } <= 2\ndefine\n    x_i as Boolean for i in 0..3".into(),
                                                "max (0 + 1) * x_0 + (1 + 1) * x_1 + (2 + 1) * x_2\ns.t.\n    x_0 + x_1 + x_2 <= 2\ndefine\n    x_0, x_1, x_2 as Boolean".into()),
            ("for-quantified named rows", "min sum(i in 0..3) { x_i }\ns.t.\n    row_i: x_i + y >= i + 1 for i in 0..3\ndefine\n    x_i as NonNegativeReal for i in 0..3\n    y as Real(-2, 2)".into(),
                                          "min x_0 + x_1 + x_2\ns.t.\n    row_0: x_0 + y >= 0 + 1\n    row_1: x_1 + y >= 1 + 1\n    row_2: x_2 + y >= 2 + 1\ndefine\n    x_0, x_1, x_2 as NonNegativeReal\n    y as Real(-2, 2)".into()),
            ("array, enumerate, len", "max sum((v, i) in enumerate(vals)) { v * x_i }\ns.t.\n    sum((w, i) in enumerate(ws)) { w * x_i } <= cap\nwhere\n    let ws = [10, 60, 30]\n    let vals = [1, 10, 15]\n    let cap = 62\ndefine\n    x_i as Boolean for i in 0..len(ws)".into(),
                                      "max 1 * x_0 + 10 * x_1 + 15 * x_2\ns.t.\n    10 * x_0 + 60 * x_1 + 30 * x_2 <= 62\ndefine\n    x_0, x_1, x_2 as Boolean".into()),
            ("array access and ranges with expressions", "min sum(i in 0..(n - 1)) { c[i] * x_i + c[i + 1] * x_{i + 1} }\ns.t.\n    x_i - x_{i + 1} <= c[i] for i in 0..(n - 1)\nwhere\n    let c = [3, 5, 7]\n    let n = len(c)\ndefine\n    x_i as Real(0, 10) for i in 0..n".into(),
                                                         "min 3 * x_0 + 5 * x_1 + 5 * x_1 + 7 * x_2\ns.t.\n    x_0 - x_1 <= 3\n    x_1 - x_2 <= 5\ndefine\n    x_0, x_1, x_2 as Real(0, 10)".into()),
            ("two iteration variables, matrix", "min sum(i in 0..2, j in 0..2) { m[i][j] * x_i_j }\ns.t.\n    sum(j in 0..2) { x_i_j } >= 1 for i in 0..2\n    sum(i in 0..2) { x_i_j } <= 1 for j in 0..2\nwhere\n    let m = [[1, 2], [3, 4]]\ndefine\n    x_i_j as Boolean for i in 0..2, j in 0..2".into(),
                                                "min 1 * x_0_0 + 2 * x_0_1 + 3 * x_1_0 + 4 * x_1_1\ns.t.\n    x_0_0 + x_0_1 >= 1\n    x_1_0 + x_1_1 >= 1\n    x_0_0 + x_1_0 <= 1\n    x_0_1 + x_1_1 <= 1\ndefine\n    x_0_0, x_0_1, x_1_0, x_1_1 as Boolean".into()),
            ("iterating rows and elements", "min y\ns.t.\n    sum(row in C, el in row) { el * y } >= 4\n    sum((row, i) in enumerate(C), el in row) { (el + i) * y } <= 90\nwhere\n    let C = [[1, 2], [3, 4]]\ndefine\n    y as NonNegativeReal".into(),
                                            "min y\ns.t.\n    1 * y + 2 * y + 3 * y + 4 * y >= 4\n    (1 + 0) * y + (2 + 0) * y + (3 + 1) * y + (4 + 1) * y <= 90\ndefine\n    y as NonNegativeReal".into()),
            ("prod and avg blocks over constants", "max prod(i in 1..4) { i } * x + avg(i in A) { i } * y\ns.t.\n    x + y <= 3\nwhere\n    let A = [2, 4, 6]\ndefine\n    x, y as NonNegativeReal".into(),
                                                   "max 1 * 2 * 3 * x + avg { 2, 4, 6 } * y\ns.t.\n    x + y <= 3\ndefine\n    x, y as NonNegativeReal".into()),
            ("min / max blocks over variables", "min t\ns.t.\n    t >= max(i in 0..3) { x_i - i }\n    min(i in 0..3) { x_i } >= 1\ndefine\n    x_i as Real(0, 9) for i in 0..3\n    t as Real(-20, 20)".into(),
                                                "min t\ns.t.\n    t >= max { x_0 - 0, x_1 - 1, x_2 - 2 }\n    min { x_0, x_1, x_2 } >= 1\ndefine\n    x_0, x_1, x_2 as Real(0, 9)\n    t as Real(-20, 20)".into()),
            ("all / any / xor blocks", "max sum(i in 0..3) { p_i }\ns.t.\n    any(i in 0..3) { p_i }\n    not all(i in 0..3) { p_i }\n    xor(i in 0..3) { p_i }\ndefine\n    p_i as Boolean for i in 0..3".into(),
                                       "max p_0 + p_1 + p_2\ns.t.\n    any { p_0, p_1, p_2 }\n    not all { p_0, p_1, p_2 }\n    xor { p_0, p_1, p_2 }\ndefine\n    p_0, p_1, p_2 as Boolean".into()),
            ("graph nodes and weighted edges", format!("min sum(u in nodes(G)) {{ x_u }}\ns.t.\n    sum((u, v, c) in edges(G)) {{ c * x_u + x_v }} >= 3\nwhere\n{}define\n    x_u as Boolean for u in nodes(G)", g),
                                               "min x_A + x_B + x_C\ns.t.\n    2 * x_A + x_B + 1 * x_A + x_C + 1 * x_B + x_A + 3 * x_B + x_C + 1 * x_C + x_A >= 3\ndefine\n    x_A, x_B, x_C as Boolean".into()),
            ("neighbour edges per node", format!("min sum(u in nodes(G)) {{ x_u }}\ns.t.\n    cover_v: x_v + sum((_, u) in neigh_edges(v)) {{ x_u }} >= 1 for v in nodes(G)\nwhere\n{}define\n    x_u as Boolean for u in nodes(G)", g),
                                         "min x_A + x_B + x_C\ns.t.\n    cover_A: x_A + x_B + x_C >= 1\n    cover_B: x_B + x_A + x_C >= 1\n    cover_C: x_C + x_A >= 1\ndefine\n    x_A, x_B, x_C as Boolean".into()),
            ("declarations over a list with distinct kinds", "min sum(i in [1, 2]) { x_i } + sum(j in [5, 6]) { z_j }\ns.t.\n    x_i + z_j >= 1 for i in [1, 2], j in [5, 6]\ndefine\n    x_i as Real(0, 4) for i in [1, 2]\n    z_j as Boolean for j in [5, 6]".into(),
                                                             "min x_1 + x_2 + z_5 + z_6\ns.t.\n    x_1 + z_5 >= 1\n    x_1 + z_6 >= 1\n    x_2 + z_5 >= 1\n    x_2 + z_6 >= 1\ndefine\n    x_1, x_2 as Real(0, 4)\n    z_5, z_6 as Boolean".into()),
            ("compound indices", "min x_0 + x_3\ns.t.\n    x_i + x_{i + 1} + x_{len(c) + 0} >= i for i in 0..3\nwhere\n    let c = [7, 8, 9]\ndefine\n    x_i as NonNegativeReal for i in 0..4".into(),
                                 "min x_0 + x_3\ns.t.\n    x_0 + x_1 + x_3 >= 0\n    x_1 + x_2 + x_3 >= 1\n    x_2 + x_3 + x_3 >= 2\ndefine\n    x_0, x_1, x_2, x_3 as NonNegativeReal".into()),
            ("inclusive ranges and negative bounds", "min sum(i in -1..=1) { (i + 2) * x_{i + 1} } + sum(j in -2..0) { z_{j + 2} }\ns.t.\n    x_{i + 1} + (i + 3) * y >= i for i in -1..=1\n    z_{j + 2} <= j + 5 for j in -2..0\n    y <= k for k in 2..=3\ndefine\n    x_j as NonNegativeReal for j in 0..=2\n    z_j as NonNegativeReal for j in 0..2\n    y as NonNegativeReal".into(),
                                                     "min (-1 + 2) * x_0 + (0 + 2) * x_1 + (1 + 2) * x_2 + (z_0 + z_1)\ns.t.\n    x_0 + (-1 + 3) * y >= -1\n    x_1 + (0 + 3) * y >= 0\n    x_2 + (1 + 3) * y >= 1\n    z_0 <= -2 + 5\n    z_1 <= -1 + 5\n    y <= 2\n    y <= 3\ndefine\n    x_0, x_1, x_2 as NonNegativeReal\n    z_0, z_1 as NonNegativeReal\n    y as NonNegativeReal".into()),
            ("zip of two arrays", "max sum((a, b) in zip(A, B)) { a * x + b * y }\ns.t.\n    x + y <= 4\nwhere\n    let A = [1, 2]\n    let B = [3, 5]\ndefine\n    x, y as NonNegativeReal".into(),
                                  "max 1 * x + 3 * y + 2 * x + 5 * y\ns.t.\n    x + y <= 4\ndefine\n    x, y as NonNegativeReal".into()),
            ("nested sums with a dependent range", "min y\ns.t.\n    sum(i in 0..3, j in 0..(i + 1)) { (i + j) * y } >= 8\ndefine\n    y as NonNegativeReal".into(),
                                                   "min y\ns.t.\n    (0 + 0) * y + (1 + 0) * y + (1 + 1) * y + (2 + 0) * y + (2 + 1) * y + (2 + 2) * y >= 8\ndefine\n    y as NonNegativeReal".into()),
            ("scoped sum with a condition-free body and constants", "max sum(i in 0..3) { k * x_i } - sum(i in 0..2) { x_i * half }\ns.t.\n    x_i <= 2 for i in 0..3\nwhere\n    let k = 2\n    let half = 0.5\ndefine\n    x_i as NonNegativeReal for i in 0..3".into(),
                                                                     "max 2 * x_0 + 2 * x_1 + 2 * x_2 - (x_0 * 0.5 + x_1 * 0.5)\ns.t.\n    x_0 <= 2\n    x_1 <= 2\n    x_2 <= 2\ndefine\n    x_0, x_1, x_2 as NonNegativeReal".into()),
        ]
    }
    #[test]
    fn search() {
        let (mut cases, mut fails, mut compared) = (0u64, 0u32, 0u64);
        let mut distinct: std::collections::HashSet<String> = std::collections::HashSet::new();
        for (what, compact, unrolled) in pairs() {
            cases += 1;
            let esc = |s: &str| s.replace('\\', "\\\\").replace('"', "'").replace('\n', "\\n").replace('\t', " ");
            let (a, b) = (lin(&compact), lin(&unrolled));
            match (a, b) {
                (Ok(a), Ok(b)) => {
                    compared += 1;
                    distinct.insert(a.to_string());
                    if let Err(d) = same(&a, &b) { if fails < 40 { println!("WITNESS-FAIL {{\"fn\": \"RoocParser::parse_and_transform (expansion)\", \"clause\": \"the model with iteration / aggregation constructs compiles to the same linear model as its hand-unrolled text\", \"construct\": \"{}\", \"compact\": \"{}\", \"unrolled\": \"{}\", \"detail\": \"{}\"}}", what, esc(&compact), esc(&unrolled), esc(&d)); } fails += 1; }
                }
                (Err(e), Ok(_)) => { if fails < 40 { println!("WITNESS-FAIL {{\"fn\": \"RoocParser::parse_and_transform (expansion)\", \"clause\": \"the compact text compiles when its unrolled text does\", \"construct\": \"{}\", \"compact\": \"{}\", \"detail\": \"{}\"}}", what, esc(&compact), esc(&e)); } fails += 1; }
                (Ok(_), Err(e)) | (Err(_), Err(e)) => { if fails < 40 { println!("WITNESS-FAIL {{\"fn\": \"corpus\", \"clause\": \"the unrolled text of the corpus compiles\", \"construct\": \"{}\", \"unrolled\": \"{}\", \"detail\": \"{}\"}}", what, esc(&unrolled), esc(&e)); } fails += 1; }
            }
        }
        println!("WITNESS-SAMPLE {{\"pairs_compared\": {}}}", compared);
        println!("WITNESS-DONE cases={} distinct={}", cases, distinct.len());
    }
