//@ C04 — "each reported named-row activity equals that row's left-hand side at the returned values" and
//@ "the reported objective value equals the model's objective function evaluated at the returned values including the constant offset"
//@ (calc_objective is the function the non-MILP bridges use to recompute the value).
@fn LinearConstraint::name -> r
    ensures r@ == self.name@,
@fn LinearModel::calc_constraints -> r
    requires fin_seq(values@), forall|j: int| 0 <= j < self.constraints@.len() ==> fin_seq((#[trigger] self.constraints@[j]).coefficients@),
    ensures
        r@.len() == self.constraints@.len(),
        forall|j: int| 0 <= j < r@.len() ==> (#[trigger] r@[j]).0@ == self.constraints@[j].name@,
        forall|j: int| 0 <= j < r@.len() ==> fv((#[trigger] r@[j]).1) == Ext::Fin(lin_lhs(self.constraints@[j].coefficients@, rvs(values@), values@.len() as int)),
@fn LinearModel::calc_objective -> r
    requires fin_seq(values@), fin_seq(self.objective@), fv(self.objective_offset) is Fin,
    ensures fv(r) == Ext::Fin(lin_lhs(self.objective@, rvs(values@), values@.len() as int) + rv(self.objective_offset)),
@fn LinearModel::calc_objective @loop 1
    invariant
        vx_n1 == values@.len(), values@.len() == self.objective@.len(), fin_seq(values@), fin_seq(self.objective@),
        fv(vx_s1) == Ext::Fin(lin_lhs(self.objective@, rvs(values@), vx_i1 as int)),
@fn LinearModel::calc_objective @loop 1 @start
    proof { assert(rvs(values@)[vx_i1 as int] == rv(values@[vx_i1 as int])); assert(fv(self.objective@[vx_i1 as int]) is Fin); assert(fv(values@[vx_i1 as int]) is Fin); }
@fn LinearModel::calc_constraints @loop 1
    invariant
        vx_n1 == self.constraints@.len(), vx_out1@.len() == vx_i1, fin_seq(values@),
        forall|j: int| 0 <= j < self.constraints@.len() ==> fin_seq((#[trigger] self.constraints@[j]).coefficients@),
        forall|j: int| 0 <= j < vx_i1 ==> (#[trigger] vx_out1@[j]).0@ == self.constraints@[j].name@,
        forall|j: int| 0 <= j < vx_i1 ==> fv((#[trigger] vx_out1@[j]).1) == Ext::Fin(lin_lhs(self.constraints@[j].coefficients@, rvs(values@), values@.len() as int)),
@fn LinearModel::calc_constraints @loop 2
    invariant
        vx_n2 == values@.len(), values@.len() == c.coefficients@.len(), fin_seq(values@), fin_seq(c.coefficients@),
        fv(vx_s2) == Ext::Fin(lin_lhs(c.coefficients@, rvs(values@), vx_i2 as int)),
@fn LinearModel::calc_constraints @loop 2 @start
    proof { assert(rvs(values@)[vx_i2 as int] == rv(values@[vx_i2 as int])); assert(fv(c.coefficients@[vx_i2 as int]) is Fin); assert(fv(values@[vx_i2 as int]) is Fin); }
@fn LinearModel::calc_constraints @lettype vx_out1
    Vec<(String, F64)>
