//@ C05 (and C04) — the default entry point.  Its only own decision is the variable-free shortcut.
@fn make_constraints_map_from_assignment @assumed -> r
    ensures true,
@fn LpSolution::new @assumed -> r
    ensures r.assignment == assignment, r.value == value, r.constraints == constraints, r.status == SolutionStatus::Optimal,
@fn LpSolution::with_status @assumed -> r
    ensures r.assignment == self.assignment, r.value == self.value, r.constraints == self.constraints, r.status == status,
@fn LpSolution::status @assumed -> r
    ensures r == self.status,
@fn solve_milp_lp_problem -> res
    requires lm_wf(*lp),
    ensures
        res matches Ok(sol) ==> exists|s: Solution| #[trigger] built(s.vars(), s.rows(), s.dir(), *lp) && s.sound() && readback(sol, s, *lp),
        res matches Err(SolverError::Infeasible) ==> exists|vs: Seq<GVar>, rs: Seq<GRow>, d: OptimizationDirection| #[trigger] built(vs, rs, d, *lp) && forall|x: Seq<real>| !gfeasible(vs, rs, x),
        res matches Err(SolverError::Unbounded) ==> exists|vs: Seq<GVar>, rs: Seq<GRow>, d: OptimizationDirection| #[trigger] built(vs, rs, d, *lp) && exists|x: Seq<real>| gfeasible(vs, rs, x),
@fn auto_solver -> res
    requires lm_wf(*lp),
    ensures
        // a solution is either the MILP bridge's (feasible for exactly this model), or the trivial answer of a model with NO rows and no variables
        res matches Ok(sol) ==> (exists|s: Solution| #[trigger] built(s.vars(), s.rows(), s.dir(), *lp) && s.sound() && readback(sol, s, *lp))
            || (lp.variables@.len() == 0 && lp.constraints@.len() == 0 && sol.assignment@.len() == 0 && sol.value == lp.objective_offset),
        res matches Err(SolverError::Infeasible) ==> exists|vs: Seq<GVar>, rs: Seq<GRow>, d: OptimizationDirection| #[trigger] built(vs, rs, d, *lp) && forall|x: Seq<real>| !gfeasible(vs, rs, x),
        res matches Err(SolverError::Unbounded) ==> exists|vs: Seq<GVar>, rs: Seq<GRow>, d: OptimizationDirection| #[trigger] built(vs, rs, d, *lp) && exists|x: Seq<real>| gfeasible(vs, rs, x),
@fn auto_solver @entry
    proof { if lp.variables@.len() > 0 { assert(lp.domain.has(lp.variables@[0]@)); assert(lp.domain.keys().contains(lp.variables@[0]@)); } }
@raw
// derived Default of MilpOptions: both options absent (R3: derives are structural)
impl MilpOptions { #[verifier::external_body] pub fn default() -> (r: MilpOptions) ensures r.mip_gap is None, r.time_limit is None { unimplemented!() } }
