//@ C01 — soundness of logic assertions: "nothing infeasible is let in".
@fn lower_logic_assertion @attr
#[verifier::exec_allows_no_decreases_clause]
@fn lower_logic_assertion -> res
    requires exp_fin(*exp), lz_inv(*old(linearizer_context)),
    ensures
        lz_inv(*final(linearizer_context)), lz_ext(*old(linearizer_context), *final(linearizer_context)),
        res is Ok ==> forall|env: Env| #[trigger] lz_ok(*final(linearizer_context), env) ==> (sem(*exp, env) matches Some(v) ==> truthy(v) == must_be_true),
@fn lower_logic_assertion @keep-arms
    Exp::And
    Exp::Or
    Exp::Not
    Exp::UnOp
    Exp::BinOp
    Exp::Number
@fn lower_logic_assertion @entry
    let ghost c0 = *linearizer_context;
    proof { lemma_exp_fin(*exp); lemma_exp_fin_list(*exp); }
@fn lower_logic_assertion @after "let vx_a2"
    proof { lemma_exp_fin(vx_a1); lemma_exp_fin(vx_a2); }
@fn lower_logic_assertion @loop 1
    invariant
        vx_v4@ == exps@, vx_n4 == exps@.len(), c0 == *old(linearizer_context), lz_inv(*linearizer_context), lz_ext(c0, *linearizer_context),
        forall|k: int| 0 <= k < exps@.len() ==> exp_fin(#[trigger] exps@[k]),
        forall|k: int| 0 <= k < vx_i4 ==> asserted(*linearizer_context, #[trigger] exps@[k], true),
@fn lower_logic_assertion @loop 1 @start
    let ghost c1 = *linearizer_context;
@fn lower_logic_assertion @loop 1 @end
    proof {
        assert forall|k: int| 0 <= k < vx_i4 + 1 implies asserted(*linearizer_context, #[trigger] exps@[k], true) by {
            if k < vx_i4 { lemma_assert_mono(c1, *linearizer_context, exps@[k], true); }
        }
    }
@fn lower_logic_assertion @loop 2
    invariant
        vx_v8@ == exps@, vx_n8 == exps@.len(), witnesses@.len() == vx_i8, c0 == *old(linearizer_context), lz_inv(*linearizer_context), lz_ext(c0, *linearizer_context),
        forall|k: int| 0 <= k < exps@.len() ==> exp_fin(#[trigger] exps@[k]),
        forall|k: int| 0 <= k < vx_i8 ==> exp_fin(#[trigger] witnesses@[k]) && wit_ok(*linearizer_context, exps@[k], false, witnesses@[k]),
@fn lower_logic_assertion @loop 2 @start
    let ghost c1 = *linearizer_context;
    let ghost w1 = witnesses;
@fn lower_logic_assertion @loop 2 @end
    proof {
        assert forall|k: int| 0 <= k < vx_i8 + 1 implies exp_fin(#[trigger] witnesses@[k]) && wit_ok(*linearizer_context, exps@[k], false, witnesses@[k]) by {
            if k < vx_i8 { assert(witnesses@[k] == w1@[k]); lemma_wit_mono(c1, *linearizer_context, exps@[k], false, w1@[k]); }
        }
    }
@fn lower_logic_assertion @after "let vx_a6"
    let ghost cS = *linearizer_context;
    proof { lemma_exp_fin(vx_a6); }
@fn lower_logic_assertion @after "linearizer_context.emit_constraint(vx_a5"
    proof {
        let cf = *linearizer_context;
        assert forall|k: int| 0 <= k < witnesses@.len() implies wit_ok(cf, #[trigger] exps@[k], !true, witnesses@[k]) by { lemma_wit_mono(cS, cf, exps@[k], false, witnesses@[k]); }
        lemma_assert_sum(cf, *exps, witnesses@, true, vx_a5);
    }
@fn lower_logic_assertion @loop 3
    invariant
        vx_v12@ == exps@, vx_n12 == exps@.len(), witnesses@.len() == vx_i12, c0 == *old(linearizer_context), lz_inv(*linearizer_context), lz_ext(c0, *linearizer_context),
        forall|k: int| 0 <= k < exps@.len() ==> exp_fin(#[trigger] exps@[k]),
        forall|k: int| 0 <= k < vx_i12 ==> exp_fin(#[trigger] witnesses@[k]) && wit_ok(*linearizer_context, exps@[k], true, witnesses@[k]),
@fn lower_logic_assertion @loop 3 @start
    let ghost c1 = *linearizer_context;
    let ghost w1 = witnesses;
@fn lower_logic_assertion @loop 3 @end
    proof {
        assert forall|k: int| 0 <= k < vx_i12 + 1 implies exp_fin(#[trigger] witnesses@[k]) && wit_ok(*linearizer_context, exps@[k], true, witnesses@[k]) by {
            if k < vx_i12 { assert(witnesses@[k] == w1@[k]); lemma_wit_mono(c1, *linearizer_context, exps@[k], true, w1@[k]); }
        }
    }
@fn lower_logic_assertion @after "let vx_a10"
    let ghost cS = *linearizer_context;
    proof { lemma_exp_fin(vx_a10); }
@fn lower_logic_assertion @after "linearizer_context.emit_constraint(vx_a9"
    proof {
        let cf = *linearizer_context;
        assert forall|k: int| 0 <= k < witnesses@.len() implies wit_ok(cf, #[trigger] exps@[k], !false, witnesses@[k]) by { lemma_wit_mono(cS, cf, exps@[k], true, witnesses@[k]); }
        lemma_assert_sum(cf, *exps, witnesses@, false, vx_a9);
    }
@fn lower_logic_assertion @loop 4
    invariant
        vx_v13@ == exps@, vx_n13 == exps@.len(), c0 == *old(linearizer_context), lz_inv(*linearizer_context), lz_ext(c0, *linearizer_context),
        forall|k: int| 0 <= k < exps@.len() ==> exp_fin(#[trigger] exps@[k]),
        forall|k: int| 0 <= k < vx_i13 ==> asserted(*linearizer_context, #[trigger] exps@[k], false),
@fn lower_logic_assertion @loop 4 @start
    let ghost c1 = *linearizer_context;
@fn lower_logic_assertion @loop 4 @end
    proof {
        assert forall|k: int| 0 <= k < vx_i13 + 1 implies asserted(*linearizer_context, #[trigger] exps@[k], false) by {
            if k < vx_i13 { lemma_assert_mono(c1, *linearizer_context, exps@[k], false); }
        }
    }
@fn lower_logic_assertion @tail 1
    proof { if must_be_true { lemma_assert_uniform(*linearizer_context, *exps, true); } }
@fn lower_logic_assertion @tail 2
    proof { if !must_be_true { lemma_assert_uniform(*linearizer_context, *exps, false); } }
@fn lower_logic_assertion @tail 3
    proof { if r__ is Ok { lemma_assert_not(*linearizer_context, exp->Not_0, must_be_true); } }
@fn lower_logic_assertion @tail 7
    proof { if r__ is Ok { lemma_assert_not(*linearizer_context, exp->UnOp_1, must_be_true); } }
