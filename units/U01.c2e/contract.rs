//@ C01 — auxiliary rows are written over expressions rebuilt from linear forms; the rebuilt expression must
//@ denote exactly the linear form, at every assignment.
@fn Exp::to_box -> r
    ensures *r == self,
@fn add_exp -> r
    ensures r == Exp::BinOp(BinOp::Add, Box::new(lhs), Box::new(rhs)),
@fn sub_exp -> r
    ensures r == Exp::BinOp(BinOp::Sub, Box::new(lhs), Box::new(rhs)),
@fn mul_exp -> r
    ensures r == Exp::BinOp(BinOp::Mul, Box::new(lhs), Box::new(rhs)),
@fn context_to_exp -> r
    requires lc_fin(*context),
    ensures exp_fin(r), forall|env: Env| #[trigger] sem(r, env) == Some(lc_eval(*context, env)),
@fn context_to_exp @before "let vx_n1"
    proof { lemma_exp_fin(exp); }
@fn context_to_exp @loop 1
    invariant
        vx_n1 == context.current_vars.keys().len(), lc_fin(*context), exp_fin(exp),
        forall|env: Env| #[trigger] sem(exp, env) == Some(rv(context.current_rhs) + msum(context.current_vars.keys(), context.current_vars.map(), env, vx_i1 as int)),
@fn context_to_exp @loop 1 @start
    let ghost e0 = exp;
    proof { assert(context.current_vars.keys().contains(context.current_vars.keys()[vx_i1 as int])); assert(context.current_vars.has(context.current_vars.keys()[vx_i1 as int])); }
@fn context_to_exp @loop 1 @end
    proof {
        assert forall|env: Env| #[trigger] sem(exp, env) == Some(rv(context.current_rhs) + msum(context.current_vars.keys(), context.current_vars.map(), env, vx_i1 + 1)) by {
            assert(sem(e0, env) == Some(rv(context.current_rhs) + msum(context.current_vars.keys(), context.current_vars.map(), env, vx_i1 as int)));
            assert(sem(term, env) == Some(rmul_s(rv(*coeff), env[name@]))) by { reveal_with_fuel(sem, 2); }
        }
        assert(exp_fin(exp)) by { lemma_exp_fin(exp); lemma_exp_fin(term); lemma_exp_fin(*term->BinOp_1); lemma_exp_fin(*term->BinOp_2); }
    }
