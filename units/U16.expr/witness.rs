    // Executable form of U16.expr's two postconditions on the REAL to_exp / eval_expr, bounded: for index-based trees of depth <= 3
    // over three variables and the constants {0, 1, -2, 0.5} with every operator of the builder, and a grid of assignments,
    //   eval_expr(e, var)  ==  value of to_exp(e, names) under the language semantics (reference evaluator below, written from the
    //   property: nonzero is true, min/max of the operands, division undefined at 0).
    fn lang(e: &Exp, env: &dyn Fn(&str) -> f64) -> Option<f64> {
        let t = |x: f64| x != 0.0;
        let b = |v: bool| if v { 1.0 } else { 0.0 };
        Some(match e {
            Exp::Number(c) => *c,
            Exp::Variable(n) => env(n),
            Exp::Abs(a) => lang(a, env)?.abs(),
            Exp::Min(es) => { if es.is_empty() { return None; } let mut m = f64::INFINITY; for x in es { m = m.min(lang(x, env)?); } m }
            Exp::Max(es) => { if es.is_empty() { return None; } let mut m = f64::NEG_INFINITY; for x in es { m = m.max(lang(x, env)?); } m }
            Exp::And(es) => { let mut r = true; for x in es { r = r && t(lang(x, env)?); } b(r) }
            Exp::Or(es) => { let mut r = false; for x in es { r = r || t(lang(x, env)?); } b(r) }
            Exp::Not(a) => b(!t(lang(a, env)?)),
            Exp::Xor(x, y) => b(t(lang(x, env)?) != t(lang(y, env)?)),
            Exp::Implies(x, y) => b(!t(lang(x, env)?) || t(lang(y, env)?)),
            Exp::Iff(x, y) => b(t(lang(x, env)?) == t(lang(y, env)?)),
            Exp::UnOp(op, a) => { let v = lang(a, env)?; match op { UnOp::Neg => -v, UnOp::Not => b(!t(v)) } }
            Exp::BinOp(op, x, y) => {
                let (l, r) = (lang(x, env)?, lang(y, env)?);
                match op {
                    BinOp::Add => l + r, BinOp::Sub => l - r, BinOp::Mul => l * r,
                    BinOp::Div => { if r == 0.0 { return None; } l / r }
                    BinOp::And => b(t(l) && t(r)), BinOp::Or => b(t(l) || t(r)), BinOp::Xor => b(t(l) != t(r)),
                    BinOp::Implies => b(!t(l) || t(r)), BinOp::Iff => b(t(l) == t(r)),
                }
            }
        })
    }
    fn grow(prev: &[Expr], atoms: &[Expr]) -> Vec<Expr> {
        let mut out = vec![];
        for (i, a) in prev.iter().enumerate() {
            let b = &atoms[i % atoms.len()];
            let c = &prev[(i * 5 + 2) % prev.len()];
            out.push(Expr::Abs(Box::new(a.clone())));
            out.push(Expr::Not(Box::new(a.clone())));
            out.push(Expr::UnOp(UnOp::Neg, Box::new(a.clone())));
            out.push(Expr::UnOp(UnOp::Not, Box::new(a.clone())));
            out.push(Expr::Min(vec![a.clone(), b.clone(), c.clone()]));
            out.push(Expr::Max(vec![b.clone(), a.clone(), c.clone()]));
            out.push(Expr::Min(vec![a.clone()]));
            out.push(Expr::And(vec![a.clone(), b.clone()]));
            out.push(Expr::Or(vec![c.clone(), a.clone(), b.clone()]));
            out.push(Expr::And(vec![]));
            out.push(Expr::Xor(Box::new(a.clone()), Box::new(b.clone())));
            out.push(Expr::Implies(Box::new(a.clone()), Box::new(b.clone())));
            out.push(Expr::Implies(Box::new(b.clone()), Box::new(a.clone())));
            out.push(Expr::Iff(Box::new(a.clone()), Box::new(c.clone())));
            for op in [BinOp::Add, BinOp::Sub, BinOp::Mul, BinOp::Div, BinOp::And, BinOp::Or, BinOp::Xor, BinOp::Implies, BinOp::Iff] {
                out.push(Expr::BinOp(op, Box::new(a.clone()), Box::new(b.clone())));
                out.push(Expr::BinOp(op, Box::new(b.clone()), Box::new(a.clone())));
            }
        }
        out
    }
    #[test]
    fn search() {
        let names: Vec<String> = vec!["p".to_string(), "q".to_string(), "r".to_string()];
        let atoms = vec![Expr::Variable(0), Expr::Variable(1), Expr::Variable(2), Expr::Number(0.0), Expr::Number(1.0), Expr::Number(-2.0), Expr::Number(0.5)];
        let l1 = grow(&atoms, &atoms);
        let l2: Vec<Expr> = grow(&l1, &atoms).into_iter().step_by(3).collect();
        let l3: Vec<Expr> = grow(&l2, &atoms).into_iter().step_by(41).collect();
        let points: Vec<[f64; 3]> = vec![[0.0, 1.0, -2.0], [3.0, 0.0, 0.5], [-1.0, -1.0, 4.0], [0.0, 0.0, 0.0], [2.0, -4.0, 1.0]];
        let (mut cases, mut fails) = (0u64, 0u32);
        for e in atoms.iter().chain(l1.iter()).chain(l2.iter()).chain(l3.iter()) {
            let x = to_exp(e, &names);
            for p in &points {
                cases += 1;
                let want = lang(&x, &|n: &str| match n { "p" => p[0], "q" => p[1], _ => p[2] });
                let got = eval_expr(e, &|i: usize| p[i]);
                if let Some(w) = want {
                    if !w.is_finite() { continue; }
                    if !((got - w).abs() <= 1e-9 * (1.0 + w.abs())) {
                        if fails < 6 { println!("WITNESS-FAIL {{\"fn\": \"eval_expr / to_exp\", \"clause\": \"eval_expr(e, var) == value of to_exp(e, names) under the language semantics\", \"builder_tree\": \"{:?}\", \"translated\": \"{}\", \"p\": {}, \"q\": {}, \"r\": {}, \"language_value\": {}, \"eval_expr\": {}}}", e, x, p[0], p[1], p[2], w, got); }
                        fails += 1;
                    }
                }
            }
        }
        println!("WITNESS-DONE cases={}", cases);
    }
