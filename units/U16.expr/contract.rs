//@ C16 — "values read back ... by evaluating an expression at the solution ... agree with the language's semantics":
//@ the builder's tree and the language's tree denote the same value (to_exp), and the builder's evaluator computes it (eval_expr).
@fn to_exp @attr
#[verifier::exec_allows_no_decreases_clause]
@fn to_exp -> r
    requires idx_ok(*expr, names@.len() as int),
    ensures forall|env: Env| #[trigger] sem(r, env) == esem(*expr, ienv_of(env, names@)),
@fn to_exp @loop 1
    invariant
        vx_n1 == inners@.len(), vx_out1@.len() == vx_i1,
        forall|j: int| 0 <= j < inners@.len() ==> idx_ok(#[trigger] inners@[j], names@.len() as int),
        forall|j: int, env: Env| 0 <= j < vx_i1 ==> #[trigger] sem(vx_out1@[j], env) == esem(inners@[j], ienv_of(env, names@)),
@fn to_exp @loop 2
    invariant
        vx_n2 == inners@.len(), vx_out2@.len() == vx_i2,
        forall|j: int| 0 <= j < inners@.len() ==> idx_ok(#[trigger] inners@[j], names@.len() as int),
        forall|j: int, env: Env| 0 <= j < vx_i2 ==> #[trigger] sem(vx_out2@[j], env) == esem(inners@[j], ienv_of(env, names@)),
@fn to_exp @loop 3
    invariant
        vx_n3 == inners@.len(), vx_out3@.len() == vx_i3,
        forall|j: int| 0 <= j < inners@.len() ==> idx_ok(#[trigger] inners@[j], names@.len() as int),
        forall|j: int, env: Env| 0 <= j < vx_i3 ==> #[trigger] sem(vx_out3@[j], env) == esem(inners@[j], ienv_of(env, names@)),
@fn to_exp @loop 4
    invariant
        vx_n4 == inners@.len(), vx_out4@.len() == vx_i4,
        forall|j: int| 0 <= j < inners@.len() ==> idx_ok(#[trigger] inners@[j], names@.len() as int),
        forall|j: int, env: Env| 0 <= j < vx_i4 ==> #[trigger] sem(vx_out4@[j], env) == esem(inners@[j], ienv_of(env, names@)),
@fn to_exp @tail 4
    proof {
        assert forall|env: Env| #[trigger] sem(r__, env) == esem(*expr, ienv_of(env, names@)) by {
            lemma_fold_agree(r__->Min_0@, inners@, env, ienv_of(env, names@), true, inners@.len() as int);
        }
    }
@fn to_exp @tail 5
    proof {
        assert forall|env: Env| #[trigger] sem(r__, env) == esem(*expr, ienv_of(env, names@)) by {
            lemma_fold_agree(r__->Max_0@, inners@, env, ienv_of(env, names@), false, inners@.len() as int);
        }
    }
@fn to_exp @tail 6
    proof {
        assert forall|env: Env| #[trigger] sem(r__, env) == esem(*expr, ienv_of(env, names@)) by {
            lemma_all_agree(r__->And_0@, inners@, env, ienv_of(env, names@), true, inners@.len() as int);
        }
    }
@fn to_exp @tail 7
    proof {
        assert forall|env: Env| #[trigger] sem(r__, env) == esem(*expr, ienv_of(env, names@)) by {
            lemma_all_agree(r__->Or_0@, inners@, env, ienv_of(env, names@), false, inners@.len() as int);
        }
    }
@fn truthy -> r
    ensures fv(x) is Fin ==> r == truthy(rv(x)),
@fn bool_num -> r
    ensures fv(r) == Ext::Fin(b2r(b)),
@fn eval_expr @attr
#[verifier::exec_allows_no_decreases_clause]
@fn eval_expr -> r
    requires forall|i: usize| #[trigger] var.requires((i,)),
    ensures
        forall|ienv: IEnv| (forall|i: usize, v: F64| #[trigger] var.ensures((i,), v) ==> fv(v) == Ext::Fin(ienv(i as int)))
            && #[trigger] esem(*expr, ienv) is Some ==> fv(r) == Ext::Fin(esem(*expr, ienv)->Some_0),
@fn eval_expr @keep-arms
    Expr::Number
    Expr::Variable
    Expr::Abs
    Expr::Not
    Expr::Xor
    Expr::Implies
    Expr::Iff
    Expr::BinOp
    Expr::UnOp
@fn to_exp @entry
    proof { lemma_idx_ok(*expr, names@.len() as int); }
@fn eval_expr @after "let v = eval_expr(e, var);"
    proof {
        assert forall|ienv: IEnv| (forall|i: usize, w: F64| #[trigger] var.ensures((i,), w) ==> fv(w) == Ext::Fin(ienv(i as int))) && #[trigger] esem(*expr, ienv) is Some
            implies fv(v) == Ext::Fin(esem(**e, ienv)->Some_0) && esem(**e, ienv) is Some by {
            lemma_esem_unop(*op, *e, ienv);
        }
    }
