    // Executable postcondition of the ratio test on the REAL Tableau::find_t / Tableau::step: the chosen row is eligible, carries its own ratio,
    // no eligible row has a ratio smaller by more than the tolerance, None only without an eligible row; and a step from a feasible tableau
    // (b >= 0) leaves b >= -tolerance.  Corpus: chains of near-tied ratios (each within the tolerance of the previous one, basic-variable indices
    // in decreasing / increasing order down the rows) and pseudo-random small tableaux.
    fn esc(s: String) -> String { s.replace('\\', "\\\\").replace('"', "\\\"").replace('\n', " ").replace('\t', " ") }
    fn lcg(s: &mut u64) -> u64 { *s = s.wrapping_mul(6364136223846793005).wrapping_add(1442695040888963407); *s >> 33 }
    fn chain(n: usize, e: f64, decreasing: bool, scale: f64) -> Tableau {
        // x0 enters; row i: scale * x0 + s = scale * (1 + i * e); the basic variable of row i is column n - i (decreasing) or i + 1
        let mut a = vec![]; let mut b = vec![]; let mut basis = vec![]; let mut names = vec!["x".to_string()];
        for i in 0..n {
            let col = if decreasing { n - i } else { i + 1 };
            let mut row = vec![0.0; n + 1]; row[0] = scale; row[col] = 1.0;
            a.push(row); b.push(scale * (1.0 + (i as f64) * e)); basis.push(col); names.push(format!("s{}", i + 1));
        }
        let mut c = vec![0.0; n + 1]; c[0] = -1.0;
        Tableau::new(c, a, b, basis, 0.0, 0.0, names, false)
    }
    fn random(seed: &mut u64) -> Tableau {
        let m = 1 + (lcg(seed) % 4) as usize;   // rows
        let k = 1 + (lcg(seed) % 3) as usize;   // non-basic columns
        let vals = [-2.0, -1.0, -0.5, 0.0, 0.0, 0.5, 1.0, 2.0, 4.0];
        let mut a = vec![]; let mut b = vec![]; let mut basis = vec![]; let mut names = vec![];
        let mut order: Vec<usize> = (0..m).collect();
        for i in (1..m).rev() { let j = (lcg(seed) % (i as u64 + 1)) as usize; order.swap(i, j); }
        for i in 0..m {
            let mut row = vec![0.0; k + m];
            for j in 0..k { row[j] = vals[(lcg(seed) % vals.len() as u64) as usize]; }
            row[k + order[i]] = 1.0;
            a.push(row); b.push((lcg(seed) % 7) as f64 / 2.0); basis.push(k + order[i]);
        }
        for j in 0..k + m { names.push(format!("v{}", j)); }
        let mut c = vec![0.0; k + m];
        for j in 0..k { c[j] = vals[(lcg(seed) % vals.len() as u64) as usize]; }
        Tableau::new(c, a, b, basis, 0.0, 0.0, names, false)
    }
    #[test]
    fn search() {
        let mut tabs: Vec<(String, Tableau)> = vec![];
        for n in [2usize, 3, 4, 6, 12] { for e in [0.9e-5, 0.6e-5, 0.3e-5, 0.0] { for dec in [true, false] { for scale in [1.0, 2.0, 0.5] {
            tabs.push((format!("near-tie chain: {} rows, step {} between ratios, basic indices {}, column entries {}", n, e, if dec { "decreasing" } else { "increasing" }, scale), chain(n, e, dec, scale)));
        } } } }
        let mut seed = 0x5eed_u64;
        for r in 0..400 { tabs.push((format!("pseudo-random tableau #{}", r), random(&mut seed))); }
        let mut cases = 0u64; let mut fails = 0;
        for (what, t) in tabs.iter() {
            let ncols = t.c.len();
            for h in 0..ncols {
                if t.in_basis.contains(&h) { continue; }
                let prefer_sets: Vec<Vec<usize>> = vec![vec![], vec![t.in_basis[t.in_basis.len() - 1]]];
                for prefer in prefer_sets.iter() {
                    cases += 1;
                    let r = t.find_t(h, prefer);
                    let eligible: Vec<usize> = (0..t.a.len()).filter(|i| float_gt(t.a[*i][h], 0.0)).collect();
                    let mut bad: Option<String> = None;
                    match r {
                        None => { if !eligible.is_empty() { bad = Some(format!("None although row {} is eligible", eligible[0])); } }
                        Some((row, ratio)) => {
                            if !eligible.contains(&row) { bad = Some(format!("row {} is not eligible", row)); }
                            else if ratio != t.b[row] / t.a[row][h] { bad = Some(format!("ratio {} is not that of row {}", ratio, row)); }
                            else { for i in eligible.iter() { let ri = t.b[*i] / t.a[*i][h]; if crate::math::float_lt(ri, ratio) { bad = Some(format!("row {} has ratio {} but row {} with ratio {} was chosen", i, ri, row, ratio)); break; } } }
                        }
                    }
                    if let Some(msg) = bad {
                        fails += 1;
                        if fails < 20 { println!("WITNESS-FAIL {{\"fn\": \"Tableau::find_t\", \"clause\": \"no eligible row has a ratio smaller than the chosen one by more than the tolerance\", \"tableau\": \"{}\", \"entering\": {}, \"prefer\": \"{:?}\", \"detail\": \"{}\"}}", esc(what.clone()), h, prefer, esc(msg)); }
                    }
                }
            }
            // entering column, both rules: non-basic with a reduced cost below zero beyond the tolerance; None only when there is none
            for use_bland in [false, true] {
                cases += 1;
                let eligible: Vec<usize> = (0..ncols).filter(|j| !t.in_basis.contains(j) && crate::math::float_lt(t.c[*j], 0.0)).collect();
                let bad = match t.find_h(&[], use_bland) {
                    None => if eligible.is_empty() { None } else { Some(format!("None although column {} is eligible", eligible[0])) },
                    Some(h) => if eligible.contains(&h) { None } else { Some(format!("column {} entered: basic or reduced cost {} not below zero", h, t.c[h])) },
                };
                if let Some(msg) = bad {
                    fails += 1;
                    if fails < 20 { println!("WITNESS-FAIL {{\"fn\": \"Tableau::find_h\", \"clause\": \"the entering column is non-basic and its reduced cost is below zero beyond the tolerance\", \"tableau\": \"{}\", \"bland\": {}, \"detail\": \"{}\"}}", esc(what.clone()), use_bland, esc(msg)); }
                }
            }
            // one step from a feasible tableau stays feasible within the tolerance: the new right-hand side of row i is a[i][h] * (ratio_i - ratio_chosen),
            // so the bound -tolerance is asked only of tableaux whose entries are at most 1
            if t.b.iter().all(|v| *v >= 0.0) && t.a.iter().all(|row| row.iter().all(|v| *v <= 1.0)) {
                cases += 1;
                let mut t2 = Tableau::new(t.c.clone(), t.a.clone(), t.b.clone(), t.in_basis.clone(), 0.0, 0.0, t.variables.clone(), false);
                if t2.step(&[]).is_ok() {
                    let low = t2.b.iter().cloned().fold(f64::INFINITY, f64::min);
                    if low < -1e-5 - 1e-12 {
                        fails += 1;
                        if fails < 20 { println!("WITNESS-FAIL {{\"fn\": \"Tableau::step\", \"clause\": \"a step from a feasible tableau keeps every right-hand side >= -tolerance\", \"tableau\": \"{}\", \"lowest_rhs_after\": {}}}", esc(what.clone()), low); }
                    }
                }
            }
        }
        println!("WITNESS-SAMPLE {{\"tableaux\": {}, \"note\": \"near-tie chains of 2..12 rows and 400 pseudo-random tableaux\"}}", tabs.len());
        println!("WITNESS-DONE cases={}", cases);
    }
