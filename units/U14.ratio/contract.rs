//@ C14 — the ratio test keeps the next basis feasible; the optimality test reads every reduced cost.
@fn Tableau::is_optimal -> r
    requires tab_wf(*self),
    ensures r == (forall|j: int| 0 <= j < self.c.len() ==> t_ge(rv(#[trigger] self.c[j]), 0real, EPS())),
@fn Tableau::find_h -> r
    requires tab_wf(*self),
    ensures
        r matches Some(h) ==> h < self.c.len() && !self.in_basis@.contains(h) && t_lt(rv(self.c[h as int]), 0real, EPS()),
        r is None ==> forall|j: int| 0 <= j < self.c.len() ==> self.in_basis@.contains(j as usize) || !t_lt(rv(#[trigger] self.c[j]), 0real, EPS()),
@fn Tableau::find_h @loop 1
    invariant vx_n1 == self.c.len(), tab_wf(*self),
        vx_best1 matches Some(b) ==> b < vx_i1 && !self.in_basis@.contains(b) && t_lt(rv(self.c[b as int]), 0real, EPS()),
        vx_best1 is None ==> forall|j: int| 0 <= j < vx_i1 ==> self.in_basis@.contains(j as usize) || !t_lt(rv(#[trigger] self.c[j]), 0real, EPS()),
@fn Tableau::find_h @after "let vx_keep1"
    proof { assert(fv(self.c[vx_i1 as int]) is Fin); assert(vx_keep1 == (!self.in_basis@.contains(vx_i1) && t_lt(rv(self.c[vx_i1 as int]), 0real, EPS()))); }
@fn Tableau::find_h @loop 2
    invariant vx_n2 == self.c.len(), tab_wf(*self),
        vx_best2 matches Some(b) ==> b < vx_i2 && !self.in_basis@.contains(b) && t_lt(rv(self.c[b as int]), 0real, EPS()),
        vx_best2 is None ==> forall|j: int| 0 <= j < vx_i2 ==> self.in_basis@.contains(j as usize) || !t_lt(rv(#[trigger] self.c[j]), 0real, EPS()),
@fn Tableau::find_h @after "let vx_keep2"
    proof { assert(fv(self.c[vx_i2 as int]) is Fin); assert(vx_keep2 == (!self.in_basis@.contains(vx_i2) && t_lt(rv(self.c[vx_i2 as int]), 0real, EPS()))); }
@fn Tableau::find_t -> r
    requires tab_wf(*self), h < self.c.len(),
    ensures
        r matches Some(tr) ==> ratio_ok(*self, h as int, tr.0 as int, tr.1),
        r is None ==> forall|i: int| 0 <= i < self.a.len() ==> !t_gt(rv((#[trigger] self.a[i])[h as int]), 0real, EPS()),
@fn Tableau::is_optimal @loop 1
    invariant vx_n1 == self.c.len(), vx_i1 <= vx_n1, tab_wf(*self),
        vx_go1 == (forall|j: int| 0 <= j < vx_i1 ==> t_ge(rv(#[trigger] self.c[j]), 0real, EPS())),
    decreases vx_n1 - vx_i1,
@fn Tableau::is_optimal @after "let c = "
    proof { assert(fv(self.c[vx_i1 as int]) is Fin); }
@fn Tableau::find_t @loop 1
    invariant vx_n1 == self.a.len(), tab_wf(*self), h < self.c.len(),
        forall|k: int| 0 <= k < vx_fc1@.len() ==> entry_ok(*self, h as int, #[trigger] vx_fc1@[k]) && vx_fc1@[k].0 < vx_i1,
        forall|i: int| 0 <= i < vx_i1 && t_gt(rv((#[trigger] self.a[i])[h as int]), 0real, EPS()) ==> exists|k: int| 0 <= k < vx_fc1@.len() && (#[trigger] vx_fc1@[k]).0 == i,
@fn Tableau::find_t @after "let vx_keep1"
    let ghost l0 = vx_fc1@;
    proof {
        assert(fin_seq(self.a@[vx_i1 as int]@)); assert(fv(self.a[vx_i1 as int][h as int]) is Fin); assert(fv(self.b[vx_i1 as int]) is Fin);
        assert(vx_keep1 == t_gt(rv(self.a[vx_i1 as int][h as int]), 0real, EPS()));
    }
@fn Tableau::find_t @after "vx_fc1.push"
    proof {
        assert(entry_ok(*self, h as int, vx_fc1@[l0.len() as int]));
        assert forall|i2: int| 0 <= i2 < vx_i1 + 1 && t_gt(rv((#[trigger] self.a[i2])[h as int]), 0real, EPS()) implies exists|k: int| 0 <= k < vx_fc1@.len() && (#[trigger] vx_fc1@[k]).0 == i2 by {
            if i2 < vx_i1 { let k = choose|k: int| 0 <= k < l0.len() && (#[trigger] l0[k]).0 == i2; assert(vx_fc1@[k].0 == i2); }
            else { assert(vx_fc1@[l0.len() as int].0 == i2); }
        }
    }
@fn Tableau::find_t @loop 2
    invariant vx_n2 == valid@.len(), tab_wf(*self), h < self.c.len(),
        forall|k: int| 0 <= k < valid@.len() ==> entry_ok(*self, h as int, #[trigger] valid@[k]),
        forall|i: int| 0 <= i < self.a.len() && t_gt(rv((#[trigger] self.a[i])[h as int]), 0real, EPS()) ==> exists|k: int| 0 <= k < valid@.len() && (#[trigger] valid@[k]).0 == i,
        vx_i2 == 0 ==> fv(vx_acc2) == Ext::PosInf,
        vx_i2 > 0 ==> fv(vx_acc2) is Fin && exists|k: int| 0 <= k < vx_i2 && fv((#[trigger] valid@[k]).1) == fv(vx_acc2),
        forall|k: int| 0 <= k < vx_i2 ==> rv(vx_acc2) <= rv((#[trigger] valid@[k]).1),
@fn Tableau::find_t @after "let (_, ratio) = "
    let ghost acc0 = vx_acc2;
    proof { assert(entry_ok(*self, h as int, valid@[vx_i2 as int])); assert(*ratio == valid@[vx_i2 as int].1); }
@fn Tableau::find_t @after "vx_acc2 = vx_acc2.min"
    proof {
        if vx_i2 > 0 {
            let k0 = choose|k: int| 0 <= k < vx_i2 && fv((#[trigger] valid@[k]).1) == fv(acc0);
            if fv(vx_acc2) == fv(acc0) { assert(fv(valid@[k0].1) == fv(vx_acc2)); } else { assert(fv(valid@[vx_i2 as int].1) == fv(vx_acc2)); }
        } else { assert(fv(valid@[vx_i2 as int].1) == fv(vx_acc2)); }
    }
@fn Tableau::find_t @after "let basis"
    let ghost vs = valid@;
@fn Tableau::find_t @loop 3
    invariant vx_n4 == vs.len(), vx_v3@ == vs, vx_i4 <= vx_n4, tab_wf(*self), h < self.c.len(), *basis == self.in_basis,
        forall|k: int| 0 <= k < vs.len() ==> entry_ok(*self, h as int, #[trigger] vs[k]),
        forall|i: int| 0 <= i < self.a.len() && t_gt(rv((#[trigger] self.a[i])[h as int]), 0real, EPS()) ==> exists|k: int| 0 <= k < vs.len() && (#[trigger] vs[k]).0 == i,
        vs.len() > 0 ==> fv(lowest) is Fin && exists|k: int| 0 <= k < vs.len() && fv((#[trigger] vs[k]).1) == fv(lowest),
        forall|k: int| 0 <= k < vs.len() ==> rv(lowest) <= rv((#[trigger] vs[k]).1),
        min matches Some(m) ==> entry_ok(*self, h as int, m) && t_eq(rv(m.1), rv(lowest), EPS()),
        (exists|k: int| 0 <= k < vx_i4 && fv((#[trigger] vs[k]).1) == fv(lowest)) ==> min is Some,
    decreases vx_n4 - vx_i4,
@fn Tableau::find_t @after "let (i, ratio) = vx_vec_take"
    proof { assert(entry_ok(*self, h as int, vs[vx_i3 as int])); assert((i, ratio) == vs[vx_i3 as int]); }
    let ghost min0 = min;
@fn Tableau::find_t @tail 1
    proof {
        if vs.len() > 0 {
            let k = choose|k: int| 0 <= k < vs.len() && fv((#[trigger] vs[k]).1) == fv(lowest);
            assert(min is Some);
        }
        if min is Some {
            let m = min->Some_0;
            assert forall|i: int| 0 <= i < self.a.len() && t_gt(rv((#[trigger] self.a[i])[h as int]), 0real, EPS()) implies !t_lt(rv(self.b[i]) / rv(self.a[i][h as int]), rv(m.1), EPS()) by {
                let k = choose|k: int| 0 <= k < vs.len() && (#[trigger] vs[k]).0 == i;
                assert(entry_ok(*self, h as int, vs[k]));
                assert(rv(lowest) <= rv(vs[k].1));
            }
        } else {
            assert forall|i: int| 0 <= i < self.a.len() implies !t_gt(rv((#[trigger] self.a[i])[h as int]), 0real, EPS()) by {
                if t_gt(rv(self.a[i][h as int]), 0real, EPS()) { let k = choose|k: int| 0 <= k < vs.len() && (#[trigger] vs[k]).0 == i; }
            }
        }
    }
@raw
// an entry of the candidate list: an eligible row together with its own ratio
pub open spec fn entry_ok(s: Tableau, h: int, e: (usize, F64)) -> bool {
    &&& e.0 < s.a.len()
    &&& t_gt(rv(s.a[e.0 as int][h]), 0real, EPS())
    &&& fv(e.1) is Fin && rv(e.1) == rv(s.b[e.0 as int]) / rv(s.a[e.0 as int][h])
}
