//@ C16 — "values read back ... by variable name ... are the values of the corresponding variables" (first duplicate wins).
@fn build_assignment_map -> r
    ensures idx_agrees(r, assignment@, assignment@.len() as int),
@fn LpSolution::new -> r
    ensures sol_wf(r), r.assignment == assignment, r.value == value, r.constraints == constraints, r.status == SolutionStatus::Optimal,
@fn LpSolution::value_of -> r
    requires sol_wf(*self),
    ensures r == first_val(self.assignment@, name@, self.assignment@.len() as int),
@fn LpSolution::value -> r
    ensures r == self.value,
@fn LpSolution::status -> r
    ensures r == self.status,
@fn LpSolution::assignment -> r
    ensures *r == self.assignment,
@fn LpSolution::with_status -> r
    ensures r.assignment == self.assignment, r.assignment_by_name == self.assignment_by_name, r.value == self.value, r.constraints == self.constraints, r.status == status,
@fn build_assignment_map @loop 1
    invariant
        vx_v1@ == assignment@, vx_n1 == assignment@.len(),
        idx_agrees(assignment_by_name, assignment@, vx_i1 as int),
@fn build_assignment_map @loop 1 @start
    let ghost m0 = assignment_by_name;
@fn build_assignment_map @loop 1 @end
    proof {
        let nm = assignment@[vx_i1 as int].name@;
        assert forall|name: Seq<char>| #[trigger] assignment_by_name.has(name) <==> first_val(assignment@, name, vx_i1 + 1) is Some by {
            assert(m0.has(name) <==> first_val(assignment@, name, vx_i1 as int) is Some);
        }
        assert forall|name: Seq<char>| #[trigger] assignment_by_name.has(name) implies Some(assignment_by_name.map()[name]) == first_val(assignment@, name, vx_i1 + 1) by {
            assert(m0.has(name) <==> first_val(assignment@, name, vx_i1 as int) is Some);
            if m0.has(name) { assert(Some(m0.map()[name]) == first_val(assignment@, name, vx_i1 as int)); }
        }
    }
