//@ C01 — soundness of the logic lowering: "nothing infeasible is let in".
@fn binary_affine_value @attr
#[verifier::exec_allows_no_decreases_clause]
@fn binary_affine_value -> r
    requires lz_inv(*linearizer_context),
    ensures r matches Some(f) ==> lc_fin(f) && bin_val(*linearizer_context, *exp, f),
@fn binary_affine_value @entry
    proof { reveal(lz_inv); reveal(lz_ok); }
@fn binary_affine_value @tail 1
    proof {
        let f = r__->Some_0;
        assert forall|env: Env| #[trigger] lz_ok(*linearizer_context, env) implies (sem(*exp, env) == Some(lc_eval(f, env)) && (lc_eval(f, env) == 0real || lc_eval(f, env) == 1real)) by {}
    }
@fn binary_affine_value @tail 2
    proof {
        let f = r__->Some_0;
        assert forall|env: Env| #[trigger] lz_ok(*linearizer_context, env) implies (sem(*exp, env) == Some(lc_eval(f, env)) && (lc_eval(f, env) == 0real || lc_eval(f, env) == 1real)) by {
            reveal(rmul_s);
            assert(linearizer_context.domain.has(name@));
            assert(in_domain(linearizer_context.domain.map()[name@].as_type, env[name@]));
        }
    }
@fn binary_affine_value @after "let mut inner" #1
    let ghost f0 = inner;
    let ghost a0 = exp->Not_0;
@fn binary_affine_value @tail 3
    proof {
        let f = r__->Some_0;
        assert forall|env: Env| #[trigger] lz_ok(*linearizer_context, env) implies (sem(*exp, env) == Some(lc_eval(f, env)) && (lc_eval(f, env) == 0real || lc_eval(f, env) == 1real)) by {
            reveal(rmul_s); lemma_sem_not(a0, env);
            assert(sem(*a0, env) == Some(lc_eval(f0, env)));
        }
    }
@fn binary_affine_value @after "let mut inner" #2
    let ghost f1 = inner;
    let ghost a1 = exp->UnOp_1;
@fn binary_affine_value @tail 4
    proof {
        let f = r__->Some_0;
        assert forall|env: Env| #[trigger] lz_ok(*linearizer_context, env) implies (sem(*exp, env) == Some(lc_eval(f, env)) && (lc_eval(f, env) == 0real || lc_eval(f, env) == 1real)) by {
            reveal(rmul_s); lemma_sem_unop(UnOp::Not, a1, env);
            assert(sem(*a1, env) == Some(lc_eval(f1, env)));
        }
    }
@fn is_binary_context -> r
    requires domain.wf(), context.current_vars.wf(),
    ensures r ==> forall|env: Env| #[trigger] dom_ok(*domain, env) ==> (lc_eval(*context, env) == 0real || lc_eval(*context, env) == 1real),
@fn linearize_binary_operands -> res
    requires lz_inv(*old(linearizer_context)), forall|k: int| 0 <= k < exps@.len() ==> exp_fin(#[trigger] exps@[k]),
    ensures
        lz_inv(*final(linearizer_context)),
        lz_ext(*old(linearizer_context), *final(linearizer_context)),
        res matches Ok(v) ==> v@.len() == exps@.len() && forall|k: int| 0 <= k < exps@.len() ==> exp_fin(#[trigger] v@[k]),
        res matches Ok(v) ==> forall|k: int, env: Env| 0 <= k < exps@.len() && #[trigger] lz_ok(*final(linearizer_context), env) ==>
            (sem(#[trigger] v@[k], env) matches Some(x) && (x == 0real || x == 1real) && (sem(exps@[k], env) matches Some(t) ==> relaxes(requirement, x, t))),
@fn is_binary_context @tail 1
    proof {
        assert forall|env: Env| r__ && #[trigger] dom_ok(*domain, env) implies (lc_eval(*context, env) == 0real || lc_eval(*context, env) == 1real) by {
            reveal_with_fuel(msum, 2);
        }
    }
@fn is_binary_context @tail 2
    proof {
        assert forall|env: Env| r__ && #[trigger] dom_ok(*domain, env) implies (lc_eval(*context, env) == 0real || lc_eval(*context, env) == 1real) by {
            reveal_with_fuel(msum, 3); reveal(rmul_s);
            assert(domain.has(name@));
            assert(in_domain(domain.map()[name@].as_type, env[name@]));
            assert(context.current_vars.keys()[0] == name@);
        }
    }
@fn linearize_binary_operands @entry
    let ghost c0 = *linearizer_context;
@fn linearize_binary_operands @loop 1
    invariant
        vx_rc_n == exps@.len(), vx_rc_out@.len() == vx_rc_i, c0 == *old(linearizer_context),
        lz_inv(*linearizer_context), lz_ext(c0, *linearizer_context),
        forall|k: int| 0 <= k < exps@.len() ==> exp_fin(#[trigger] exps@[k]),
        forall|k: int| 0 <= k < vx_rc_i ==> exp_fin(#[trigger] vx_rc_out@[k]),
        forall|k: int, env: Env| 0 <= k < vx_rc_i && #[trigger] lz_ok(*linearizer_context, env) ==>
            (sem(#[trigger] vx_rc_out@[k], env) matches Some(x) && (x == 0real || x == 1real) && (sem(exps@[k], env) matches Some(t) ==> relaxes(requirement, x, t))),
@fn linearize_binary_operands @loop 1 @start
    let ghost c1 = *linearizer_context;
    let ghost out1 = vx_rc_out;
@fn linearize_binary_operands @after "let context"
    proof { lemma_lz_ext_trans(c0, c1, *linearizer_context); reveal(lz_inv); }
@fn linearize_binary_operands @before "Ok(context_to_exp"
    proof {
        assert forall|env: Env| #[trigger] lz_ok(*linearizer_context, env) implies
            ((lc_eval(context, env) == 0real || lc_eval(context, env) == 1real) && (sem(*exp, env) matches Some(t) ==> relaxes(requirement, lc_eval(context, env), t))) by {
            assert(dom_ok(linearizer_context.domain, env)) by { reveal(lz_ok); }
        }
    }
@fn linearize_binary_operands @loop 1 @end
    proof {
        let cf = *linearizer_context;
        assert forall|k: int, env: Env| 0 <= k < vx_rc_i + 1 && #[trigger] lz_ok(cf, env) implies
            (sem(#[trigger] vx_rc_out@[k], env) matches Some(x) && (x == 0real || x == 1real) && (sem(exps@[k], env) matches Some(t) ==> relaxes(requirement, x, t))) by {
            if k < vx_rc_i {
                assert(vx_rc_out@[k] == out1@[k]);
                lemma_lz_ext_mono(c1, cf, env);
            }
        }
    }
