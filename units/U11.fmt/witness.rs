    // Executable form of C11 on the REAL formatter, bounded corpus.
    fn compile_text(src: &str) -> Result<String, String> {
        let model = RoocParser::new(src.to_string()).parse_and_transform(vec![], &IndexMap::new())?;
        let lm = Linearizer::linearize(model).map_err(|e| e.to_string())?;
        Ok(lm.to_string())
    }
    fn corpus() -> Vec<String> {
        let mut out = vec![];
        let ops = ["+", "-", "*", "/"];
        let decl = "define\n    a, b, c as Real(-5, 5)";
        // (parent, child, side): a op1 (b op2 c)  and  (a op1 b) op2 c ; products use constants so that the model stays linear
        for o1 in ops { for o2 in ops {
            for (l, m, r) in [("a", "b", "c"), ("a", "2", "4"), ("3", "b", "2"), ("a", "b", "2")] {
                out.push(format!("min a\ns.t.\n    {} {} ({} {} {}) <= 3\n{}", l, o1, m, o2, r, decl));
                out.push(format!("min a\ns.t.\n    ({} {} {}) {} {} <= 3\n{}", l, o1, m, o2, r, decl));
                out.push(format!("max {} {} ({} {} {})\ns.t.\n    a + b + c <= 4\n{}", l, o1, m, o2, r, decl));
            }
        } }
        for e in ["-(a + b)", "-(a - b)", "-a - b", "-(2 * a)", "-2 * a", "a * -2", "a - -2", "a + -b", "-(-a)", "2a", "a / 2a", "-2a", "a - (b - (c - a))", "a / (2 * (4 / 2))", "(a + b) * 2", "2 * (a - b)", "(a - b) / 2", "-(a / 2)",
                  "abs{ a - b }", "abs{ -a }", "min{ a, b - c }", "max{ a, -(b + c), 2 }", "2 * abs{ a } - max{ b, c }", "-(abs{ a } + 1)", "a - (abs{ b } - c)", "1e-9 * a", "1000000000 * a", "0.000001 * a - 123456789.5 * b", "a * 0.1 + b * 0.2"] {
            out.push(format!("min a\ns.t.\n    {} <= 3\n    a + b + c >= -4\n{}", e, decl));
            out.push(format!("min {}\ns.t.\n    a + b + c >= -4\n{}", e, decl));
        }
        let bdecl = "define\n    p, q, r as Boolean";
        for e in ["p and q", "p or q and r", "(p or q) and r", "not p", "not (p and q)", "p implies q", "(p implies q) implies r", "p implies (q implies r)", "p iff q", "p xor q", "(p xor q) xor r", "not (p implies q)", "p and (q or r)", "(p iff q) or r", "not p or q"] {
            out.push(format!("solve\ns.t.\n    {}\n{}", e, bdecl));
            out.push(format!("solve\ns.t.\n    named: {}\n    p + q + r >= 1\n{}", e, bdecl));
        }
        // every (parent, child, side) pair of logic connectives
        let lops = ["and", "or", "xor", "implies", "iff"];
        for o1 in lops { for o2 in lops {
            out.push(format!("solve\ns.t.\n    (p {} q) {} r\n{}", o2, o1, bdecl));
            out.push(format!("solve\ns.t.\n    p {} (q {} r)\n{}", o1, o2, bdecl));
            out.push(format!("max p + q + r\ns.t.\n    not (p {} q) {} r\n    p {} not (q {} r)\n{}", o2, o1, o1, o2, bdecl));
        } }
        for e in ["(p and q) + r >= 1", "p + (q or r) <= 1", "(p implies q) + (q iff r) >= 1", "(p xor q) - r = 0", "2 * (p and q) <= r + 1", "1.000001 * p + q <= 1"] {
            out.push(format!("max p + q + r\ns.t.\n    {}\n{}", e, bdecl));
        }
        out.push("min sum(i in 0..n) { x_i * (i + 1) }\ns.t.\n    row_i: x_i - (k - i) >= 0 for i in 0..n\nwhere\n    let n = 3\n    let k = 2\ndefine\n    x_i as NonNegativeReal for i in 0..n".to_string());
        out.push("max sum((v, i) in enumerate(vals)) { v * x_i }\ns.t.\n    sum((w, i) in enumerate(ws)) { w * x_i } <= cap\nwhere\n    let ws = [10, 60, 30]\n    let vals = [1, 10, 15]\n    let cap = 62\ndefine\n    x_i as Boolean for i in 0..len(ws)".to_string());
        out.push("min a - (b - c)\ns.t.\n    c1: a - (b + c) >= -3\n    c1: a / (2 * 4) <= 1\ndefine\n    a as Real(-5, 5)\n    b as IntegerRange(-2, 3)\n    c as NonNegativeReal(0, 4)".to_string());
        out
    }
    #[test]
    fn search() {
        let (mut cases, mut fails) = (0u64, 0u32);
        let mut distinct: std::collections::HashSet<String> = std::collections::HashSet::new();
        let esc = |s: &str| s.replace('\\', "\\\\").replace('"', "'").replace('\n', "\\n").replace('\t', " ");
        for src in corpus() {
            cases += 1;
            let parser = RoocParser::new(src.clone());
            let formatted = match parser.format() { Ok(f) => f, Err(_) => continue };   // texts that do not parse are outside the property
            let report = |fails: &mut u32, clause: &str, detail: String| {
                if *fails < 60 { println!("WITNESS-FAIL {{\"fn\": \"RoocParser::format\", \"clause\": \"{}\", \"source\": \"{}\", \"formatted\": \"{}\", \"detail\": \"{}\"}}", clause, esc(&src), esc(&formatted), esc(&detail)); }
                *fails += 1;
            };
            // non-trivial: the text parses AND compiles to a linear model; distinct: by formatted text
            if compile_text(&src).is_ok() && distinct.insert(formatted.clone()) && distinct.len() % 40 == 1 {
                println!("WITNESS-SAMPLE {{\"source\": \"{}\", \"formatted\": \"{}\"}}", esc(&src), esc(&formatted));
            }
            let again = match RoocParser::new(formatted.clone()).format() {
                Ok(f) => f,
                Err(_) => { report(&mut fails, "the formatted text parses", String::new()); continue }
            };
            if again != formatted { report(&mut fails, "formatting is idempotent", again.clone()); }
            match (compile_text(&src), compile_text(&formatted)) {
                (Ok(a), Ok(b)) => if a != b { report(&mut fails, "the formatted text compiles to the same linear model", format!("original: {} || formatted: {}", a, b)); },
                (Ok(_), Err(e)) => report(&mut fails, "formatting never turns a valid program into an invalid one", e),
                (Err(_), Ok(b)) => report(&mut fails, "the formatted text compiles to the same linear model", format!("original rejected, formatted compiles to {}", b)),
                (Err(_), Err(_)) => {}
            }
        }
        println!("WITNESS-DONE cases={} distinct={}", cases, distinct.len());
    }
