    // Loop-free harnesses over the FULL domain of the scalar operands: a complete proof, not a bounded one.
    use crate::primitives::primitive_traits::{ApplyOp, OperatorError};
    use crate::primitives::primitive::{Primitive, PrimitiveKind};
    fn any_binop() -> BinOp {
        let k: u8 = kani::any();
        kani::assume(k < 9);
        match k { 0 => BinOp::Add, 1 => BinOp::Sub, 2 => BinOp::Mul, 3 => BinOp::Div, 4 => BinOp::And, 5 => BinOp::Or, 6 => BinOp::Xor, 7 => BinOp::Implies, _ => BinOp::Iff }
    }
    fn any_scalar() -> Primitive {
        let k: u8 = kani::any();
        kani::assume(k < 4);
        match k { 0 => Primitive::Integer(kani::any()), 1 => Primitive::PositiveInteger(kani::any()), 2 => Primitive::Number(kani::any()), _ => Primitive::Boolean(kani::any()) }
    }
    // NOTE every Primitive / Result is mem::forget-ed at the end of a harness: the drop glue of the recursive
    // Primitive enum (Tuple(Vec<Primitive>), Graph, ...) otherwise makes CBMC unwind without bound.
    // static kind of a generated scalar, computed by the real PrimitiveKind::from_primitive
    fn kind_of(p: &Primitive) -> PrimitiveKind { p.get_type() }
    // value of a scalar as a wide integer (None for floats)
    fn wide(p: &Primitive) -> Option<i128> {
        match p { Primitive::Integer(n) => Some(*n as i128), Primitive::PositiveInteger(n) => Some(*n as i128), Primitive::Boolean(b) => Some(*b as i128), _ => None }
    }
    // C19: if the static check accepts (op, rhs kind), the dynamic result is Ok or a DATA error
    fn only_data_errors(accepted: bool, r: &Result<Primitive, OperatorError>) {
        if accepted {
            match r {
                Ok(_) => {}
                Err(OperatorError::DivisionByZero) | Err(OperatorError::Overflow { .. }) => {}
                Err(_) => panic!("type-class error after the static operator check accepted the operands"),
            }
        }
    }
    // C18: an integer result is the mathematical result (no silent wrap-around)
    fn exact_integer(lhs: i128, op: BinOp, rhs: &Primitive, r: &Result<Primitive, OperatorError>, with_mul: bool) {
        if let Some(b) = wide(rhs) {
            // |lhs|, |b| < 2^64, so + and - cannot overflow i128; the product can reach 2^128: checked
            let expected = match op {
                BinOp::Add => Some(lhs + b),
                BinOp::Sub => Some(lhs - b),
                BinOp::Mul if with_mul => match lhs.checked_mul(b) {
                    Some(p) => Some(p),
                    None => { assert!(r.is_err(), "product exceeds 128 bits but a value was returned"); None }
                },
                _ => None,
            };
            if let Some(e) = expected {
                match r {
                    Ok(Primitive::Integer(v)) => assert!((*v as i128) == e, "integer result differs from the mathematical result"),
                    Ok(Primitive::PositiveInteger(v)) => assert!((*v as i128) == e, "integer result differs from the mathematical result"),
                    _ => {}
                }
            }
        }
    }
    // one harness per (left type, right variant): the right operand's variant is concrete so that CBMC never
    // enters the (unreachable for scalars) arms that recurse through Tuple / Iterable kinds; its payload and the
    // operator are fully symbolic.
    macro_rules! bin_harness {
        ($name:ident, $lt:ty, $variant:ident, $kind:ident, $exact:expr, $mul:expr) => {
            #[kani::proof]
            fn $name() {
                let x: $lt = kani::any();
                let op = if $mul { BinOp::Mul } else { any_binop() };
                let rhs = Primitive::$variant(kani::any());
                kani::cover!(true);
                // the static kind used by the type checker for this operand, from the real from_primitive
                let k = rhs.get_type();
                assert!(matches!(k, PrimitiveKind::$kind));
                core::mem::forget(k);
                let r = x.apply_binary_op(op, &rhs);
                only_data_errors(<$lt>::can_apply_binary_op(op, PrimitiveKind::$kind), &r);
                if $exact { exact_integer(x as i128, op, &rhs, &r, $mul); }
                core::mem::forget(r);
                core::mem::forget(rhs);
            }
        };
    }
    bin_harness!(i64_op_integer, i64, Integer, Integer, true, false);
    bin_harness!(i64_op_positive, i64, PositiveInteger, PositiveInteger, true, false);
    bin_harness!(i64_op_boolean, i64, Boolean, Boolean, true, false);
    bin_harness!(i64_op_number, i64, Number, Number, false, false);
    bin_harness!(u64_op_integer, u64, Integer, Integer, true, false);
    bin_harness!(u64_op_positive, u64, PositiveInteger, PositiveInteger, true, false);
    bin_harness!(u64_op_boolean, u64, Boolean, Boolean, true, false);
    bin_harness!(u64_op_number, u64, Number, Number, false, false);
    bin_harness!(bool_op_integer, bool, Integer, Integer, false, false);
    bin_harness!(bool_op_positive, bool, PositiveInteger, PositiveInteger, false, false);
    bin_harness!(bool_op_boolean, bool, Boolean, Boolean, false, false);
    bin_harness!(bool_op_number, bool, Number, Number, false, false);
    bin_harness!(f64_op_integer, f64, Integer, Integer, false, false);
    bin_harness!(f64_op_positive, f64, PositiveInteger, PositiveInteger, false, false);
    bin_harness!(f64_op_boolean, f64, Boolean, Boolean, false, false);
    bin_harness!(f64_op_number, f64, Number, Number, false, false);
    // multiplication exactness (64x64 -> 128 bit products are expensive for the SAT back end: thorough tier)
    bin_harness!(i64_mul_integer, i64, Integer, Integer, true, true);
    bin_harness!(i64_mul_positive, i64, PositiveInteger, PositiveInteger, true, true);
    bin_harness!(u64_mul_integer, u64, Integer, Integer, true, true);
    bin_harness!(u64_mul_positive, u64, PositiveInteger, PositiveInteger, true, true);
    #[kani::proof]
    fn unary_total_and_exact() {
        let neg: bool = kani::any();
        let op = if neg { UnOp::Neg } else { UnOp::Not };
        let i: i64 = kani::any();
        let u: u64 = kani::any();
        let f: f64 = kani::any();
        let b: bool = kani::any();
        kani::cover!(true);
        let ri = i.apply_unary_op(op);
        if i64::can_apply_unary_op(op) { assert!(matches!(ri, Ok(_) | Err(OperatorError::Overflow { .. }))); }
        if let Ok(Primitive::Integer(v)) = &ri { assert!((*v as i128) == -(i as i128), "negation differs from the mathematical result"); }
        let ru = u.apply_unary_op(op);
        if u64::can_apply_unary_op(op) { assert!(matches!(ru, Ok(_) | Err(OperatorError::Overflow { .. }))); }
        if let Ok(Primitive::Integer(v)) = &ru { assert!((*v as i128) == -(u as i128), "negation differs from the mathematical result"); }
        let rf = f.apply_unary_op(op);
        if f64::can_apply_unary_op(op) { assert!(rf.is_ok()); }
        let rb = b.apply_unary_op(op);
        if bool::can_apply_unary_op(op) { assert!(rb.is_ok()); }
        core::mem::forget(ri); core::mem::forget(ru); core::mem::forget(rf); core::mem::forget(rb);
    }

