//@ C01 / C02 — negation as an affine form, reified n-ary connectives.
@fn Exp::linearize @attr
#[verifier::exec_allows_no_decreases_clause]
@fn Exp::linearize @keep-arms
    Exp::Not
    Exp::And
    Exp::Or
@fn Exp::linearize @entry
    let ghost c0 = *linearizer_context;
    proof { lemma_exp_fin(*self); lemma_exp_fin_list(*self); }
@fn Exp::linearize @after "let mut context"
    let ghost f0 = context;
    let ghost c1 = *linearizer_context;
    proof { reveal(lz_inv); }
@fn Exp::linearize @tail 7
    proof {
        assert forall|env: Env| #[trigger] lz_ok(c1, env) implies (sem(*self, env) matches Some(t) ==> relaxes(requirement, lc_eval(r__->Ok_0, env), t)) by {
            reveal(rmul_s); lemma_sem_not(self->Not_0, env);
            assert(dom_ok(c1.domain, env)) by { reveal(lz_ok); }
        }
    }
@fn Exp::linearize @return 2
    proof {
        assert forall|env: Env| #[trigger] lz_ok(*linearizer_context, env) implies (sem(*self, env) matches Some(t) ==> relaxes(requirement, lc_eval(r__->Ok_0, env), t)) by {
            assert(sem(*self, env) == sem_all(exps@, env, true, 0));
        }
    }
@fn Exp::linearize @after "let operands" #1
    let ghost c1 = *linearizer_context;
    let ghost ops = operands;
@fn Exp::linearize @after "let var_name" #1
    let ghost c2 = *linearizer_context;
    let ghost zn = var_name@;
    proof { lemma_lz_same(c1, c2); }
@fn Exp::linearize @loop 1
    invariant
        vx_n1 == ops@.len(), vx_out1@.len() == vx_i1, operands == ops,
        forall|k: int| 0 <= k < vx_i1 ==> (#[trigger] vx_out1@[k]).0 == Comparison::LessOrEqual && vx_out1@[k].1 == ops@[k],
@fn Exp::linearize @after "constraints.push" #1
    let ghost cs = constraints;
    proof {
        broadcast use lemma_sem_binop; broadcast use fl;
        let n = ops@.len() as int;
        assert(cs@.len() == n + 1);
        assert forall|k: int| 0 <= k < n implies (#[trigger] cs@[k]).0 == Comparison::LessOrEqual && cs@[k].1 == ops@[k] by {}
        lemma_exp_fin(cs@[n].1); lemma_exp_fin(*cs@[n].1->BinOp_2);
        assert forall|env: Env| (forall|k: int| 0 <= k < n ==> sem(#[trigger] ops@[k], env) is Some) implies #[trigger] sem(cs@[n].1, env) == Some(ssum(ops@, env, n) - (n as real - 1real)) by {}
    }
@fn Exp::linearize @tail 8
    proof {
        let cf = *linearizer_context;
        let n = ops@.len() as int;
        if r__ is Ok {
            lemma_lz_ext_trans(c1, c2, cf);
            assert forall|k: int, env: Env| 0 <= k < n && #[trigger] lz_ok(cf, env) implies (sem(#[trigger] ops@[k], env) matches Some(x) && (x == 0real || x == 1real) && (sem(exps@[k], env) matches Some(te) ==> x == te)) by { lemma_lz_ext_mono(c1, cf, env); }
            assert forall|k: int, env: Env| 0 <= k < n && #[trigger] lz_ok(cf, env) implies (env[zn] <= sem(#[trigger] ops@[k], env)->Some_0) by {
                lemma_lz_ext_mono(c1, cf, env);
                assert(cs@[k].1 == ops@[k] && cs@[k].0 == Comparison::LessOrEqual);
                assert(sem(cs@[k].1, env) is Some);
            }
            assert forall|env: Env| #[trigger] lz_ok(cf, env) implies (env[zn] >= ssum(ops@, env, n) - (n as real - 1real)) by {
                lemma_lz_ext_mono(c1, cf, env);
                assert forall|k: int| 0 <= k < n implies sem(#[trigger] ops@[k], env) is Some by {}
                assert(sem(cs@[n].1, env) == Some(ssum(ops@, env, n) - (n as real - 1real)));
                assert(sem(cs@[n].1, env) is Some);
            }
            lemma_reify_list(cf, *exps, ops@, true, r__->Ok_0, zn, requirement);
        }
    }
@fn Exp::linearize @return 3
    proof {
        assert forall|env: Env| #[trigger] lz_ok(*linearizer_context, env) implies (sem(*self, env) matches Some(t) ==> relaxes(requirement, lc_eval(r__->Ok_0, env), t)) by {
            assert(sem(*self, env) == sem_all(exps@, env, false, 0));
        }
    }
@fn Exp::linearize @after "let operands" #2
    let ghost c1 = *linearizer_context;
    let ghost ops = operands;
@fn Exp::linearize @after "let var_name" #2
    let ghost c2 = *linearizer_context;
    let ghost zn = var_name@;
    proof { lemma_lz_same(c1, c2); }
@fn Exp::linearize @loop 2
    invariant
        vx_n2 == ops@.len(), vx_out2@.len() == vx_i2, operands == ops,
        forall|k: int| 0 <= k < vx_i2 ==> (#[trigger] vx_out2@[k]).0 == Comparison::GreaterOrEqual && vx_out2@[k].1 == ops@[k],
@fn Exp::linearize @after "constraints.push" #2
    let ghost cs = constraints;
    proof {
        broadcast use lemma_sem_binop; broadcast use fl;
        let n = ops@.len() as int;
        assert(cs@.len() == n + 1);
        assert forall|k: int| 0 <= k < n implies (#[trigger] cs@[k]).0 == Comparison::GreaterOrEqual && cs@[k].1 == ops@[k] by {}
        lemma_exp_fin(cs@[n].1); 
        assert forall|env: Env| (forall|k: int| 0 <= k < n ==> sem(#[trigger] ops@[k], env) is Some) implies #[trigger] sem(cs@[n].1, env) == Some(ssum(ops@, env, n)) by {}
    }
@fn Exp::linearize @tail 9
    proof {
        let cf = *linearizer_context;
        let n = ops@.len() as int;
        if r__ is Ok {
            lemma_lz_ext_trans(c1, c2, cf);
            assert forall|k: int, env: Env| 0 <= k < n && #[trigger] lz_ok(cf, env) implies (sem(#[trigger] ops@[k], env) matches Some(x) && (x == 0real || x == 1real) && (sem(exps@[k], env) matches Some(te) ==> x == te)) by { lemma_lz_ext_mono(c1, cf, env); }
            assert forall|k: int, env: Env| 0 <= k < n && #[trigger] lz_ok(cf, env) implies (env[zn] >= sem(#[trigger] ops@[k], env)->Some_0) by {
                lemma_lz_ext_mono(c1, cf, env);
                assert(cs@[k].1 == ops@[k] && cs@[k].0 == Comparison::GreaterOrEqual);
                assert(sem(cs@[k].1, env) is Some);
            }
            assert forall|env: Env| #[trigger] lz_ok(cf, env) implies (env[zn] <= ssum(ops@, env, n)) by {
                lemma_lz_ext_mono(c1, cf, env);
                assert forall|k: int| 0 <= k < n implies sem(#[trigger] ops@[k], env) is Some by {}
                assert(sem(cs@[n].1, env) == Some(ssum(ops@, env, n)));
                assert(sem(cs@[n].1, env) is Some);
            }
            lemma_reify_list(cf, *exps, ops@, false, r__->Ok_0, zn, requirement);
        }
    }
