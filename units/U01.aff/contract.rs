//@ C01/C02 — general contract of Exp::linearize (the induction hypothesis every arm is checked against):
//@ (frame)  the context only grows (fresh variables, more queued constraints);
//@ (sound)  at every assignment that satisfies what the grown context demands, the linear form relaxes the
//@          source value in the direction the requirement allows: equal for Exact, >= for PreferLower, <= for PreferHigher;
//@ (finite) the linear form has finite coefficients, given finite source constants (feeds C08).
@fn Exp::linearize @attr
#[verifier::exec_allows_no_decreases_clause]
@fn Exp::linearize -> res
    requires exp_fin(*self), lz_inv(*old(linearizer_context)),
    ensures
        lz_inv(*final(linearizer_context)),
        lz_ext(*old(linearizer_context), *final(linearizer_context)),
        res matches Ok(lc) ==> lc_fin(lc),
        res matches Ok(lc) ==> forall|env: Env| #[trigger] lz_ok(*final(linearizer_context), env) ==>
            (sem(*self, env) matches Some(t) ==> relaxes(requirement, lc_eval(lc, env), t)),
@fn Exp::linearize @keep-arms
    Exp::BinOp / BinOp::Add
    Exp::BinOp / BinOp::Sub
    Exp::BinOp / BinOp::Mul
    Exp::BinOp / BinOp::Div
    Exp::BinOp / BinOp::And
    Exp::UnOp / UnOp::Neg
    Exp::UnOp / UnOp::Not
    Exp::Number
    Exp::Variable
    Exp::Min
    Exp::Max
@fn Exp::linearize @return 1
    proof { assert forall|env: Env| #[trigger] sem(*self, env) is Some implies sem(*self->BinOp_1, env) == Some(rv(*coefficient)) by {} }
@fn Exp::linearize @return 2
    proof { assert forall|env: Env| #[trigger] sem(*self, env) is Some implies sem(*self->BinOp_2, env) == Some(rv(*coefficient)) by {} }
@fn Exp::linearize @tail 3
    proof { assert forall|env: Env| #[trigger] sem(*self, env) is Some implies sem(*self->BinOp_1, env) == Some(rv(*coefficient)) by {} }
@fn Exp::linearize @tail 4
    proof {
        assert forall|env: Env| #[trigger] sem(*self, env) is Some implies
            sem(*self->BinOp_2, env) == Some(rv(*coefficient)) && rmul_s(sem(*self->BinOp_1, env)->Some_0, rv(*coefficient)) == rmul_s(rv(*coefficient), sem(*self->BinOp_1, env)->Some_0) by {
            lemma_mul_comm(sem(*self->BinOp_1, env)->Some_0, rv(*coefficient));
        }
    }
@fn Exp::linearize @tail 6
    proof {
        assert forall|env: Env| #[trigger] sem(*self, env) is Some implies sem(*self->BinOp_2, env) == Some(rv(*divisor)) by {}
    }
@fn Exp::linearize @entry
    proof { lemma_exp_fin(*self); lemma_exp_fin(*self->BinOp_1); lemma_exp_fin(*self->BinOp_2); lemma_exp_fin_list(*self); lemma_real_arith(); }
@raw
// pure real-arithmetic facts used by the arms (no hypothesis about the code)
pub proof fn lemma_real_arith()
    ensures
        forall|x: real| #[trigger] rmul_s(0real, x) == 0real,
        forall|x: real| #[trigger] rmul_s(x, 0real) == 0real,
        forall|x: real| #[trigger] rmul_s(-1real, x) == -x,
        forall|x: real| #[trigger] rmul_s(1real, x) == x,
        forall|x: real, d: real| d != 0real ==> #[trigger] rmul_s(rdiv_s(1real, d), x) == rdiv_s(x, d),
        forall|d: real| d != 0real ==> #[trigger] rdiv_s(1real, d) != 0real,
{
    reveal(rmul_s); reveal(rdiv_s);
    assert forall|x: real| #[trigger] rmul_s(0real, x) == 0real by { assert(0real * x == 0real) by (nonlinear_arith); }
    assert forall|x: real| #[trigger] rmul_s(x, 0real) == 0real by { assert(x * 0real == 0real) by (nonlinear_arith); }
    assert forall|x: real| #[trigger] rmul_s(-1real, x) == -x by { assert((-1real) * x == -x) by (nonlinear_arith); }
    assert forall|x: real| #[trigger] rmul_s(1real, x) == x by { assert(1real * x == x) by (nonlinear_arith); }
    assert forall|x: real, d: real| d != 0real implies #[trigger] rmul_s(rdiv_s(1real, d), x) == rdiv_s(x, d) by { assert((1real / d) * x == x / d) by (nonlinear_arith) requires d != 0real; }
    assert forall|d: real| d != 0real implies #[trigger] rdiv_s(1real, d) != 0real by { assert(1real / d != 0real) by (nonlinear_arith) requires d != 0real; }
}
pub proof fn lemma_mul_comm(x: real, y: real) ensures rmul_s(x, y) == rmul_s(y, x) { reveal(rmul_s); reveal(rdiv_s); assert(x * y == y * x) by (nonlinear_arith); }
