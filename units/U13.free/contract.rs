//@ C13 — "the split of free variables": which variables are split.
@fn DomainVariable::get_type -> r
    ensures *r == self.as_type,
@fn std_free_list -> r
    requires domain.wf(), forall|i: int| 0 <= i < variables.len() ==> domain.has(#[trigger] variables@[i]@),
    ensures
        forall|j: int| 0 <= j < r@.len() ==> (#[trigger] r@[j]) < variables.len() && vtype(variables@, *domain, r@[j] as int) is Real,
        forall|j: int, k: int| 0 <= j < k < r@.len() ==> r@[j] < r@[k],
        forall|i: int| 0 <= i < variables.len() && vtype(variables@, *domain, i) is Real ==> r@.contains(i as usize),
@fn std_free_list @loop 1
    invariant vx_n1 == variables.len(), domain.wf(), forall|i: int| 0 <= i < variables.len() ==> domain.has(#[trigger] variables@[i]@),
        forall|j: int| 0 <= j < vx_fm1@.len() ==> (#[trigger] vx_fm1@[j]) < vx_i1 && vtype(variables@, *domain, vx_fm1@[j] as int) is Real,
        forall|j: int, k: int| 0 <= j < k < vx_fm1@.len() ==> vx_fm1@[j] < vx_fm1@[k],
        forall|i: int| 0 <= i < vx_i1 && vtype(variables@, *domain, i) is Real ==> vx_fm1@.contains(i as usize),
@fn std_free_list @after "let v = "
    let ghost l0 = vx_fm1@;
@fn std_free_list @after "vx_fm1.push"
    proof {
        assert forall|t: int| 0 <= t < vx_i1 + 1 && vtype(variables@, *domain, t) is Real implies vx_fm1@.contains(t as usize) by {
            if t < vx_i1 { let j = choose|j: int| 0 <= j < l0.len() && l0[j] == t as usize; assert(vx_fm1@[j] == t as usize); }
            else { assert(vx_fm1@[l0.len() as int] == t as usize); }
        }
    }
