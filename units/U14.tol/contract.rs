//@ C14 — "tolerance-consistent float predicates": each predicate has its exact meaning on finite
//@ values (eps = 10^-precision; 1e-5 for the un-suffixed family) and the family is a consistent order
//@ (ghost lemma lemma_tolerance_order in spec/tolerance.rs).
@fn NEAR_ZERO_PRECISION -> r
    ensures r == 5,
@fn float_eq_precision -> r
    ensures finite(a) && finite(b) ==> r == t_eq(rv(a), rv(b), tol_p(precision as int)),
@fn float_ne_precision -> r
    ensures finite(a) && finite(b) ==> r == !t_eq(rv(a), rv(b), tol_p(precision as int)),
@fn float_lt_precision -> r
    ensures finite(a) && finite(b) ==> r == t_lt(rv(a), rv(b), tol_p(precision as int)),
@fn float_gt_precision -> r
    ensures finite(a) && finite(b) ==> r == t_gt(rv(a), rv(b), tol_p(precision as int)),
@fn float_le_precision -> r
    ensures finite(a) && finite(b) ==> r == t_le(rv(a), rv(b), tol_p(precision as int)),
@fn float_ge_precision -> r
    ensures finite(a) && finite(b) ==> r == t_ge(rv(a), rv(b), tol_p(precision as int)),
@fn float_eq -> r
    ensures finite(a) && finite(b) ==> r == t_eq(rv(a), rv(b), EPS()),
@fn float_ne -> r
    ensures finite(a) && finite(b) ==> r == !t_eq(rv(a), rv(b), EPS()),
@fn float_lt -> r
    ensures finite(a) && finite(b) ==> r == t_lt(rv(a), rv(b), EPS()),
@fn float_gt -> r
    ensures finite(a) && finite(b) ==> r == t_gt(rv(a), rv(b), EPS()),
@fn float_le -> r
    ensures finite(a) && finite(b) ==> r == t_le(rv(a), rv(b), EPS()),
@fn float_ge -> r
    ensures finite(a) && finite(b) ==> r == t_ge(rv(a), rv(b), EPS()),
