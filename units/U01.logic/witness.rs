    // Executable form of C01 on the REAL Linearizer::linearize for the LOGIC lowerings, bounded and exhaustive per model:
    // for every model of the family (Boolean variables p, q, r, s) and EVERY 0/1 assignment of the declared variables,
    //     the source constraint holds   <=>   some 0/1 assignment of the auxiliary variables satisfies every row.
    // Both directions of C01 are checked (nothing infeasible let in, nothing feasible cut off); no solver is involved.
    use crate::parser::model_transformer::{Model, Objective};
    fn v(n: &str) -> Exp { Exp::Variable(n.to_string()) }
    fn num(c: f64) -> Exp { Exp::Number(c) }
    fn not(a: Exp) -> Exp { Exp::Not(a.to_box()) }
    fn xor(a: Exp, b: Exp) -> Exp { Exp::Xor(a.to_box(), b.to_box()) }
    fn imp(a: Exp, b: Exp) -> Exp { Exp::Implies(a.to_box(), b.to_box()) }
    fn iff(a: Exp, b: Exp) -> Exp { Exp::Iff(a.to_box(), b.to_box()) }
    fn bin(op: BinOp, a: Exp, b: Exp) -> Exp { Exp::BinOp(op, a.to_box(), b.to_box()) }
    const NAMES: [&str; 4] = ["p", "q", "r", "s"];
    // independent oracle: value of an expression at a 0/1 assignment (truth = non-zero; logic results are 0 / 1)
    fn ev(e: &Exp, x: &[f64; 4]) -> f64 {
        let t = |v: f64| v != 0.0; let b = |c: bool| if c { 1.0 } else { 0.0 };
        match e {
            Exp::Number(c) => *c,
            Exp::Variable(n) => x[NAMES.iter().position(|m| m == n).unwrap()],
            Exp::And(es) => b(es.iter().all(|e| t(ev(e, x)))), Exp::Or(es) => b(es.iter().any(|e| t(ev(e, x)))),
            Exp::Not(a) => b(!t(ev(a, x))), Exp::Xor(a, c) => b(t(ev(a, x)) != t(ev(c, x))),
            Exp::Implies(a, c) => b(!t(ev(a, x)) || t(ev(c, x))), Exp::Iff(a, c) => b(t(ev(a, x)) == t(ev(c, x))),
            Exp::UnOp(UnOp::Neg, a) => -ev(a, x), Exp::UnOp(UnOp::Not, a) => b(!t(ev(a, x))),
            Exp::BinOp(op, a, c) => { let (a, c) = (ev(a, x), ev(c, x)); match op { BinOp::Add => a + c, BinOp::Sub => a - c, BinOp::Mul => a * c, BinOp::Div => a / c, _ => f64::NAN } }
            _ => f64::NAN,
        }
    }
    fn level1() -> Vec<Exp> {
        let (p, q, r, s) = (v("p"), v("q"), v("r"), v("s"));
        vec![p.clone(), q.clone(), not(p.clone()), Exp::And(vec![p.clone(), q.clone()]), Exp::Or(vec![p.clone(), q.clone()]), xor(p.clone(), q.clone()), imp(p.clone(), q.clone()), iff(p.clone(), q.clone()),
             Exp::And(vec![r.clone(), s.clone()]), Exp::Or(vec![r.clone(), s.clone()]), xor(r.clone(), s.clone()), imp(r.clone(), s.clone()), not(iff(r.clone(), s.clone())),
             Exp::And(vec![p.clone(), q.clone(), r.clone()]), Exp::Or(vec![q.clone(), r.clone(), s.clone()]), xor(q.clone(), r.clone()), not(Exp::Or(vec![p.clone(), s.clone()])), imp(not(q.clone()), s.clone())]
    }
    fn family() -> Vec<Exp> {
        let l1 = level1();
        let mut out = l1.clone();
        for a in &l1 { for b in &l1 {
            out.push(Exp::And(vec![a.clone(), b.clone()])); out.push(Exp::Or(vec![a.clone(), b.clone()]));
            out.push(xor(a.clone(), b.clone())); out.push(imp(a.clone(), b.clone())); out.push(iff(a.clone(), b.clone()));
        } }
        // a third level on a sample: negations and three-operand connectives over level-2 shapes
        let n = out.len();
        for k in (l1.len()..n).step_by(7) {
            let e = out[k].clone();
            out.push(not(e.clone()));
            out.push(Exp::Or(vec![e.clone(), v("s"), not(v("p"))]));
            out.push(Exp::And(vec![not(e.clone()), v("r")]));
            out.push(imp(e.clone(), xor(v("r"), v("s"))));
            out.push(imp(xor(v("p"), v("s")), e));
        }
        out
    }
    fn domain() -> IndexMap<String, DomainVariable> {
        let mut d = IndexMap::new();
        for n in NAMES { let mut dv = DomainVariable::new(VariableType::Boolean, InputSpan::default()); dv.increment_usage(); d.insert(n.to_string(), dv); }
        d
    }
    fn row_holds(c: &LinearConstraint, x: &[f64]) -> bool {
        let lhs: f64 = c.coefficients().iter().zip(x).map(|(a, b)| a * b).sum();
        match c.constraint_type() { Comparison::LessOrEqual => lhs <= c.rhs() + 1e-9, Comparison::GreaterOrEqual => lhs >= c.rhs() - 1e-9, Comparison::Equal => (lhs - c.rhs()).abs() <= 1e-9, Comparison::Less => lhs < c.rhs(), Comparison::Greater => lhs > c.rhs() }
    }
    #[test]
    fn search() {
        let (mut cases, mut fails, mut skipped) = (0u64, 0u32, 0u64);
        let mut distinct: std::collections::HashSet<String> = std::collections::HashSet::new();
        let mut models: Vec<(String, Constraint)> = vec![];
        for e in family() {
            models.push(("assert".to_string(), Constraint::new_logic_assertion(e.clone(), String::new())));
            models.push(("deny".to_string(), Constraint::new_logic_assertion(not(e.clone()), String::new())));
        }
        // logic values inside comparisons and arithmetic (reified values)
        for e in family().into_iter().step_by(5) {
            models.push(("sum>=1".to_string(), Constraint::new(bin(BinOp::Add, e.clone(), v("r")), Comparison::GreaterOrEqual, num(1.0), String::new())));
            models.push(("<=s".to_string(), Constraint::new(e.clone(), Comparison::LessOrEqual, v("s"), String::new())));
            models.push(("=p".to_string(), Constraint::new(e.clone(), Comparison::Equal, v("p"), String::new())));
            models.push(("2e-q<=1".to_string(), Constraint::new(bin(BinOp::Sub, bin(BinOp::Mul, num(2.0), e.clone()), v("q")), Comparison::LessOrEqual, num(1.0), String::new())));
        }
        for (kind, con) in models {
            let text = format!("{} [{}]", con, kind);
            let model = Model::new(Objective::new(OptimizationType::Satisfy, num(0.0)), vec![con.clone()], domain());
            let lm = match Linearizer::linearize(model) { Ok(lm) => lm, Err(_) => { skipped += 1; continue } };
            let vars = lm.variables().clone();
            let aux: Vec<usize> = (0..vars.len()).filter(|i| !NAMES.contains(&vars[*i].as_str())).collect();
            let all_bool = aux.iter().all(|i| matches!(lm.domain().get(&vars[*i]).map(|d| *d.get_type()), Some(VariableType::Boolean)));
            if !all_bool || aux.len() > 12 { skipped += 1; continue; }
            distinct.insert(lm.to_string());
            for bits in 0u32..16 {
                let x4 = [(bits & 1) as f64, ((bits >> 1) & 1) as f64, ((bits >> 2) & 1) as f64, ((bits >> 3) & 1) as f64];
                cases += 1;
                let src = if con.is_logic_assertion() { ev(con.lhs(), &x4) != 0.0 } else {
                    let (l, r) = (ev(con.lhs(), &x4), ev(con.rhs(), &x4));
                    match con.constraint_type() { Comparison::LessOrEqual => l <= r, Comparison::GreaterOrEqual => l >= r, Comparison::Equal => l == r, Comparison::Less => l < r, Comparison::Greater => l > r } };
                let mut x = vec![0.0f64; vars.len()];
                for (i, n) in vars.iter().enumerate() { if let Some(k) = NAMES.iter().position(|m| m == n) { x[i] = x4[k]; } }
                let mut ext = false;
                for a in 0u32..(1u32 << aux.len()) {
                    for (k, i) in aux.iter().enumerate() { x[*i] = ((a >> k) & 1) as f64; }
                    if lm.constraints().iter().all(|c| row_holds(c, &x)) { ext = true; break; }
                }
                if src != ext {
                    if fails < 40 { println!("WITNESS-FAIL {{\"fn\": \"Linearizer::linearize (logic lowering)\", \"clause\": \"{}\", \"constraint\": \"{}\", \"p\": {}, \"q\": {}, \"r\": {}, \"s\": {}, \"source_holds\": {}, \"linear_extension_exists\": {}, \"linear_model\": \"{}\"}}",
                        if src { "C01: a feasible assignment of the declared variables has an extension that satisfies every row (nothing feasible is cut off)" } else { "C01: an assignment that violates the source constraint has no extension that satisfies every row (nothing infeasible is let in)" },
                        text.replace('"', "'"), x4[0], x4[1], x4[2], x4[3], src, ext, lm.to_string().replace('\\', "\\\\").replace('"', "'").replace('\n', "\\n")); }
                    fails += 1;
                    break;
                }
            }
        }
        println!("WITNESS-SAMPLE {{\"skipped_models\": {}}}", skipped);
        println!("WITNESS-DONE cases={} distinct={}", cases, distinct.len());
    }
