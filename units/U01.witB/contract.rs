//@ C01 — soundness of the one-directional logic witnesses (negation and the connectives rewritten into others).
@fn directional_logic_witness @attr
#[verifier::exec_allows_no_decreases_clause]
@fn directional_logic_witness -> res
    requires lz_inv(*old(linearizer_context)), exp_fin(*exp),
    ensures
        lz_inv(*final(linearizer_context)),
        lz_ext(*old(linearizer_context), *final(linearizer_context)),
        res matches Ok(w) ==> exp_fin(w) && wit_ok(*final(linearizer_context), *exp, witness_truth, w),
@fn directional_logic_witness @keep-arms
    Exp::Not
    Exp::Implies
    Exp::Xor
    Exp::UnOp
    Exp::BinOp
    Exp::Number
@fn directional_logic_witness @entry
    let ghost c0 = *linearizer_context;
    proof { lemma_exp_fin(*exp); }
@fn directional_logic_witness @before "if !witness_truth"
    let ghost f0 = value;
@fn directional_logic_witness @return 1
    proof {
        let w = r__->Ok_0;
        assert forall|env: Env| #[trigger] lz_ok(*linearizer_context, env) implies (sem(w, env) matches Some(v) && (v == 0real || v == 1real)
            && (v == 1real ==> (sem(*exp, env) matches Some(x) ==> truthy(x) == witness_truth))) by {
            reveal(rmul_s);
            assert(sem(*exp, env) == Some(lc_eval(f0, env)));
        }
    }
@fn directional_logic_witness @after "let vx_a18"
    let ghost vv = vx_a18->Or_0;
    proof { lemma_fin_or2(*lhs, *rhs, vv); }
@fn directional_logic_witness @after "let vx_a23"
    proof { lemma_exp_fin(*vx_a23); }
@fn directional_logic_witness @tail 3
    proof { if r__ is Ok { let w = r__->Ok_0; let cf = *linearizer_context; lemma_wit_not(cf, exp->Not_0, witness_truth, w); } }
@fn directional_logic_witness @tail 7
    proof { if r__ is Ok { let w = r__->Ok_0; let cf = *linearizer_context; lemma_wit_not(cf, exp->UnOp_1, witness_truth, w); } }
@fn directional_logic_witness @tail 4
    proof { if r__ is Ok { let w = r__->Ok_0; let cf = *linearizer_context; lemma_wit_implies(cf, exp->Implies_0, exp->Implies_1, vv, witness_truth, w); } }
@fn directional_logic_witness @tail 6
    proof { if r__ is Ok { let w = r__->Ok_0; let cf = *linearizer_context; lemma_wit_xor(cf, exp->Xor_0, exp->Xor_1, witness_truth, w); } }
