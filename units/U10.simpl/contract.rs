//@ C10 — "simplifying an expression never changes its value ... and a division by zero or by a non-constant is never rewritten away".
@fn Exp::to_box -> r
    ensures *r == self,
@fn num_truthy -> r
    ensures fv(value) is Fin ==> r == truthy(rv(value)),
@fn logic_number -> r
    ensures fv(r) == Ext::Fin(b2r(value)),
@fn simplify_logic_nary @assumed -> r
    ensures true,
//@ the guard of the zero-product rule; what it computes is proved in unit U10.div (nothing here depends on its value)
@fn Exp::has_unsafe_division @assumed -> r
    ensures true,
@fn Exp::simplify @attr
#[verifier::exec_allows_no_decreases_clause]
@fn Exp::simplify -> r
    ensures
        exp_fin(*self) ==> exp_fin(r),
        forall|env: Env| sem(*self, env) is Some ==> #[trigger] sem(r, env) == sem(*self, env),
@fn Exp::simplify @keep-arms
    Exp::BinOp / BinOp::Xor
    Exp::BinOp / BinOp::Implies
    Exp::BinOp / BinOp::Iff
    Exp::Not
    Exp::Xor
    Exp::Implies
    Exp::Iff
@fn Exp::simplify @entry
    proof { lemma_exp_fin(*self); lemma_simp_arith(); }
// ---- binary operators xor / implies / iff are first turned into the structural variant, which is simplified again
@fn Exp::simplify @after "let rhs = rhs.simplify();" #1
    let ghost l1 = lhs;
    let ghost r1 = rhs;
    let ghost a0 = *self->BinOp_1;
    let ghost b0 = *self->BinOp_2;
    proof { lemma_exp_fin(l1); lemma_exp_fin(r1); }
@fn Exp::simplify @tail 7-9
    proof {
        let mid = if self->BinOp_0 is Xor { Exp::Xor(Box::new(l1), Box::new(r1)) } else if self->BinOp_0 is Implies { Exp::Implies(Box::new(l1), Box::new(r1)) } else { Exp::Iff(Box::new(l1), Box::new(r1)) };
        lemma_exp_fin(mid);
        assert forall|env: Env| sem(*self, env) is Some implies #[trigger] sem(r__, env) == sem(*self, env) by {
            assert(sem(a0, env) is Some && sem(b0, env) is Some);
            assert(sem(l1, env) == sem(a0, env) && sem(r1, env) == sem(b0, env));
            lemma_sem_xor(Box::new(l1), Box::new(r1), env); lemma_sem_implies(Box::new(l1), Box::new(r1), env); lemma_sem_iff(Box::new(l1), Box::new(r1), env);
            assert(sem(mid, env) == sem(*self, env));
        }
    }
// ---- not
@fn Exp::simplify @after "let exp = exp.simplify();" #1
    let ghost i1 = exp;
    let ghost i0 = *self->Not_0;
    proof { lemma_exp_fin(i1); }
@fn Exp::simplify @tail 14-15
    proof {
        lemma_exp_fin(r__); lemma_exp_fin(*r__->Not_0);
        assert forall|env: Env| sem(*self, env) is Some implies #[trigger] sem(r__, env) == sem(*self, env) by {
            lemma_sem_not(Box::new(i0), env); lemma_sem_not(Box::new(i1), env);
            assert(sem(i0, env) is Some); assert(sem(i1, env) == sem(i0, env));
        }
    }
// ---- xor
@fn Exp::simplify @after "let rhs = rhs.simplify();" #2
    let ghost l1 = lhs;
    let ghost r1 = rhs;
    let ghost a0 = *self->Xor_0;
    let ghost b0 = *self->Xor_1;
    proof { lemma_exp_fin(l1); lemma_exp_fin(r1); }
@fn Exp::simplify @tail 16-17
    proof {
        lemma_exp_fin(r__);
        assert forall|env: Env| sem(*self, env) is Some implies #[trigger] sem(r__, env) == sem(*self, env) by {
            lemma_sem_xor(Box::new(a0), Box::new(b0), env); lemma_sem_xor(Box::new(l1), Box::new(r1), env);
            assert(sem(a0, env) is Some && sem(b0, env) is Some);
            assert(sem(l1, env) == sem(a0, env) && sem(r1, env) == sem(b0, env));
        }
    }
// ---- implies
@fn Exp::simplify @after "let rhs = rhs.simplify();" #3
    let ghost l1 = lhs;
    let ghost r1 = rhs;
    let ghost a0 = *self->Implies_0;
    let ghost b0 = *self->Implies_1;
    proof { lemma_exp_fin(l1); lemma_exp_fin(r1); }
@fn Exp::simplify @tail 18-19
    proof {
        lemma_exp_fin(r__);
        assert forall|env: Env| sem(*self, env) is Some implies #[trigger] sem(r__, env) == sem(*self, env) by {
            lemma_sem_implies(Box::new(a0), Box::new(b0), env); lemma_sem_implies(Box::new(l1), Box::new(r1), env);
            assert(sem(a0, env) is Some && sem(b0, env) is Some);
            assert(sem(l1, env) == sem(a0, env) && sem(r1, env) == sem(b0, env));
        }
    }
// ---- iff
@fn Exp::simplify @after "let rhs = rhs.simplify();" #4
    let ghost l1 = lhs;
    let ghost r1 = rhs;
    let ghost a0 = *self->Iff_0;
    let ghost b0 = *self->Iff_1;
    proof { lemma_exp_fin(l1); lemma_exp_fin(r1); }
@fn Exp::simplify @tail 20-21
    proof {
        lemma_exp_fin(r__);
        assert forall|env: Env| sem(*self, env) is Some implies #[trigger] sem(r__, env) == sem(*self, env) by {
            lemma_sem_iff(Box::new(a0), Box::new(b0), env); lemma_sem_iff(Box::new(l1), Box::new(r1), env);
            assert(sem(a0, env) is Some && sem(b0, env) is Some);
            assert(sem(l1, env) == sem(a0, env) && sem(r1, env) == sem(b0, env));
        }
    }
@raw
// real-arithmetic identities behind the folding rules (0 + x, x * 1, x * 0, x / 1): pure facts about the opaque product / quotient
pub proof fn lemma_simp_arith()
    ensures
        forall|x: real| #[trigger] rmul_s(0real, x) == 0real,
        forall|x: real| #[trigger] rmul_s(x, 0real) == 0real,
        forall|x: real| #[trigger] rmul_s(1real, x) == x,
        forall|x: real| #[trigger] rmul_s(x, 1real) == x,
        forall|x: real| #[trigger] rdiv_s(x, 1real) == x,
{
    reveal(rmul_s); reveal(rdiv_s);
    assert forall|x: real| #[trigger] rmul_s(0real, x) == 0real by { assert(0real * x == 0real) by (nonlinear_arith); }
    assert forall|x: real| #[trigger] rmul_s(x, 0real) == 0real by { assert(x * 0real == 0real) by (nonlinear_arith); }
    assert forall|x: real| #[trigger] rmul_s(1real, x) == x by { assert(1real * x == x) by (nonlinear_arith); }
    assert forall|x: real| #[trigger] rmul_s(x, 1real) == x by { assert(x * 1real == x) by (nonlinear_arith); }
    assert forall|x: real| #[trigger] rdiv_s(x, 1real) == x by { assert(x / 1real == x) by (nonlinear_arith); }
}
