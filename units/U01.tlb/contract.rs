//@ C01 — soundness of the single-row lowering of logic assertions over recognised 0/1-valued affine operands.
@fn try_lower_affine_logic_assertion @attr
#[verifier::exec_allows_no_decreases_clause]
@fn try_lower_affine_logic_assertion -> res
    requires exp_fin(*exp), lz_inv(*old(linearizer_context)),
    ensures
        lz_inv(*final(linearizer_context)), lz_ext(*old(linearizer_context), *final(linearizer_context)),
        res matches Ok(true) ==> asserted(*final(linearizer_context), *exp, must_be_true),
@fn try_lower_affine_logic_assertion @keep-arms
    Exp::And
    Exp::Or
@fn try_lower_affine_logic_assertion @entry
    let ghost c0 = *linearizer_context;
    proof { lemma_exp_fin_list(*exp); }
@fn try_lower_affine_logic_assertion @loop 1
    invariant
        vx_n1 == exps@.len(), vx_oc1@.len() == vx_i1, *linearizer_context == c0, c0 == *old(linearizer_context), lz_inv(c0),
        forall|k: int| 0 <= k < exps@.len() ==> exp_fin(#[trigger] exps@[k]),
        forall|k: int| 0 <= k < vx_i1 ==> exp_fin(#[trigger] vx_oc1@[k]),
        forall|k: int, env: Env| 0 <= k < vx_i1 && #[trigger] lz_ok(c0, env) ==> (sem(#[trigger] vx_oc1@[k], env) matches Some(x) && (x == 0real || x == 1real) && (sem(exps@[k], env) matches Some(te) ==> x == te)),
@fn try_lower_affine_logic_assertion @after "let (comparison, rhs)"
    proof { broadcast use fl; assert(fv(rhs) is Fin && rv(rhs) == (if must_be_true { operands@.len() as real } else { operands@.len() as real - 1real })); }
@fn try_lower_affine_logic_assertion @after "let vx_a3"
    proof { lemma_exp_fin(vx_a3); }
@fn try_lower_affine_logic_assertion @tail 2
    proof {
        let cf = *linearizer_context;
        assert forall|k: int, env: Env| 0 <= k < operands@.len() && #[trigger] lz_ok(cf, env) implies (sem(#[trigger] operands@[k], env) matches Some(x) && (x == 0real || x == 1real) && (sem(exps@[k], env) matches Some(te) ==> x == te)) by { lemma_lz_ext_mono(c0, cf, env); }
        lemma_assert_affine_list(cf, *exps, operands@, true, must_be_true, vx_a2);
    }
@fn try_lower_affine_logic_assertion @loop 2
    invariant
        vx_n5 == exps@.len(), vx_oc5@.len() == vx_i5, *linearizer_context == c0, c0 == *old(linearizer_context), lz_inv(c0),
        forall|k: int| 0 <= k < exps@.len() ==> exp_fin(#[trigger] exps@[k]),
        forall|k: int| 0 <= k < vx_i5 ==> exp_fin(#[trigger] vx_oc5@[k]),
        forall|k: int, env: Env| 0 <= k < vx_i5 && #[trigger] lz_ok(c0, env) ==> (sem(#[trigger] vx_oc5@[k], env) matches Some(x) && (x == 0real || x == 1real) && (sem(exps@[k], env) matches Some(te) ==> x == te)),
@fn try_lower_affine_logic_assertion @after "let vx_a8"
    proof { lemma_exp_fin(vx_a8); }
@fn try_lower_affine_logic_assertion @tail 3
    proof {
        let cf = *linearizer_context;
        assert forall|k: int, env: Env| 0 <= k < operands@.len() && #[trigger] lz_ok(cf, env) implies (sem(#[trigger] operands@[k], env) matches Some(x) && (x == 0real || x == 1real) && (sem(exps@[k], env) matches Some(te) ==> x == te)) by { lemma_lz_ext_mono(c0, cf, env); }
        lemma_assert_affine_list(cf, *exps, operands@, false, must_be_true, vx_a6);
    }
