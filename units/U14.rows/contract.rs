//@ C05 / C14 — the direct start: one candidate per row.
@fn one_per_row -> r
    requires forall|k: int| 0 <= k < usable_independent_vars@.len() ==> (#[trigger] usable_independent_vars@[k]).row < model.constraints@.len(),
    ensures
        // every selected entry is the FIRST candidate of its row
        forall|j: int| 0 <= j < r@.len() ==> first_of_row(usable_independent_vars@, #[trigger] r@[j]),
        // in row order, at most one per row
        forall|j: int, l: int| 0 <= j < l < r@.len() ==> r@[j].row < r@[l].row,
        forall|j: int| 0 <= j < r@.len() ==> (#[trigger] r@[j]).row < model.constraints@.len(),
        // every row that has a candidate is represented
        forall|k: int| 0 <= k < usable_independent_vars@.len() ==> row_present(r@, (#[trigger] usable_independent_vars@[k]).row),
        // as many entries as rows: entry k belongs to row k
        r@.len() == model.constraints@.len() ==> forall|k: int| 0 <= k < r@.len() ==> (#[trigger] r@[k]).row == k,
@fn one_per_row @entry
    let ghost u = usable_independent_vars@;
    let ghost m = model.constraints@.len();
@fn one_per_row @loop 1
    invariant vx_n1 == u.len(), vx_v1@ == u, selected_vars@.len() == m, m == model.constraints@.len(),
        forall|k: int| 0 <= k < u.len() ==> (#[trigger] u[k]).row < m,
        forall|row: int| 0 <= row < m ==> (#[trigger] selected_vars@[row] matches Some(v) ==> v.row == row && first_of_row(u, v) && exists|k: int| 0 <= k < vx_i1 && u[k] == v),
        forall|row: int, k: int| 0 <= row < m && 0 <= k < vx_i1 && (#[trigger] selected_vars@[row]) is None ==> (#[trigger] u[k]).row != row,
@fn one_per_row @after "let var = vx_vec_take"
    let ghost s0 = selected_vars@;
    proof { assert(var == u[vx_i1 as int]); assert(var.row < m); }
@fn one_per_row @after "selected_vars["
    proof {
        assert(first_of_row(u, u[vx_i1 as int])) by {
            assert forall|k2: int| 0 <= k2 < vx_i1 implies (#[trigger] u[k2]).row != u[vx_i1 as int].row by { assert(s0[u[vx_i1 as int].row as int] is None); }
        }
    }
@fn one_per_row @before "let selected_vars: Vec<IndependentVariable>"
    let ghost sel = selected_vars@;
@fn one_per_row @after "let vx_src2"
    proof {
        assert(vx_src2@ == sel);
        assert forall|row: int| 0 <= row < m implies (#[trigger] sel[row] matches Some(v) ==> v.row == row && first_of_row(u, v)) by {}
        assert forall|row: int, k: int| 0 <= row < m && 0 <= k < u.len() && (#[trigger] sel[row]) is None implies (#[trigger] u[k]).row != row by {}
    }
@fn one_per_row @loop 2
    invariant vx_n2 == m, vx_src2@ == sel, sel.len() == m, m == model.constraints@.len(),
        forall|k: int| 0 <= k < u.len() ==> (#[trigger] u[k]).row < m,
        forall|row: int| 0 <= row < m ==> (#[trigger] sel[row] matches Some(v) ==> v.row == row && first_of_row(u, v)),
        forall|row: int, k: int| 0 <= row < m && 0 <= k < u.len() && (#[trigger] sel[row]) is None ==> (#[trigger] u[k]).row != row,
        forall|j: int| 0 <= j < vx_out2@.len() ==> first_of_row(u, #[trigger] vx_out2@[j]) && vx_out2@[j].row < vx_i2 && sel[vx_out2@[j].row as int] == Some(vx_out2@[j]),
        forall|j: int, l: int| 0 <= j < l < vx_out2@.len() ==> vx_out2@[j].row < vx_out2@[l].row,
        forall|row: int| 0 <= row < vx_i2 && (#[trigger] sel[row]) is Some ==> exists|j: int| 0 <= j < vx_out2@.len() && (#[trigger] vx_out2@[j]).row == row,
        vx_out2@.len() <= vx_i2,
@fn one_per_row @before "match vx_vec_take(&vx_src2, vx_i2)"
    let ghost o0 = vx_out2@;
@fn one_per_row @after "vx_out2.push"
    proof {
        assert(vx_out2@[o0.len() as int].row == vx_i2);
        assert forall|row: int| 0 <= row < vx_i2 + 1 && (#[trigger] sel[row]) is Some implies exists|j: int| 0 <= j < vx_out2@.len() && (#[trigger] vx_out2@[j]).row == row by {
            if row < vx_i2 { let j = choose|j: int| 0 <= j < o0.len() && (#[trigger] o0[j]).row == row; assert(vx_out2@[j].row == row); }
            else { assert(vx_out2@[o0.len() as int].row == row); }
        }
    }
@fn one_per_row @tail 1
    proof {
        assert forall|k: int| 0 <= k < u.len() implies exists|j: int| 0 <= j < selected_vars@.len() && (#[trigger] selected_vars@[j]).row == (#[trigger] u[k]).row by {
            let row = u[k].row as int;
            assert(sel[row] is Some) by { if sel[row] is None { assert(u[k].row != row); } }
        }
        if selected_vars@.len() == m { lemma_increasing_identity(selected_vars@, m as int); }
        assert forall|k: int| 0 <= k < u.len() implies row_present(selected_vars@, (#[trigger] u[k]).row) by {
            let j = choose|j: int| 0 <= j < selected_vars@.len() && (#[trigger] selected_vars@[j]).row == u[k].row;
            assert(selected_vars@[j].row == u[k].row);
        }
    }
@raw
pub open spec fn row_present(r: Seq<IndependentVariable>, row: usize) -> bool { exists|j: int| 0 <= j < r.len() && (#[trigger] r[j]).row == row }
// v is the first entry of the candidate list that sits in its row
pub open spec fn first_of_row(u: Seq<IndependentVariable>, v: IndependentVariable) -> bool {
    exists|k: int| 0 <= k < u.len() && #[trigger] u[k] == v && forall|k2: int| 0 <= k2 < k ==> (#[trigger] u[k2]).row != v.row
}
// m entries with strictly increasing rows below m: entry k has row k
pub proof fn lemma_increasing_identity(s: Seq<IndependentVariable>, m: int)
    requires s.len() == m, forall|j: int, l: int| 0 <= j < l < s.len() ==> s[j].row < s[l].row, forall|j: int| 0 <= j < s.len() ==> (#[trigger] s[j]).row < m,
    ensures forall|k: int| 0 <= k < s.len() ==> (#[trigger] s[k]).row == k,
    decreases m,
{
    if m > 0 {
        // rows are at least their index (increasing from >= 0) and at most m - 1 - (distance to the end)
        lemma_row_ge_index(s, m - 1);
        let t = s.drop_last();
        assert forall|j: int| 0 <= j < t.len() implies (#[trigger] t[j]).row < m - 1 by { assert(t[j] == s[j]); assert(s[j].row < s[m - 1].row); }
        assert forall|j: int, l: int| 0 <= j < l < t.len() implies t[j].row < t[l].row by { assert(t[j] == s[j] && t[l] == s[l]); }
        lemma_increasing_identity(t, m - 1);
        assert forall|k: int| 0 <= k < s.len() implies (#[trigger] s[k]).row == k by { if k < m - 1 { assert(t[k] == s[k]); } }
    }
}
pub proof fn lemma_row_ge_index(s: Seq<IndependentVariable>, k: int)
    requires 0 <= k < s.len(), forall|j: int, l: int| 0 <= j < l < s.len() ==> s[j].row < s[l].row,
    ensures s[k].row >= k,
    decreases k,
{
    if k > 0 { lemma_row_ge_index(s, k - 1); assert(s[k - 1].row < s[k].row); }
}
