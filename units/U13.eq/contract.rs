//@ C13 — "equality-constrained ... with non-negative right-hand sides", "via the added slack and surplus
//@ variables": one row at a time.  x ranges over ALL real vectors long enough for the row.
@fn LinearConstraint::new -> r
    ensures r.coefficients == coefficients, r.rhs == rhs, r.constraint_type == constraint_type,
@fn LinearConstraint::into_parts -> r
    ensures r.0 == self.coefficients, r.1 == self.constraint_type, r.2 == self.rhs,
@fn EqualityConstraint::coefficients -> r
    ensures *r == self.coefficients,
@fn EqualityConstraint::rhs -> r
    ensures r == self.rhs,
@fn EqualityConstraint::new -> r
    requires finite(rhs), fin_seq(coefficients@),
    ensures
        fin_seq(r.coefficients@) && finite(r.rhs),
        r.coefficients.len() == coefficients.len(),
        rv(r.rhs) >= 0real,
        forall|x: Seq<real>| x.len() >= coefficients.len() ==> (#[trigger] pdot(r.coefficients@, x) == rv(r.rhs) <==> pdot(coefficients@, x) == rv(rhs)),
@fn EqualityConstraint::new @closure 1
    |c: &F64| -> (o: F64) ensures fv(o) == ext_mul(fv(*c), Ext::Fin(-1real)),
@fn EqualityConstraint::new @tail 1
    proof {
        assert forall|j: int| 0 <= j < coefficients.len() implies fv(#[trigger] r__.coefficients@[j]) is Fin && rv(r__.coefficients@[j]) == -rv(coefficients@[j]) by {
            assert(fv(coefficients@[j]) is Fin);
        }
        assert forall|x: Seq<real>| x.len() >= coefficients.len() implies (#[trigger] pdot(r__.coefficients@, x) == rv(r__.rhs) <==> pdot(coefficients@, x) == rv(rhs)) by {
            lemma_pdot_neg(coefficients@, r__.coefficients@, x);
        }
    }
@fn EqualityConstraint::ensure_size
    requires fin_seq(old(self).coefficients@), old(self).coefficients.len() <= size,
    ensures
        final(self).coefficients.len() == size, final(self).rhs == old(self).rhs, fin_seq(final(self).coefficients@),
        forall|x: Seq<real>| x.len() >= size ==> #[trigger] pdot(final(self).coefficients@, x) == pdot(old(self).coefficients@, x),
@fn EqualityConstraint::ensure_size @end
    proof {
        assert forall|j: int| 0 <= j < self.coefficients.len() implies fv(#[trigger] self.coefficients@[j]) is Fin by {
            if j < old(self).coefficients.len() { assert(fv(old(self).coefficients@[j]) is Fin); }
        }
        assert forall|x: Seq<real>| x.len() >= size implies #[trigger] pdot(self.coefficients@, x) == pdot(old(self).coefficients@, x) by {
            lemma_pdot_zero_tail(old(self).coefficients@, self.coefficients@, x);
        }
    }
@fn normalize_constraint @after "coefficients.push" #1
    proof { lemma_row_extended(constraint.coefficients@, coefficients@, context.total_variables as int, 1real); }
@fn normalize_constraint @after "coefficients.push" #2
    proof { lemma_row_extended(constraint.coefficients@, coefficients@, context.total_variables as int, -1real); }
@fn normalize_constraint -> res
    requires
        finite(constraint.rhs), fin_seq(constraint.coefficients@),
        constraint.coefficients.len() <= old(context).total_variables,
        old(context).total_variables < usize::MAX, old(context).slack_index < usize::MAX, old(context).surplus_index < usize::MAX,
    ensures
        final(context).total_variables == old(context).total_variables,
        final(context).slack_index <= old(context).slack_index + 1, final(context).surplus_index <= old(context).surplus_index + 1,
        res matches Ok((eq, added)) ==> {
            let n = old(context).total_variables as int;
            &&& fin_seq(eq.coefficients@) && finite(eq.rhs)
            &&& rv(eq.rhs) >= 0real
            &&& (constraint.constraint_type is Equal ==> added is None && eq.coefficients.len() == constraint.coefficients.len()
                    && forall|x: Seq<real>| x.len() >= n ==> (#[trigger] pdot(eq.coefficients@, x) == rv(eq.rhs) <==> pdot(constraint.coefficients@, x) == rv(constraint.rhs)))
            // <= and >= : exactly one new column, at index n; the row holds for x extended by s = x[n] >= 0 iff the inequality holds
            &&& (!(constraint.constraint_type is Equal) ==> added is Some && eq.coefficients.len() == n + 1
                    && forall|x: Seq<real>| x.len() >= n + 1 ==> (#[trigger] pdot(eq.coefficients@, x) == rv(eq.rhs) <==>
                            pdot(constraint.coefficients@, x) + (if constraint.constraint_type is LessOrEqual { x[n] } else { -x[n] }) == rv(constraint.rhs)))
        },
        res is Err <==> (constraint.constraint_type is Less || constraint.constraint_type is Greater),
@raw
// a row padded with zeros up to column n and given one more coefficient k (ghost facts about the padded row)
pub proof fn lemma_row_extended(a: Seq<F64>, c: Seq<F64>, n: int, k: real)
    requires fin_seq(a), a.len() <= n, c.len() == n + 1,
        forall|j: int| 0 <= j < a.len() ==> #[trigger] c[j] == a[j],
        forall|j: int| a.len() <= j < n ==> fv(#[trigger] c[j]) == Ext::Fin(0real),
        fv(c[n]) == Ext::Fin(k),
    ensures fin_seq(c), forall|x: Seq<real>| x.len() >= n + 1 ==> #[trigger] pdot(c, x) == pdot(a, x) + k * x[n],
{
    assert forall|j: int| 0 <= j < c.len() implies fv(#[trigger] c[j]) is Fin by { if j < a.len() { assert(fv(a[j]) is Fin); } }
    assert forall|x: Seq<real>| x.len() >= n + 1 implies #[trigger] pdot(c, x) == pdot(a, x) + k * x[n] by { lemma_pdot_pad(a, c, n, k, x); }
}
