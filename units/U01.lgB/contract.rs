//@ C01 / C02 — reified logic values (binary connectives).
@fn Exp::linearize @attr
#[verifier::exec_allows_no_decreases_clause]
@fn Exp::linearize @keep-arms
    Exp::Implies
    Exp::Iff
    Exp::Xor
@fn Exp::linearize @entry
    proof { lemma_exp_fin(*self); }
@fn Exp::linearize @after "let operands" #1
    let ghost c1 = *linearizer_context;
    proof { assert(vx_a3@[0] == *self->Implies_0 && vx_a3@[1] == *self->Implies_1); }
@fn Exp::linearize @after "let (a, b)" #1
    let ghost a0 = a;
    let ghost b0 = b;
@fn Exp::linearize @after "let var_name" #1
    let ghost c2 = *linearizer_context;
    let ghost zn = var_name@;
    proof { lemma_lz_same(c1, c2); }
@fn Exp::linearize @after "let constraints" #1
    let ghost cs = constraints;
    proof {
        broadcast use lemma_sem_binop;
        assert(cs@.len() == 3);
        lemma_exp_fin(cs@[0].1); lemma_exp_fin(*cs@[0].1->BinOp_1); lemma_exp_fin(cs@[2].1); lemma_exp_fin(*cs@[2].1->BinOp_1); lemma_exp_fin(*(*cs@[2].1->BinOp_1)->BinOp_1);
        assert forall|env: Env| sem(a0, env) is Some && sem(b0, env) is Some implies
            #[trigger] sem(cs@[0].1, env) == Some(1real - sem(a0, env)->Some_0) && sem(cs@[1].1, env) == Some(sem(b0, env)->Some_0) && sem(cs@[2].1, env) == Some(1real - sem(a0, env)->Some_0 + sem(b0, env)->Some_0) by {}
    }
@fn Exp::linearize @tail 10
    proof {
        let cf = *linearizer_context;
        if r__ is Ok {
            lemma_lz_ext_trans(c1, c2, cf);
            assert forall|env: Env| #[trigger] lz_ok(cf, env) implies (sem(a0, env) matches Some(x) && (x == 0real || x == 1real) && (sem(*self->Implies_0, env) matches Some(tl) ==> x == tl)) by { lemma_lz_ext_mono(c1, cf, env); }
            assert forall|env: Env| #[trigger] lz_ok(cf, env) implies (sem(b0, env) matches Some(y) && (y == 0real || y == 1real) && (sem(*self->Implies_1, env) matches Some(tr) ==> y == tr)) by { lemma_lz_ext_mono(c1, cf, env); }
            assert forall|env: Env| #[trigger] lz_ok(cf, env) implies rows2(0, env[zn], sem(a0, env)->Some_0, sem(b0, env)->Some_0) by {
                lemma_lz_ext_mono(c1, cf, env);
                assert(sem(cs@[0].1, env) is Some && sem(cs@[1].1, env) is Some && sem(cs@[2].1, env) is Some);
            }
            lemma_reify2(cf, 0, self->Implies_0, self->Implies_1, a0, b0, r__->Ok_0, zn, requirement);
        }
    }
@fn Exp::linearize @after "let operands" #2
    let ghost c1 = *linearizer_context;
    proof { assert(vx_a4@[0] == *self->Iff_0 && vx_a4@[1] == *self->Iff_1); }
@fn Exp::linearize @after "let (a, b)" #2
    let ghost a0 = a;
    let ghost b0 = b;
@fn Exp::linearize @after "let var_name" #2
    let ghost c2 = *linearizer_context;
    let ghost zn = var_name@;
    proof { lemma_lz_same(c1, c2); }
@fn Exp::linearize @after "let constraints" #2
    let ghost cs = constraints;
    proof {
        broadcast use lemma_sem_binop;
        assert(cs@.len() == 4);
        lemma_exp_fin(cs@[0].1); lemma_exp_fin(*cs@[0].1->BinOp_1); lemma_exp_fin(cs@[1].1); lemma_exp_fin(*cs@[1].1->BinOp_1); lemma_exp_fin(cs@[2].1); lemma_exp_fin(*cs@[2].1->BinOp_1); lemma_exp_fin(cs@[3].1); lemma_exp_fin(*cs@[3].1->BinOp_1); lemma_exp_fin(*(*cs@[1].1->BinOp_1)->BinOp_1); lemma_exp_fin(*(*cs@[2].1->BinOp_1)->BinOp_1); lemma_exp_fin(*(*cs@[3].1->BinOp_1)->BinOp_1); lemma_exp_fin(*cs@[0].1->BinOp_2);
        assert forall|env: Env| sem(a0, env) is Some && sem(b0, env) is Some implies
            #[trigger] sem(cs@[0].1, env) == Some(sem(a0, env)->Some_0 + sem(b0, env)->Some_0 - 1real) && sem(cs@[1].1, env) == Some(1real - sem(a0, env)->Some_0 - sem(b0, env)->Some_0) && sem(cs@[2].1, env) == Some(1real - sem(a0, env)->Some_0 + sem(b0, env)->Some_0) && sem(cs@[3].1, env) == Some(1real + sem(a0, env)->Some_0 - sem(b0, env)->Some_0) by {}
    }
@fn Exp::linearize @tail 11
    proof {
        let cf = *linearizer_context;
        if r__ is Ok {
            lemma_lz_ext_trans(c1, c2, cf);
            assert forall|env: Env| #[trigger] lz_ok(cf, env) implies (sem(a0, env) matches Some(x) && (x == 0real || x == 1real) && (sem(*self->Iff_0, env) matches Some(tl) ==> x == tl)) by { lemma_lz_ext_mono(c1, cf, env); }
            assert forall|env: Env| #[trigger] lz_ok(cf, env) implies (sem(b0, env) matches Some(y) && (y == 0real || y == 1real) && (sem(*self->Iff_1, env) matches Some(tr) ==> y == tr)) by { lemma_lz_ext_mono(c1, cf, env); }
            assert forall|env: Env| #[trigger] lz_ok(cf, env) implies rows2(1, env[zn], sem(a0, env)->Some_0, sem(b0, env)->Some_0) by {
                lemma_lz_ext_mono(c1, cf, env);
                assert(sem(cs@[0].1, env) is Some && sem(cs@[1].1, env) is Some && sem(cs@[2].1, env) is Some && sem(cs@[3].1, env) is Some);
            }
            lemma_reify2(cf, 1, self->Iff_0, self->Iff_1, a0, b0, r__->Ok_0, zn, requirement);
        }
    }
@fn Exp::linearize @after "let operands" #3
    let ghost c1 = *linearizer_context;
    proof { assert(vx_a5@[0] == *self->Xor_0 && vx_a5@[1] == *self->Xor_1); }
@fn Exp::linearize @after "let (a, b)" #3
    let ghost a0 = a;
    let ghost b0 = b;
@fn Exp::linearize @after "let var_name" #3
    let ghost c2 = *linearizer_context;
    let ghost zn = var_name@;
    proof { lemma_lz_same(c1, c2); }
@fn Exp::linearize @after "let constraints" #3
    let ghost cs = constraints;
    proof {
        broadcast use lemma_sem_binop;
        assert(cs@.len() == 4);
        lemma_exp_fin(cs@[0].1); lemma_exp_fin(*cs@[0].1->BinOp_1); lemma_exp_fin(cs@[1].1); lemma_exp_fin(*cs@[1].1->BinOp_1); lemma_exp_fin(cs@[2].1); lemma_exp_fin(*cs@[2].1->BinOp_1); lemma_exp_fin(cs@[3].1); lemma_exp_fin(*cs@[3].1->BinOp_1); lemma_exp_fin(*(*cs@[3].1->BinOp_1)->BinOp_1);
        assert forall|env: Env| sem(a0, env) is Some && sem(b0, env) is Some implies
            #[trigger] sem(cs@[0].1, env) == Some(sem(a0, env)->Some_0 + sem(b0, env)->Some_0) && sem(cs@[1].1, env) == Some(sem(a0, env)->Some_0 - sem(b0, env)->Some_0) && sem(cs@[2].1, env) == Some(sem(b0, env)->Some_0 - sem(a0, env)->Some_0) && sem(cs@[3].1, env) == Some(2real - sem(a0, env)->Some_0 - sem(b0, env)->Some_0) by {}
    }
@fn Exp::linearize @tail 12
    proof {
        let cf = *linearizer_context;
        if r__ is Ok {
            lemma_lz_ext_trans(c1, c2, cf);
            assert forall|env: Env| #[trigger] lz_ok(cf, env) implies (sem(a0, env) matches Some(x) && (x == 0real || x == 1real) && (sem(*self->Xor_0, env) matches Some(tl) ==> x == tl)) by { lemma_lz_ext_mono(c1, cf, env); }
            assert forall|env: Env| #[trigger] lz_ok(cf, env) implies (sem(b0, env) matches Some(y) && (y == 0real || y == 1real) && (sem(*self->Xor_1, env) matches Some(tr) ==> y == tr)) by { lemma_lz_ext_mono(c1, cf, env); }
            assert forall|env: Env| #[trigger] lz_ok(cf, env) implies rows2(2, env[zn], sem(a0, env)->Some_0, sem(b0, env)->Some_0) by {
                lemma_lz_ext_mono(c1, cf, env);
                assert(sem(cs@[0].1, env) is Some && sem(cs@[1].1, env) is Some && sem(cs@[2].1, env) is Some && sem(cs@[3].1, env) is Some);
            }
            lemma_reify2(cf, 2, self->Xor_0, self->Xor_1, a0, b0, r__->Ok_0, zn, requirement);
        }
    }
