    // Executable form of C12 on the REAL renderers, bounded corpus.
    fn to_model(src: &str) -> Result<Model, String> { RoocParser::new(src.to_string()).parse_and_transform(vec![], &IndexMap::new()) }
    fn to_linear(src: &str) -> Result<LinearModel, String> { Linearizer::linearize(to_model(src)?).map_err(|e| e.to_string()) }
    // Rendered text of everything except the declarations, and the declared kinds/bounds per variable.  Re-compiling a rendered
    // model runs bound inference again on already simplified rows, which may TIGHTEN a derived range further (both ranges are
    // sound); domains are therefore compared by kind, and the recompiled range must lie inside the original one.
    fn split(lm: &LinearModel) -> (String, Vec<(String, VariableType)>) {
        let text = lm.to_string();
        let body = match text.find("\ndefine") { Some(i) => text[..i].to_string(), None => text.clone() };
        (body, lm.domain().iter().map(|(n, d)| (n.clone(), *d.get_type())).collect())
    }
    fn range(t: &VariableType) -> (u8, f64, f64) {
        match t { VariableType::Boolean => (0, 0.0, 1.0), VariableType::IntegerRange(a, b) => (1, *a as f64, *b as f64), VariableType::NonNegativeReal(a, b) => (2, *a, *b), VariableType::Real(a, b) => (3, *a, *b) }
    }
    fn same_model(a: &LinearModel, b: &LinearModel) -> Result<(), String> {
        let ((ta, da), (tb, db)) = (split(a), split(b));
        if ta != tb { return Err(format!("expected: {} || got: {}", ta, tb)); }
        // the numbers themselves, not only their rendering (the same renderer prints both sides)
        let close = |x: f64, y: f64| x == y || (x - y).abs() <= 1e-12 * (x.abs() + y.abs());
        if a.variables() != b.variables() { return Err(format!("variables {:?} vs {:?}", a.variables(), b.variables())); }
        if a.objective().len() != b.objective().len() || a.objective().iter().zip(b.objective()).any(|(x, y)| !close(*x, *y)) || !close(a.objective_offset(), b.objective_offset()) {
            return Err(format!("objective {:?} + {} became {:?} + {}", a.objective(), a.objective_offset(), b.objective(), b.objective_offset()));
        }
        if a.constraints().len() != b.constraints().len() { return Err("different number of rows".to_string()); }
        for (ra, rb) in a.constraints().iter().zip(b.constraints()) {
            if ra.name() != rb.name() || ra.constraint_type() != rb.constraint_type() || !close(ra.rhs(), rb.rhs())
                || ra.coefficients().len() != rb.coefficients().len() || ra.coefficients().iter().zip(rb.coefficients()).any(|(x, y)| !close(*x, *y)) {
                return Err(format!("row {:?} {} {} became {:?} {} {}", ra.coefficients(), ra.constraint_type(), ra.rhs(), rb.coefficients(), rb.constraint_type(), rb.rhs()));
            }
        }
        if da.len() != db.len() { return Err(format!("different variables: {:?} vs {:?}", da, db)); }
        for (na, va) in da.iter() {
            let vb = match db.iter().find(|(nb, _)| nb == na) { Some((_, v)) => v, None => return Err(format!("variable {} is missing after re-compilation", na)) };
            let (ka, la, ua) = range(va); let (kb, lb, ub) = range(vb);
            if ka != kb || lb < la - 1e-9 || ub > ua + 1e-9 { return Err(format!("domain of {}: {:?} became {:?}", na, va, vb)); }
        }
        Ok(())
    }
    fn corpus() -> Vec<String> {
        let mut out = vec![];
        let decl = "define\n    a, b, c as Real(-5, 5)";
        for e in ["a - (b - c)", "a - (b + c)", "a / (2 * 4)", "a / (2 / 4)", "(a - b) - c", "a - b - c", "-(a + b)", "-(a - b)", "-a - b", "a - -2", "a * -2", "-2 * a", "-(2 * a)", "a + -b", "-(-a)", "3 - (b - 2)", "a - (b - (c - a))",
                  "abs{ a - b }", "abs{ -a } - 1", "min{ a, b - c }", "max{ a, -(b + c), 2 }", "2 * abs{ a } - max{ b, c }", "-(abs{ a } + 1)", "a - (abs{ b } - c)", "a - (min{ b, c } - 1)", "3 - max{ a, b }",
                  "0.000000001 * a", "-0.000000001 * a + b", "1000000000 * a", "-1000000000 * a - 0.5 * b", "0.000001 * a - 123456789.5 * b", "a * 0.1 + b * 0.2", "a / 3", "-a / 7", "1e-7 * a", "2.5e8 * a",
                  "1.000001 * a + b", "-1.000002 * a + b", "0.999995 * a - b", "a - 0.9999999 * b", "1.0000000001 * a", "a + 0.00001 * b", "(a + b) * 1.000004"] {
            out.push(format!("min a\ns.t.\n    {} <= 3\n    a + b + c >= -4\n{}", e, decl));
            out.push(format!("min {}\ns.t.\n    a + b + c >= -4\n    a - b <= 2\n{}", e, decl));
            out.push(format!("max {} + 7\ns.t.\n    r1: a + b + c <= 4\n    r1: {} >= -30\n    a - c >= -6\n{}", e, e, decl));
        }
        let bdecl = "define\n    p, q, r as Boolean";
        for e in ["(p and q) + r >= 1", "p + (q or r) <= 1", "(p implies q) + (q iff r) >= 1", "not p + q >= 1", "(p xor q) - r = 0", "2 * (p and q) <= r + 1"] {
            out.push(format!("max p + q + r\ns.t.\n    {}\n{}", e, bdecl));
        }
        for e in ["p and q", "p or q and r", "(p or q) and r", "not p", "not (p and q)", "p implies q", "(p implies q) implies r", "p implies (q implies r)", "p iff q", "p xor q", "(p xor q) xor r", "not (p implies q)", "p and (q or r)", "(p iff q) or r"] {
            out.push(format!("solve\ns.t.\n    {}\n{}", e, bdecl));
            out.push(format!("max p + q + r\ns.t.\n    named: {}\n    p + q + r >= 1\n{}", e, bdecl));
        }
        out.push("min sum(i in 0..n) { x_i * (i + 1) }\ns.t.\n    row_i: x_i - (k - i) >= 0 for i in 0..n\nwhere\n    let n = 3\n    let k = 2\ndefine\n    x_i as NonNegativeReal for i in 0..n".to_string());
        out.push("max sum((v, i) in enumerate(vals)) { v * x_i }\ns.t.\n    sum((w, i) in enumerate(ws)) { w * x_i } <= cap\nwhere\n    let ws = [10, 60, 30]\n    let vals = [1, 10, 15]\n    let cap = 62\ndefine\n    x_i as Boolean for i in 0..len(ws)".to_string());
        out.push("min a - (b - c)\ns.t.\n    c1: a - (b + c) >= -3\n    c1: a / (2 * 4) <= 1\ndefine\n    a as Real\n    b as IntegerRange(-2, 3)\n    c as NonNegativeReal(0, 4)".to_string());
        out.push("min abs{ a - k } + z\ns.t.\n    z >= a - 2\n    z >= -a\n    k <= 3\ndefine\n    a as Real(-10, 10)\n    k as IntegerRange(0, 5)\n    z as NonNegativeReal".to_string());
        // every declaration shape, several variables per shape (the renderer groups variables by their printed kind)
        out.push("min x + y + u + v + w + t\ns.t.\n    r1: x + y + u >= 1\n    r2: v + w + t <= 40\ndefine\n    x as NonNegativeReal(2, Infinity)\n    y as NonNegativeReal\n    u as NonNegativeReal(0.5, 8)\n    v as Real(2, Infinity)\n    w as Real(-Infinity, 3)\n    t as Real".to_string());
        out.push("max x - y\ns.t.\n    x - y <= 7\n    x + y >= -50\ndefine\n    x, y as NonNegativeReal(1.5, Infinity)".to_string());
        out.push("max p + i + j\ns.t.\n    p + i + j <= 9\ndefine\n    p as Boolean\n    i as IntegerRange(-3, 3)\n    j as IntegerRange(0, 1)".to_string());
        out
    }
    #[test]
    fn search() {
        let (mut cases, mut fails) = (0u64, 0u32);
        let mut distinct: std::collections::HashSet<String> = std::collections::HashSet::new();
        let esc = |s: &str| s.replace('\\', "\\\\").replace('"', "'").replace('\n', "\\n").replace('\t', " ");
        for src in corpus() {
            let (model, lm) = match (to_model(&src), to_linear(&src)) { (Ok(m), Ok(l)) => (m, l), _ => continue };
            cases += 1;
            let want = lm.to_string();
            // non-trivial: the source compiles; distinct: by rendered linear model
            if distinct.insert(want.clone()) && distinct.len() % 25 == 1 {
                println!("WITNESS-SAMPLE {{\"source\": \"{}\", \"linear_model\": \"{}\"}}", src.replace('\\', "\\\\").replace('"', "'").replace('\n', "\\n"), want.replace('\\', "\\\\").replace('"', "'").replace('\n', "\\n"));
            }
            let mut report = |fn_: &str, clause: &str, text: &str, detail: String| {
                if fails < 60 { println!("WITNESS-FAIL {{\"fn\": \"{}\", \"clause\": \"{}\", \"source\": \"{}\", \"rendered\": \"{}\", \"detail\": \"{}\"}}", fn_, clause, esc(&src), esc(text), esc(&detail)); }
                fails += 1;
            };
            // (1) the compiled (non-linear) model
            let mtext = model.to_string();
            match to_linear(&mtext) {
                Err(e) => report("Display for Model", "the rendering of a compiled model is accepted and compiles", &mtext, e),
                Ok(l2) => if let Err(d) = same_model(&lm, &l2) { report("Display for Model", "the rendering of a compiled model compiles to the same linear model", &mtext, d); },
            }
            // (2) the linear model
            match to_linear(&want) {
                Err(e) => report("Display for LinearModel", "the rendering of a linear model is accepted and compiles", &want, e),
                Ok(l3) => {
                    if let Err(d) = same_model(&lm, &l3) { report("Display for LinearModel", "the rendering of a linear model compiles to the same linear model", &want, d); }
                    // fixed point: rendering the recompiled model and compiling that text changes nothing any more
                    let t3 = l3.to_string();
                    match to_linear(&t3) { Ok(l4) => if l4.to_string() != t3 { report("Display for LinearModel", "rendering a compiled linear model, compiling the text and rendering again gives the same text", &t3, l4.to_string()); },
                                           Err(e) => report("Display for LinearModel", "the rendering of a linear model is accepted and compiles", &t3, e) }
                }
            }
        }
        println!("WITNESS-DONE cases={} distinct={}", cases, distinct.len());
    }
