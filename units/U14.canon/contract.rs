//@ C05 / C14 — the direct start: rows scaled by their singleton entries, objective row brought into canonical form.
@fn StandardLinearModel::a_matrix -> r
    ensures r@.len() == self.constraints@.len(), forall|i: int| 0 <= i < r@.len() ==> (#[trigger] r@[i])@ == self.constraints@[i].coefficients@,
@fn StandardLinearModel::a_matrix @lettype vx_out1
    Vec<Vec<F64>>
@fn StandardLinearModel::a_matrix @loop 1
    invariant vx_n1 == self.constraints@.len(), vx_out1@.len() == vx_i1, forall|i: int| 0 <= i < vx_i1 ==> (#[trigger] vx_out1@[i])@ == self.constraints@[i].coefficients@,
@fn StandardLinearModel::b_vec -> r
    ensures r@.len() == self.constraints@.len(), forall|i: int| 0 <= i < r@.len() ==> #[trigger] r@[i] == self.constraints@[i].rhs,
@fn StandardLinearModel::b_vec @lettype vx_out1
    Vec<F64>
@fn StandardLinearModel::b_vec @loop 1
    invariant vx_n1 == self.constraints@.len(), vx_out1@.len() == vx_i1, forall|i: int| 0 <= i < vx_i1 ==> #[trigger] vx_out1@[i] == self.constraints@[i].rhs,
@fn StandardLinearModel::c_vec -> r
    ensures r@ == self.objective@,
@fn divide_matrix_row_by
    requires row < old(matrix)@.len(), fin_seq(old(matrix)@[row as int]@), fv(value) is Fin, rv(value) != 0real,
    ensures final(matrix)@.len() == old(matrix)@.len(),
        forall|i: int| 0 <= i < old(matrix)@.len() && i != row ==> #[trigger] final(matrix)@[i] == old(matrix)@[i],
        final(matrix)@[row as int]@.len() == old(matrix)@[row as int]@.len(), fin_seq(final(matrix)@[row as int]@),
        forall|j: int| 0 <= j < old(matrix)@[row as int]@.len() ==> rv(#[trigger] final(matrix)@[row as int]@[j]) == rv(old(matrix)@[row as int]@[j]) / rv(value),
@fn divide_matrix_row_by @entry
    let ghost m0 = matrix@;
@fn divide_matrix_row_by @loop 1
    invariant vx_n1 == m0[row as int]@.len(), row < m0.len(), matrix@.len() == m0.len(), m0 == old(matrix)@, fin_seq(m0[row as int]@), fv(value) is Fin, rv(value) != 0real,
        forall|k: int| 0 <= k < m0.len() && k != row ==> #[trigger] matrix@[k] == m0[k],
        matrix@[row as int]@.len() == m0[row as int]@.len(),
        forall|j: int| 0 <= j < i ==> fv(#[trigger] matrix@[row as int]@[j]) is Fin && rv(matrix@[row as int]@[j]) == rv(m0[row as int]@[j]) / rv(value),
        forall|j: int| i <= j < vx_n1 ==> #[trigger] matrix@[row as int]@[j] == m0[row as int]@[j],
@fn divide_matrix_row_by @end
    proof { assert forall|j: int| 0 <= j < matrix@[row as int]@.len() implies fv(#[trigger] matrix@[row as int]@[j]) is Fin by {} }
@fn canonical_start -> r
    requires ({
        let n = model.objective@.len() as int;
        &&& fin_seq(model.objective@)
        &&& forall|i: int| 0 <= i < model.constraints@.len() ==> (#[trigger] model.constraints@[i]).coefficients@.len() == n && fin_seq(model.constraints@[i].coefficients@) && fv(model.constraints@[i].rhs) is Fin
        &&& forall|k: int| 0 <= k < selected_vars@.len() ==> (#[trigger] selected_vars@[k]).row < model.constraints@.len() && selected_vars@[k].column < n
                && fv(selected_vars@[k].value) is Fin && rv(selected_vars@[k].value) != 0real
    }),
    ensures ({
        let n = model.objective@.len() as int;
        let m = model.constraints@.len() as int;
        &&& r.0@.len() == m && rect(r.0@, n) && fin_mat(r.0@) && r.1@.len() == m && fin_seq(r.1@) && r.2@.len() == n && fin_seq(r.2@) && fv(r.3) is Fin
        // scaling rows keeps the solution set of the model's system
        &&& forall|x: Seq<real>| x.len() == n ==> (#[trigger] sat(r.0@, r.1@, x) <==> model_sat(*model, x))
        // on it, the canonical objective row minus the recorded value is the model's objective row
        &&& forall|x: Seq<real>| x.len() == n && #[trigger] model_sat(*model, x) ==> obj(r.2@, r.3, x) == dot(rvs(model.objective@), x)
    }),
@fn canonical_start @entry
    let ghost n = model.objective@.len() as int;
    let ghost m = model.constraints@.len() as int;
    let ghost c0 = model.objective@;
@fn canonical_start @after "let mut value"
    proof {
        assert forall|x: Seq<real>| x.len() == n implies (#[trigger] sat(a@, b@, x) <==> model_sat(*model, x)) by {
            if sat(a@, b@, x) { assert forall|i: int| 0 <= i < m implies dot(rvs((#[trigger] model.constraints@[i]).coefficients@), x) == rv(model.constraints@[i].rhs) by { assert(dot(rvs(a@[i]@), x) == rv(b@[i])); } }
            if model_sat(*model, x) { assert forall|i: int| 0 <= i < a@.len() implies dot(rvs((#[trigger] a@[i])@), x) == rv(b@[i]) by { assert(dot(rvs(model.constraints@[i].coefficients@), x) == rv(model.constraints@[i].rhs)); } }
        }
        assert(fin_mat(a@)) by { assert forall|i: int| 0 <= i < a@.len() implies fin_seq((#[trigger] a@[i])@) by { assert(fin_seq(model.constraints@[i].coefficients@)); } }
        assert(fin_seq(b@)) by { assert forall|i: int| 0 <= i < b@.len() implies fv(#[trigger] b@[i]) is Fin by { assert(fv(model.constraints@[i].rhs) is Fin); } }
        assert(rect(a@, n)) by { assert forall|i: int| 0 <= i < a@.len() implies (#[trigger] a@[i]).len() == n by { assert(model.constraints@[i].coefficients@.len() == n); } }
    }
@fn canonical_start @loop 1
    invariant vx_n1 == vx_v1@.len(), vx_v1@ == selected_vars@, n == c0.len(), c0 == model.objective@, m == model.constraints@.len(),
        forall|k: int| 0 <= k < selected_vars@.len() ==> (#[trigger] selected_vars@[k]).row < m && selected_vars@[k].column < n
            && fv(selected_vars@[k].value) is Fin && rv(selected_vars@[k].value) != 0real,
        a@.len() == m, rect(a@, n), fin_mat(a@), b@.len() == m, fin_seq(b@), c@.len() == n, fin_seq(c@), fv(value) is Fin,
        forall|x: Seq<real>| x.len() == n ==> (#[trigger] sat(a@, b@, x) <==> model_sat(*model, x)),
        forall|x: Seq<real>| x.len() == n && #[trigger] model_sat(*model, x) ==> obj(c@, value, x) == dot(rvs(c0), x),
@fn canonical_start @after "let independent_variable"
    let ghost a1 = a@;
    let ghost b1 = b@;
    let ghost rw = independent_variable.row as int;
    let ghost p = rv(independent_variable.value);
    proof { assert(*independent_variable == selected_vars@[vx_i1 as int]); assert(fin_seq(a1[rw]@)); assert(a1[rw].len() == n); assert(fv(b1[rw]) is Fin); }
@fn canonical_start @after "let amount"
    let ghost a2 = a@;
    let ghost b2 = b@;
    let ghost c1 = c@;
    let ghost v1 = value;
    let ghost row = a@[rw]@;
    proof {
        assert(fin_mat(a2)) by { assert forall|i: int| 0 <= i < a2.len() implies fin_seq((#[trigger] a2[i])@) by { if i != rw { assert(a2[i] == a1[i]); assert(fin_seq(a1[i]@)); } } }
        assert(rect(a2, n)) by { assert forall|i: int| 0 <= i < a2.len() implies (#[trigger] a2[i]).len() == n by { if i != rw { assert(a2[i] == a1[i]); assert(a1[i].len() == n); } } }
        assert(fin_seq(b2)) by { assert forall|i: int| 0 <= i < b2.len() implies fv(#[trigger] b2[i]) is Fin by { if i != rw { assert(b2[i] == b1[i]); } } }
        // scaling row rw by p != 0 keeps the solution set
        assert forall|x: Seq<real>| x.len() == n implies (#[trigger] sat(a2, b2, x) <==> sat(a1, b1, x)) by {
            lemma_dot_scale(rvs(a1[rw]@), p, x, rvs(a2[rw]@));
            let d = dot(rvs(a1[rw]@), x); let e = rv(b1[rw]);
            assert(rv(b2[rw]) == e / p);
            assert((d / p == e / p) <==> (d == e)) by (nonlinear_arith) requires p != 0real;
            if sat(a2, b2, x) { assert forall|i: int| 0 <= i < a1.len() implies dot(rvs((#[trigger] a1[i])@), x) == rv(b1[i]) by { assert(dot(rvs(a2[i]@), x) == rv(b2[i])); if i != rw { assert(a2[i] == a1[i]); } } }
            if sat(a1, b1, x) { assert forall|i: int| 0 <= i < a2.len() implies dot(rvs((#[trigger] a2[i])@), x) == rv(b2[i]) by { assert(dot(rvs(a1[i]@), x) == rv(b1[i])); if i != rw { assert(a2[i] == a1[i]); } } }
        }
        assert(fv(c1[independent_variable.column as int]) is Fin);
    }
@fn canonical_start @loop 2
    invariant vx_n2 == n, a@ == a2, rw == independent_variable.row, rw < a2.len(), row == a2[rw]@, row.len() == n, fin_seq(row), c@.len() == n, c1.len() == n, fin_seq(c1), fv(amount) is Fin,
        forall|j: int| 0 <= j < vx_i2 ==> fv(#[trigger] c@[j]) is Fin && rv(c@[j]) == rv(c1[j]) - rv(amount) * rv(row[j]),
        forall|j: int| vx_i2 <= j < n ==> #[trigger] c@[j] == c1[j],
@fn canonical_start @after "let coefficient"
    proof { assert(fv(row[vx_i2 as int]) is Fin); assert(*coefficient == row[vx_i2 as int]); }
@fn canonical_start @after "value = value"
    proof {
        assert(fv(b2[rw]) is Fin);
        assert(fin_seq(c@)) by { assert forall|j: int| 0 <= j < c@.len() implies fv(#[trigger] c@[j]) is Fin by {} }
        assert forall|x: Seq<real>| x.len() == n && #[trigger] model_sat(*model, x) implies obj(c@, value, x) == dot(rvs(c0), x) by {
            assert(sat(a1, b1, x)); assert(sat(a2, b2, x));
            lemma_dot_comb(rvs(c1), rvs(row), rv(amount), x, rvs(c@));
            assert(dot(rvs(a2[rw]@), x) == rv(b2[rw]));
            assert(obj(c1, v1, x) == dot(rvs(c0), x));
            let f = rv(amount); let d = rv(b2[rw]);
            assert(rv(value) == rv(v1) - f * d);
        }
    }
@raw
// x solves the model's equality system
pub open spec fn model_sat(model: StandardLinearModel, x: Seq<real>) -> bool {
    forall|i: int| 0 <= i < model.constraints@.len() ==> dot(rvs((#[trigger] model.constraints@[i]).coefficients@), x) == rv(model.constraints@[i].rhs)
}
