//@ C07 — every interval operation encloses the exact real result and never yields NaN.
//@ Postconditions are taken from the property ("every range the compiler derives for a
//@ sub-expression contains that sub-expression's value"), not from the code.
@fn Bounds::UNBOUNDED -> r
    ensures fv(r.lower) is NegInf, fv(r.upper) is PosInf,
@fn Bounds::new -> r
    ensures r.lower == lower, r.upper == upper,
@fn Bounds::singleton -> r
    ensures r.lower == value, r.upper == value,
@fn Bounds::from_variable_type -> r
    requires vt_wf(*variable_type),
    ensures wf(r), forall|x: real| in_domain(*variable_type, x) ==> contains(r, x),
@fn Bounds::intersection -> r
    requires wf(self), wf(other), finite(tolerance), rv(tolerance) >= 0real,
    ensures
        r matches Some(b) ==> wf(b) && forall|x: real| contains(self, x) && contains(other, x) ==> contains(b, x),
        r is None ==> forall|x: real| !(contains(self, x) && contains(other, x)),
@fn Bounds::add -> r
    requires wf(self), wf(other),
    ensures wf(r), forall|x: real, y: real| contains(self, x) && contains(other, y) ==> contains(r, x + y),
@fn Bounds::sub -> r
    requires wf(self), wf(other),
    ensures wf(r), forall|x: real, y: real| contains(self, x) && contains(other, y) ==> contains(r, x - y),
@fn Bounds::neg -> r
    requires wf(self),
    ensures wf(r), forall|x: real| contains(self, x) ==> contains(r, -x),
@fn Bounds::scale -> r
    requires wf(self), finite(coefficient),
    ensures wf(r), forall|x: real| #![trigger contains(self, x)] #![trigger contains(r, rmul(x, rv(coefficient)))] contains(self, x) ==> contains(r, rmul(x, rv(coefficient))),
@fn Bounds::scale @entry
    proof { lemma_mul_mono(self, coefficient); }
@fn Bounds::div_by -> r
    requires wf(self), finite(divisor),
    ensures wf(r), rv(divisor) != 0real ==> forall|x: real| contains(self, x) ==> contains(r, rdiv(x, rv(divisor))),
@fn Bounds::div_by @entry
    proof { lemma_div_is_mul(rv(divisor)); }
@fn Bounds::abs -> r
    requires wf(self),
    ensures wf(r), forall|x: real| contains(self, x) ==> contains(r, rabs(x)),
@fn lower_sum -> r
    ensures !(fv(r) is NaN), ext_add(fv(lhs), fv(rhs)) is NaN ==> fv(r) is NegInf, !(ext_add(fv(lhs), fv(rhs)) is NaN) ==> fv(r) == ext_add(fv(lhs), fv(rhs)),
@fn upper_sum -> r
    ensures !(fv(r) is NaN), ext_add(fv(lhs), fv(rhs)) is NaN ==> fv(r) is PosInf, !(ext_add(fv(lhs), fv(rhs)) is NaN) ==> fv(r) == ext_add(fv(lhs), fv(rhs)),
@fn required_bounds -> r
    ensures wf(r),
        forall|d: real| contains(r, d) <==> (match comparison {
            Comparison::LessOrEqual | Comparison::Less => d <= 0real,
            Comparison::GreaterOrEqual | Comparison::Greater => d >= 0real,
            Comparison::Equal => d == 0real,
        }),
@raw
// Ghost lemmas: pure facts about real arithmetic on ghost values, with no hypothesis about what
// the code computed (so a harmless re-arrangement of the code cannot fail a lemma precondition).
pub proof fn lemma_mul_mono(b: Bounds, c: F64)
    requires wf(b), finite(c),
    ensures forall|x: real| #[trigger] contains(b, x) ==> {
        let k = rv(c);
        &&& (k > 0real ==> ext_le(ext_mul(fv(b.lower), fv(c)), Ext::Fin(rmul(x, k))) && ext_le(Ext::Fin(rmul(x, k)), ext_mul(fv(b.upper), fv(c))))
        &&& (k < 0real ==> ext_le(ext_mul(fv(b.upper), fv(c)), Ext::Fin(rmul(x, k))) && ext_le(Ext::Fin(rmul(x, k)), ext_mul(fv(b.lower), fv(c))))
        &&& (k == 0real ==> rmul(x, k) == 0real)
    },
{
    reveal(rmul_s); reveal(rdiv_s);
    let k = rv(c);
    assert forall|x: real| #[trigger] contains(b, x) implies ({
        &&& (k > 0real ==> ext_le(ext_mul(fv(b.lower), fv(c)), Ext::Fin(rmul(x, k))) && ext_le(Ext::Fin(rmul(x, k)), ext_mul(fv(b.upper), fv(c))))
        &&& (k < 0real ==> ext_le(ext_mul(fv(b.upper), fv(c)), Ext::Fin(rmul(x, k))) && ext_le(Ext::Fin(rmul(x, k)), ext_mul(fv(b.lower), fv(c))))
        &&& (k == 0real ==> rmul(x, k) == 0real)
    }) by {
        assert(k == 0real ==> x * k == 0real) by (nonlinear_arith);
        if fv(b.lower) is Fin { let l = rv(b.lower);
            assert(l <= x && k > 0real ==> l * k <= x * k) by (nonlinear_arith);
            assert(l <= x && k < 0real ==> l * k >= x * k) by (nonlinear_arith); }
        if fv(b.upper) is Fin { let u = rv(b.upper);
            assert(x <= u && k > 0real ==> x * k <= u * k) by (nonlinear_arith);
            assert(x <= u && k < 0real ==> x * k >= u * k) by (nonlinear_arith); }
    }
}
pub proof fn lemma_div_is_mul(k: real)
    ensures k != 0real ==> forall|x: real| #[trigger] rmul(x, rdiv_s(1real, k)) == rdiv(x, k),
{
    reveal(rmul_s); reveal(rdiv_s);
    if k != 0real {
        assert forall|x: real| #[trigger] rmul(x, rdiv_s(1real, k)) == rdiv(x, k) by {
            assert(x * (1real / k) == x / k) by (nonlinear_arith) requires k != 0real;
        }
    }
}
