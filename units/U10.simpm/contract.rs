//@ C10 — "simplifying an expression never changes its value ... and a division by zero or by a non-constant is never rewritten away".
@fn Exp::to_box -> r
    ensures *r == self,
@fn num_truthy -> r
    ensures fv(value) is Fin ==> r == truthy(rv(value)),
@fn logic_number -> r
    ensures fv(r) == Ext::Fin(b2r(value)),
@fn simplify_logic_nary @assumed -> r
    ensures true,
//@ the guard of the zero-product rule; what it computes is proved in unit U10.div (nothing here depends on its value)
@fn Exp::has_unsafe_division @assumed -> r
    ensures true,
@fn Exp::simplify @attr
#[verifier::exec_allows_no_decreases_clause]
@fn Exp::simplify -> r
    ensures
        exp_fin(*self) ==> exp_fin(r),
        forall|env: Env| sem(*self, env) is Some ==> #[trigger] sem(r, env) == sem(*self, env),
@fn Exp::simplify @keep-arms
    Exp::Min
    Exp::Max
@fn Exp::simplify @entry
    proof { if exp_fin(*self) { lemma_exp_fin_list(*self); } }
@fn Exp::simplify @loop 1
    invariant
        vx_n9 == exps@.len(), vx_i9 <= vx_n9, vx_ok9 ==> vx_oc9@.len() == vx_i9,
        vx_ok9 ==> forall|k: int| 0 <= k < vx_i9 ==> (exp_fin(exps@[k]) ==> fv(#[trigger] vx_oc9@[k]) is Fin),
        vx_ok9 ==> forall|k: int, env: Env| 0 <= k < vx_i9 && sem(exps@[k], env) is Some ==> #[trigger] sem(exps@[k], env) == Some(rv(vx_oc9@[k])) && fv(vx_oc9@[k]) is Fin,
    decreases vx_n9 - vx_i9,
@fn Exp::simplify @loop 1 @start
    let ghost oc0 = vx_oc9;
    let ghost i0 = vx_i9;
@fn Exp::simplify @loop 1 @end
    proof {
        if vx_ok9 {
            assert forall|k: int| 0 <= k < vx_i9 implies (exp_fin(exps@[k]) ==> fv(#[trigger] vx_oc9@[k]) is Fin) by { if k < i0 { assert(vx_oc9@[k] == oc0@[k]); } else { lemma_exp_fin(Exp::Number(vx_oc9@[k])); } }
            assert forall|k: int, env: Env| 0 <= k < vx_i9 && sem(exps@[k], env) is Some implies #[trigger] sem(exps@[k], env) == Some(rv(vx_oc9@[k])) && fv(vx_oc9@[k]) is Fin by {
                if k < i0 { assert(vx_oc9@[k] == oc0@[k]); } else { assert(sem(Exp::Number(vx_oc9@[k]), env) == sem(exps@[k], env)); }
            }
        }
    }
@fn Exp::simplify @loop 2
    invariant
        vx_n10 == nums@.len(),
        (forall|k: int| 0 <= k < nums@.len() ==> fv(#[trigger] nums@[k]) is Fin) ==> (if vx_i10 == 0 { fv(vx_acc10) is NegInf } else { fv(vx_acc10) == Ext::Fin(vfold(nums@, false, vx_i10 as int)) }),
@fn Exp::simplify @loop 3
    invariant
        vx_n11 == exps@.len(), vx_out11@.len() == vx_i11,
        forall|k: int| 0 <= k < vx_i11 ==> (exp_fin(exps@[k]) ==> exp_fin(#[trigger] vx_out11@[k])),
        forall|k: int, env: Env| 0 <= k < vx_i11 && sem(exps@[k], env) is Some ==> #[trigger] sem(vx_out11@[k], env) == sem(exps@[k], env),
@fn Exp::simplify @tail 10
    proof {
        let n = exps@.len() as int;
        lemma_exp_fin(r__);
        assert(nums@ == vx_oc9@);
        assert forall|env: Env| sem(*self, env) is Some implies #[trigger] sem(r__, env) == sem(*self, env) by {
            assert(sem(*self, env) == sem_fold(exps@, env, false, n));
            assert forall|k: int| 0 <= k < n implies sem(#[trigger] exps@[k], env) == Some(rv(nums@[k])) && fv(nums@[k]) is Fin by { lemma_sfold_prefix(exps@, env, false, n, k + 1); }
            lemma_sfold_consts(exps@, nums@, env, false, n);
        }
    }
@fn Exp::simplify @tail 11
    proof {
        let n = exps@.len() as int;
        if exp_fin(*self) { lemma_exp_fin_list_intro(r__); }
        assert forall|env: Env| sem(*self, env) is Some implies #[trigger] sem(r__, env) == sem(*self, env) by {
            assert(sem(*self, env) == sem_fold(exps@, env, false, n));
            assert(sem(r__, env) == sem_fold(r__->Max_0@, env, false, n));
            lemma_sfold_agree(r__->Max_0@, exps@, env, false, n);
        }
    }
@fn Exp::simplify @loop 4
    invariant
        vx_n12 == exps@.len(), vx_i12 <= vx_n12, vx_ok12 ==> vx_oc12@.len() == vx_i12,
        vx_ok12 ==> forall|k: int| 0 <= k < vx_i12 ==> (exp_fin(exps@[k]) ==> fv(#[trigger] vx_oc12@[k]) is Fin),
        vx_ok12 ==> forall|k: int, env: Env| 0 <= k < vx_i12 && sem(exps@[k], env) is Some ==> #[trigger] sem(exps@[k], env) == Some(rv(vx_oc12@[k])) && fv(vx_oc12@[k]) is Fin,
    decreases vx_n12 - vx_i12,
@fn Exp::simplify @loop 4 @start
    let ghost oc0 = vx_oc12;
    let ghost i0 = vx_i12;
@fn Exp::simplify @loop 4 @end
    proof {
        if vx_ok12 {
            assert forall|k: int| 0 <= k < vx_i12 implies (exp_fin(exps@[k]) ==> fv(#[trigger] vx_oc12@[k]) is Fin) by { if k < i0 { assert(vx_oc12@[k] == oc0@[k]); } else { lemma_exp_fin(Exp::Number(vx_oc12@[k])); } }
            assert forall|k: int, env: Env| 0 <= k < vx_i12 && sem(exps@[k], env) is Some implies #[trigger] sem(exps@[k], env) == Some(rv(vx_oc12@[k])) && fv(vx_oc12@[k]) is Fin by {
                if k < i0 { assert(vx_oc12@[k] == oc0@[k]); } else { assert(sem(Exp::Number(vx_oc12@[k]), env) == sem(exps@[k], env)); }
            }
        }
    }
@fn Exp::simplify @loop 5
    invariant
        vx_n13 == nums@.len(),
        (forall|k: int| 0 <= k < nums@.len() ==> fv(#[trigger] nums@[k]) is Fin) ==> (if vx_i13 == 0 { fv(vx_acc13) is PosInf } else { fv(vx_acc13) == Ext::Fin(vfold(nums@, true, vx_i13 as int)) }),
@fn Exp::simplify @loop 6
    invariant
        vx_n14 == exps@.len(), vx_out14@.len() == vx_i14,
        forall|k: int| 0 <= k < vx_i14 ==> (exp_fin(exps@[k]) ==> exp_fin(#[trigger] vx_out14@[k])),
        forall|k: int, env: Env| 0 <= k < vx_i14 && sem(exps@[k], env) is Some ==> #[trigger] sem(vx_out14@[k], env) == sem(exps@[k], env),
@fn Exp::simplify @tail 12
    proof {
        let n = exps@.len() as int;
        lemma_exp_fin(r__);
        assert(nums@ == vx_oc12@);
        assert forall|env: Env| sem(*self, env) is Some implies #[trigger] sem(r__, env) == sem(*self, env) by {
            assert(sem(*self, env) == sem_fold(exps@, env, true, n));
            assert forall|k: int| 0 <= k < n implies sem(#[trigger] exps@[k], env) == Some(rv(nums@[k])) && fv(nums@[k]) is Fin by { lemma_sfold_prefix(exps@, env, true, n, k + 1); }
            lemma_sfold_consts(exps@, nums@, env, true, n);
        }
    }
@fn Exp::simplify @tail 13
    proof {
        let n = exps@.len() as int;
        if exp_fin(*self) { lemma_exp_fin_list_intro(r__); }
        assert forall|env: Env| sem(*self, env) is Some implies #[trigger] sem(r__, env) == sem(*self, env) by {
            assert(sem(*self, env) == sem_fold(exps@, env, true, n));
            assert(sem(r__, env) == sem_fold(r__->Min_0@, env, true, n));
            lemma_sfold_agree(r__->Min_0@, exps@, env, true, n);
        }
    }
@fn Exp::simplify @return 1
    proof {
        lemma_exp_fin_list_intro(r__);
        assert forall|env: Env| sem(*self, env) is Some implies #[trigger] sem(r__, env) == sem(*self, env) by { assert(sem(*self, env) == sem_fold(exps@, env, false, 0)); }
    }
@fn Exp::simplify @return 2
    proof {
        lemma_exp_fin_list_intro(r__);
        assert forall|env: Env| sem(*self, env) is Some implies #[trigger] sem(r__, env) == sem(*self, env) by { assert(sem(*self, env) == sem_fold(exps@, env, true, 0)); }
    }
