//@ C01 — soundness of logic assertions: "nothing infeasible is let in".
@fn lower_logic_assertion @attr
#[verifier::exec_allows_no_decreases_clause]
@fn lower_logic_assertion -> res
    requires exp_fin(*exp), lz_inv(*old(linearizer_context)),
    ensures
        lz_inv(*final(linearizer_context)), lz_ext(*old(linearizer_context), *final(linearizer_context)),
        res is Ok ==> forall|env: Env| #[trigger] lz_ok(*final(linearizer_context), env) ==> (sem(*exp, env) matches Some(v) ==> truthy(v) == must_be_true),
@fn lower_logic_assertion @keep-arms
    Exp::Implies
    Exp::Iff
    Exp::Xor
    Exp::Variable
@fn lower_logic_assertion @entry
    let ghost c0 = *linearizer_context;
    proof { lemma_exp_fin(*exp); lemma_exp_fin_list(*exp); }
@fn lower_logic_assertion @after "let vx_a2"
    proof { lemma_exp_fin(vx_a1); lemma_exp_fin(vx_a2); }
@fn lower_logic_assertion @after "let vx_a15"
    proof { broadcast use wit_b; lemma_exp_fin(vx_a15); }
@fn lower_logic_assertion @tail 4
    proof {
        broadcast use wit_b;
        if r__ is Ok { lemma_assert_implies_sum(*linearizer_context, exp->Implies_0, exp->Implies_1, witnesses@, vx_a14); }
    }
@fn lower_logic_assertion @tail 5
    proof {
        broadcast use wit_b;
        if r__ is Ok { lemma_assert_implies_false(*linearizer_context, exp->Implies_0, exp->Implies_1); }
    }
@fn lower_logic_assertion @after "let operands" #1
    let ghost c1 = *linearizer_context;
    proof { assert(vx_a17@[0] == *exp->Iff_0 && vx_a17@[1] == *exp->Iff_1); }
@fn lower_logic_assertion @after "let vx_a22"
    proof { broadcast use lemma_sem_binop; lemma_exp_fin(vx_a21); lemma_exp_fin(vx_a22); }
@fn lower_logic_assertion @tail 6
    proof { if r__ is Ok { lemma_assert_iff(*linearizer_context, exp->Iff_0, exp->Iff_1, operands@[0], operands@[1], true); } }
@fn lower_logic_assertion @tail 7
    proof { broadcast use lemma_sem_binop; if r__ is Ok { lemma_assert_iff(*linearizer_context, exp->Iff_0, exp->Iff_1, operands@[0], operands@[1], false); } }
@fn lower_logic_assertion @after "let operands" #2
    let ghost c1 = *linearizer_context;
    proof { assert(vx_a24@[0] == *exp->Xor_0 && vx_a24@[1] == *exp->Xor_1); }
@fn lower_logic_assertion @after "let vx_a26"
    proof { broadcast use lemma_sem_binop; lemma_exp_fin(vx_a25); lemma_exp_fin(vx_a26); }
@fn lower_logic_assertion @tail 8
    proof { broadcast use lemma_sem_binop; if r__ is Ok { lemma_assert_iff(*linearizer_context, exp->Xor_0, exp->Xor_1, operands@[0], operands@[1], false); } }
@fn lower_logic_assertion @tail 9
    proof { if r__ is Ok { lemma_assert_iff(*linearizer_context, exp->Xor_0, exp->Xor_1, operands@[0], operands@[1], true); } }
@fn lower_logic_assertion @after "let vx_a32"
    proof { lemma_exp_fin(vx_a32); }
