//@ C01 — soundness of the single-row lowering of logic assertions over recognised 0/1-valued affine operands.
@fn try_lower_affine_logic_assertion @attr
#[verifier::exec_allows_no_decreases_clause]
@fn try_lower_affine_logic_assertion -> res
    requires exp_fin(*exp), lz_inv(*old(linearizer_context)),
    ensures
        lz_inv(*final(linearizer_context)), lz_ext(*old(linearizer_context), *final(linearizer_context)),
        res matches Ok(true) ==> asserted(*final(linearizer_context), *exp, must_be_true),
@fn try_lower_affine_logic_assertion @keep-arms
    Exp::Not
    Exp::Implies
    Exp::Iff
    Exp::Xor
    Exp::Number
    Exp::UnOp
    Exp::BinOp
    Exp::Abs
@fn try_lower_affine_logic_assertion @entry
    let ghost c0 = *linearizer_context;
    proof { lemma_exp_fin(*exp); }
@fn try_lower_affine_logic_assertion @tail 1
    proof { if r__ matches Ok(true) { lemma_assert_not(*linearizer_context, exp->Not_0, must_be_true); } }
@fn try_lower_affine_logic_assertion @tail 8
    proof { if r__ matches Ok(true) { lemma_assert_not(*linearizer_context, exp->UnOp_1, must_be_true); } }
@fn try_lower_affine_logic_assertion @after "let rhs" #1
    let ghost el = lhs;
    let ghost er = rhs;
@fn try_lower_affine_logic_assertion @after "let (constraint_lhs"
    proof { broadcast use lemma_sem_binop; lemma_exp_fin(constraint_lhs); lemma_exp_fin(constraint_rhs); }
@fn try_lower_affine_logic_assertion @tail 4
    proof { broadcast use lemma_sem_binop; lemma_assert_implies_vals(*linearizer_context, exp->Implies_0, exp->Implies_1, el, er, must_be_true); }
@fn try_lower_affine_logic_assertion @after "let rhs" #2
    let ghost el = lhs;
    let ghost er = rhs;
@fn try_lower_affine_logic_assertion @after "let vx_a12"
    proof { broadcast use lemma_sem_binop; lemma_exp_fin(vx_a11); lemma_exp_fin(vx_a12); }
@fn try_lower_affine_logic_assertion @tail 5
    proof { broadcast use lemma_sem_binop; lemma_assert_iff(*linearizer_context, exp->Iff_0, exp->Iff_1, el, er, must_be_true); }
@fn try_lower_affine_logic_assertion @after "let rhs" #3
    let ghost el = lhs;
    let ghost er = rhs;
@fn try_lower_affine_logic_assertion @after "let vx_a15"
    proof { broadcast use lemma_sem_binop; lemma_exp_fin(vx_a14); lemma_exp_fin(vx_a15); }
@fn try_lower_affine_logic_assertion @tail 6
    proof { broadcast use lemma_sem_binop; lemma_assert_iff(*linearizer_context, exp->Xor_0, exp->Xor_1, el, er, !must_be_true); }
@fn try_lower_affine_logic_assertion @after "let vx_a18"
    proof { lemma_exp_fin(vx_a18); }
@fn try_lower_affine_logic_assertion @tail 7
    proof { lemma_assert_val(*linearizer_context, *exp, vx_a17, must_be_true); }
