//@ C16 — "the same model expressed through the fluent builder ... compiles to equivalent linear models": the builder hands the
//@ rest of the pipeline a name-based model whose constraints mean, assignment by assignment, what the builder's constraints mean;
//@ "declared-but-unused builder variables still resolve": every declared variable is marked used.
@fn Constraint::new_logic_assertion -> r
    ensures r.lhs == lhs, r.name == name, r.is_logic_assertion, r.constraint_type == Comparison::Equal,
@fn Objective::new -> r
    ensures r.objective_type == objective_type, r.rhs == rhs,
@fn Model::new -> r
    ensures r.objective == objective, r.constraints == constraints, r.domain == domain,
@fn BuilderConstraint::to_constraint -> r
    requires bc_ok(*self, names@.len() as int),
    ensures
        r.name == self.name,
        r.is_logic_assertion == self.is_logic_assertion,
        !self.is_logic_assertion ==> r.constraint_type == self.constraint_type,
        forall|env: Env| #[trigger] c_holds(r, env) == bc_holds(*self, ienv_of(env, names@)),
@fn ModelBuilder::into_model -> r
    requires
        mb_wf(self),
        forall|k: int| 0 <= k < self.constraints@.len() ==> bc_ok(#[trigger] self.constraints@[k], self.variable_names@.len() as int),
        self.objective matches Some(o) ==> idx_ok(o.1, self.variable_names@.len() as int),
        forall|key: Seq<char>| #[trigger] self.domain.has(key) ==> self.domain.map()[key].usage_count < usize::MAX,
    ensures
        r.constraints@.len() == self.constraints@.len(),
        forall|k: int| 0 <= k < self.constraints@.len() ==> (#[trigger] r.constraints@[k]).name == self.constraints@[k].name,
        forall|k: int, env: Env| 0 <= k < self.constraints@.len() ==> #[trigger] c_holds(r.constraints@[k], env) == bc_holds(self.constraints@[k], ienv_of(env, self.variable_names@)),
        r.objective.objective_type == (match self.objective { Some(o) => o.0, None => OptimizationType::Satisfy }),
        forall|env: Env| #[trigger] sem(r.objective.rhs, env) == (match self.objective { Some(o) => esem(o.1, ienv_of(env, self.variable_names@)), None => Some(0real) }),
        r.domain.wf(), r.domain.keys() == self.domain.keys(),
        forall|key: Seq<char>| #[trigger] self.domain.has(key) ==> r.domain.map()[key].as_type == self.domain.map()[key].as_type
            && r.domain.map()[key].usage_count == self.domain.map()[key].usage_count + 1,
@fn ModelBuilder::into_model @entry
    let ghost d0 = self.domain;
    let ghost cs0 = self.constraints;
    let ghost names = self.variable_names;
@fn ModelBuilder::into_model @loop 1
    invariant
        domain.wf(), domain.keys() == d0.keys(), vx_n1 == d0.keys().len(), d0.wf(),
        forall|key: Seq<char>| #[trigger] d0.has(key) ==> d0.map()[key].usage_count < usize::MAX,
        forall|j: int| 0 <= j < vx_i1 ==> domain.map()[#[trigger] d0.keys()[j]].as_type == d0.map()[d0.keys()[j]].as_type
            && domain.map()[d0.keys()[j]].usage_count == d0.map()[d0.keys()[j]].usage_count + 1,
        forall|j: int| vx_i1 <= j < d0.keys().len() ==> domain.map()[#[trigger] d0.keys()[j]] == d0.map()[d0.keys()[j]],
@fn ModelBuilder::into_model @loop 1 @start
    proof { assert(d0.keys().contains(d0.keys()[vx_i1 as int])); assert(d0.has(d0.keys()[vx_i1 as int])); }
@fn ModelBuilder::into_model @loop 2
    invariant
        vx_n2 == constraints@.len(), vx_out2@.len() == vx_i2, constraints == cs0, variable_names == names,
        forall|k: int| 0 <= k < cs0@.len() ==> bc_ok(#[trigger] cs0@[k], names@.len() as int),
        forall|k: int| 0 <= k < vx_i2 ==> (#[trigger] vx_out2@[k]).name == cs0@[k].name,
        forall|k: int, env: Env| 0 <= k < vx_i2 ==> #[trigger] c_holds(vx_out2@[k], env) == bc_holds(cs0@[k], ienv_of(env, names@)),
@fn ModelBuilder::into_model @tail
    proof {
        assert forall|key: Seq<char>| #[trigger] d0.has(key) implies r__.domain.map()[key].as_type == d0.map()[key].as_type
            && r__.domain.map()[key].usage_count == d0.map()[key].usage_count + 1 by {
            assert(d0.keys().contains(key));
            let j = choose|j: int| 0 <= j < d0.keys().len() && d0.keys()[j] == key;
            assert(d0.keys()[j] == key);
        }
    }
//@ the representation invariant is established by new and kept by add_var; a handle minted by add_var names exactly the
//@ variable just declared (its name is the last key of the domain and the last entry of variable_names)
@fn ModelBuilder::new -> r
    ensures mb_wf(r), r.variable_names@.len() == 0, r.constraints@.len() == 0, r.objective is None,
@fn ModelBuilder::add_var -> r
    requires mb_wf(*old(self)), old(self).variable_names@.len() < usize::MAX,
    ensures
        mb_wf(*final(self)),
        r.index == old(self).variable_names@.len(),
        final(self).variable_names@.len() == old(self).variable_names@.len() + 1,
        forall|i: int| 0 <= i < old(self).variable_names@.len() ==> #[trigger] final(self).variable_names@[i] == old(self).variable_names@[i],
        !old(self).domain.has(final(self).variable_names@[r.index as int]@),
        final(self).domain.map()[final(self).variable_names@[r.index as int]@].as_type == var_type,
        final(self).domain.map()[final(self).variable_names@[r.index as int]@].usage_count == 0,
        forall|key: Seq<char>| #[trigger] old(self).domain.has(key) ==> final(self).domain.map()[key] == old(self).domain.map()[key],
        final(self).constraints == old(self).constraints, final(self).objective == old(self).objective,
@fn ModelBuilder::with -> r
    ensures r.constraints@ == self.constraints@.push(constraint), r.variable_names == self.variable_names, r.domain == self.domain, r.objective == self.objective,
@fn ModelBuilder::satisfy -> r
    ensures r.constraints == self.constraints, r.variable_names == self.variable_names, r.domain == self.domain,
        r.objective matches Some(o) && o.0 == OptimizationType::Satisfy && esem(o.1, |i: int| 0real) == Some(0real),
@raw
impl InputSpan { #[verifier::external_body] pub fn default() -> (r: InputSpan) { unimplemented!() } }
