    // Executable form of C17 on the REAL LinearModel::to_lp_format, bounded corpus: an independent reader of the CPLEX-LP text (written here,
    // sharing no code with the exporter) must recover the model: sense, objective coefficients and constant, rows (coefficients, relation,
    // right-hand side, user-given names), bounds, binary / general markings; row names unique; a bounds entry for every non-default range.
    #[derive(Debug, Default)]
    struct Read { max: bool, obj: Vec<(String, f64)>, obj_const: f64, rows: Vec<(String, Vec<(String, f64)>, String, f64)>, bounds: Vec<(String, f64, f64)>, free: Vec<String>, binary: Vec<String>, general: Vec<String>, ended: bool }
    fn num(t: &str) -> Option<f64> { match t { "+infinity" | "infinity" | "+inf" | "inf" => Some(f64::INFINITY), "-infinity" | "-inf" => Some(f64::NEG_INFINITY), _ => t.parse::<f64>().ok() } }
    // a linear expression: [sign] [number] [name] ... ; returns terms and the constant
    fn expr(tokens: &[&str]) -> Result<(Vec<(String, f64)>, f64), String> {
        let (mut terms, mut constant, mut sign, mut coef): (Vec<(String, f64)>, f64, f64, Option<f64>) = (vec![], 0.0, 1.0, None);
        let mut i = 0;
        while i < tokens.len() {
            let t = tokens[i];
            if t == "+" { if let Some(c) = coef.take() { constant += sign * c; } sign = 1.0; }
            else if t == "-" { if let Some(c) = coef.take() { constant += sign * c; } sign = -1.0; }
            else if let Some(v) = t.parse::<f64>().ok() { if coef.is_some() { return Err(format!("two numbers in a row at '{}'", t)); } coef = Some(v); }
            else { terms.push((t.to_string(), sign * coef.take().unwrap_or(1.0))); sign = 1.0; }
            i += 1;
        }
        if let Some(c) = coef { constant += sign * c; }
        Ok((terms, constant))
    }
    fn read(text: &str) -> Result<Read, String> {
        let mut r = Read::default();
        let mut section = "";
        for line in text.lines() {
            let l = line.trim();
            if l.is_empty() { continue; }
            match l { "Maximize" => { r.max = true; section = "obj"; continue; } "Minimize" => { r.max = false; section = "obj"; continue; } "Subject To" => { section = "rows"; continue; }
                      "Bounds" => { section = "bounds"; continue; } "Binary" => { section = "bin"; continue; } "General" => { section = "gen"; continue; } "End" => { r.ended = true; section = "end"; continue; } _ => {} }
            let toks: Vec<&str> = l.split_whitespace().collect();
            match section {
                "obj" => { let body = if toks[0].ends_with(':') { &toks[1..] } else { &toks[..] }; let (t, c) = expr(body)?; r.obj.extend(t); r.obj_const += c; }
                "rows" => {
                    if !toks[0].ends_with(':') { return Err(format!("row without a name: {}", l)); }
                    let name = toks[0].trim_end_matches(':').to_string();
                    let k = toks.iter().position(|t| *t == "<=" || *t == ">=" || *t == "=").ok_or(format!("row without a relation: {}", l))?;
                    let (t, c) = expr(&toks[1..k])?;
                    let (rt, rc) = expr(&toks[k + 1..])?;
                    if !rt.is_empty() { return Err(format!("variables on the right-hand side: {}", l)); }
                    r.rows.push((name, t, toks[k].to_string(), rc - c));
                }
                "bounds" => {
                    if toks.len() == 2 && toks[1] == "free" { r.free.push(toks[0].to_string()); }
                    else if toks.len() == 5 && toks[1] == "<=" && toks[3] == "<=" { r.bounds.push((toks[2].to_string(), num(toks[0]).ok_or(format!("bad bound {}", l))?, num(toks[4]).ok_or(format!("bad bound {}", l))?)); }
                    else { return Err(format!("unreadable bounds line: {}", l)); }
                }
                "bin" => r.binary.extend(toks.iter().map(|t| t.to_string())),
                "gen" => r.general.extend(toks.iter().map(|t| t.to_string())),
                _ => return Err(format!("text outside a section: {}", l)),
            }
        }
        Ok(r)
    }
    fn dense(terms: &[(String, f64)], vars: &[String]) -> Result<Vec<f64>, String> {
        let mut v = vec![0.0; vars.len()];
        for (n, c) in terms { let i = vars.iter().position(|x| x == n).ok_or(format!("unknown variable {}", n))?; v[i] += c; }
        Ok(v)
    }
    fn compare(lp: &LinearModel, r: &Read) -> Result<(), String> {
        if !r.ended { return Err("no End".to_string()); }
        let vars = lp.variables();
        let want_max = matches!(lp.optimization_type(), OptimizationType::Max);
        if r.max != want_max { return Err(format!("sense: model {:?}, text {}", lp.optimization_type(), if r.max { "Maximize" } else { "Minimize" })); }
        if dense(&r.obj, vars)? != *lp.objective() { return Err(format!("objective {:?} read as {:?}", lp.objective(), r.obj)); }
        if r.obj_const != lp.objective_offset() { return Err(format!("objective constant {} read as {}", lp.objective_offset(), r.obj_const)); }
        if r.rows.len() != lp.constraints().len() { return Err(format!("{} rows read, model has {}", r.rows.len(), lp.constraints().len())); }
        let mut seen = std::collections::HashSet::new();
        for ((name, terms, rel, rhs), c) in r.rows.iter().zip(lp.constraints()) {
            if !seen.insert(name.clone()) { return Err(format!("row name {} is used twice", name)); }
            if !c.name().is_empty() && &c.name() != name { return Err(format!("user-given row name {} exported as {}", c.name(), name)); }
            if dense(terms, vars)? != *c.coefficients() { return Err(format!("row {}: coefficients {:?} read as {:?}", name, c.coefficients(), terms)); }
            let want = match c.constraint_type() { Comparison::LessOrEqual | Comparison::Less => "<=", Comparison::GreaterOrEqual | Comparison::Greater => ">=", Comparison::Equal => "=" };
            if rel != want { return Err(format!("row {}: relation {} read as {}", name, want, rel)); }
            if *rhs != c.rhs() { return Err(format!("row {}: right-hand side {} read as {}", name, c.rhs(), rhs)); }
        }
        for v in vars {
            let t = *lp.domain().get(v).ok_or(format!("{} has no domain", v))?.get_type();
            let (is_bin, is_gen) = (r.binary.contains(v), r.general.contains(v));
            let b = r.bounds.iter().filter(|b| &b.0 == v).collect::<Vec<_>>();
            if b.len() > 1 { return Err(format!("{} has two bounds entries", v)); }
            // LP-format defaults: 0 <= x < +infinity, binaries 0..1
            let (lo, hi) = if r.free.contains(v) { (f64::NEG_INFINITY, f64::INFINITY) } else if let Some(b) = b.first() { (b.1, b.2) } else if is_bin { (0.0, 1.0) } else { (0.0, f64::INFINITY) };
            match t {
                VariableType::Boolean => if !is_bin || is_gen { return Err(format!("{} is Boolean but binary = {}, general = {}", v, is_bin, is_gen)); },
                VariableType::IntegerRange(a, c) => if !is_gen || is_bin || lo != a as f64 || hi != c as f64 { return Err(format!("{} is IntegerRange({}, {}) but general = {}, bounds {} .. {}", v, a, c, is_gen, lo, hi)); },
                VariableType::NonNegativeReal(a, c) | VariableType::Real(a, c) => if is_bin || is_gen || lo != a || hi != c { return Err(format!("{} is {:?} but binary / general = {} / {}, bounds {} .. {}", v, t, is_bin, is_gen, lo, hi)); },
            }
        }
        Ok(())
    }
    #[test]
    fn search() {
        let inf = f64::INFINITY;
        let (mut cases, mut fails) = (0u64, 0u32);
        let mut distinct: std::collections::HashSet<String> = std::collections::HashSet::new();
        let kinds = [VariableType::Boolean, VariableType::IntegerRange(-3, 12), VariableType::IntegerRange(0, 1), VariableType::NonNegativeReal(0.0, inf), VariableType::NonNegativeReal(1.5, 8.0), VariableType::NonNegativeReal(0.0, 4.0),
                     VariableType::Real(-inf, inf), VariableType::Real(-2.0, inf), VariableType::Real(-inf, 7.5), VariableType::Real(-1.0, 1.0), VariableType::Real(0.0, inf)];
        let coefs: [[f64; 3]; 8] = [[1.000001, -0.999999, 1.0000000001], [1.0, 2.0, 3.0], [-1.0, 0.0, 2.5], [0.0, 0.0, 0.0], [0.000001, -1000000.0, 1.0], [-1.0, -1.0, -1.0], [0.5, -0.25, 0.0], [1e-9, 123456789.125, -7.0]];
        let namesets: [[&str; 3]; 5] = [["", "", ""], ["cap", "", "floor"], ["c2", "", ""], ["", "c1", ""], ["dup", "other", "dup2"]];
        let cmps = [Comparison::LessOrEqual, Comparison::GreaterOrEqual, Comparison::Equal];
        for (ki, k0) in kinds.iter().enumerate() { for ci in 0..coefs.len() { for (ni, names) in namesets.iter().enumerate() { for dir in [OptimizationType::Min, OptimizationType::Max, OptimizationType::Satisfy] { for off in [0.0, 3.5, -0.25] {
            if (ki + ci + ni) % 2 == 1 && off != 0.0 { continue; }
            let mut lp = LinearModel::new();
            lp.add_variable("x", *k0); lp.add_variable("y_1", kinds[(ki + 3) % kinds.len()]); lp.add_variable("$aux_0", kinds[(ki + 7) % kinds.len()]);
            for j in 0..3 { let c = coefs[(ci + j) % coefs.len()].to_vec(); let rhs = [4.0, -2.5, 0.0][(ci + j) % 3]; if names[j].is_empty() { lp.add_constraint(c, cmps[(j + ci) % 3], rhs); } else { lp.add_named_constraint(c, cmps[(j + ci) % 3], rhs, names[j]); } }
            lp.set_objective(if matches!(dir, OptimizationType::Satisfy) { vec![0.0, 0.0, 0.0] } else { coefs[(ci + 1) % coefs.len()].to_vec() }, dir.clone());
            let (o, t, _, cs, vs, d) = lp.into_parts();
            let lp = LinearModel::new_from_parts(o, t, if matches!(dir, OptimizationType::Satisfy) { 0.0 } else { off }, cs, vs, d);
            cases += 1;
            let text = lp.to_lp_format();
            distinct.insert(text.clone());
            let res = read(&text).and_then(|r| compare(&lp, &r));
            if let Err(e) = res {
                if fails < 40 { println!("WITNESS-FAIL {{\"fn\": \"LinearModel::to_lp_format\", \"clause\": \"an independent reader of the exported text recovers the model\", \"detail\": \"{}\", \"exported\": \"{}\"}}", e.replace('"', "'"), text.replace('"', "'").replace('\n', "\\n")); }
                fails += 1;
            }
        } } } } }
        println!("WITNESS-DONE cases={} distinct={}", cases, distinct.len());
    }
