//@ C07 — scaling an affine row.
@fn AffineForm::scale
    requires form_wf(*old(self)), finite(coefficient),
    ensures form_wf(*final(self)), forall|env: Env| #[trigger] form_val(*final(self), env) == rmul_s(rv(coefficient), form_val(*old(self), env)),
@fn AffineForm::scale @entry
    let ghost s0 = *self;
    let ghost k0 = self.coefficients.keys();
    let ghost m0 = self.coefficients.map();
    let ghost c = rv(coefficient);
@fn AffineForm::scale @before "let mut vx_i1"
    proof { assert forall|env: Env| tsum(k0, m0, env, 0) == 0real && #[trigger] rmul_s(c, tsum(k0, m0, env, 0)) == 0real by { reveal(rmul_s); } }
@fn AffineForm::scale @loop 1
    invariant
        s0 == *old(self), form_wf(s0), k0 == s0.coefficients.keys(), m0 == s0.coefficients.map(), finite(coefficient), c == rv(coefficient),
        self.constant == s0.constant, self.coefficients.wf(),
        vx_i1 <= self.coefficients.keys().len() <= k0.len(),
        forall|t: int| 0 <= t < self.coefficients.keys().len() - vx_i1 ==> #[trigger] self.coefficients.keys()[vx_i1 + t] == k0[k0.len() - self.coefficients.keys().len() + vx_i1 + t]
            && self.coefficients.map()[self.coefficients.keys()[vx_i1 + t]] == m0[k0[k0.len() - self.coefficients.keys().len() + vx_i1 + t]],
        forall|t: int| 0 <= t < vx_i1 ==> finite(#[trigger] self.coefficients.map()[self.coefficients.keys()[t]]) && rv(self.coefficients.map()[self.coefficients.keys()[t]]) != 0real,
        forall|env: Env| #[trigger] tsum(self.coefficients.keys(), self.coefficients.map(), env, vx_i1 as int) == rmul_s(c, tsum(k0, m0, env, k0.len() - self.coefficients.keys().len() + vx_i1)),
    decreases self.coefficients.keys().len() - vx_i1,
@fn AffineForm::scale @loop 1 @start
    let ghost kc = self.coefficients.keys();
    let ghost mc = self.coefficients.map();
    let ghost i0 = vx_i1 as int;
    let ghost j = k0.len() - kc.len() + i0;
    proof {
        assert(kc[i0 + 0] == k0[j + 0] && mc[kc[i0 + 0]] == m0[k0[j + 0]]);
        assert(k0.contains(k0[j])); assert(s0.coefficients.has(k0[j]));
    }
@fn AffineForm::scale @loop 1 @end
    proof {
        let key = kc[i0];
        let k2 = self.coefficients.keys(); let m2 = self.coefficients.map();
        let i2 = vx_i1 as int;
        let kept = k2.len() == kc.len();
        assert(finite(vx_v1) && rv(vx_v1) == rmul_s(rv(m0[key]), c)) by { reveal(rmul_s); }
        // prefix keys are unchanged and differ from key
        assert forall|t: int| 0 <= t < i0 implies k2[t] == kc[t] && m2[k2[t]] == mc[kc[t]] by { assert(kc[t] != kc[i0]); }
        assert forall|env: Env| #[trigger] tsum(k2, m2, env, i2) == rmul_s(c, tsum(k0, m0, env, k0.len() - k2.len() + i2)) by {
            lemma_tsum_ext(k2, m2, kc, mc, env, i0);
            assert(tsum(kc, mc, env, i0) == rmul_s(c, tsum(k0, m0, env, j)));
            assert(tsum(k0, m0, env, j + 1) == tsum(k0, m0, env, j) + rmul_s(env[key], rv(m0[key])));
            lemma_scale_arith(c, tsum(k0, m0, env, j), env[key], rv(m0[key]));
            if kept { assert(k2[i0] == key && m2[key] == vx_v1); }
        }
        assert forall|t: int| 0 <= t < k2.len() - i2 implies #[trigger] k2[i2 + t] == k0[k0.len() - k2.len() + i2 + t] && m2[k2[i2 + t]] == m0[k0[k0.len() - k2.len() + i2 + t]] by {
            assert(kc[i0 + (t + 1)] == k0[j + (t + 1)] && mc[kc[i0 + (t + 1)]] == m0[k0[j + (t + 1)]]);
            assert(kc[i0 + (t + 1)] != kc[i0]);
        }
        assert forall|t: int| 0 <= t < i2 implies finite(#[trigger] m2[k2[t]]) && rv(m2[k2[t]]) != 0real by { if t < i0 { assert(k2[t] == kc[t]); } }
    }
@fn AffineForm::scale @before "self.constant ="
    let ghost s2 = *self;
@fn AffineForm::scale @end
    proof {
        assert(self.coefficients == s2.coefficients);
        let k2 = self.coefficients.keys(); let m2 = self.coefficients.map();
        assert(form_wf(*self)) by {
            assert forall|k: Seq<char>| #[trigger] self.coefficients.has(k) implies finite(m2[k]) && rv(m2[k]) != 0real by {
                assert(k2.contains(k)); let t = choose|t: int| 0 <= t < k2.len() && k2[t] == k; assert(finite(m2[k2[t]]));
            }
        }
        assert forall|env: Env| #[trigger] form_val(*self, env) == rmul_s(c, form_val(s0, env)) by {
            assert(tsum(k2, m2, env, k2.len() as int) == rmul_s(c, tsum(k0, m0, env, k0.len() as int)));
            lemma_scale_const(c, rv(s0.constant), tsum(k0, m0, env, k0.len() as int));
            assert(rv(self.constant) == rmul_s(rv(s0.constant), c)) by { reveal(rmul_s); }
        }
    }
@raw
pub proof fn lemma_scale_arith(c: real, t: real, x: real, m: real)
    ensures rmul_s(c, t + rmul_s(x, m)) == rmul_s(c, t) + rmul_s(x, rmul_s(m, c)), rmul_s(m, c) == 0real ==> rmul_s(c, t + rmul_s(x, m)) == rmul_s(c, t)
{
    reveal(rmul_s);
    assert(c * (t + x * m) == c * t + x * (m * c)) by (nonlinear_arith);
    if m * c == 0real { assert(x * (m * c) == 0real) by (nonlinear_arith) requires m * c == 0real; }
}
pub proof fn lemma_scale_const(c: real, k: real, t: real)
    ensures rmul_s(c, k + t) == rmul_s(k, c) + rmul_s(c, t)
{
    reveal(rmul_s);
    assert(c * (k + t) == k * c + c * t) by (nonlinear_arith);
}
