//@ C01/C02 — the linear-form algebra (`merge_sub` subtracts, `mul_by` scales the constant too, ...).
//@ These contracts are what the lowering arms (U01.aff, U01.abs) rely on.
@fn LinearizationContext::new -> r
    ensures lc_fin(r), forall|env: Env| #[trigger] lc_eval(r, env) == 0real,
@fn LinearizationContext::from_rhs -> r
    requires finite(rhs),
    ensures lc_fin(r), forall|env: Env| #[trigger] lc_eval(r, env) == rv(rhs),
@fn LinearizationContext::from_var -> r
    requires finite(multiplier),
    ensures lc_fin(r), forall|env: Env| #[trigger] lc_eval(r, env) == rmul_s(rv(multiplier), env[name@]),
@fn LinearizationContext::add_var
    requires lc_fin(*old(self)), finite(multiplier),
    ensures lc_fin(*final(self)), forall|env: Env| #[trigger] lc_eval(*final(self), env) == lc_eval(*old(self), env) + rmul_s(rv(multiplier), env[name@]),
@fn LinearizationContext::add_rhs
    requires lc_fin(*old(self)), finite(rhs),
    ensures lc_fin(*final(self)), forall|env: Env| #[trigger] lc_eval(*final(self), env) == lc_eval(*old(self), env) + rv(rhs),
@fn LinearizationContext::merge_add
    requires lc_fin(*old(self)), lc_fin(other),
    ensures lc_fin(*final(self)), forall|env: Env| #[trigger] lc_eval(*final(self), env) == lc_eval(*old(self), env) + lc_eval(other, env),
@fn LinearizationContext::merge_sub
    requires lc_fin(*old(self)), lc_fin(other),
    ensures lc_fin(*final(self)), forall|env: Env| #[trigger] lc_eval(*final(self), env) == lc_eval(*old(self), env) - lc_eval(other, env),
@fn LinearizationContext::mul_by
    requires lc_fin(*old(self)), finite(multiplier),
    ensures lc_fin(*final(self)), forall|env: Env| #[trigger] lc_eval(*final(self), env) == rmul_s(rv(multiplier), lc_eval(*old(self), env)),
@fn LinearizationContext::div_by
    requires lc_fin(*old(self)), finite(divisor), rv(divisor) != 0real,
    ensures lc_fin(*final(self)), forall|env: Env| #[trigger] lc_eval(*final(self), env) == rdiv_s(lc_eval(*old(self), env), rv(divisor)),
@fn LinearizationContext::rhs -> r
    ensures r == self.current_rhs,
@fn LinearizationContext::vars -> r
    ensures *r == self.current_vars,

@fn LinearizationContext::add_var @entry
    let ghost k0 = self.current_vars.keys();
    let ghost m0 = self.current_vars.map();
    let ghost nm = name@;
@fn LinearizationContext::add_var @end
    proof {
        let k1 = self.current_vars.keys(); let m1 = self.current_vars.map();
        assert forall|k: Seq<char>| self.current_vars.has(k) implies fv(#[trigger] m1[k]) is Fin by { if k != nm { assert(m0.dom().contains(k)); assert(fv(m0[k]) is Fin); } }
        assert forall|env: Env| #[trigger] lc_eval(*self, env) == lc_eval(*old(self), env) + rmul_s(rv(multiplier), env[nm]) by {
            if m0.dom().contains(nm) {
                assert(k0.contains(nm));
                let p = choose|p: int| 0 <= p < k0.len() && k0[p] == nm;
                lemma_msum_update(k0, m0, p, m1[nm], env, k0.len() as int);
                lemma_distrib(rv(m0[nm]), rv(multiplier), env[nm]);
            } else {
                assert(!k0.contains(nm));
                lemma_msum_push(k0, m0, nm, multiplier, env);
            }
        }
    }
@fn LinearizationContext::merge_add @entry
    let ghost s0 = *self;
@fn LinearizationContext::merge_add @loop 1
    invariant
        vx_n1 == other.current_vars.keys().len(), lc_fin(other), lc_fin(*self),
        forall|env: Env| #[trigger] lc_eval(*self, env) == lc_eval(s0, env) + msum(other.current_vars.keys(), other.current_vars.map(), env, vx_i1 as int),
@fn LinearizationContext::merge_add @loop 1 @start
    proof { assert(other.current_vars.has(other.current_vars.keys()[vx_i1 as int])) by { assert(other.current_vars.keys().contains(other.current_vars.keys()[vx_i1 as int])); } }
@fn LinearizationContext::merge_sub @entry
    let ghost s0 = *self;
@fn LinearizationContext::merge_sub @loop 1
    invariant
        vx_n1 == other.current_vars.keys().len(), lc_fin(other), lc_fin(*self),
        forall|env: Env| #[trigger] lc_eval(*self, env) == lc_eval(s0, env) - msum(other.current_vars.keys(), other.current_vars.map(), env, vx_i1 as int),
@fn LinearizationContext::merge_sub @loop 1 @start
    proof { assert(other.current_vars.has(other.current_vars.keys()[vx_i1 as int])) by { assert(other.current_vars.keys().contains(other.current_vars.keys()[vx_i1 as int])); } }
@fn LinearizationContext::merge_sub @loop 1 @end
    proof { assert forall|env: Env| #[trigger] lc_eval(*self, env) == lc_eval(s0, env) - msum(other.current_vars.keys(), other.current_vars.map(), env, vx_i1 + 1) by {
        lemma_distrib(rv(multiplier), 0real, env[name@]); } }
@fn LinearizationContext::mul_by @entry
    let ghost k0 = self.current_vars.keys();
    let ghost m0 = self.current_vars.map();
    let ghost c = rv(multiplier);
@fn LinearizationContext::mul_by @loop 1
    invariant
        vx_n1 == k0.len(), self.current_vars.wf(), self.current_vars.keys() == k0, self.current_rhs == old(self).current_rhs, lc_fin(*old(self)),
        k0 == old(self).current_vars.keys(), m0 == old(self).current_vars.map(), finite(multiplier), c == rv(multiplier),
        forall|j: int| 0 <= j < vx_i1 ==> fv(#[trigger] self.current_vars.map()[k0[j]]) is Fin && rv(self.current_vars.map()[k0[j]]) == rmul_s(c, rv(m0[k0[j]])),
        forall|j: int| vx_i1 <= j < k0.len() ==> #[trigger] self.current_vars.map()[k0[j]] == m0[k0[j]],
@fn LinearizationContext::mul_by @loop 1 @start
    let ghost mp = self.current_vars.map();
    proof { assert(k0.contains(k0[vx_i1 as int])); assert(m0.dom().contains(k0[vx_i1 as int])); assert(fv(m0[k0[vx_i1 as int]]) is Fin); }
@fn LinearizationContext::mul_by @loop 1 @end
    proof {
        lemma_mul_comm_lc(rv(m0[k0[vx_i1 as int]]), c);
        assert forall|j: int| 0 <= j < k0.len() && j != vx_i1 implies self.current_vars.map()[k0[j]] == mp[k0[j]] by { assert(k0[j] != k0[vx_i1 as int]); }
    }
@fn LinearizationContext::mul_by @end
    proof {
        let m1 = self.current_vars.map();
        assert forall|k: Seq<char>| self.current_vars.has(k) implies fv(#[trigger] m1[k]) is Fin by {
            assert(k0.contains(k)); let p = choose|p: int| 0 <= p < k0.len() && k0[p] == k; assert(fv(m1[k0[p]]) is Fin);
        }
        assert forall|env: Env| #[trigger] lc_eval(*self, env) == rmul_s(c, lc_eval(*old(self), env)) by {
            lemma_msum_scale(k0, m0, m1, c, env, k0.len() as int);
            let s = msum(k0, m0, env, k0.len() as int); let r0 = rv(old(self).current_rhs);
            lemma_mul_sum(c, r0, s);
        }
    }
@fn LinearizationContext::div_by @entry
    let ghost k0 = self.current_vars.keys();
    let ghost m0 = self.current_vars.map();
    let ghost d = rv(divisor);
@fn LinearizationContext::div_by @loop 1
    invariant
        vx_n1 == k0.len(), self.current_vars.wf(), self.current_vars.keys() == k0, self.current_rhs == old(self).current_rhs, lc_fin(*old(self)),
        k0 == old(self).current_vars.keys(), m0 == old(self).current_vars.map(), finite(divisor), d == rv(divisor), d != 0real,
        forall|j: int| 0 <= j < vx_i1 ==> fv(#[trigger] self.current_vars.map()[k0[j]]) is Fin && rv(self.current_vars.map()[k0[j]]) == rdiv_s(rv(m0[k0[j]]), d),
        forall|j: int| vx_i1 <= j < k0.len() ==> #[trigger] self.current_vars.map()[k0[j]] == m0[k0[j]],
@fn LinearizationContext::div_by @loop 1 @start
    let ghost mp = self.current_vars.map();
    proof { assert(k0.contains(k0[vx_i1 as int])); assert(m0.dom().contains(k0[vx_i1 as int])); assert(fv(m0[k0[vx_i1 as int]]) is Fin); }
@fn LinearizationContext::div_by @loop 1 @end
    proof {
        assert forall|j: int| 0 <= j < k0.len() && j != vx_i1 implies self.current_vars.map()[k0[j]] == mp[k0[j]] by { assert(k0[j] != k0[vx_i1 as int]); }
    }
@fn LinearizationContext::div_by @end
    proof {
        let m1 = self.current_vars.map();
        assert forall|k: Seq<char>| self.current_vars.has(k) implies fv(#[trigger] m1[k]) is Fin by {
            assert(k0.contains(k)); let p = choose|p: int| 0 <= p < k0.len() && k0[p] == k; assert(fv(m1[k0[p]]) is Fin);
        }
        assert forall|env: Env| #[trigger] lc_eval(*self, env) == rdiv_s(lc_eval(*old(self), env), d) by {
            lemma_msum_div(k0, m0, m1, d, env, k0.len() as int);
            let s = msum(k0, m0, env, k0.len() as int); let r0 = rv(old(self).current_rhs);
            lemma_div_sum(r0, s, d);
        }
    }
