//@ C01/C02 — the linear-form algebra (`merge_sub` subtracts, `mul_by` scales the constant too, ...).
//@ These contracts are what the lowering arms (U01.aff, U01.abs) rely on.
@fn LinearizationContext::new -> r
    ensures lc_fin(r), forall|env: Env| #[trigger] lc_eval(r, env) == 0real,
@fn LinearizationContext::from_rhs -> r
    ensures finite(rhs) ==> lc_fin(r) && forall|env: Env| #[trigger] lc_eval(r, env) == rv(rhs),
@fn LinearizationContext::from_var -> r
    ensures finite(multiplier) ==> lc_fin(r) && forall|env: Env| #[trigger] lc_eval(r, env) == rmul_s(rv(multiplier), env[name@]),
@fn LinearizationContext::add_var
    requires lc_fin(*old(self)), finite(multiplier),
    ensures lc_fin(*final(self)), forall|env: Env| #[trigger] lc_eval(*final(self), env) == lc_eval(*old(self), env) + rmul_s(rv(multiplier), env[name@]),
@fn LinearizationContext::add_rhs
    requires lc_fin(*old(self)), finite(rhs),
    ensures lc_fin(*final(self)), forall|env: Env| #[trigger] lc_eval(*final(self), env) == lc_eval(*old(self), env) + rv(rhs),
@fn LinearizationContext::merge_add
    requires lc_fin(*old(self)), lc_fin(other),
    ensures lc_fin(*final(self)), forall|env: Env| #[trigger] lc_eval(*final(self), env) == lc_eval(*old(self), env) + lc_eval(other, env),
@fn LinearizationContext::merge_sub
    requires lc_fin(*old(self)), lc_fin(other),
    ensures lc_fin(*final(self)), forall|env: Env| #[trigger] lc_eval(*final(self), env) == lc_eval(*old(self), env) - lc_eval(other, env),
@fn LinearizationContext::mul_by
    requires lc_fin(*old(self)), finite(multiplier),
    ensures lc_fin(*final(self)), forall|env: Env| #[trigger] lc_eval(*final(self), env) == rmul_s(rv(multiplier), lc_eval(*old(self), env)),
@fn LinearizationContext::div_by
    requires lc_fin(*old(self)), finite(divisor), rv(divisor) != 0real,
    ensures lc_fin(*final(self)), forall|env: Env| #[trigger] lc_eval(*final(self), env) == rdiv_s(lc_eval(*old(self), env), rv(divisor)),
@fn LinearizationContext::rhs -> r
    ensures r == self.current_rhs,
@fn LinearizationContext::vars -> r
    ensures *r == self.current_vars,
