    // Executable form of C19 for operator result kinds on the REAL type checker and evaluator, bounded.
    use crate::model_transformer::{TransformError, transform_parsed_problem};
    fn is_type_class_error(e: &TransformError) -> bool {
        matches!(
            e.base_error(),
            TransformError::WrongArgument { .. } | TransformError::WrongExpectedArgument { .. } | TransformError::WrongFunctionSignature { .. } | TransformError::WrongNumberOfArguments { .. }
                | TransformError::BinOpError { .. } | TransformError::UnOpError { .. } | TransformError::NonExistentFunction(_) | TransformError::UndeclaredVariable(_) | TransformError::Unspreadable(_)
        )
    }
    #[test]
    fn search() {
        let consts = [("kT", "true"), ("kP", "3"), ("kI", "0 - 4"), ("kN", "2.5"), ("kS", "\"s\"")];
        let unary = ["-", "not "];
        let binary = ["+", "-", "*", "/", "and", "or", "xor", "implies", "iff"];
        let mut exprs: Vec<String> = vec![];
        for (c, _) in consts { for u in unary { exprs.push(format!("{}{}", u, c)); for u2 in unary { exprs.push(format!("{}({}{})", u2, u, c)); } } }
        for (a, _) in consts { for (b, _) in consts { for op in binary {
            exprs.push(format!("{} {} {}", a, op, b));
            for u in unary {
                exprs.push(format!("({}{}) {} {}", u, a, op, b));
                // (a division by `not b` is a division by zero for every truthy constant: a data error, reported with the same error kind)
                if !(op == "/" && u == "not ") { exprs.push(format!("{} {} ({}{})", a, op, u, b)); }
                exprs.push(format!("{}({} {} {})", u, a, op, b));
            }
            for op2 in ["+", "and", "implies"] { for (c, _) in [consts[0], consts[1], consts[3]] {
                exprs.push(format!("({} {} {}) {} {}", a, op, b, op2, c));
                exprs.push(format!("{} {} ({} {} {})", c, op2, a, op, b));
            } }
        } } }
        let head: String = consts.iter().map(|(n, v)| format!("    let {} = {}\n", n, v)).collect();
        let fns = IndexMap::new();
        let (mut cases, mut fails) = (0u64, 0u32);
        let (mut accepted, mut evaluated) = (0u64, 0u64);
        for e in exprs {
            let source = format!("min x\ns.t.\n    x >= 1\nwhere\n{}    let R = {}\ndefine\n    x as Real", head, e);
            let parsed = match RoocParser::new(source.clone()).parse() { Ok(p) => p, Err(_) => continue };
            cases += 1;
            if let Err(e0) = parsed.create_type_checker(&vec![], &fns) { if cases < 3 { println!("static-reject: {}", e0); } continue; }   // rejected statically: nothing to check
            accepted += 1;
            if let Err(err) = transform_parsed_problem(parsed, vec![], &fns) {
                if is_type_class_error(&err) {
                    if fails < 40 { println!("WITNESS-FAIL {{\"fn\": \"PreExp::get_type\", \"clause\": \"accepted by the type checker ==> evaluation does not fail with a type-class error\", \"expression\": \"{}\", \"error\": \"{}\"}}", e.replace('"', "'"), err.to_string().replace('"', "'").replace('\n', " ")); }
                    fails += 1;
                }
            }
        }
        println!("accepted={} of {}", accepted, cases);
        // vacuity guard: the corpus must contain programs the checker accepts
        if accepted * 10 < cases { println!("WITNESS-FAIL {{\"fn\": \"corpus\", \"clause\": \"at least a tenth of the corpus is accepted by the type checker (vacuity guard)\", \"accepted\": {}, \"programs\": {}}}", accepted, cases); }
        println!("WITNESS-DONE cases={}", cases);
    }
