    // Executable form of "on degenerate problems it finishes within its iteration limit instead of cycling": the classic cycling examples of
    // Chvatal and Beale, under every order of their structural columns, with and without an extra independent column that makes the FIRST pivot
    // improve the objective (so that the stall begins later), must be solved within 1000 pivots with the known optimum.
    fn esc(s: String) -> String { s.replace('\\', "\\\\").replace('"', "\\\"").replace('\n', " ").replace('\t', " ") }
    fn perms(n: usize) -> Vec<Vec<usize>> {
        fn go(k: usize, cur: &mut Vec<usize>, used: &mut Vec<bool>, out: &mut Vec<Vec<usize>>) {
            if k == cur.capacity() { out.push(cur.clone()); return; }
            for i in 0..used.len() { if !used[i] { used[i] = true; cur.push(i); go(k + 1, cur, used, out); cur.pop(); used[i] = false; } }
        }
        let mut out = vec![]; let mut cur = Vec::with_capacity(n); let mut used = vec![false; n];
        go(0, &mut cur, &mut used, &mut out); out
    }
    // (structural cost row, structural part of the rows, right-hand sides, optimum of c.x)
    fn base(which: usize) -> (Vec<f64>, Vec<Vec<f64>>, Vec<f64>, f64) {
        if which == 0 {
            (vec![-10.0, 57.0, 9.0, 24.0], vec![vec![0.5, -5.5, -2.5, 9.0], vec![0.5, -1.5, -0.5, 1.0], vec![1.0, 0.0, 0.0, 0.0]], vec![0.0, 0.0, 1.0], -1.0)
        } else {
            (vec![-0.75, 20.0, -0.5, 6.0], vec![vec![0.25, -8.0, -1.0, 9.0], vec![0.5, -12.0, -0.5, 3.0], vec![0.0, 0.0, 1.0, 0.0]], vec![0.0, 0.0, 1.0], -1.25)
        }
    }
    fn build(which: usize, perm: &Vec<usize>, prefix: Option<usize>) -> (Tableau, f64) {
        let (c0, a0, b0, opt0) = base(which);
        let k = c0.len();
        // structural columns in the permuted order, optionally one more column y (cost -100, own row y + s = 2) inserted at position `prefix`
        let mut c: Vec<f64> = perm.iter().map(|j| c0[*j]).collect();
        let mut a: Vec<Vec<f64>> = a0.iter().map(|row| perm.iter().map(|j| row[*j]).collect()).collect();
        let mut b = b0.clone();
        let mut opt = opt0;
        if let Some(pos) = prefix {
            c.insert(pos, -100.0);
            for row in a.iter_mut() { row.insert(pos, 0.0); }
            let mut yrow = vec![0.0; k + 1]; yrow[pos] = 1.0;
            a.push(yrow); b.push(2.0); opt += -200.0;
        }
        let m = a.len(); let n = c.len();
        for (i, row) in a.iter_mut().enumerate() { for s in 0..m { row.push(if s == i { 1.0 } else { 0.0 }); } }
        for _ in 0..m { c.push(0.0); }
        let basis: Vec<usize> = (n..n + m).collect();
        let names: Vec<String> = (0..n + m).map(|i| format!("v{}", i)).collect();
        (Tableau::new(c, a, b, basis, 0.0, 0.0, names, false), opt)
    }
    #[test]
    fn search() {
        let mut cases = 0u64; let mut fails = 0;
        for which in 0..2usize { for perm in perms(4).iter() { for prefix in [None, Some(0usize), Some(2), Some(4)] {
            cases += 1;
            let (mut t, opt) = build(which, perm, prefix);
            let what = format!("{} example, structural columns in order {:?}, improving extra column {:?}", if which == 0 { "Chvatal" } else { "Beale" }, perm, prefix);
            let bad = match t.solve(1000) {
                Ok(o) => { let v = o.optimal_value(); if (v - opt).abs() > 1e-6 { Some(format!("value {} instead of {}", v, opt)) } else { None } }
                Err(e) => Some(format!("{:?} (objective reached {})", e, -t.current_value())),
            };
            if let Some(msg) = bad {
                fails += 1;
                if fails < 12 { println!("WITNESS-FAIL {{\"fn\": \"Tableau::solve_avoiding\", \"clause\": \"a degenerate problem is solved within the iteration limit with the known optimum\", \"problem\": \"{}\", \"detail\": \"{}\"}}", esc(what), esc(msg)); }
            }
        } } }
        println!("WITNESS-DONE cases={}", cases);
    }
