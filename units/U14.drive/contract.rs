//@ C14 — the driver loop.  Safety part of "on degenerate problems it finishes within its iteration limit instead of cycling":
//@ the loop performs at most `limit` pivots, and the anti-cycling switch is wired as documented: Bland's rule is selected
//@ exactly when the objective value has not changed (within the tolerance) during more than n + m + 1 consecutive pivots.
//@ (Ghost counter `g` is defined from the VALUES only, independently of the code's own bookkeeping.)
@fn Tableau::flip_result @assumed -> r
    ensures r == self.flip_result,
@fn OptimalTableau::new @assumed -> r
    ensures r.tableau == tableau,
@fn Tableau::variables_values @assumed -> r
    ensures true,
@fn Tableau::solve_avoiding -> res
    requires tab_wf(*old(self)), (old(self).c.len() as int) + (old(self).a.len() as int) < 9223372036854775000int,
    ensures
        tab_wf(*final(self)),
        res matches Ok(t) ==> t.tableau == *final(self) && no_improving_column(*final(self)),
        res matches Err(e) ==> e is Unbounded || e is IterationLimitReached,
        res matches Err(SimplexError::Unbounded) ==> exists|h: int| unbounded_witness(*final(self), h),
@fn Tableau::solve_avoiding @after "let stall_limit ="
    let ghost mut g: int = 0;
@fn Tableau::solve_avoiding @loop 1
    invariant
        tab_wf(*self), 0 <= iteration <= limit || (limit < 0 && iteration == 0), 0 <= stalls <= iteration, stall_limit as int == (self.c.len() as int) + (self.a.len() as int) + 1,
        self.c.len() == old(self).c.len(), self.a.len() == old(self).a.len(), fv(last_value) is Fin,
        stalls == g,
    decreases limit - iteration,
@fn Tableau::solve_avoiding @before "if float_eq(self.current_value, last_value)"
    let ghost lv0 = last_value;
@fn Tableau::solve_avoiding @after "if float_eq(self.current_value, last_value)"
    proof {
        // consecutive pivots during which the value stayed equal (within the tolerance) to the value recorded at the last change
        g = if t_eq(rv(self.current_value), rv(lv0), EPS()) { g + 1 } else { 0 };
    }
@fn Tableau::solve_avoiding @loop 1 @start
    proof { assert(stalls == g); }
