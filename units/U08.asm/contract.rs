//@ C08 — "has exactly one coefficient per variable in every row": from named rows to positional rows.
@fn LinearConstraint::new_with_name -> r
    ensures r.coefficients == coefficients, r.constraint_type == constraint_type, r.rhs == rhs, r.name == name,
@fn MidLinearConstraint::to_coefficient_vector -> r
    requires self.lhs.wf(), table_wf(*vars),
    ensures laid_out(self.lhs, *vars, r@),
@fn MidLinearConstraint::into_linear_constraint -> r
    requires self.lhs.wf(), table_wf(*vars),
    ensures laid_out(self.lhs, *vars, r.coefficients@), r.constraint_type == self.comparison, r.rhs == self.rhs, r.name == self.name,
@fn position_table -> r
    requires forall|i: int, j: int| 0 <= i < j < vars@.len() ==> vars@[i]@ != vars@[j]@,
    ensures table_wf(r), r.keys().len() == vars@.len(),
        forall|i: int| 0 <= i < vars@.len() ==> r.has(#[trigger] vars@[i]@) && r.map()[vars@[i]@] == i,
        forall|k: Seq<char>| #[trigger] r.has(k) ==> exists|i: int| 0 <= i < vars@.len() && #[trigger] vars@[i]@ == k,
@fn position_table @loop 1
    invariant vx_n1 == vars@.len(), vx_m1.wf(), vx_m1.keys().len() == vx_i1,
        forall|i: int, j: int| 0 <= i < j < vars@.len() ==> vars@[i]@ != vars@[j]@,
        forall|i: int| 0 <= i < vx_i1 ==> vx_m1.has(#[trigger] vars@[i]@) && vx_m1.map()[vars@[i]@] == i,
        forall|k: Seq<char>| #[trigger] vx_m1.has(k) ==> exists|i: int| 0 <= i < vx_i1 && #[trigger] vars@[i]@ == k,
@fn position_table @after "let name"
    let ghost m0 = vx_m1;
    proof {
        // the name is new: no earlier variable has it
        if m0.has(vars@[vx_i1 as int]@) { let j = choose|j: int| 0 <= j < vx_i1 && #[trigger] vars@[j]@ == vars@[vx_i1 as int]@; assert(false); }
    }
@fn position_table @after "vx_m1.insert"
    proof {
        assert forall|j: int| 0 <= j < vx_i1 + 1 implies vx_m1.has(#[trigger] vars@[j]@) && vx_m1.map()[vars@[j]@] == j by {
            if j < vx_i1 { assert(m0.has(vars@[j]@)); assert(vars@[j]@ != vars@[vx_i1 as int]@); }
        }
        assert forall|k: Seq<char>| #[trigger] vx_m1.has(k) implies exists|j: int| 0 <= j < vx_i1 + 1 && #[trigger] vars@[j]@ == k by {
            if k == vars@[vx_i1 as int]@ { assert(vars@[vx_i1 as int]@ == k); }
            else { assert(m0.has(k)); let j = choose|j: int| 0 <= j < vx_i1 && #[trigger] vars@[j]@ == k; assert(vars@[j]@ == k); }
        }
    }
@fn position_table @tail 1
    proof {
        assert(table_wf(vx_m1)) by {
            assert forall|k: Seq<char>| vx_m1.has(k) implies #[trigger] vx_m1.map()[k] < vx_m1.keys().len() by { let j = choose|j: int| 0 <= j < vars@.len() && #[trigger] vars@[j]@ == k; }
            assert forall|k1: Seq<char>, k2: Seq<char>| vx_m1.has(k1) && vx_m1.has(k2) && #[trigger] vx_m1.map()[k1] == #[trigger] vx_m1.map()[k2] implies k1 == k2 by {
                let j1 = choose|j: int| 0 <= j < vars@.len() && #[trigger] vars@[j]@ == k1;
                let j2 = choose|j: int| 0 <= j < vars@.len() && #[trigger] vars@[j]@ == k2;
            }
        }
    }
@fn rows_by_position -> r
    requires table_wf(vars_indexes), forall|k: int| 0 <= k < linear_constraints@.len() ==> (#[trigger] linear_constraints@[k]).lhs.wf(),
    ensures r@.len() == linear_constraints@.len(),
        forall|k: int| 0 <= k < r@.len() ==> laid_out(linear_constraints@[k].lhs, vars_indexes, (#[trigger] r@[k]).coefficients@)
            && r@[k].constraint_type == linear_constraints@[k].comparison && r@[k].rhs == linear_constraints@[k].rhs && r@[k].name == linear_constraints@[k].name,
@fn rows_by_position @entry
    let ghost mids = linear_constraints@;
@fn rows_by_position @loop 1
    invariant vx_n1 == mids.len(), vx_src1@ == mids, vx_out1@.len() == vx_i1, table_wf(vars_indexes),
        forall|k: int| 0 <= k < mids.len() ==> (#[trigger] mids[k]).lhs.wf(),
        forall|k: int| 0 <= k < vx_i1 ==> laid_out(mids[k].lhs, vars_indexes, (#[trigger] vx_out1@[k]).coefficients@)
            && vx_out1@[k].constraint_type == mids[k].comparison && vx_out1@[k].rhs == mids[k].rhs && vx_out1@[k].name == mids[k].name,
@raw
// the position table: well-formed map, every position below the number of keys, no two names share a position
pub open spec fn table_wf(t: SMap<usize>) -> bool {
    &&& t.wf()
    &&& forall|k: Seq<char>| t.has(k) ==> #[trigger] t.map()[k] < t.keys().len()
    &&& forall|k1: Seq<char>, k2: Seq<char>| t.has(k1) && t.has(k2) && #[trigger] t.map()[k1] == #[trigger] t.map()[k2] ==> k1 == k2
}
// the dense row r is the named row lhs laid out by the table: one entry per position, the named coefficient where the row has one, 0 elsewhere
pub open spec fn laid_out(lhs: SMap<F64>, t: SMap<usize>, r: Seq<F64>) -> bool {
    &&& r.len() == t.keys().len()
    &&& forall|k: Seq<char>| lhs.has(k) && t.has(k) ==> r[#[trigger] t.map()[k] as int] == lhs.map()[k]
    &&& forall|i: int| 0 <= i < r.len() && (forall|k: Seq<char>| lhs.has(k) && t.has(k) ==> #[trigger] t.map()[k] != i) ==> fv(#[trigger] r[i]) == Ext::Fin(0real)
}
