    fn stub_format(_args: core::fmt::Arguments<'_>) -> String { String::new() }
    #[kani::proof]
    #[kani::stub(std::fmt::format, stub_format)]
    #[kani::unwind(12)]
    fn span_text_total() {
        let start: u32 = kani::any();
        let len: u32 = kani::any();
        // weakest precondition of the u32 addition inside span_text
        kani::assume((start as u64) + (len as u64) <= u32::MAX as u64);
        let span = InputSpan { start_line: 1, start_column: 1, start, len, tempered: false };
        let text = "ab≤cd≥";   // 2 + 3 + 2 + 3 = 10 bytes, two multi-byte characters
        kani::cover!(true);
        let r = span.span_text(text);
        if let Ok(s) = &r {
            assert!((start as usize) + (len as usize) <= text.len());
            assert!(s.len() == len as usize);
        }
        core::mem::forget(r);
    }
