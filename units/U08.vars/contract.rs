//@ C08 — "a sorted, duplicate-free variable list equal to its domain's key set".
@fn DomainVariable::is_used -> r
    ensures r == (self.usage_count > 0),
@fn Linearizer::used_variables -> r
    requires self.domain.wf(),
    ensures names_distinct(r@),
        forall|k: Seq<char>| #[trigger] has_name(r@, k) <==> (self.domain.has(k) && self.domain.map()[k].usage_count > 0),
@fn Linearizer::used_variables @lettype vx_out1
    Vec<String>
@fn Linearizer::used_variables @loop 1
    invariant vx_n1 == self.domain.keys().len(), self.domain.wf(),
        // every listed name is the key of a used entry seen so far, at a recorded position; positions increase
        forall|j: int| 0 <= j < vx_out1@.len() ==> used_key_before(self.domain, vx_i1 as int, (#[trigger] vx_out1@[j])@),
        forall|p: int| 0 <= p < vx_i1 && self.domain.map()[#[trigger] self.domain.keys()[p]].usage_count > 0 ==> has_name(vx_out1@, self.domain.keys()[p]),
        names_distinct(vx_out1@),
@fn Linearizer::used_variables @after "let vx_en1"
    let ghost key = self.domain.keys()[vx_i1 as int];
    let ghost o0 = vx_out1@;
    proof { assert(self.domain.keys().contains(key)); assert(self.domain.has(key)); assert(vx_en1.0@ == key); assert(*vx_en1.1 == self.domain.map()[key]); }
@fn Linearizer::used_variables @after "vx_out1.push"
    proof {
        let n0 = o0.len() as int;
        assert(vx_out1@[n0]@ == key);
        assert forall|j: int| 0 <= j < vx_out1@.len() implies used_key_before(self.domain, vx_i1 + 1, (#[trigger] vx_out1@[j])@) by {
            if j < n0 {
                assert(used_key_before(self.domain, vx_i1 as int, o0[j]@));
                let p = choose|p: int| 0 <= p < vx_i1 && #[trigger] self.domain.keys()[p] == o0[j]@ && self.domain.map()[self.domain.keys()[p]].usage_count > 0;
                assert(self.domain.keys()[p] == vx_out1@[j]@);
            } else { assert(self.domain.keys()[vx_i1 as int] == vx_out1@[j]@); }
        }
        assert(names_distinct(vx_out1@)) by {
            assert forall|a: int, b: int| 0 <= a < b < vx_out1@.len() implies vx_out1@[a]@ != vx_out1@[b]@ by {
                if b == n0 {
                    assert(used_key_before(self.domain, vx_i1 as int, o0[a]@));
                    let p = choose|p: int| 0 <= p < vx_i1 && #[trigger] self.domain.keys()[p] == o0[a]@ && self.domain.map()[self.domain.keys()[p]].usage_count > 0;
                    assert(self.domain.keys()[p] != self.domain.keys()[vx_i1 as int]);
                } else { assert(o0[a]@ != o0[b]@); }
            }
        }
        assert forall|p: int| 0 <= p < vx_i1 + 1 && self.domain.map()[#[trigger] self.domain.keys()[p]].usage_count > 0 implies has_name(vx_out1@, self.domain.keys()[p]) by {
            if p < vx_i1 { let i0 = choose|i0: int| 0 <= i0 < o0.len() && (#[trigger] o0[i0])@ == self.domain.keys()[p]; assert(vx_out1@[i0]@ == self.domain.keys()[p]); }
            else { assert(vx_out1@[n0]@ == self.domain.keys()[p]); }
        }
    }
@fn Linearizer::used_variables @before "if vx_keep1"
    proof {
        assert forall|j: int| 0 <= j < vx_out1@.len() implies used_key_before(self.domain, vx_i1 + 1, (#[trigger] vx_out1@[j])@) by {
            assert(used_key_before(self.domain, vx_i1 as int, vx_out1@[j]@));
            let p = choose|p: int| 0 <= p < vx_i1 && #[trigger] self.domain.keys()[p] == vx_out1@[j]@ && self.domain.map()[self.domain.keys()[p]].usage_count > 0;
            assert(self.domain.keys()[p] == vx_out1@[j]@);
        }
        if !vx_keep1 {
            assert forall|p: int| 0 <= p < vx_i1 + 1 && self.domain.map()[#[trigger] self.domain.keys()[p]].usage_count > 0 implies has_name(vx_out1@, self.domain.keys()[p]) by {}
        }
    }
@fn Linearizer::used_variables @tail 1
    proof {
        assert forall|k: Seq<char>| #[trigger] has_name(r__@, k) <==> (self.domain.has(k) && self.domain.map()[k].usage_count > 0) by {
            if has_name(r__@, k) {
                let j = choose|j: int| 0 <= j < r__@.len() && (#[trigger] r__@[j])@ == k;
                assert(used_key_before(self.domain, self.domain.keys().len() as int, r__@[j]@));
                let p = choose|p: int| 0 <= p < self.domain.keys().len() && #[trigger] self.domain.keys()[p] == r__@[j]@ && self.domain.map()[self.domain.keys()[p]].usage_count > 0;
                assert(self.domain.keys().contains(self.domain.keys()[p]));
            }
            if self.domain.has(k) && self.domain.map()[k].usage_count > 0 {
                assert(self.domain.keys().contains(k));
                let p = choose|p: int| 0 <= p < self.domain.keys().len() && self.domain.keys()[p] == k;
                assert(self.domain.keys()[p] == k);
            }
        }
    }
@fn vars_and_domain -> r
    requires context.domain.wf(),
    ensures names_distinct(r.0@), names_sorted(r.0@),
        forall|k: Seq<char>| #[trigger] has_name(r.0@, k) <==> (context.domain.has(k) && context.domain.map()[k].usage_count > 0),
        // the domain of the compiled model: exactly the listed variables, entries unchanged
        r.1.wf(),
        forall|k: Seq<char>| #[trigger] r.1.has(k) <==> has_name(r.0@, k),
        forall|k: Seq<char>| #[trigger] r.1.has(k) ==> r.1.map()[k] == context.domain.map()[k],
@fn vars_and_domain @entry
    let ghost d0 = context.domain;
@fn vars_and_domain @loop 1
    invariant vx_n1 == d0.keys().len(), vx_src1 == d0, d0.wf(), vx_m1.wf(), d0 == context.domain,
        names_distinct(vars@), names_sorted(vars@),
        forall|k: Seq<char>| #[trigger] has_name(vars@, k) <==> (d0.has(k) && d0.map()[k].usage_count > 0),
        forall|k: Seq<char>| #[trigger] vx_m1.has(k) ==> d0.has(k) && has_name(vars@, k) && vx_m1.map()[k] == d0.map()[k],
        forall|p: int| 0 <= p < vx_i1 && has_name(vars@, #[trigger] d0.keys()[p]) ==> vx_m1.has(d0.keys()[p]),
@fn vars_and_domain @after "let vx_en1"
    let ghost key = d0.keys()[vx_i1 as int];
    let ghost m0 = vx_m1;
    proof { assert(d0.keys().contains(key)); assert(d0.has(key)); assert(vx_en1.0@ == key); assert(*vx_en1.1 == d0.map()[key]); }
@fn vars_and_domain @after "vx_m1.insert"
    proof {
        assert forall|k: Seq<char>| #[trigger] vx_m1.has(k) implies d0.has(k) && has_name(vars@, k) && vx_m1.map()[k] == d0.map()[k] by {
            if k != key { assert(m0.has(k)); }
        }
        assert forall|p: int| 0 <= p < vx_i1 + 1 && has_name(vars@, #[trigger] d0.keys()[p]) implies vx_m1.has(d0.keys()[p]) by { if p < vx_i1 { assert(m0.has(d0.keys()[p])); } }
    }
@fn vars_and_domain @tail 1
    proof {
        assert forall|k: Seq<char>| #[trigger] r__.1.has(k) <==> has_name(r__.0@, k) by {
            if has_name(r__.0@, k) { assert(d0.has(k)); assert(d0.keys().contains(k)); let p = choose|p: int| 0 <= p < d0.keys().len() && d0.keys()[p] == k; assert(d0.keys()[p] == k); }
        }
    }
@raw
// name is the key of a used entry among the first `upto` entries of the domain
pub open spec fn used_key_before(d: SMap<DomainVariable>, upto: int, name: Seq<char>) -> bool {
    exists|p: int| 0 <= p < upto && #[trigger] d.keys()[p] == name && d.map()[d.keys()[p]].usage_count > 0
}
