//@ C13 — "the same objective value (after the recorded sign flip and offset)".
@fn std_objective -> r
    requires fin_seq(objective@),
    ensures
        optimization_type is Max ==> r is Ok,
        optimization_type is Min ==> r is Ok,
        r is Ok ==> (optimization_type is Max || optimization_type is Min),
        r matches Ok((off, obj, flip)) ==> {
            &&& off == objective_offset
            &&& flip == (optimization_type is Max)
            &&& obj.len() == objective.len()
            &&& fin_seq(obj@)
            &&& forall|x: Seq<real>| x.len() >= objective.len() ==> #[trigger] pdot(obj@, x) == (if flip { -pdot(objective@, x) } else { pdot(objective@, x) })
        },
@fn std_objective @entry
    let ghost o0 = objective@;
@fn std_objective @loop 1
    invariant vx_n1 == objective.len(), objective@ == o0, fin_seq(o0), vx_out1.len() == vx_i1,
        forall|j: int| 0 <= j < vx_i1 ==> fv(#[trigger] vx_out1@[j]) is Fin && rv(vx_out1@[j]) == -rv(o0[j]),
@fn std_objective @after "let c"
    proof { assert(fv(o0[vx_i1 as int]) is Fin); }
@fn std_objective @tail 1
    proof {
        if optimization_type is Max {
            assert forall|x: Seq<real>| x.len() >= o0.len() implies #[trigger] pdot(objective@, x) == -pdot(o0, x) by { lemma_pdot_neg(o0, objective@, x); }
        }
    }
