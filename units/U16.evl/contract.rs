//@ C16 — the evaluator behind BuilderSolution::eval, n-ary arms.
@fn truthy -> r
    ensures fv(x) is Fin ==> r == truthy(rv(x)),
@fn bool_num -> r
    ensures fv(r) == Ext::Fin(b2r(b)),
@fn eval_expr @attr
#[verifier::exec_allows_no_decreases_clause]
@fn eval_expr -> r
    requires forall|i: usize| #[trigger] var.requires((i,)),
    ensures
        forall|ienv: IEnv| (forall|i: usize, v: F64| #[trigger] var.ensures((i,), v) ==> fv(v) == Ext::Fin(ienv(i as int)))
            && #[trigger] esem(*expr, ienv) is Some ==> fv(r) == Ext::Fin(esem(*expr, ienv)->Some_0),
@fn eval_expr @keep-arms
    Expr::Min
    Expr::Max
    Expr::And
    Expr::Or
@fn eval_expr @loop 1
    invariant
        expr is Min && expr->Min_0 == *es,
        vx_n1 == es@.len(), forall|i: usize| #[trigger] var.requires((i,)),
        forall|ienv: IEnv| (forall|i: usize, v: F64| #[trigger] var.ensures((i,), v) ==> fv(v) == Ext::Fin(ienv(i as int))) && #[trigger] esem(*expr, ienv) is Some ==>
            (if vx_i1 == 0 { fv(vx_acc1) is PosInf } else { esem_fold(es@, ienv, true, vx_i1 as int) is Some && fv(vx_acc1) == Ext::Fin(esem_fold(es@, ienv, true, vx_i1 as int)->Some_0) }),
@fn eval_expr @loop 1 @start
    let ghost acc0 = vx_acc1;
@fn eval_expr @loop 1 @end
    proof {
        assert forall|ienv: IEnv| (forall|i: usize, v: F64| #[trigger] var.ensures((i,), v) ==> fv(v) == Ext::Fin(ienv(i as int))) && #[trigger] esem(*expr, ienv) is Some implies
            esem_fold(es@, ienv, true, vx_i1 + 1) is Some && fv(vx_acc1) == Ext::Fin(esem_fold(es@, ienv, true, vx_i1 + 1)->Some_0) by {
            assert(esem(*expr, ienv) == esem_fold(es@, ienv, true, es@.len() as int));
            lemma_efold_prefix(es@, ienv, true, es@.len() as int, vx_i1 + 1);
            if vx_i1 > 0 { lemma_efold_prefix(es@, ienv, true, es@.len() as int, vx_i1 as int); }
        }
    }
@fn eval_expr @loop 2
    invariant
        expr is Max && expr->Max_0 == *es,
        vx_n2 == es@.len(), forall|i: usize| #[trigger] var.requires((i,)),
        forall|ienv: IEnv| (forall|i: usize, v: F64| #[trigger] var.ensures((i,), v) ==> fv(v) == Ext::Fin(ienv(i as int))) && #[trigger] esem(*expr, ienv) is Some ==>
            (if vx_i2 == 0 { fv(vx_acc2) is NegInf } else { esem_fold(es@, ienv, false, vx_i2 as int) is Some && fv(vx_acc2) == Ext::Fin(esem_fold(es@, ienv, false, vx_i2 as int)->Some_0) }),
@fn eval_expr @loop 2 @start
    let ghost acc0 = vx_acc2;
@fn eval_expr @loop 2 @end
    proof {
        assert forall|ienv: IEnv| (forall|i: usize, v: F64| #[trigger] var.ensures((i,), v) ==> fv(v) == Ext::Fin(ienv(i as int))) && #[trigger] esem(*expr, ienv) is Some implies
            esem_fold(es@, ienv, false, vx_i2 + 1) is Some && fv(vx_acc2) == Ext::Fin(esem_fold(es@, ienv, false, vx_i2 + 1)->Some_0) by {
            assert(esem(*expr, ienv) == esem_fold(es@, ienv, false, es@.len() as int));
            lemma_efold_prefix(es@, ienv, false, es@.len() as int, vx_i2 + 1);
            if vx_i2 > 0 { lemma_efold_prefix(es@, ienv, false, es@.len() as int, vx_i2 as int); }
        }
    }
@fn eval_expr @loop 3
    invariant
        vx_n3 == es@.len(), vx_i3 <= vx_n3, forall|i: usize| #[trigger] var.requires((i,)),
        vx_go3 ==> forall|ienv: IEnv| (forall|i: usize, v: F64| #[trigger] var.ensures((i,), v) ==> fv(v) == Ext::Fin(ienv(i as int))) && #[trigger] esem_all(es@, ienv, true, es@.len() as int) is Some ==>
            forall|k: int| 0 <= k < vx_i3 ==> (esem(#[trigger] es@[k], ienv) matches Some(x) && truthy(x) == true),
        !vx_go3 ==> forall|ienv: IEnv| (forall|i: usize, v: F64| #[trigger] var.ensures((i,), v) ==> fv(v) == Ext::Fin(ienv(i as int))) && #[trigger] esem_all(es@, ienv, true, es@.len() as int) is Some ==>
            truthy(esem_all(es@, ienv, true, es@.len() as int)->Some_0) != true,
    decreases vx_n3 - vx_i3,
@fn eval_expr @loop 3 @start
    let ghost i0 = vx_i3;
@fn eval_expr @before "vx_go3 = false"
    proof {
        assert forall|ienv: IEnv| (forall|i: usize, v: F64| #[trigger] var.ensures((i,), v) ==> fv(v) == Ext::Fin(ienv(i as int))) && #[trigger] esem_all(es@, ienv, true, es@.len() as int) is Some implies
            truthy(esem_all(es@, ienv, true, es@.len() as int)->Some_0) != true by {
            lemma_eall_prefix(es@, ienv, true, es@.len() as int, i0 + 1);
            lemma_eall_one(es@, ienv, true, es@.len() as int, i0 as int);
        }
    }
@fn eval_expr @loop 3 @end
    proof {
        if vx_go3 {
            assert forall|ienv: IEnv| (forall|i: usize, v: F64| #[trigger] var.ensures((i,), v) ==> fv(v) == Ext::Fin(ienv(i as int))) && #[trigger] esem_all(es@, ienv, true, es@.len() as int) is Some implies
                forall|k: int| 0 <= k < vx_i3 ==> (esem(#[trigger] es@[k], ienv) matches Some(x) && truthy(x) == true) by {
                lemma_eall_prefix(es@, ienv, true, es@.len() as int, i0 + 1);
                assert(esem(es@[i0 as int], ienv) is Some);
                assert(esem(*e, ienv) is Some);
                assert forall|k: int| 0 <= k < vx_i3 implies (esem(#[trigger] es@[k], ienv) matches Some(x) && truthy(x) == true) by { if k == i0 { assert(es@[k] == *e); } }
            }
        }
    }
@fn eval_expr @tail 6
    proof {
        assert forall|ienv: IEnv| (forall|i: usize, v: F64| #[trigger] var.ensures((i,), v) ==> fv(v) == Ext::Fin(ienv(i as int))) && #[trigger] esem(*expr, ienv) is Some implies fv(r__) == Ext::Fin(esem(*expr, ienv)->Some_0) by {
            assert(esem_all(es@, ienv, true, es@.len() as int) is Some);
            lemma_eall_01(es@, ienv, true, es@.len() as int);
            if fv(r__) == Ext::Fin(1real) { lemma_eall_uniform(es@, ienv, true, es@.len() as int); }
        }
    }
@fn eval_expr @loop 4
    invariant
        vx_n4 == es@.len(), vx_i4 <= vx_n4, forall|i: usize| #[trigger] var.requires((i,)),
        vx_go4 ==> forall|ienv: IEnv| (forall|i: usize, v: F64| #[trigger] var.ensures((i,), v) ==> fv(v) == Ext::Fin(ienv(i as int))) && #[trigger] esem_all(es@, ienv, false, es@.len() as int) is Some ==>
            forall|k: int| 0 <= k < vx_i4 ==> (esem(#[trigger] es@[k], ienv) matches Some(x) && truthy(x) == false),
        !vx_go4 ==> forall|ienv: IEnv| (forall|i: usize, v: F64| #[trigger] var.ensures((i,), v) ==> fv(v) == Ext::Fin(ienv(i as int))) && #[trigger] esem_all(es@, ienv, false, es@.len() as int) is Some ==>
            truthy(esem_all(es@, ienv, false, es@.len() as int)->Some_0) != false,
    decreases vx_n4 - vx_i4,
@fn eval_expr @loop 4 @start
    let ghost i0 = vx_i4;
@fn eval_expr @before "vx_go4 = false"
    proof {
        assert forall|ienv: IEnv| (forall|i: usize, v: F64| #[trigger] var.ensures((i,), v) ==> fv(v) == Ext::Fin(ienv(i as int))) && #[trigger] esem_all(es@, ienv, false, es@.len() as int) is Some implies
            truthy(esem_all(es@, ienv, false, es@.len() as int)->Some_0) != false by {
            lemma_eall_prefix(es@, ienv, false, es@.len() as int, i0 + 1);
            lemma_eall_one(es@, ienv, false, es@.len() as int, i0 as int);
        }
    }
@fn eval_expr @loop 4 @end
    proof {
        if vx_go4 {
            assert forall|ienv: IEnv| (forall|i: usize, v: F64| #[trigger] var.ensures((i,), v) ==> fv(v) == Ext::Fin(ienv(i as int))) && #[trigger] esem_all(es@, ienv, false, es@.len() as int) is Some implies
                forall|k: int| 0 <= k < vx_i4 ==> (esem(#[trigger] es@[k], ienv) matches Some(x) && truthy(x) == false) by {
                lemma_eall_prefix(es@, ienv, false, es@.len() as int, i0 + 1);
                assert(esem(es@[i0 as int], ienv) is Some);
                assert(esem(*e, ienv) is Some);
                assert forall|k: int| 0 <= k < vx_i4 implies (esem(#[trigger] es@[k], ienv) matches Some(x) && truthy(x) == false) by { if k == i0 { assert(es@[k] == *e); } }
            }
        }
    }
@fn eval_expr @tail 7
    proof {
        assert forall|ienv: IEnv| (forall|i: usize, v: F64| #[trigger] var.ensures((i,), v) ==> fv(v) == Ext::Fin(ienv(i as int))) && #[trigger] esem(*expr, ienv) is Some implies fv(r__) == Ext::Fin(esem(*expr, ienv)->Some_0) by {
            assert(esem_all(es@, ienv, false, es@.len() as int) is Some);
            lemma_eall_01(es@, ienv, false, es@.len() as int);
            if fv(r__) == Ext::Fin(0real) { lemma_eall_uniform(es@, ienv, false, es@.len() as int); }
        }
    }
