//@ C13 — "converting a continuous linear model": the kind check.
@fn DomainVariable::get_type -> r
    ensures *r == self.as_type,
@fn find_invalid_variables -> r
    requires domain.wf(), forall|t: &VariableType| #[trigger] validator.requires((t,)),
    ensures
        // nothing listed: the validator accepted every entry
        r@.len() == 0 ==> forall|k: Seq<char>| #[trigger] domain.has(k) ==> validator.ensures((&domain.map()[k].as_type,), true),
        // everything listed is an entry the validator rejected
        forall|j: int| 0 <= j < r@.len() ==> domain.has((#[trigger] r@[j]).0@) && validator.ensures((&domain.map()[r@[j].0@].as_type,), false),
@fn find_invalid_variables @lettype vx_fm1
    Vec<(String, DomainVariable)>
@fn find_invalid_variables @loop 1
    invariant vx_n1 == domain.keys().len(), domain.wf(), forall|t: &VariableType| #[trigger] validator.requires((t,)),
        vx_fm1@.len() == 0 ==> forall|p: int| 0 <= p < vx_i1 ==> validator.ensures((&domain.map()[#[trigger] domain.keys()[p]].as_type,), true),
        forall|j: int| 0 <= j < vx_fm1@.len() ==> domain.has((#[trigger] vx_fm1@[j]).0@) && validator.ensures((&domain.map()[vx_fm1@[j].0@].as_type,), false),
@fn find_invalid_variables @after "let (name, var)"
    let ghost key = domain.keys()[vx_i1 as int];
    proof { assert(domain.keys().contains(key)); assert(domain.has(key)); assert(name@ == key); assert(*var == domain.map()[key]); }
@fn find_invalid_variables @tail 1
    proof {
        if r__@.len() == 0 {
            assert forall|k: Seq<char>| #[trigger] domain.has(k) implies validator.ensures((&domain.map()[k].as_type,), true) by {
                assert(domain.keys().contains(k));
                let p = choose|p: int| 0 <= p < domain.keys().len() && domain.keys()[p] == k;
                assert(domain.keys()[p] == k);
            }
        }
    }
@fn std_kind_check -> r
    requires domain.wf(),
    ensures r is Ok <==> (forall|k: Seq<char>| #[trigger] domain.has(k) ==> real_kind(domain.map()[k].as_type)),
@fn std_kind_check @closure 1
    |var: &VariableType| -> (b: bool) ensures b == (*var is Real || *var is NonNegativeReal),
@fn std_kind_check @after "let invalid_variables"
    proof {
        if invalid_variables@.len() > 0 {
            let e = invalid_variables@[0];
            assert(domain.has(e.0@));
            assert(!real_kind(domain.map()[e.0@].as_type));
        }
    }
