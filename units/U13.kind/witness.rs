    // Executable postcondition of find_invalid_variables on the real function: the result lists exactly the entries the validator rejects, in domain
    // order, each under its OWN name and with its own variable.  Corpus: every arrangement of 4 variables over the 4 kinds (256 domains) x 3 validators.
    use crate::math::VariableType;
    use crate::parser::model_transformer::DomainVariable;
    use crate::utils::InputSpan;
    #[test]
    fn search() {
        let kinds = [VariableType::Boolean, VariableType::IntegerRange(0, 10), VariableType::Real(f64::NEG_INFINITY, f64::INFINITY), VariableType::NonNegativeReal(0.0, 5.0)];
        let names = ["x", "n", "y", "b"];
        let (mut cases, mut fails) = (0u64, 0u32);
        for code in 0..256usize {
            let mut domain: IndexMap<String, DomainVariable> = IndexMap::new();
            for (i, name) in names.iter().enumerate() { domain.insert(name.to_string(), DomainVariable::new(kinds[(code >> (2 * i)) & 3].clone(), InputSpan::default())); }
            for v in 0..3usize {
                cases += 1;
                let accept = |t: &VariableType| match v { 0 => matches!(t, VariableType::Real(_, _) | VariableType::NonNegativeReal(_, _)), 1 => matches!(t, VariableType::Boolean), _ => !matches!(t, VariableType::IntegerRange(_, _)) };
                let got = find_invalid_variables(&domain, accept);
                let expect: Vec<String> = domain.iter().filter(|(_, d)| !accept(d.get_type())).map(|(n, _)| n.clone()).collect();
                let got_names: Vec<String> = got.iter().map(|(n, _)| n.clone()).collect();
                let own = got.iter().all(|(n, d)| domain.get(n).map(|e| format!("{:?}", e.get_type()) == format!("{:?}", d.get_type())).unwrap_or(false));
                if got_names != expect || !own {
                    fails += 1;
                    if fails < 6 { println!("WITNESS-FAIL {{\"fn\": \"find_invalid_variables\", \"clause\": \"the result lists exactly the rejected entries, each under its own name\", \"domain\": \"{:?}\", \"validator\": {}, \"expected\": \"{:?}\", \"got\": \"{:?}\"}}", domain.iter().map(|(n, d)| format!("{}: {:?}", n, d.get_type())).collect::<Vec<_>>(), v, expect, got_names); }
                }
            }
        }
        println!("WITNESS-DONE cases={}", cases);
    }
