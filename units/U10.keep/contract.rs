//@ C10 — "a division by zero or by a non-constant is never rewritten away".
@fn Exp::to_box -> r
    ensures *r == self,
@fn num_truthy @assumed -> r
    ensures true,
@fn logic_number @assumed -> r
    ensures true,
@fn simplify_logic_nary @assumed -> r
    ensures true,
@fn Exp::simplify @attr
#[verifier::exec_allows_no_decreases_clause]
@fn Exp::simplify -> r
    ensures
        arith(*self) ==> arith(r),
        exp_fin(*self) ==> exp_fin(r),
        // wherever the original is undefined (a division by zero), so is the result: the division has not been rewritten away
        arith(*self) && exp_fin(*self) ==> forall|env: Env| sem(*self, env) is None ==> #[trigger] sem(r, env) is None,
        // (value preservation, proved with the same text in U10.simp: needed here as induction hypothesis for constant divisors)
        forall|env: Env| sem(*self, env) is Some ==> #[trigger] sem(r, env) == sem(*self, env),
@fn Exp::simplify @keep-arms
    Exp::BinOp / BinOp::Add
    Exp::BinOp / BinOp::Sub
    Exp::BinOp / BinOp::Mul
    Exp::BinOp / BinOp::Div
@fn Exp::simplify @entry
    proof { lemma_bad_div(*self); lemma_exp_fin(*self); lemma_simp_arith(); }
@fn Exp::simplify @after "let rhs = rhs.simplify();"
    let ghost l1 = lhs;
    let ghost r1 = rhs;
    let ghost a0 = *self->BinOp_1;
    let ghost b0 = *self->BinOp_2;
    proof { lemma_bad_div(l1); lemma_bad_div(r1); lemma_exp_fin(l1); lemma_exp_fin(r1);
        if arith(*self) && exp_fin(*self) {
            assert(arith(a0) && arith(b0) && exp_fin(a0) && exp_fin(b0) && arith(l1) && arith(r1));
            assert forall|env: Env| #[trigger] sem(*self, env) is None implies (!bad_div(l1) ==> sem(l1, env) is Some) && (!bad_div(r1) ==> sem(r1, env) is Some)
                && (sem(a0, env) is None ==> sem(l1, env) is None) && (sem(b0, env) is None ==> sem(r1, env) is None)
                && (sem(a0, env) is Some ==> sem(l1, env) == sem(a0, env)) && (sem(b0, env) is Some ==> sem(r1, env) == sem(b0, env)) by {
                if !bad_div(l1) { lemma_safe_defined(l1, env); }
                if !bad_div(r1) { lemma_safe_defined(r1, env); }
            }
        }
    }
@fn Exp::simplify @tail 1-17
    proof { lemma_exp_fin(r__); lemma_exp_fin(*r__->BinOp_1); lemma_exp_fin(*r__->BinOp_2); lemma_exp_fin(*r__->UnOp_1); lemma_exp_fin(*r__->Abs_0);
        assert(arith(*self) ==> arith(r__));
        assert(arith(*self) && exp_fin(*self) ==> forall|env: Env| sem(*self, env) is None ==> #[trigger] sem(r__, env) is None);
        assert forall|env: Env| sem(*self, env) is Some implies #[trigger] sem(r__, env) == sem(*self, env) by {
            assert(sem(a0, env) is Some && sem(b0, env) is Some);
            assert(sem(l1, env) == sem(a0, env) && sem(r1, env) == sem(b0, env));
        }
    }
@raw
// real-arithmetic identities behind the folding rules (0 + x, x * 1, x * 0, x / 1): pure facts about the opaque product / quotient
pub proof fn lemma_simp_arith()
    ensures
        forall|x: real| #[trigger] rmul_s(0real, x) == 0real,
        forall|x: real| #[trigger] rmul_s(x, 0real) == 0real,
        forall|x: real| #[trigger] rmul_s(1real, x) == x,
        forall|x: real| #[trigger] rmul_s(x, 1real) == x,
        forall|x: real| #[trigger] rdiv_s(x, 1real) == x,
{
    reveal(rmul_s); reveal(rdiv_s);
    assert forall|x: real| #[trigger] rmul_s(0real, x) == 0real by { assert(0real * x == 0real) by (nonlinear_arith); }
    assert forall|x: real| #[trigger] rmul_s(x, 0real) == 0real by { assert(x * 0real == 0real) by (nonlinear_arith); }
    assert forall|x: real| #[trigger] rmul_s(1real, x) == x by { assert(1real * x == x) by (nonlinear_arith); }
    assert forall|x: real| #[trigger] rmul_s(x, 1real) == x by { assert(x * 1real == x) by (nonlinear_arith); }
    assert forall|x: real| #[trigger] rdiv_s(x, 1real) == x by { assert(x / 1real == x) by (nonlinear_arith); }
}
