//@ C10 — "a division by zero or by a non-constant is never rewritten away": the zero-product rule of simplify is the only rule that
//@ drops an operand, and it is guarded by this function.
@fn Exp::has_unsafe_division -> r
    ensures r == bad_div(*self),
    decreases self,
@fn Exp::has_unsafe_division @keep-arms
    Exp::Number(_)|Exp::Variable(_)
    Exp::Abs(exp)|Exp::Not(exp)|Exp::UnOp(_,exp)
    Exp::Xor(lhs,rhs)|Exp::Implies(lhs,rhs)|Exp::Iff(lhs,rhs)
    Exp::BinOp(op,lhs,rhs)
@fn Exp::has_unsafe_division @entry
    proof { lemma_bad_div(*self); }
