//@ C07 — "every variable range published ... contains the value that variable takes in every assignment satisfying the source model":
//@ one backward step never cuts off a point of the current box at which the constraint / expression requirement holds.
@fn Constraint::lhs -> r
    ensures *r == self.lhs,
@fn Constraint::rhs -> r
    ensures *r == self.rhs,
@fn BoundsAnalyzer::tighten_variable -> r
    requires box_wf(*old(self)), wf(candidate), finite(old(self).tolerance), rv(old(self).tolerance) >= 0real,
    ensures
        box_wf(*final(self)), final(self).tolerance == old(self).tolerance,
        // a point of the old box whose value for `name` lies in the candidate range stays inside
        forall|env: Env| #[trigger] box_ok(*old(self), env) && contains(candidate, env[name@]) ==> box_ok(*final(self), env),
        // infeasibility is only recorded when no point of the old box has its value in the candidate range
        final(self).detected_infeasible && !old(self).detected_infeasible ==> forall|env: Env| #[trigger] box_ok(*old(self), env) ==> !contains(candidate, env[name@]),
@fn BoundsAnalyzer::tighten_expression @attr
#[verifier::exec_allows_no_decreases_clause]
@fn BoundsAnalyzer::tighten_expression
    requires box_wf(*old(self)), wf(required), exp_fin(*exp), finite(old(self).tolerance), rv(old(self).tolerance) >= 0real,
    ensures
        box_wf(*final(self)), final(self).tolerance == old(self).tolerance,
        forall|env: Env| #[trigger] box_ok(*old(self), env) && (sem(*exp, env) matches Some(v) && contains(required, v)) ==> box_ok(*final(self), env),
@fn BoundsAnalyzer::tighten_constraint_expression
    requires box_wf(*old(self)), wf(required), c_fin(*constraint), finite(old(self).tolerance), rv(old(self).tolerance) >= 0real,
    ensures
        box_wf(*final(self)), final(self).tolerance == old(self).tolerance,
        forall|env: Env| #[trigger] box_ok(*old(self), env)
            && (sem(constraint.lhs, env) matches Some(l) && sem(constraint.rhs, env) matches Some(r) && contains(required, l - r)) ==> box_ok(*final(self), env),
@fn BoundsAnalyzer::tighten_variable @entry
    let ghost nm = name@;
    let ghost o = *self;
@fn BoundsAnalyzer::tighten_variable @before "let changed"
    proof {
        assert(wf(current));
        assert forall|env: Env| #[trigger] box_ok(o, env) && contains(candidate, env[nm]) implies contains(tightened, env[nm]) by {
            if o.variable_bounds.has(nm) { assert(contains(o.variable_bounds.map()[nm], env[nm])); }
        }
    }
@fn BoundsAnalyzer::tighten_variable @tail 1
    proof {
        assert forall|k: Seq<char>| #[trigger] self.variable_bounds.has(k) implies wf(self.variable_bounds.map()[k]) by { if k != nm { assert(o.variable_bounds.has(k)); } }
        assert forall|env: Env| #[trigger] box_ok(o, env) && contains(candidate, env[nm]) implies box_ok(*self, env) by {
            assert forall|k: Seq<char>| #[trigger] self.variable_bounds.has(k) implies contains(self.variable_bounds.map()[k], env[k]) by {
                if k != nm { assert(o.variable_bounds.has(k)); }
            }
        }
    }
@fn BoundsAnalyzer::tighten_expression @entry
    let ghost o = *self;
    let ghost req0 = required;
    proof { lemma_exp_fin(*exp); lemma_exp_fin(*exp->BinOp_1); lemma_exp_fin(*exp->BinOp_2); lemma_exp_fin_list(*exp); }
@fn BoundsAnalyzer::tighten_expression @after "let Some(required)"
    proof {
        // G: a value of the expression inside the caller's range is inside the (intersected) range used below
        assert forall|env: Env| #[trigger] box_ok(o, env) && sem(*exp, env) is Some && contains(req0, sem(*exp, env)->Some_0) implies contains(required, sem(*exp, env)->Some_0) by { }
    }
// ---- Abs: |a| <= U  ==>  -U <= a <= U
@fn BoundsAnalyzer::tighten_expression @before "self.tighten_expression(inner, vx_a"
    proof {
        lemma_f_neg(required.upper);
        assert forall|env: Env| #[trigger] box_ok(o, env) && sem(*exp, env) is Some && contains(req0, sem(*exp, env)->Some_0)
            implies sem(**inner, env) is Some && contains(Bounds { lower: f_neg(required.upper), upper: required.upper }, sem(**inner, env)->Some_0) by { }
    }
// ---- Min / Max: every operand is on the same side of the required bound as the extreme
@fn BoundsAnalyzer::tighten_expression @loop 1
    invariant
        vx_n2 == vx_v2@.len(), vx_v2@ == exps@, *exp == Exp::Min(*exps), box_wf(*self), self.tolerance == o.tolerance, finite(o.tolerance), rv(o.tolerance) >= 0real,
        wf(required),
        forall|j: int| 0 <= j < vx_v2@.len() ==> exp_fin(#[trigger] vx_v2@[j]),
        forall|env: Env| #[trigger] box_ok(o, env) && sem(*exp, env) is Some && contains(req0, sem(*exp, env)->Some_0) ==> contains(required, sem(*exp, env)->Some_0),
        forall|env: Env| #[trigger] box_ok(o, env) && sem(*exp, env) is Some && contains(req0, sem(*exp, env)->Some_0) ==> box_ok(*self, env),
@fn BoundsAnalyzer::tighten_expression @loop 1 @start
    let ghost mid = *self;
@fn BoundsAnalyzer::tighten_expression @loop 1 @end
    proof {
        assert forall|env: Env| #[trigger] box_ok(o, env) && sem(Exp::Min(*exps), env) is Some && contains(req0, sem(Exp::Min(*exps), env)->Some_0) implies box_ok(*self, env) by {
            lemma_fold_member(exps@, env, true, exps@.len() as int, vx_i2 as int);
            assert(box_ok(mid, env));
        }
    }
@fn BoundsAnalyzer::tighten_expression @loop 2
    invariant
        vx_n4 == vx_v4@.len(), vx_v4@ == exps@, *exp == Exp::Max(*exps), box_wf(*self), self.tolerance == o.tolerance, finite(o.tolerance), rv(o.tolerance) >= 0real,
        wf(required),
        forall|j: int| 0 <= j < vx_v4@.len() ==> exp_fin(#[trigger] vx_v4@[j]),
        forall|env: Env| #[trigger] box_ok(o, env) && sem(*exp, env) is Some && contains(req0, sem(*exp, env)->Some_0) ==> contains(required, sem(*exp, env)->Some_0),
        forall|env: Env| #[trigger] box_ok(o, env) && sem(*exp, env) is Some && contains(req0, sem(*exp, env)->Some_0) ==> box_ok(*self, env),
@fn BoundsAnalyzer::tighten_expression @loop 2 @start
    let ghost mid = *self;
@fn BoundsAnalyzer::tighten_expression @loop 2 @end
    proof {
        assert forall|env: Env| #[trigger] box_ok(o, env) && sem(Exp::Max(*exps), env) is Some && contains(req0, sem(Exp::Max(*exps), env)->Some_0) implies box_ok(*self, env) by {
            lemma_fold_member(exps@, env, false, exps@.len() as int, vx_i4 as int);
            assert(box_ok(mid, env));
        }
    }
// ---- Add / Sub: the other operand lies in its forward range, so this operand lies in (required -/+ that range)
@fn BoundsAnalyzer::tighten_expression @before "self.tighten_expression(rhs, vx_a7"
    let ghost mid = *self;
    proof {
        assert forall|env: Env| #[trigger] box_ok(o, env) && sem(*exp, env) is Some && contains(req0, sem(*exp, env)->Some_0) implies box_ok(mid, env) && contains(vx_a7, sem(**rhs, env)->Some_0) by {
            let a = sem(**lhs, env)->Some_0; let b = sem(**rhs, env)->Some_0;
            assert(contains(required, a + b) && contains(rhs_bounds, b) && contains(lhs_bounds, a));
            assert(a == (a + b) - b); assert(b == (a + b) - a);
        }
    }
@fn BoundsAnalyzer::tighten_expression @before "self.tighten_expression(rhs, vx_a9"
    let ghost mid = *self;
    proof {
        assert forall|env: Env| #[trigger] box_ok(o, env) && sem(*exp, env) is Some && contains(req0, sem(*exp, env)->Some_0) implies box_ok(mid, env) && contains(vx_a9, sem(**rhs, env)->Some_0) by {
            let a = sem(**lhs, env)->Some_0; let b = sem(**rhs, env)->Some_0;
            assert(contains(required, a - b) && contains(rhs_bounds, b) && contains(lhs_bounds, a));
            assert(a == (a - b) + b); assert(b == a - (a - b));
        }
    }
// ---- Mul / Div by a non-zero constant
@fn BoundsAnalyzer::tighten_expression @before "self.tighten_expression(rhs, vx_a10"
    proof {
        assert forall|env: Env| #[trigger] box_ok(o, env) && sem(*exp, env) is Some && contains(req0, sem(*exp, env)->Some_0) implies contains(vx_a10, sem(**rhs, env)->Some_0) by {
            let b = sem(**rhs, env)->Some_0; let c = rv(*coefficient);
            lemma_mul_div(c, b);
            assert(contains(required, rmul_s(c, b)));
        }
    }
@fn BoundsAnalyzer::tighten_expression @before "self.tighten_expression(lhs, vx_a11"
    proof {
        assert forall|env: Env| #[trigger] box_ok(o, env) && sem(*exp, env) is Some && contains(req0, sem(*exp, env)->Some_0) implies contains(vx_a11, sem(**lhs, env)->Some_0) by {
            let a = sem(**lhs, env)->Some_0; let c = rv(*coefficient);
            lemma_mul_div(c, a);
            assert(contains(required, rmul_s(a, c)));
        }
    }
@fn BoundsAnalyzer::tighten_expression @before "self.tighten_expression(lhs, vx_a12"
    proof {
        assert forall|env: Env| #[trigger] box_ok(o, env) && sem(*exp, env) is Some && contains(req0, sem(*exp, env)->Some_0) implies contains(vx_a12, sem(**lhs, env)->Some_0) by {
            let a = sem(**lhs, env)->Some_0; let d = rv(*divisor);
            lemma_mul_div(d, a);
            assert(contains(required, rdiv_s(a, d)));
        }
    }
@fn BoundsAnalyzer::tighten_expression @end
    proof {
        assert(box_wf(*self)); assert(self.tolerance == o.tolerance);
        assert(forall|env: Env| #[trigger] box_ok(o, env) && sem(*exp, env) is Some && contains(req0, sem(*exp, env)->Some_0) ==> box_ok(*self, env));
    }
@fn BoundsAnalyzer::tighten_expression @return 1
    proof { assert(box_wf(*self)); assert(self.tolerance == o.tolerance); }
@fn BoundsAnalyzer::tighten_expression @return 2
    proof { assert(box_wf(*self)); assert(self.tolerance == o.tolerance);
        assert(forall|env: Env| #[trigger] box_ok(o, env) && sem(*exp, env) is Some && contains(req0, sem(*exp, env)->Some_0) ==> box_ok(*self, env)); }
@raw
// every operand of a defined min (max) is defined and not smaller (not larger) than it
pub proof fn lemma_fold_member(es: Seq<Exp>, env: Env, is_min: bool, n: int, i: int)
    requires 0 <= i < n <= es.len(), sem_fold(es, env, is_min, n) is Some,
    ensures sem(es[i], env) is Some, is_min ==> sem(es[i], env)->Some_0 >= sem_fold(es, env, is_min, n)->Some_0, !is_min ==> sem(es[i], env)->Some_0 <= sem_fold(es, env, is_min, n)->Some_0,
    decreases n,
{
    if n > 1 && i < n - 1 { lemma_fold_member(es, env, is_min, n - 1, i); }
}
pub proof fn lemma_mul_div(c: real, x: real)
    requires c != 0real,
    ensures rdiv_s(rmul_s(c, x), c) == x, rdiv_s(rmul_s(x, c), c) == x, rmul_s(rdiv_s(x, c), c) == x,
{
    reveal(rmul_s); reveal(rdiv_s);
    assert((c * x) / c == x) by (nonlinear_arith) requires c != 0real;
    assert((x * c) / c == x) by (nonlinear_arith) requires c != 0real;
    assert((x / c) * c == x) by (nonlinear_arith) requires c != 0real;
}
