    // Executable form of C07's first sentence on the REAL analyser (BoundsAnalyzer::analyze + apply_to_domain), bounded:
    // for small constraint systems over x, y (real), k (integer) and a grid of points: a point that lies in the declared domains
    // and satisfies every constraint lies inside the derived box and inside the published (rounded) domain — also when the
    // system is infeasible elsewhere, when propagation stops at its step limit, and through abs / min / max.
    use crate::parser::model_transformer::DomainVariable;
    use crate::math::{BinOp, UnOp, Comparison};
    use crate::utils::InputSpan;
    use crate::parser::model_transformer::Constraint;
    fn v(n: &str) -> Exp { Exp::Variable(n.to_string()) }
    fn num(c: f64) -> Exp { Exp::Number(c) }
    fn bin(op: BinOp, a: Exp, b: Exp) -> Exp { Exp::BinOp(op, Box::new(a), Box::new(b)) }
    fn ev(e: &Exp, p: &[f64; 3]) -> f64 {
        match e {
            Exp::Number(c) => *c,
            Exp::Variable(n) => match n.as_str() { "x" => p[0], "y" => p[1], _ => p[2] },
            Exp::UnOp(UnOp::Neg, a) => -ev(a, p),
            Exp::Abs(a) => ev(a, p).abs(),
            Exp::Min(es) => es.iter().map(|e| ev(e, p)).fold(f64::INFINITY, f64::min),
            Exp::Max(es) => es.iter().map(|e| ev(e, p)).fold(f64::NEG_INFINITY, f64::max),
            Exp::BinOp(op, a, b) => { let (a, b) = (ev(a, p), ev(b, p)); match op { BinOp::Add => a + b, BinOp::Sub => a - b, BinOp::Mul => a * b, BinOp::Div => a / b, _ => f64::NAN } }
            _ => f64::NAN,
        }
    }
    fn holds(c: &Constraint, p: &[f64; 3]) -> bool {
        let (l, r) = (ev(c.lhs(), p), ev(c.rhs(), p));
        match c.constraint_type() { Comparison::LessOrEqual => l <= r, Comparison::GreaterOrEqual => l >= r, Comparison::Equal => l == r, Comparison::Less => l < r, Comparison::Greater => l > r }
    }
    fn in_type(t: &VariableType, x: f64) -> bool {
        match t {
            VariableType::Boolean => x == 0.0 || x == 1.0,
            VariableType::IntegerRange(a, b) => x.fract() == 0.0 && x >= *a as f64 && x <= *b as f64,
            VariableType::NonNegativeReal(a, b) => x >= 0.0 && x >= *a && x <= *b,
            VariableType::Real(a, b) => x >= *a && x <= *b,
        }
    }
    fn cons(l: Exp, c: Comparison, r: Exp) -> Constraint { Constraint::new(l, c, r, String::new()) }
    fn systems() -> Vec<Vec<Constraint>> {
        let (x, y, k) = (v("x"), v("y"), v("k"));
        let le = Comparison::LessOrEqual; let ge = Comparison::GreaterOrEqual; let eq = Comparison::Equal;
        vec![
            vec![cons(bin(BinOp::Add, x.clone(), y.clone()), le, num(4.0)), cons(bin(BinOp::Sub, x.clone(), y.clone()), ge, num(1.0))],
            vec![cons(bin(BinOp::Mul, num(1.9), k.clone()), le, num(3.8)), cons(k.clone(), ge, bin(BinOp::Div, x.clone(), num(2.0)))],
            vec![cons(bin(BinOp::Mul, num(-3.0), x.clone()), le, bin(BinOp::Add, y.clone(), num(2.0))), cons(y.clone(), le, bin(BinOp::Mul, k.clone(), num(0.5))), cons(k.clone(), le, num(3.0))],
            vec![cons(Exp::Abs(Box::new(bin(BinOp::Sub, x.clone(), num(1.0)))), le, num(2.0)), cons(y.clone(), eq, bin(BinOp::Mul, num(2.0), x.clone()))],
            vec![cons(Exp::Abs(Box::new(x.clone())), ge, num(2.0)), cons(y.clone(), le, x.clone())],
            vec![cons(Exp::Min(vec![x.clone(), y.clone(), k.clone()]), ge, num(1.0)), cons(bin(BinOp::Add, x.clone(), y.clone()), le, num(5.0))],
            vec![cons(Exp::Max(vec![y.clone(), x.clone()]), le, num(0.0)), cons(k.clone(), ge, bin(BinOp::Sub, num(0.0), x.clone()))],
            vec![cons(Exp::Min(vec![x.clone(), y.clone()]), le, num(-2.0))],
            vec![cons(Exp::Max(vec![x.clone(), Exp::UnOp(UnOp::Neg, Box::new(y.clone()))]), ge, num(3.0)), cons(x.clone(), le, num(1.0))],
            // contradictory rows: no point satisfies them, nothing to check but NaN-freeness
            vec![cons(x.clone(), ge, num(3.0)), cons(x.clone(), le, num(2.0)), cons(y.clone(), le, x.clone())],
            // a chain that needs several rounds
            vec![cons(x.clone(), le, bin(BinOp::Sub, y.clone(), num(1.0))), cons(y.clone(), le, bin(BinOp::Sub, k.clone(), num(1.0))), cons(k.clone(), le, num(2.0)), cons(x.clone(), ge, bin(BinOp::Sub, y.clone(), num(3.0)))],
            vec![cons(bin(BinOp::Div, bin(BinOp::Sub, x.clone(), y.clone()), num(-2.0)), ge, num(1.0)), cons(Exp::UnOp(UnOp::Neg, Box::new(x.clone())), le, num(1.5))],
            // affine forms with constant terms under scaling / division / negation, variables on both sides, cancelling coefficients
            vec![cons(bin(BinOp::Div, bin(BinOp::Add, x.clone(), num(4.0)), num(2.0)), le, num(5.0)), cons(y.clone(), ge, bin(BinOp::Sub, x.clone(), num(1.0)))],
            vec![cons(bin(BinOp::Div, bin(BinOp::Add, k.clone(), num(3.0)), num(2.0)), eq, num(2.0)), cons(x.clone(), le, bin(BinOp::Add, k.clone(), num(0.5)))],
            vec![cons(bin(BinOp::Sub, bin(BinOp::Mul, num(2.0), bin(BinOp::Add, x.clone(), num(1.0))), x.clone()), le, bin(BinOp::Add, bin(BinOp::Mul, num(3.0), bin(BinOp::Sub, y.clone(), num(1.0))), num(4.0)))],
            vec![cons(bin(BinOp::Add, Exp::UnOp(UnOp::Neg, Box::new(bin(BinOp::Sub, x.clone(), num(2.0)))), num(1.0)), ge, bin(BinOp::Div, bin(BinOp::Sub, num(3.0), y.clone()), num(2.0))), cons(y.clone(), le, num(1.0))],
            vec![cons(bin(BinOp::Sub, bin(BinOp::Add, x.clone(), y.clone()), bin(BinOp::Sub, x.clone(), num(1.0))), le, num(3.0)), cons(x.clone(), ge, bin(BinOp::Mul, bin(BinOp::Add, y.clone(), num(1.0)), num(-0.5)))],
            vec![cons(bin(BinOp::Sub, num(3.0), x.clone()), le, bin(BinOp::Mul, bin(BinOp::Add, y.clone(), num(1.0)), num(2.0))), cons(bin(BinOp::Div, bin(BinOp::Sub, num(6.0), k.clone()), num(-3.0)), le, x.clone())],
            // a product whose constant factor is zero (either side) over a sum with a constant: the whole term is 0
            vec![cons(bin(BinOp::Add, bin(BinOp::Mul, num(0.0), bin(BinOp::Add, x.clone(), num(5.0))), y.clone()), le, num(3.0)), cons(bin(BinOp::Sub, k.clone(), bin(BinOp::Mul, bin(BinOp::Sub, y.clone(), num(2.0)), num(0.0))), ge, num(1.0))],
        ]
    }
    #[test]
    fn search() {
        let inf = f64::INFINITY;
        let doms: Vec<[VariableType; 3]> = vec![
            [VariableType::Real(-4.0, 6.0), VariableType::Real(-5.0, 5.0), VariableType::IntegerRange(-3, 4)],
            [VariableType::Real(-inf, inf), VariableType::NonNegativeReal(0.0, inf), VariableType::IntegerRange(0, 10)],
            [VariableType::NonNegativeReal(0.0, 8.0), VariableType::Real(-inf, 3.0), VariableType::Boolean],
        ];
        let grid: Vec<f64> = vec![-5.0, -4.0, -3.0, -2.0, -1.5, -1.0, -0.5, 0.0, 0.5, 1.0, 1.5, 2.0, 3.0, 4.0, 5.0, 6.0];
        let kgrid: Vec<f64> = vec![-3.0, -2.0, -1.0, 0.0, 1.0, 2.0, 3.0, 4.0];
        let (mut cases, mut fails) = (0u64, 0u32);
        // one report per (system, declared domains, variable, kind of failure): the first failing point is the witness
        let mut seen: std::collections::HashSet<(usize, usize, usize, u8)> = std::collections::HashSet::new();
        for (di, dom) in doms.iter().enumerate() { for (si, sys) in systems().iter().enumerate() { for steps in [1usize, 3, 100_000] {
            let mut domain = IndexMap::new();
            for (n, t) in ["x", "y", "k"].iter().zip(dom.iter()) {
                let mut dv = DomainVariable::new(*t, InputSpan::default());
                dv.increment_usage();
                domain.insert(n.to_string(), dv);
            }
            let analyzer = BoundsAnalyzer::analyze_with_options(&domain, sys, BoundsOptions { tolerance: DEFAULT_TOLERANCE, max_steps: steps });
            let mut published = domain.clone();
            analyzer.apply_to_domain(&mut published);
            cases += 1;
            for (n, b) in analyzer.variable_bounds.iter() {
                if b.lower.is_nan() || b.upper.is_nan() {
                    if fails < 60 { println!("WITNESS-FAIL {{\"fn\": \"BoundsAnalyzer::analyze\", \"clause\": \"a derived variable range is never NaN\", \"system\": {}, \"variable\": \"{}\"}}", si, n); }
                    fails += 1;
                }
            }
            for &x in &grid { for &y in &grid { for &k in &kgrid {
                let p = [x, y, k];
                if !(in_type(&dom[0], x) && in_type(&dom[1], y) && in_type(&dom[2], k)) { continue; }
                if !sys.iter().all(|c| holds(c, &p)) { continue; }
                cases += 1;
                for (i, n) in ["x", "y", "k"].iter().enumerate() {
                    let b = analyzer.variable_bounds.get(*n).copied().unwrap_or(Bounds::UNBOUNDED);
                    // the internal box is compared up to the analyser's own tolerance (it is rounded outwards by that much when published)
                    if !(b.lower - DEFAULT_TOLERANCE <= p[i] && p[i] <= b.upper + DEFAULT_TOLERANCE) && seen.insert((si, di, i, 0)) {
                        if fails < 60 { println!("WITNESS-FAIL {{\"fn\": \"BoundsAnalyzer::analyze\", \"clause\": \"the derived range of a variable contains its value at every assignment that satisfies the constraints\", \"system\": {}, \"max_steps\": {}, \"domains\": \"{:?}\", \"point\": \"x={} y={} k={}\", \"variable\": \"{}\", \"range\": \"[{}, {}]\"}}", si, steps, dom, x, y, k, n, b.lower, b.upper); }
                        fails += 1;
                    }
                    let t = published.get(*n).unwrap().get_type();
                    if !in_type(t, p[i]) && seen.insert((si, di, i, 1)) {
                        if fails < 60 { println!("WITNESS-FAIL {{\"fn\": \"BoundsAnalyzer::apply_to_domain\", \"clause\": \"the published domain of a variable contains its value at every assignment that satisfies the source model (integer ranges after rounding)\", \"system\": {}, \"max_steps\": {}, \"point\": \"x={} y={} k={}\", \"variable\": \"{}\", \"published\": \"{:?}\"}}", si, steps, x, y, k, n, t); }
                        fails += 1;
                    }
                }
            } } }
        } } }
        println!("WITNESS-DONE cases={}", cases);
    }
