//@ C07 — "ranges published into the compiled model's variable domains never exclude a feasible value (integer ranges are rounded inwards only up to the stated tolerance)".
@fn DomainVariable::set_type
    ensures final(self).as_type == as_type, final(self).usage_count == old(self).usage_count,
@fn BoundsAnalyzer::apply_to_domain -> r
    requires box_wf(*self), old(domain).wf(), finite(self.tolerance), rv(self.tolerance) >= 0real,
        forall|k: Seq<char>| #[trigger] old(domain).has(k) ==> vt_wf(old(domain).map()[k].as_type),
    ensures
        final(domain).wf(), final(domain).keys() == old(domain).keys(),
        forall|k: Seq<char>| #[trigger] final(domain).has(k) ==> vt_wf(final(domain).map()[k].as_type),
        forall|k: Seq<char>, x: real| #[trigger] old(domain).has(k) && in_domain(old(domain).map()[k].as_type, x)
            && (self.variable_bounds.has(k) ==> contains(self.variable_bounds.map()[k], x)) ==> #[trigger] in_domain(final(domain).map()[k].as_type, x),
@fn BoundsAnalyzer::apply_to_domain @entry
    let ghost d0 = *domain;
    proof {
        lemma_box(*self);
        assert forall|j: int| 0 <= j < d0.keys().len() implies vt_wf(domain.map()[#[trigger] d0.keys()[j]].as_type) by { assert(d0.keys().contains(d0.keys()[j])); assert(d0.has(d0.keys()[j])); }
    }
@fn BoundsAnalyzer::apply_to_domain @loop 1
    invariant
        d0 == *old(domain), d0.wf(), domain.wf(), domain.keys() == d0.keys(), vx_n1 == d0.keys().len(), vx_i1 <= vx_n1,
        box_wf(*self), finite(self.tolerance), rv(self.tolerance) >= 0real,
        forall|k: Seq<char>| #[trigger] d0.has(k) ==> vt_wf(d0.map()[k].as_type),
        forall|j: int| vx_i1 <= j < d0.keys().len() ==> domain.map()[#[trigger] d0.keys()[j]] == d0.map()[d0.keys()[j]],
        forall|j: int| 0 <= j < d0.keys().len() ==> vt_wf(domain.map()[#[trigger] d0.keys()[j]].as_type),
        forall|j: int| 0 <= j < vx_i1 ==> (self.variable_bounds.has(#[trigger] d0.keys()[j]) ==> pub_ok(d0.map()[d0.keys()[j]].as_type, self.variable_bounds.map()[d0.keys()[j]], domain.map()[d0.keys()[j]].as_type))
            && (!self.variable_bounds.has(d0.keys()[j]) ==> domain.map()[d0.keys()[j]].as_type == d0.map()[d0.keys()[j]].as_type),
    decreases vx_n1 - vx_i1,
@fn BoundsAnalyzer::apply_to_domain @after "let mut vx_v1"
    let ghost key = d0.keys()[vx_c1 as int];
    let ghost t0 = d0.map()[key].as_type;
    let ghost dm = *domain;
    proof {
        assert(d0.keys().contains(key)); assert(d0.has(key));
        assert(vx_v1 == d0.map()[key]);
        assert forall|j: int| 0 <= j < d0.keys().len() && j != vx_c1 implies d0.keys()[j] != key by {}
    }
@fn BoundsAnalyzer::apply_to_domain @before "continue" #1
    proof { assert(!self.variable_bounds.has(key)); }
@fn BoundsAnalyzer::apply_to_domain @after "let Some(bounds)"
    proof { assert(self.variable_bounds.has(key) && bounds == self.variable_bounds.map()[key]); assert(wf(bounds)); lemma_pub_same(t0, bounds); }
@fn BoundsAnalyzer::apply_to_domain @after "let upper"
    proof {
        // the rounded ends are integers that bracket every integer of the inferred interval
        if fv(bounds.lower) is Fin {
            let c = rceil(rv(bounds.lower) - rv(self.tolerance)); ax_rceil(rv(bounds.lower) - rv(self.tolerance)); lemma_floor_int(c);
            assert forall|k: int| #[trigger] contains(bounds, i2r(k)) implies rv(lower) <= k as real by { lemma_i2r(k); assert(((c - 1) as real) < (k as real)); assert(c <= k); }
        }
        if fv(bounds.upper) is Fin {
            let f = rfloor(rv(bounds.upper) + rv(self.tolerance)); ax_rfloor(rv(bounds.upper) + rv(self.tolerance)); lemma_floor_int(f);
            assert forall|k: int| #[trigger] contains(bounds, i2r(k)) implies k as real <= rv(upper) by { lemma_i2r(k); assert((k as real) < ((f + 1) as real)); assert(k <= f); }
        }
    }
@fn BoundsAnalyzer::apply_to_domain @after "let vx_a3"
    proof { lemma_brackets_rounded(t0->IntegerRange_0, t0->IntegerRange_1, bounds, fv(lower), fv(upper), vx_a2, vx_a3); }
@fn BoundsAnalyzer::apply_to_domain @before "vx_v1.set_type(tightened_type)"
    proof {
        assert(pub_ok(t0, bounds, tightened_type)) by {
            match t0 {
                VariableType::Boolean => { lemma_pub_same(t0, bounds); }
                VariableType::IntegerRange(a, b) => { lemma_pub_int(a, b, bounds, tightened_type->IntegerRange_0, tightened_type->IntegerRange_1); }
                VariableType::NonNegativeReal(a, b) => { lemma_pub_nn(a, b, bounds, tightened_type->NonNegativeReal_0); }
                VariableType::Real(a, b) => { lemma_pub_real(a, b, bounds); }
            }
        }
    }
@fn BoundsAnalyzer::apply_to_domain @tail 1
    proof {
        assert forall|k: Seq<char>| #[trigger] domain.has(k) implies vt_wf(domain.map()[k].as_type) by {
            assert(d0.keys().contains(k));
            let j = choose|j: int| 0 <= j < d0.keys().len() && d0.keys()[j] == k;
            assert(d0.keys()[j] == k);
        }
        assert forall|k: Seq<char>, x: real| #[trigger] d0.has(k) && in_domain(d0.map()[k].as_type, x) && (self.variable_bounds.has(k) ==> contains(self.variable_bounds.map()[k], x))
            implies #[trigger] in_domain(domain.map()[k].as_type, x) by {
            assert(d0.keys().contains(k));
            let j = choose|j: int| 0 <= j < d0.keys().len() && d0.keys()[j] == k;
            assert(d0.keys()[j] == k);
            reveal(pub_ok);
        }
    }
@fn BoundsAnalyzer::from_domain -> r
    requires domain.wf(), forall|k: Seq<char>| #[trigger] domain.has(k) ==> vt_wf(domain.map()[k].as_type),
    ensures
        box_wf(r), finite(r.tolerance), rv(r.tolerance) >= 0real,
        forall|k: Seq<char>| #[trigger] r.variable_bounds.has(k) <==> domain.has(k),
        forall|env: Env| (forall|k: Seq<char>| #[trigger] domain.has(k) ==> in_domain(domain.map()[k].as_type, env[k])) ==> #[trigger] box_ok(r, env),
@fn BoundsAnalyzer::from_domain @loop 1
    invariant
        vx_n1 == domain.keys().len(), domain.wf(), vx_m1.wf(),
        forall|k: Seq<char>| #[trigger] domain.has(k) ==> vt_wf(domain.map()[k].as_type),
        forall|k: Seq<char>| #[trigger] vx_m1.has(k) <==> exists|j: int| 0 <= j < vx_i1 && domain.keys()[j] == k,
        forall|k: Seq<char>| #[trigger] vx_m1.has(k) ==> wf(vx_m1.map()[k]) && forall|x: real| in_domain(domain.map()[k].as_type, x) ==> contains(vx_m1.map()[k], x),
@fn BoundsAnalyzer::from_domain @loop 1 @start
    let ghost m0 = vx_m1;
    proof { assert(domain.keys().contains(domain.keys()[vx_i1 as int])); assert(domain.has(domain.keys()[vx_i1 as int])); }
@fn BoundsAnalyzer::from_domain @loop 1 @end
    proof {
        let key = domain.keys()[vx_i1 as int];
        assert forall|k: Seq<char>| #[trigger] vx_m1.has(k) <==> exists|j: int| 0 <= j < vx_i1 + 1 && domain.keys()[j] == k by {
            if k == key { assert(domain.keys()[vx_i1 as int] == k); }
            else {
                assert(vx_m1.has(k) == m0.has(k));
                if m0.has(k) { let j = choose|j: int| 0 <= j < vx_i1 && domain.keys()[j] == k; assert(0 <= j < vx_i1 + 1 && domain.keys()[j] == k); }
                if exists|j: int| 0 <= j < vx_i1 + 1 && domain.keys()[j] == k { let j = choose|j: int| 0 <= j < vx_i1 + 1 && domain.keys()[j] == k; assert(j != vx_i1); assert(0 <= j < vx_i1 && domain.keys()[j] == k); }
            }
        }
        assert forall|k: Seq<char>| #[trigger] vx_m1.has(k) implies wf(vx_m1.map()[k]) && forall|x: real| in_domain(domain.map()[k].as_type, x) ==> contains(vx_m1.map()[k], x) by {
            if k != key { assert(m0.has(k)); assert(vx_m1.map()[k] == m0.map()[k]); }
        }
    }
@fn BoundsAnalyzer::from_domain @tail 1
    proof {
        assert forall|k: Seq<char>| #[trigger] r__.variable_bounds.has(k) <==> domain.has(k) by {
            if domain.has(k) { assert(domain.keys().contains(k)); let j = choose|j: int| 0 <= j < domain.keys().len() && domain.keys()[j] == k; assert(0 <= j < domain.keys().len() && domain.keys()[j] == k); }
            if r__.variable_bounds.has(k) { let j = choose|j: int| 0 <= j < domain.keys().len() && domain.keys()[j] == k; assert(domain.keys().contains(domain.keys()[j])); }
        }
    }
@raw
pub proof fn lemma_box(b: BoundsAnalyzer) ensures box_wf(b) ==> b.variable_bounds.wf() {}
impl BoundsAnalyzer {
    // `impl Default for BoundsAnalyzer` (an empty map, the default tolerance 1e-9, both flags false): stated, not extracted
    #[verifier::external_body]
    pub fn default() -> (r: Self) ensures r.variable_bounds.wf(), r.variable_bounds.keys().len() == 0, finite(r.tolerance), rv(r.tolerance) >= 0real, !r.detected_infeasible { unimplemented!() }
}
