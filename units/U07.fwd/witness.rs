    // Executable form of the forward-enclosure clause of C07 on the REAL BoundsAnalyzer::bounds_of, bounded:
    // expression trees of depth <= 3 over {x, y, z, constants} with + - * / neg abs min max and a logic connective,
    // evaluated at a grid of points of the box x in [-3,5], y in [-4,2], z in [0,+inf).
    use crate::parser::model_transformer::DomainVariable;
    use crate::math::{BinOp, UnOp};
    use crate::utils::InputSpan;
    fn v(n: &str) -> Exp { Exp::Variable(n.to_string()) }
    fn num(c: f64) -> Exp { Exp::Number(c) }
    fn bin(op: BinOp, a: Exp, b: Exp) -> Exp { Exp::BinOp(op, Box::new(a), Box::new(b)) }
    fn ev(e: &Exp, p: &[f64; 3]) -> f64 {
        match e {
            Exp::Number(c) => *c,
            Exp::Variable(n) => match n.as_str() { "x" => p[0], "y" => p[1], _ => p[2] },
            Exp::UnOp(UnOp::Neg, a) => -ev(a, p),
            Exp::Abs(a) => ev(a, p).abs(),
            Exp::Min(es) => es.iter().map(|e| ev(e, p)).fold(f64::INFINITY, f64::min),
            Exp::Max(es) => es.iter().map(|e| ev(e, p)).fold(f64::NEG_INFINITY, f64::max),
            Exp::And(es) => if es.iter().all(|e| ev(e, p) != 0.0) { 1.0 } else { 0.0 },
            Exp::BinOp(op, a, b) => { let (a, b) = (ev(a, p), ev(b, p)); match op { BinOp::Add => a + b, BinOp::Sub => a - b, BinOp::Mul => a * b, BinOp::Div => a / b, _ => f64::NAN } }
            _ => f64::NAN,
        }
    }
    fn grow(level: &[Exp], atoms: &[Exp]) -> Vec<Exp> {
        let mut out = vec![];
        for (i, a) in level.iter().enumerate() {
            out.push(Exp::UnOp(UnOp::Neg, Box::new(a.clone())));
            out.push(Exp::Abs(Box::new(a.clone())));
            out.push(bin(BinOp::Mul, num(-2.0), a.clone()));
            out.push(bin(BinOp::Mul, a.clone(), num(0.5)));
            out.push(bin(BinOp::Div, a.clone(), num(-4.0)));
            let b = &atoms[i % atoms.len()];
            let c = &level[(i * 7 + 3) % level.len()];
            out.push(bin(BinOp::Add, a.clone(), b.clone()));
            out.push(bin(BinOp::Sub, b.clone(), a.clone()));
            out.push(bin(BinOp::Sub, a.clone(), c.clone()));
            out.push(Exp::Min(vec![a.clone(), b.clone()]));
            out.push(Exp::Max(vec![a.clone(), c.clone(), b.clone()]));
            out.push(Exp::Min(vec![a.clone()]));
            out.push(bin(BinOp::Mul, a.clone(), b.clone()));
        }
        out
    }
    #[test]
    fn search() {
        let mut domain = IndexMap::new();
        for (n, t) in [("x", VariableType::Real(-3.0, 5.0)), ("y", VariableType::Real(-4.0, 2.0)), ("z", VariableType::NonNegativeReal(0.0, f64::INFINITY))] {
            domain.insert(n.to_string(), DomainVariable::new(t, InputSpan::default()));
        }
        let analyzer = BoundsAnalyzer::from_domain(&domain);
        let atoms = vec![v("x"), v("y"), v("z"), num(0.0), num(3.0), num(-1.5), Exp::And(vec![v("x"), v("y")])];
        let mut l1 = grow(&atoms, &atoms);
        // three and four operands with the extreme operand in every position
        for perm in [["x", "y", "z"], ["x", "z", "y"], ["y", "x", "z"], ["z", "x", "y"], ["y", "z", "x"], ["z", "y", "x"]] {
            l1.push(Exp::Min(perm.iter().map(|n| v(n)).collect()));
            l1.push(Exp::Max(perm.iter().map(|n| v(n)).collect()));
            l1.push(Exp::Min(vec![num(3.0), v(perm[0]), v(perm[1]), v(perm[2])]));
            l1.push(Exp::Max(vec![v(perm[0]), v(perm[1]), num(-1.5), v(perm[2])]));
        }
        let l2 = grow(&l1, &atoms);
        let l3: Vec<Exp> = grow(&l2, &atoms).into_iter().step_by(5).collect();
        let pts: Vec<[f64; 3]> = { let mut p = vec![]; for x in [-3.0, -1.0, 0.0, 2.5, 5.0] { for y in [-4.0, -0.5, 0.0, 2.0] { for z in [0.0, 1.0, 1024.0] { p.push([x, y, z]); } } } p };
        let (mut cases, mut fails) = (0u64, 0u32);
        for e in atoms.iter().chain(l1.iter()).chain(l2.iter()).chain(l3.iter()) {
            let b = analyzer.bounds_of(e);
            cases += 1;
            if b.lower.is_nan() || b.upper.is_nan() {
                if fails < 6 { println!("WITNESS-FAIL {{\"fn\": \"BoundsAnalyzer::bounds_of\", \"clause\": \"a derived range is never NaN\", \"expression\": \"{}\", \"range\": \"[{}, {}]\"}}", e, b.lower, b.upper); }
                fails += 1;
                continue;
            }
            for p in &pts {
                let val = ev(e, p);
                if !val.is_finite() { continue; }
                if !(b.lower <= val && val <= b.upper) {
                    if fails < 6 { println!("WITNESS-FAIL {{\"fn\": \"BoundsAnalyzer::bounds_of\", \"clause\": \"the derived range contains the value of the expression at every point of the variable box\", \"expression\": \"{}\", \"x\": {}, \"y\": {}, \"z\": {}, \"value\": {}, \"range\": \"[{}, {}]\"}}", e, p[0], p[1], p[2], val, b.lower, b.upper); }
                    fails += 1;
                    break;
                }
            }
        }
        println!("WITNESS-DONE cases={}", cases);
    }
