//@ C07 — "every range the compiler derives for a sub-expression contains that sub-expression's value at
//@ every assignment inside the variable ranges".
@fn BoundsAnalyzer::bounds_of -> r
    requires box_wf(*self), exp_fin(*exp),
    ensures
        wf(r),
        forall|env: Env| #[trigger] box_ok(*self, env) ==> (sem(*exp, env) matches Some(v) ==> contains(r, v)),
