//@ C07 — "every range the compiler derives for a sub-expression contains that sub-expression's value at
//@ every assignment inside the variable ranges".
@fn BoundsAnalyzer::bounds_of @attr
#[verifier::exec_allows_no_decreases_clause]
@fn BoundsAnalyzer::bounds_of -> r
    requires box_wf(*self), exp_fin(*exp),
    ensures
        wf(r),
        forall|env: Env| #[trigger] box_ok(*self, env) ==> (sem(*exp, env) matches Some(v) ==> contains(r, v)),
@fn BoundsAnalyzer::bounds_of @keep-arms
    Exp::Number
    Exp::Variable
    Exp::Abs
    Exp::Min
    Exp::Max
    Exp::And(_)|Exp::Or(_)|Exp::Not(_)|Exp::Xor(_,_)|Exp::Implies(_,_)|Exp::Iff(_,_)
    Exp::BinOp
    Exp::UnOp
@fn BoundsAnalyzer::bounds_of @entry
    proof { lemma_exp_fin(*exp); lemma_exp_fin(*exp->BinOp_1); lemma_exp_fin(*exp->BinOp_2); lemma_exp_fin_list(*exp); }
@fn BoundsAnalyzer::bounds_of @tail 6
    // logic connectives evaluate to 0 or 1
    proof { assert forall|env: Env| sem(*exp, env) is Some implies #[trigger] sem(*exp, env)->Some_0 == 0real || sem(*exp, env)->Some_0 == 1real by { lemma_logic_01(*exp, env); } }
@fn BoundsAnalyzer::bounds_of @tail 9
    // c * e: the interval is scaled by the constant on the left
    proof { assert forall|env: Env| #[trigger] sem(*exp, env) is Some implies sem(*exp, env) == Some(rmul_s(sem(*rhs, env)->Some_0, rv(*value))) by { lemma_mul_comm(sem(*rhs, env)->Some_0, rv(*value)); } }
@fn BoundsAnalyzer::bounds_of @loop 1
    invariant
        vx_n1 == vx_v1@.len(), vx_n1 >= 1, box_wf(*self), wf(vx_acc1),
        forall|j: int| 0 <= j < vx_v1@.len() ==> exp_fin(#[trigger] vx_v1@[j]),
        forall|env: Env| #[trigger] box_ok(*self, env) ==> (sem_fold(vx_v1@, env, true, vx_i1 as int) matches Some(v) ==> contains(vx_acc1, v)),
@fn BoundsAnalyzer::bounds_of @loop 1 @end
    proof {
        assert forall|env: Env| #[trigger] box_ok(*self, env) implies (sem_fold(vx_v1@, env, true, vx_i1 as int + 1) matches Some(v) ==> contains(vx_acc1, v)) by {
            if sem_fold(vx_v1@, env, true, vx_i1 as int + 1) is Some {
                let x = sem(vx_v1@[vx_i1 as int], env)->Some_0;
                let y = sem_fold(vx_v1@, env, true, vx_i1 as int)->Some_0;
                lemma_extreme_box(current, next, vx_acc1, y, x, true);
            }
        }
    }
@fn BoundsAnalyzer::bounds_of @loop 2
    invariant
        vx_n2 == vx_v2@.len(), vx_n2 >= 1, box_wf(*self), wf(vx_acc2),
        forall|j: int| 0 <= j < vx_v2@.len() ==> exp_fin(#[trigger] vx_v2@[j]),
        forall|env: Env| #[trigger] box_ok(*self, env) ==> (sem_fold(vx_v2@, env, false, vx_i2 as int) matches Some(v) ==> contains(vx_acc2, v)),
@fn BoundsAnalyzer::bounds_of @loop 2 @end
    proof {
        assert forall|env: Env| #[trigger] box_ok(*self, env) implies (sem_fold(vx_v2@, env, false, vx_i2 as int + 1) matches Some(v) ==> contains(vx_acc2, v)) by {
            if sem_fold(vx_v2@, env, false, vx_i2 as int + 1) is Some {
                let x = sem(vx_v2@[vx_i2 as int], env)->Some_0;
                let y = sem_fold(vx_v2@, env, false, vx_i2 as int)->Some_0;
                lemma_extreme_box(current, next, vx_acc2, y, x, false);
            }
        }
    }
@raw
pub proof fn lemma_mul_comm(x: real, y: real) ensures rmul_s(x, y) == rmul_s(y, x) { reveal(rmul_s); assert(x * y == y * x) by (nonlinear_arith); }
pub proof fn lemma_all_01(es: Seq<Exp>, env: Env, is_and: bool, n: int)
    ensures sem_all(es, env, is_and, n) matches Some(v) ==> v == 0real || v == 1real,
    decreases n,
{
    if n <= 0 || n > es.len() { } else { lemma_all_01(es, env, is_and, n - 1); }
}
pub proof fn lemma_logic_01(e: Exp, env: Env)
    requires e is And || e is Or || e is Not || e is Xor || e is Implies || e is Iff,
    ensures sem(e, env) matches Some(v) ==> v == 0real || v == 1real,
{
    match e {
        Exp::And(es) => lemma_all_01(es@, env, true, es@.len() as int),
        Exp::Or(es) => lemma_all_01(es@, env, false, es@.len() as int),
        _ => {}
    }
}
// the componentwise min (max) of two ranges encloses the min (max) of any two members
pub proof fn lemma_extreme_box(a: Bounds, b: Bounds, r: Bounds, y: real, x: real, is_min: bool)
    requires wf(a), wf(b), contains(a, y), contains(b, x),
        is_min ==> fv(r.lower) == ext_min(fv(a.lower), fv(b.lower)) && fv(r.upper) == ext_min(fv(a.upper), fv(b.upper)),
        !is_min ==> fv(r.lower) == ext_max(fv(a.lower), fv(b.lower)) && fv(r.upper) == ext_max(fv(a.upper), fv(b.upper)),
    ensures wf(r), contains(r, if is_min { rmin(y, x) } else { rmax(y, x) }),
{}
