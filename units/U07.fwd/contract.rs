//@ C07 — "every range the compiler derives for a sub-expression contains that sub-expression's value at
//@ every assignment inside the variable ranges".
@fn BoundsAnalyzer::bounds_of @attr
#[verifier::exec_allows_no_decreases_clause]
@fn BoundsAnalyzer::bounds_of -> r
    requires box_wf(*self), exp_fin(*exp),
    ensures
        wf(r),
        forall|env: Env| #[trigger] box_ok(*self, env) ==> (sem(*exp, env) matches Some(v) ==> contains(r, v)),
@fn BoundsAnalyzer::bounds_of @keep-arms
    Exp::Number
    Exp::Variable
    Exp::Abs
    Exp::And(_)|Exp::Or(_)|Exp::Not(_)|Exp::Xor(_,_)|Exp::Implies(_,_)|Exp::Iff(_,_)
    Exp::BinOp
    Exp::UnOp
@fn BoundsAnalyzer::bounds_of @entry
    proof { lemma_exp_fin(*exp); lemma_exp_fin(*exp->BinOp_1); lemma_exp_fin(*exp->BinOp_2); }
@fn BoundsAnalyzer::bounds_of @tail 6
    // logic connectives evaluate to 0 or 1
    proof { assert forall|env: Env| sem(*exp, env) is Some implies #[trigger] sem(*exp, env)->Some_0 == 0real || sem(*exp, env)->Some_0 == 1real by { lemma_logic_01(*exp, env); } }
@fn BoundsAnalyzer::bounds_of @tail 9
    // c * e: the interval is scaled by the constant on the left
    proof { assert forall|env: Env| #[trigger] sem(*exp, env) is Some implies sem(*exp, env) == Some(rmul_s(sem(*rhs, env)->Some_0, rv(*value))) by { lemma_mul_comm(sem(*rhs, env)->Some_0, rv(*value)); } }
@raw
pub proof fn lemma_mul_comm(x: real, y: real) ensures rmul_s(x, y) == rmul_s(y, x) { reveal(rmul_s); assert(x * y == y * x) by (nonlinear_arith); }
pub proof fn lemma_all_01(es: Seq<Exp>, env: Env, is_and: bool, n: int)
    ensures sem_all(es, env, is_and, n) matches Some(v) ==> v == 0real || v == 1real,
    decreases n,
{
    if n <= 0 || n > es.len() { } else { lemma_all_01(es, env, is_and, n - 1); }
}
pub proof fn lemma_logic_01(e: Exp, env: Env)
    requires e is And || e is Or || e is Not || e is Xor || e is Implies || e is Iff,
    ensures sem(e, env) matches Some(v) ==> v == 0real || v == 1real,
{
    match e {
        Exp::And(es) => lemma_all_01(es@, env, true, es@.len() as int),
        Exp::Or(es) => lemma_all_01(es@, env, false, es@.len() as int),
        _ => {}
    }
}
