//@ C01 — constraint level: a row is emitted for `lhs cmp rhs`; at every assignment that satisfies the row and what the grown
//@ context demands, the source constraint holds (whenever both sides are defined).
@fn MidLinearConstraint::new_from_linearized_context -> r
    ensures r.lhs == context.current_vars, r.rhs == f_neg(context.current_rhs), r.comparison == comparison, r.name == name,
@fn Linearizer::emit_constraint -> res
    requires exp_fin(lhs), exp_fin(rhs), lz_inv(*old(self)),
    ensures
        lz_inv(*final(self)),
        lz_ext(*old(self), *final(self)),
        res is Ok ==> final(self).linear_constraints@.len() > 0,
        res is Ok ==> final(self).linear_constraints@.last().name == name && final(self).linear_constraints@.last().comparison == comparison,
        res is Ok ==> row_fin(final(self).linear_constraints@.last()),
        res is Ok ==> forall|env: Env| #[trigger] lz_ok(*final(self), env) && row_holds(final(self).linear_constraints@.last(), env)
                    && sem(lhs, env) is Some && sem(rhs, env) is Some ==> cmp_sem(comparison, sem(lhs, env)->Some_0, sem(rhs, env)->Some_0),
@fn Linearizer::emit_constraint @entry
    let ghost src = Exp::BinOp(BinOp::Sub, Box::new(lhs), Box::new(rhs));
    proof { lemma_exp_fin(src); }
@fn Linearizer::emit_constraint @after "let value"
    let ghost mid = *self;
    let ghost lc = value;
@fn Linearizer::emit_constraint @tail 1
    proof {
        lemma_lz_same(mid, *self);
        lemma_lz_ext_trans(*old(self), mid, *self);
        let row = self.linear_constraints@.last();
        lemma_f_neg(lc.current_rhs);
        assert(row.lhs == lc.current_vars && row.rhs == f_neg(lc.current_rhs) && row.comparison == comparison && row.name == name);
        assert forall|env: Env| #[trigger] lz_ok(*self, env) && row_holds(row, env) && sem(lhs, env) is Some && sem(rhs, env) is Some
            implies cmp_sem(comparison, sem(lhs, env)->Some_0, sem(rhs, env)->Some_0) by {
            assert(lz_ok(mid, env));
            lemma_sem_binop(BinOp::Sub, Box::new(lhs), Box::new(rhs), env);
            let l = sem(lhs, env)->Some_0; let r = sem(rhs, env)->Some_0;
            assert(sem(src, env) == Some(l - r));
            assert(sem(exp, env) == Some(l - r));
            assert(relaxes(requirement, lc_eval(lc, env), l - r));
            assert(row_lhs(row, env) + rv(lc.current_rhs) == lc_eval(lc, env));
            assert(rv(row.rhs) == -rv(lc.current_rhs));
        }
    }
