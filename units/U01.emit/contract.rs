//@ C01 — constraint level: a row is emitted for `lhs cmp rhs`; at every assignment that satisfies the row and what the grown
//@ context demands, the source constraint holds (whenever both sides are defined).
@fn MidLinearConstraint::new_from_linearized_context -> r
    ensures r.lhs == context.current_vars, r.rhs == f_neg(context.current_rhs), r.comparison == comparison, r.name == name,
@fn Linearizer::emit_constraint -> res
    requires exp_fin(lhs), exp_fin(rhs), lz_inv(*old(self)),
    ensures
        lz_inv(*final(self)),
        lz_ext(*old(self), *final(self)),
        res is Ok ==> final(self).linear_constraints@.len() > 0,
        res is Ok ==> final(self).linear_constraints@.last().name == name && final(self).linear_constraints@.last().comparison == comparison,
        res is Ok ==> row_fin(final(self).linear_constraints@.last()),
        // the grown context (its rows now include the emitted one) implies the source constraint wherever both sides are defined
        res is Ok ==> forall|env: Env| #[trigger] lz_ok(*final(self), env) && sem(lhs, env) is Some && sem(rhs, env) is Some
                    ==> cmp_sem(comparison, sem(lhs, env)->Some_0, sem(rhs, env)->Some_0),
@fn Linearizer::emit_constraint @entry
    let ghost src = Exp::BinOp(BinOp::Sub, Box::new(lhs), Box::new(rhs));
    proof { lemma_exp_fin(src); }
@fn Linearizer::emit_constraint @after "let value"
    let ghost mid = *self;
    let ghost lc = value;
@fn Linearizer::emit_constraint @tail 1
    proof {
        let cf = *self;
        let row = cf.linear_constraints@.last();
        lemma_f_neg(lc.current_rhs);
        assert(row.lhs == lc.current_vars && row.rhs == f_neg(lc.current_rhs) && row.comparison == comparison && row.name == name);
        assert(cf.linear_constraints@ == mid.linear_constraints@.push(row));
        assert(cf.constraints == mid.constraints && cf.domain == mid.domain && cf.bounds == mid.bounds);
        assert(row_fin(row));
        // frame: only a row was added
        assert(lz_inv(cf)) by {
            reveal(lz_inv);
            assert forall|r: MidLinearConstraint| #[trigger] cf.linear_constraints@.contains(r) implies row_fin(r) by {
                let j = choose|j: int| 0 <= j < cf.linear_constraints@.len() && cf.linear_constraints@[j] == r;
                if j < mid.linear_constraints@.len() { assert(mid.linear_constraints@[j] == r); assert(mid.linear_constraints@.contains(r)); }
            }
        }
        assert(lz_ext(mid, cf)) by {
            reveal(lz_ext);
            assert forall|r: MidLinearConstraint| #[trigger] mid.linear_constraints@.contains(r) implies cf.linear_constraints@.contains(r) by {
                let j = choose|j: int| 0 <= j < mid.linear_constraints@.len() && mid.linear_constraints@[j] == r;
                assert(cf.linear_constraints@[j] == r);
            }
        }
        lemma_lz_ext_trans(*old(self), mid, cf);
        assert forall|env: Env| #[trigger] lz_ok(cf, env) && sem(lhs, env) is Some && sem(rhs, env) is Some
            implies cmp_sem(comparison, sem(lhs, env)->Some_0, sem(rhs, env)->Some_0) by {
            lemma_lz_ext_mono(mid, cf, env);
            assert(row_holds(row, env)) by { reveal(lz_ok); assert(cf.linear_constraints@[cf.linear_constraints@.len() - 1] == row); assert(cf.linear_constraints@.contains(row)); }
            lemma_sem_binop(BinOp::Sub, Box::new(lhs), Box::new(rhs), env);
            let l = sem(lhs, env)->Some_0; let r = sem(rhs, env)->Some_0;
            assert(sem(src, env) == Some(l - r));
            assert(sem(exp, env) == Some(l - r));
            assert(relaxes(requirement, lc_eval(lc, env), l - r));
            assert(row_lhs(row, env) + rv(lc.current_rhs) == lc_eval(lc, env));
            assert(rv(row.rhs) == -rv(lc.current_rhs));
        }
    }
