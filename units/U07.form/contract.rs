//@ C07 — the affine rows the propagation works on denote the source constraints.
@fn AffineForm::merge
    requires form_wf(*old(self)), form_wf(other), finite(multiplier),
    ensures form_wf(*final(self)), forall|env: Env| #[trigger] form_val(*final(self), env) == form_val(*old(self), env) + rmul_s(rv(multiplier), form_val(other, env)),
@fn AffineForm::merge @entry
    let ghost s0 = *self;
    let ghost ok = other.coefficients.keys();
    let ghost om = other.coefficients.map();
    let ghost m = rv(multiplier);
@fn AffineForm::merge @loop 1
    invariant
        vx_n1 == ok.len(), ok == other.coefficients.keys(), om == other.coefficients.map(), form_wf(other), finite(multiplier), m == rv(multiplier),
        s0 == *old(self), self.constant == s0.constant, form_wf(*self),
        forall|env: Env| #[trigger] form_val(*self, env) == form_val(s0, env) + rmul_s(m, tsum(ok, om, env, vx_i1 as int)),
@fn AffineForm::merge @before "let vx_n1"
    proof { assert forall|env: Env| #[trigger] form_val(*self, env) == form_val(s0, env) + rmul_s(m, tsum(ok, om, env, 0)) by { reveal(rmul_s); } }
@fn AffineForm::merge @loop 1 @start
    let ghost s1 = *self;
    proof { assert(ok.contains(ok[vx_i1 as int])); assert(other.coefficients.has(ok[vx_i1 as int])); }
@fn AffineForm::merge @loop 1 @end
    proof {
        let key = ok[vx_i1 as int];
        let c = rv(om[key]);
        let k1 = s1.coefficients.keys(); let m1 = s1.coefficients.map();
        let k2 = self.coefficients.keys(); let m2 = self.coefficients.map();
        let had = s1.coefficients.has(key);
        let oldc = if had { rv(m1[key]) } else { 0real };
        let newc = oldc + rmul_s(c, m);
        assert(name@ == key);
        assert(finite(om[key]) && finite(coefficient) && rv(coefficient) == newc) by { reveal(rmul_s); }
        // shape of the map after the step
        if had { assert(k1.contains(key)); } else { assert(!k1.contains(key)); }
        let p = if had { choose|p: int| 0 <= p < k1.len() && k1[p] == key } else { 0 };
        if newc == 0real {
            if had { lemma_without_present(k1, p); assert(k2 == k1.remove(p)); } else { lemma_without_absent(k1, key); assert(k2 == k1); }
            assert(m2 == m1.remove(key));
        } else {
            assert(m2 == m1.insert(key, coefficient));
            if had { assert(k2 == k1); } else { assert(k2 == k1.push(key)); }
        }
        assert(form_wf(*self)) by {
            assert forall|k: Seq<char>| #[trigger] self.coefficients.has(k) implies finite(m2[k]) && rv(m2[k]) != 0real by {
                if k != key { assert(s1.coefficients.has(k)); assert(m2[k] == m1[k]); }
            }
        }
        assert forall|env: Env| #[trigger] form_val(*self, env) == form_val(s0, env) + rmul_s(m, tsum(ok, om, env, vx_i1 + 1)) by {
            assert(form_val(s1, env) == form_val(s0, env) + rmul_s(m, tsum(ok, om, env, vx_i1 as int)));
            lemma_merge_arith(m, tsum(ok, om, env, vx_i1 as int), env[key], c, oldc);
            let t1 = tsum(k1, m1, env, k1.len() as int);
            let t2 = tsum(k2, m2, env, k2.len() as int);
            // t2 == t1 + x * newc - x * oldc
            if newc == 0real {
                assert(rmul_s(env[key], newc) == 0real) by { reveal(rmul_s); }
                if had { lemma_tsum_remove(k1, m1, p, env); }
                else {
                    assert forall|j: int| 0 <= j < k1.len() implies k2[j] == k1[j] && rv(m2[k2[j]]) == rv(m1[k1[j]]) by { assert(k1.contains(k1[j])); }
                    lemma_tsum_ext(k2, m2, k1, m1, env, k1.len() as int);
                    assert(rmul_s(env[key], oldc) == 0real) by { reveal(rmul_s); }
                }
            } else {
                if had { lemma_tsum_update(k1, m1, p, coefficient, env, k1.len() as int); }
                else { lemma_tsum_push(k1, m1, key, coefficient, env); assert(rmul_s(env[key], oldc) == 0real) by { reveal(rmul_s); } }
            }
            assert(t2 == t1 + rmul_s(env[key], newc) - rmul_s(env[key], oldc));
            assert(tsum(ok, om, env, vx_i1 + 1) == tsum(ok, om, env, vx_i1 as int) + rmul_s(env[key], c));
        }
    }
@fn AffineForm::merge @before "self.constant ="
    let ghost s2 = *self;
@fn AffineForm::merge @end
    proof {
        assert(finite(self.constant));
        assert(self.coefficients == s2.coefficients);
        assert forall|env: Env| #[trigger] form_val(*self, env) == form_val(s0, env) + rmul_s(m, form_val(other, env)) by {
            let t = tsum(ok, om, env, ok.len() as int);
            assert(form_val(s2, env) == form_val(s0, env) + rmul_s(m, t));
            assert(form_val(*self, env) == form_val(s2, env) - rv(s2.constant) + rv(self.constant));
            assert(form_val(other, env) == rv(other.constant) + t);
            assert(rv(self.constant) == rv(s0.constant) + rmul_s(rv(other.constant), m)) by { reveal(rmul_s); }
            lemma_merge_const(m, rv(other.constant), t);
        }
    }
@fn Constraint::lhs -> r
    ensures *r == self.lhs,
@fn Constraint::rhs -> r
    ensures *r == self.rhs,
@fn AffineForm::from_exp @attr
#[verifier::exec_allows_no_decreases_clause]
@fn AffineForm::from_exp -> r
    requires exp_fin(*exp),
    ensures r matches Some(f) ==> form_wf(f) && forall|env: Env| sem(*exp, env) is Some ==> #[trigger] form_val(f, env) == sem(*exp, env)->Some_0,
@fn AffineForm::from_constraint -> r
    requires exp_fin(constraint.lhs), exp_fin(constraint.rhs),
    ensures r matches Some(f) ==> form_wf(f) && forall|env: Env| sem(constraint.lhs, env) is Some && sem(constraint.rhs, env) is Some ==> #[trigger] form_val(f, env) == sem(constraint.lhs, env)->Some_0 - sem(constraint.rhs, env)->Some_0,
@fn AffineForm::from_exp @entry
    proof {
        lemma_exp_fin(*exp);
        if exp is BinOp { lemma_exp_fin(*exp->BinOp_1); lemma_exp_fin(*exp->BinOp_2); }
        if exp is UnOp { lemma_exp_fin(*exp->UnOp_1); }
    }
@fn AffineForm::from_exp @tail *
    proof {
        if r__ is Some {
            let f = r__->Some_0;
            assert forall|env: Env| sem(*exp, env) is Some implies #[trigger] form_val(f, env) == sem(*exp, env)->Some_0 by {
                reveal(rmul_s); reveal(rdiv_s);
                if exp is BinOp { lemma_sem_binop(exp->BinOp_0, exp->BinOp_1, exp->BinOp_2, env); let x = sem(*exp->BinOp_1, env); let y = sem(*exp->BinOp_2, env); if x is Some && y is Some { lemma_mul_div_facts(x->Some_0, y->Some_0); } }
                if exp is UnOp { lemma_sem_unop(exp->UnOp_0, exp->UnOp_1, env); }
                if exp is Variable { reveal_with_fuel(tsum, 2); }
                if exp is Number { reveal_with_fuel(tsum, 1); }
            }
        }
    }
@fn AffineForm::from_constraint @tail *
    proof {
        if r__ is Some {
            let f = r__->Some_0;
            assert forall|env: Env| sem(constraint.lhs, env) is Some && sem(constraint.rhs, env) is Some implies #[trigger] form_val(f, env) == sem(constraint.lhs, env)->Some_0 - sem(constraint.rhs, env)->Some_0 by { reveal(rmul_s); }
        }
    }
@raw
pub proof fn lemma_merge_arith(m: real, t: real, x: real, c: real, oldc: real)
    ensures rmul_s(m, t + rmul_s(x, c)) == rmul_s(m, t) + rmul_s(x, oldc + rmul_s(c, m)) - rmul_s(x, oldc)
{
    reveal(rmul_s);
    assert(m * (t + x * c) == m * t + x * (oldc + c * m) - x * oldc) by (nonlinear_arith);
}
pub proof fn lemma_merge_const(m: real, k: real, t: real)
    ensures rmul_s(m, k + t) == rmul_s(k, m) + rmul_s(m, t)
{
    reveal(rmul_s);
    assert(m * (k + t) == k * m + m * t) by (nonlinear_arith);
}
pub proof fn lemma_mul_div_facts(a: real, b: real)
    ensures a * b == b * a, b != 0real ==> a / b == (1real / b) * a
{
    assert(a * b == b * a) by (nonlinear_arith);
    if b != 0real { assert(a / b == (1real / b) * a) by (nonlinear_arith) requires b != 0real; }
}
