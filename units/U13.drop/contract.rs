//@ C13 — "the split of free variables": the removing half.  W is the width of every row, of the objective and of the variable list
//@ on entry (after the pairs were appended); z ranges over ALL real vectors of that width whose removed positions hold zero.
@fn DomainVariable::get_type -> r
    ensures *r == self.as_type,
@fn LinearConstraint::remove_coefficients_by_index
    ensures final(self).coefficients@ == remove_idx(old(self).coefficients@, indices@),
        final(self).rhs == old(self).rhs, final(self).constraint_type == old(self).constraint_type, final(self).name == old(self).name,
@fn std_split_remove -> res
    requires old(domain).wf(), variables@.len() == objective@.len(),
        forall|r: int| 0 <= r < old(constraints)@.len() ==> (#[trigger] old(constraints)@[r]).coefficients.len() == variables@.len(),
        forall|j: int| 0 <= j < free_variables@.len() ==> (#[trigger] free_variables@[j]) < variables@.len(),
    ensures
        res.0@ == remove_idx(variables@, free_variables@),
        res.1@ == remove_idx(objective@, free_variables@),
        final(constraints)@.len() == old(constraints)@.len(),
        forall|r: int| 0 <= r < old(constraints)@.len() ==> {
            &&& (#[trigger] final(constraints)@[r]).coefficients@ == remove_idx(old(constraints)@[r].coefficients@, free_variables@)
            &&& final(constraints)@[r].rhs == old(constraints)@[r].rhs
            &&& final(constraints)@[r].constraint_type == old(constraints)@[r].constraint_type
            &&& final(constraints)@[r].name == old(constraints)@[r].name
        },
        // the domain loses exactly the entries of the removed variables
        final(domain).wf(),
        forall|name: Seq<char>| #[trigger] final(domain).has(name) <==> (old(domain).has(name) && forall|j: int| 0 <= j < free_variables@.len() ==> name != variables@[#[trigger] free_variables@[j] as int]@),
        forall|name: Seq<char>| #[trigger] final(domain).has(name) ==> final(domain).map()[name] == old(domain).map()[name],
        // a row (and the objective) evaluates the same once the removed positions of the assignment hold zero
        forall|r: int, z: Seq<real>| 0 <= r < old(constraints)@.len() && z.len() == variables@.len() && zero_at(z, free_variables@) ==>
            #[trigger] pdot(final(constraints)@[r].coefficients@, remove_idx(z, free_variables@)) == pdot(old(constraints)@[r].coefficients@, z),
        forall|z: Seq<real>| z.len() == variables@.len() && zero_at(z, free_variables@) ==>
            #[trigger] pdot(res.1@, remove_idx(z, free_variables@)) == pdot(objective@, z),
@fn std_split_remove @entry
    let ghost f = free_variables@;
    let ghost cs0 = constraints@;
    let ghost d0 = *domain;
    let ghost v0 = variables@;
    let ghost o0 = objective@;
    proof { assert(variables.len() == variables@.len()); }
@fn std_split_remove @loop 1
    invariant v0.len() == o0.len(), v0.len() <= usize::MAX, forall|r: int| 0 <= r < cs0.len() ==> (#[trigger] cs0[r]).coefficients.len() == v0.len(),
        vx_n1 == cs0.len(), constraints@.len() == cs0.len(), f == free_variables@, cs0 == old(constraints)@,
        forall|r: int| vx_i1 <= r < cs0.len() ==> constraints@[r] == cs0[r],
        forall|r: int| 0 <= r < vx_i1 ==> (#[trigger] constraints@[r]).coefficients@ == remove_idx(cs0[r].coefficients@, f)
            && constraints@[r].rhs == cs0[r].rhs && constraints@[r].constraint_type == cs0[r].constraint_type && constraints@[r].name == cs0[r].name,
@fn std_split_remove @after "let mut c = vx_vec_take"
    proof { assert(c == cs0[vx_i1 as int]); }
@fn std_split_remove @loop 2
    invariant v0.len() == o0.len(), v0.len() <= usize::MAX, forall|r: int| 0 <= r < cs0.len() ==> (#[trigger] cs0[r]).coefficients.len() == v0.len(),
        vx_n2 == f.len(), vx_v2@ == f, f == free_variables@, variables@ == v0, domain.wf(), d0 == *old(domain), d0.wf(),
        forall|j: int| 0 <= j < f.len() ==> (#[trigger] f[j]) < v0.len(),
        forall|name: Seq<char>| #[trigger] domain.has(name) <==> (d0.has(name) && forall|j: int| 0 <= j < vx_i2 ==> name != v0[#[trigger] f[j] as int]@),
        forall|name: Seq<char>| #[trigger] domain.has(name) ==> domain.map()[name] == d0.map()[name],
@fn std_split_remove @after "let i = "
    let ghost dm = *domain;
    let ghost key = v0[f[vx_i2 as int] as int]@;
    proof { assert(*i == f[vx_i2 as int]); assert(f[vx_i2 as int] < v0.len()); }
@fn std_split_remove @after "domain.shift_remove"
    proof {
        assert(domain.map() == dm.map().remove(key));
        assert forall|name: Seq<char>| #[trigger] domain.has(name) <==> (d0.has(name) && forall|j: int| 0 <= j < vx_i2 + 1 ==> name != v0[#[trigger] f[j] as int]@) by {
            if domain.has(name) {
                assert(dm.has(name) && name != key);
                assert forall|j: int| 0 <= j < vx_i2 + 1 implies name != v0[#[trigger] f[j] as int]@ by {}
            }
            if d0.has(name) && (forall|j: int| 0 <= j < vx_i2 + 1 ==> name != v0[#[trigger] f[j] as int]@) {
                assert(name != v0[f[vx_i2 as int] as int]@);
                assert(dm.has(name));
            }
        }
        assert forall|name: Seq<char>| #[trigger] domain.has(name) implies domain.map()[name] == d0.map()[name] by { assert(dm.has(name)); }
    }
@fn std_split_remove @tail 1
    proof {
        assert forall|r: int, z: Seq<real>| 0 <= r < cs0.len() && z.len() == v0.len() && zero_at(z, f) implies
            #[trigger] pdot(constraints@[r].coefficients@, remove_idx(z, f)) == pdot(cs0[r].coefficients@, z) by {
            lemma_pdot_remove(cs0[r].coefficients@, z, f);
        }
        assert forall|z: Seq<real>| z.len() == v0.len() && zero_at(z, f) implies #[trigger] pdot(objective@, remove_idx(z, f)) == pdot(o0, z) by {
            lemma_pdot_remove(o0, z, f);
        }
    }
