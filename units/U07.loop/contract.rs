//@ C07 — the propagation loop: soundness for every schedule.
@fn Constraint::constraint_type -> r
    ensures r == self.constraint_type,
@fn propagate_loop @attr
#[verifier::exec_allows_no_decreases_clause]
@fn propagate_loop
    requires
        box_wf(*old(analyzer)), finite(old(analyzer).tolerance), rv(old(analyzer).tolerance) >= 0real, dependencies.wf(),
        forms@.len() == constraints@.len(),
        forall|k: int| 0 <= k < constraints@.len() ==> c_fin(#[trigger] constraints@[k]),
        forall|k: int| 0 <= k < constraints@.len() ==> (#[trigger] forms@[k] matches Some(f) ==> form_wf(f) && f.coefficients.keys().len() < usize::MAX
            && forall|env: Env| sem(constraints@[k].lhs, env) is Some && sem(constraints@[k].rhs, env) is Some ==> #[trigger] form_val(f, env) == sem(constraints@[k].lhs, env)->Some_0 - sem(constraints@[k].rhs, env)->Some_0),
    ensures
        box_wf(*final(analyzer)),
        forall|env: Env| #[trigger] box_ok(*old(analyzer), env) && (forall|k: int| 0 <= k < constraints@.len() ==> c_cmp(#[trigger] constraints@[k], env)) ==> box_ok(*final(analyzer), env),
@fn propagate_loop @entry
    let ghost a0 = *analyzer;
    let ghost n = constraints@.len();
@fn propagate_loop @loop 1
    invariant
        a0 == *old(analyzer), n == constraints@.len(), forms@.len() == n, dependencies.wf(),
        box_wf(*analyzer), analyzer.tolerance == a0.tolerance, finite(a0.tolerance), rv(a0.tolerance) >= 0real,
        forall|k: int| 0 <= k < n ==> c_fin(#[trigger] constraints@[k]),
        forall|k: int| 0 <= k < n ==> (#[trigger] forms@[k] matches Some(f) ==> form_wf(f) && f.coefficients.keys().len() < usize::MAX
            && forall|env: Env| sem(constraints@[k].lhs, env) is Some && sem(constraints@[k].rhs, env) is Some ==> #[trigger] form_val(f, env) == sem(constraints@[k].lhs, env)->Some_0 - sem(constraints@[k].rhs, env)->Some_0),
        forall|env: Env| #[trigger] box_ok(a0, env) && (forall|k: int| 0 <= k < n ==> c_cmp(#[trigger] constraints@[k], env)) ==> box_ok(*analyzer, env),
@fn propagate_loop @loop 1 @start
    let ghost a1 = *analyzer;
@fn propagate_loop @loop 2
    invariant
        a0 == *old(analyzer), n == constraints@.len(), forms@.len() == n, dependencies.wf(), vx_n1 == vx_v1@.len(),
        box_wf(*analyzer), analyzer.tolerance == a0.tolerance, finite(a0.tolerance), rv(a0.tolerance) >= 0real,
        forall|k: int| 0 <= k < n ==> c_fin(#[trigger] constraints@[k]),
        forall|k: int| 0 <= k < n ==> (#[trigger] forms@[k] matches Some(f) ==> form_wf(f) && f.coefficients.keys().len() < usize::MAX
            && forall|env: Env| sem(constraints@[k].lhs, env) is Some && sem(constraints@[k].rhs, env) is Some ==> #[trigger] form_val(f, env) == sem(constraints@[k].lhs, env)->Some_0 - sem(constraints@[k].rhs, env)->Some_0),
        forall|env: Env| #[trigger] box_ok(a0, env) && (forall|k: int| 0 <= k < n ==> c_cmp(#[trigger] constraints@[k], env)) ==> box_ok(*analyzer, env),
@fn propagate_loop @loop 3
    invariant
        vx_n2 == vx_v2@.len(),
@fn propagate_loop @before "if analyzer.detected_infeasible"
    proof {
        let a2 = *analyzer;
        let c = constraints@[index as int];
        assert(c_fin(c));
        assert forall|env: Env| #[trigger] box_ok(a0, env) && (forall|k: int| 0 <= k < n ==> c_cmp(#[trigger] constraints@[k], env)) implies box_ok(a2, env) by {
            assert(box_ok(a1, env));
            assert(c_cmp(c, env));
            let (l, r) = (sem(c.lhs, env)->Some_0, sem(c.rhs, env)->Some_0);
            assert(contains_req(c.constraint_type, l - r));
            assert(contains(required, l - r));
        }
    }
