//@ C02 — the direction: minimising needs a linear value that can only over-estimate the source value (PreferLower), maximising one
//@ that can only under-estimate it (PreferHigher), a pure feasibility problem needs equality.
@fn objective_requirement_of -> r
    ensures
        forall|v_lin: real, v_true: real| #[trigger] relaxes(r, v_lin, v_true) ==>
            (objective_type is Min ==> v_lin >= v_true) && (objective_type is Max ==> v_lin <= v_true) && (objective_type is Satisfy ==> v_lin == v_true),
        // (an exact requirement for a one-sided objective would also satisfy C02, so nothing more is demanded)
//@ C02/C08 — "the constant offset is carried": the offset of the linear model is the constant of the lowered objective, the coefficient
//@ vector is the dense form of its coefficient map (one entry per variable, U08.coef).
@fn objective_parts -> r
    requires linearized_objective.current_vars.wf(), vars_indexes.wf(),
        forall|k: Seq<char>| vars_indexes.has(k) ==> #[trigger] vars_indexes.map()[k] < vars_indexes.keys().len(),
        forall|k1: Seq<char>, k2: Seq<char>| vars_indexes.has(k1) && vars_indexes.has(k2) && #[trigger] vars_indexes.map()[k1] == #[trigger] vars_indexes.map()[k2] ==> k1 == k2,
    ensures
        r.1 == linearized_objective.current_rhs,
        r.0@.len() == vars_indexes.keys().len(),
        forall|k: Seq<char>| linearized_objective.current_vars.has(k) && vars_indexes.has(k) ==> r.0@[#[trigger] vars_indexes.map()[k] as int] == linearized_objective.current_vars.map()[k],
        forall|i: int| 0 <= i < r.0@.len() && (forall|k: Seq<char>| linearized_objective.current_vars.has(k) && vars_indexes.has(k) ==> #[trigger] vars_indexes.map()[k] != i) ==> fv(#[trigger] r.0@[i]) == Ext::Fin(0real),
