//@ C07 / C03 — the lowering must not rely on a range the linear model does not enforce.
@fn DomainVariable::get_type -> r
    ensures *r == self.as_type,
@fn BoundsAnalyzer::reset_to_declared
    requires box_wf(*old(self)), vt_wf(*variable_type),
    ensures box_wf(*final(self)), final(self).tolerance == old(self).tolerance,
        forall|env: Env| #[trigger] box_ok(*old(self), env) && in_domain(*variable_type, env[name@]) ==> box_ok(*final(self), env),
        // "forgets the inferred range and falls back to the declared one": afterwards the variable's range admits every value of the given type,
        // so the lowering cannot rely on anything narrower (the point of repair 0f3a8ac); the other variables keep their ranges
        final(self).variable_bounds.has(name@),
        forall|x: real| in_domain(*variable_type, x) ==> #[trigger] contains(final(self).variable_bounds.map()[name@], x),
        forall|k: Seq<char>| k != name@ ==> (#[trigger] final(self).variable_bounds.has(k) == old(self).variable_bounds.has(k)) && (old(self).variable_bounds.has(k) ==> final(self).variable_bounds.map()[k] == old(self).variable_bounds.map()[k]),
@fn BoundsAnalyzer::reset_to_declared @end
    proof {
        assert(box_wf(*self)) by {
            assert forall|k: Seq<char>| #[trigger] self.variable_bounds.has(k) implies wf(self.variable_bounds.map()[k]) by {
                if old(self).variable_bounds.has(k) && self.variable_bounds.map()[k] == old(self).variable_bounds.map()[k] { }
            }
        }
        assert forall|env: Env| #[trigger] box_ok(*old(self), env) && in_domain(*variable_type, env[name@]) implies box_ok(*self, env) by {
            assert forall|k: Seq<char>| #[trigger] self.variable_bounds.has(k) implies contains(self.variable_bounds.map()[k], env[k]) by {
                if k != name@ { assert(old(self).variable_bounds.has(k)); }
            }
        }
    }
@fn drop_unpublished -> r
    requires box_wf(*old(bounds)), domain.wf(), finite(old(bounds).tolerance), rv(old(bounds).tolerance) >= 0real,
        forall|k: Seq<char>| #[trigger] domain.has(k) ==> vt_wf(domain.map()[k].as_type),
    ensures box_wf(*final(bounds)), r.wf(), r.keys() == domain.keys(),
        // publication (U07.pub): the new domain excludes no value of the declared one that lies in the inferred range
        forall|k: Seq<char>, x: real| #[trigger] domain.has(k) && in_domain(domain.map()[k].as_type, x)
            && (old(bounds).variable_bounds.has(k) ==> contains(old(bounds).variable_bounds.map()[k], x)) ==> #[trigger] in_domain(r.map()[k].as_type, x),
        // the box the lowering goes on with: sound for every assignment that was inside the box and is inside the published domains
        forall|env: Env| #[trigger] box_ok(*old(bounds), env) && (forall|k: Seq<char>| #[trigger] r.has(k) ==> in_domain(r.map()[k].as_type, env[k])) ==> box_ok(*final(bounds), env),
@fn drop_unpublished @entry
    let ghost b0 = *bounds;
@fn drop_unpublished @loop 1
    invariant vx_n1 == vx_v1@.len(), domain.wf(), box_wf(*bounds), b0 == *old(bounds),
        forall|k: Seq<char>| #[trigger] domain.has(k) ==> vt_wf(domain.map()[k].as_type),
        forall|env: Env| #[trigger] box_ok(b0, env) && (forall|k: Seq<char>| #[trigger] domain.has(k) ==> in_domain(domain.map()[k].as_type, env[k])) ==> box_ok(*bounds, env),
@fn drop_unpublished @after "let name = vx_vec_take"
    let ghost b1 = *bounds;
@fn drop_unpublished @after "bounds.reset_to_declared"
    proof {
        assert forall|env: Env| #[trigger] box_ok(b0, env) && (forall|k: Seq<char>| #[trigger] domain.has(k) ==> in_domain(domain.map()[k].as_type, env[k])) implies box_ok(*bounds, env) by {
            assert(box_ok(b1, env));
            assert(domain.has(name@));
        }
    }
//@ the same loop in Linearizer::new_from (the entry point used when the bounds are computed inside)
@fn drop_unpublished_new_from -> r
    requires box_wf(*old(bounds)), domain.wf(), finite(old(bounds).tolerance), rv(old(bounds).tolerance) >= 0real,
        forall|k: Seq<char>| #[trigger] domain.has(k) ==> vt_wf(domain.map()[k].as_type),
    ensures box_wf(*final(bounds)), r.wf(), r.keys() == domain.keys(),
        // publication (U07.pub): the new domain excludes no value of the declared one that lies in the inferred range
        forall|k: Seq<char>, x: real| #[trigger] domain.has(k) && in_domain(domain.map()[k].as_type, x)
            && (old(bounds).variable_bounds.has(k) ==> contains(old(bounds).variable_bounds.map()[k], x)) ==> #[trigger] in_domain(r.map()[k].as_type, x),
        // the box the lowering goes on with: sound for every assignment that was inside the box and is inside the published domains
        forall|env: Env| #[trigger] box_ok(*old(bounds), env) && (forall|k: Seq<char>| #[trigger] r.has(k) ==> in_domain(r.map()[k].as_type, env[k])) ==> box_ok(*final(bounds), env),
@fn drop_unpublished_new_from @entry
    let ghost b0 = *bounds;
@fn drop_unpublished_new_from @loop 1
    invariant vx_n1 == vx_v1@.len(), domain.wf(), box_wf(*bounds), b0 == *old(bounds),
        forall|k: Seq<char>| #[trigger] domain.has(k) ==> vt_wf(domain.map()[k].as_type),
        forall|env: Env| #[trigger] box_ok(b0, env) && (forall|k: Seq<char>| #[trigger] domain.has(k) ==> in_domain(domain.map()[k].as_type, env[k])) ==> box_ok(*bounds, env),
@fn drop_unpublished_new_from @after "let name = vx_vec_take"
    let ghost b1 = *bounds;
@fn drop_unpublished_new_from @after "bounds.reset_to_declared"
    proof {
        assert forall|env: Env| #[trigger] box_ok(b0, env) && (forall|k: Seq<char>| #[trigger] domain.has(k) ==> in_domain(domain.map()[k].as_type, env[k])) implies box_ok(*bounds, env) by {
            assert(box_ok(b1, env));
            assert(domain.has(name@));
        }
    }
