//@ C04 / C05 / C15 — the MILP bridge, relative to the documented microlp contract (prelude/libs/microlp.rs).
@fn make_constraints_map_from_assignment @assumed -> r
    ensures true,
@fn LpSolution::with_status -> r
    ensures r.assignment == self.assignment, r.value == self.value, r.constraints == self.constraints, r.status == status,
@fn LpSolution::status -> r
    ensures r == self.status,
@fn LinearConstraint::coefficients -> r
    ensures *r == self.coefficients,
@fn LinearConstraint::rhs -> r
    ensures r == self.rhs,
@fn LinearConstraint::constraint_type -> r
    ensures *r == self.constraint_type,
@fn LinearModel::variables -> r
    ensures *r == self.variables,
@fn LinearModel::domain -> r
    ensures *r == self.domain,
@fn LinearModel::objective -> r
    ensures *r == self.objective,
@fn LinearModel::constraints -> r
    ensures *r == self.constraints,
@fn LinearModel::optimization_type -> r
    ensures *r == self.optimization_type,
@fn LinearModel::objective_offset -> r
    ensures r == self.objective_offset,
@fn solve_milp_lp_problem_with -> res
    requires lm_wf(*lp),
    ensures
        // C04: a returned solution is the library's (feasible) point of EXACTLY this model, read back faithfully
        res matches Ok(sol) ==> exists|s: Solution| #[trigger] built(s.vars(), s.rows(), s.dir(), *lp) && s.sound() && readback(sol, s, *lp),
        // C15: never a solution from an interrupted search; Optimal only if the library proved it; Feasible stays Feasible
        res matches Ok(sol) ==> exists|s: Solution| #[trigger] built(s.vars(), s.rows(), s.dir(), *lp) && s.st() != Status::Interrupted
            && (sol.status is Optimal ==> s.st() is Optimal) && (s.st() is Feasible ==> sol.status is Feasible),
        // C05: the dedicated verdicts are genuine verdicts about this model
        res matches Err(SolverError::Infeasible) ==> exists|vs: Seq<GVar>, rs: Seq<GRow>, d: OptimizationDirection| #[trigger] built(vs, rs, d, *lp) && forall|x: Seq<real>| !gfeasible(vs, rs, x),
        res matches Err(SolverError::Unbounded) ==> exists|vs: Seq<GVar>, rs: Seq<GRow>, d: OptimizationDirection| #[trigger] built(vs, rs, d, *lp) && exists|x: Seq<real>| gfeasible(vs, rs, x),
        // C15: invalid gaps are rejected
        (options.mip_gap matches Some(g) && !(fv(g) is Fin && rv(g) >= 0real)) ==> res is Err,
@fn solve_milp_lp_problem_with @lettype microlp_vars
    Vec<Variable>
@fn solve_milp_lp_problem_with @lettype vx_out4
    Vec<Assignment<MILPValue>>
@fn solve_milp_lp_problem_with @lettype vx_out3
    Vec<(Variable, F64)>
@fn solve_milp_lp_problem_with @lettype vx_out5
    Vec<F64>
@fn solve_milp_lp_problem_with @after "let objective ="
    let ghost n = variables@.len() as int;
@fn solve_milp_lp_problem_with @loop 1
    invariant
        vx_n1 == n, n == variables@.len(), objective@.len() == n, *variables == lp.variables, *domain == lp.domain, *objective == lp.objective, lm_wf(*lp),
        problem.dir() == opt_type, problem.rows().len() == 0, problem.vars().len() == vx_i1, microlp_vars@.len() == vx_i1,
        forall|k: int| 0 <= k < vx_i1 ==> (#[trigger] microlp_vars@[k]).0 == k,
        forall|k: int| 0 <= k < vx_i1 ==> var_matches(#[trigger] problem.vars()[k], lp.objective@[k], lm_type(*lp, k)),
@fn solve_milp_lp_problem_with @loop 1 @start
    proof { assert(lp.domain.has(lp.variables@[vx_i1 as int]@)); }
@fn solve_milp_lp_problem_with @after "let vx_v2 ="
    let ghost pv = problem.vars();
@fn solve_milp_lp_problem_with @loop 2
    invariant
        vx_n2 == lp.constraints@.len(), *vx_v2 == lp.constraints, n == lp.variables@.len(), lm_wf(*lp),
        problem.dir() == opt_type, problem.vars() == pv, problem.rows().len() == vx_i2, microlp_vars@.len() == n,
        forall|k: int| 0 <= k < n ==> (#[trigger] microlp_vars@[k]).0 == k,
        forall|j: int| 0 <= j < vx_i2 ==> row_matches(#[trigger] problem.rows()[j], lp.constraints@[j], n),
@fn solve_milp_lp_problem_with @loop 3
    invariant
        vx_n3 == n, coeffs@.len() == n, microlp_vars@.len() == n, vx_out3@.len() == vx_i3,
        forall|k: int| 0 <= k < vx_i3 ==> #[trigger] vx_out3@[k] == (microlp_vars@[k], coeffs@[k]),
@fn solve_milp_lp_problem_with @after "problem.add_constraint"
    proof {
        let g = problem.rows()[vx_i2 as int];
        assert(g.terms.len() == n);
        assert forall|i: int| 0 <= i < n implies #[trigger] g.terms[i] == (i, lp.constraints@[vx_i2 as int].coefficients@[i]) by {}
    }
@fn solve_milp_lp_problem_with @loop 4
    invariant
        vx_n4 == n, microlp_vars@.len() == n, *variables == lp.variables, *domain == lp.domain, lm_wf(*lp), n == lp.variables@.len(), vx_out4@.len() == vx_i4,
        s.vars().len() == n, forall|k: int| 0 <= k < n ==> (#[trigger] microlp_vars@[k]).0 == k,
        forall|k: int| 0 <= k < n ==> var_matches(#[trigger] s.vars()[k], lp.objective@[k], lm_type(*lp, k)),
        s.st() != Status::Interrupted ==> s.sound(),
        forall|k: int| 0 <= k < vx_i4 ==> (#[trigger] vx_out4@[k]).name@ == lp.variables@[k]@ && (s.st() != Status::Interrupted ==> value_matches(vx_out4@[k].value, s.vals()[k], lm_type(*lp, k))),
@fn solve_milp_lp_problem_with @loop 4 @start
    proof {
        assert(lp.domain.has(lp.variables@[vx_i4 as int]@));
        if s.st() != Status::Interrupted && lm_type(*lp, vx_i4 as int) is IntegerRange { lemma_int_value(s, vx_i4 as int); }
    }
@fn solve_milp_lp_problem_with @before "let mut solve_options"
    let ghost gv = problem.vars();
    let ghost gr = problem.rows();
    let ghost gd = problem.dir();
    proof { assert(built(gv, gr, gd, *lp)); }
@fn solve_milp_lp_problem_with @before "let assignment ="
    proof { assert(built(s.vars(), s.rows(), s.dir(), *lp)); }
@fn solve_milp_lp_problem_with @loop 5
    invariant vx_n5 == n, microlp_vars@.len() == n, s.vars().len() == n, forall|k: int| 0 <= k < n ==> (#[trigger] microlp_vars@[k]).0 == k,
