//@ C01 — soundness of the one-directional logic witnesses (equivalence).
@fn directional_logic_witness @attr
#[verifier::exec_allows_no_decreases_clause]
@fn directional_logic_witness -> res
    requires lz_inv(*old(linearizer_context)), exp_fin(*exp),
    ensures
        lz_inv(*final(linearizer_context)),
        lz_ext(*old(linearizer_context), *final(linearizer_context)),
        res matches Ok(w) ==> exp_fin(w) && wit_ok(*final(linearizer_context), *exp, witness_truth, w),
@fn directional_logic_witness @keep-arms
    Exp::Iff
@fn directional_logic_witness @entry
    let ghost c0 = *linearizer_context;
    proof { lemma_exp_fin(*exp); }
@fn directional_logic_witness @before "if !witness_truth"
    let ghost f0 = value;
@fn directional_logic_witness @return 1
    proof {
        let w = r__->Ok_0;
        assert forall|env: Env| #[trigger] lz_ok(*linearizer_context, env) implies (sem(w, env) matches Some(v) && (v == 0real || v == 1real)
            && (v == 1real ==> (sem(*exp, env) matches Some(x) ==> truthy(x) == witness_truth))) by {
            reveal(rmul_s);
            assert(sem(*exp, env) == Some(lc_eval(f0, env)));
        }
    }
@fn directional_logic_witness @after "let operands"
    let ghost c1 = *linearizer_context;
    let ghost l = exp->Iff_0;
    let ghost r = exp->Iff_1;
    proof { assert(vx_a17@[0] == *l && vx_a17@[1] == *r); }
@fn directional_logic_witness @after "let witness_id"
    let ghost cA = *linearizer_context;
@fn directional_logic_witness @after "let witness_name"
    let ghost cB = *linearizer_context;
    proof { lemma_lz_same(cA, cB); }
@fn directional_logic_witness @after "linearizer_context.declare_variable(vx_a18"
    let ghost cC = *linearizer_context;
    let ghost a0 = a;
    let ghost b0 = b;
    proof {
        lemma_lz_ext_trans(c1, cB, cC);
        assert forall|env: Env| #[trigger] lz_ok(cC, env) implies (env[witness_name@] == 0real || env[witness_name@] == 1real) by {}
    }
@fn directional_logic_witness @after "let upper_bounds"
    let ghost ub = upper_bounds;
    proof {
        broadcast use lemma_sem_binop;
        assert(ub@.len() == 2);
        lemma_exp_fin(ub@[0]); lemma_exp_fin(ub@[1]); lemma_exp_fin(*ub@[0]->BinOp_1); lemma_exp_fin(*ub@[1]->BinOp_1);
        if witness_truth { lemma_exp_fin(*(*ub@[0]->BinOp_1)->BinOp_1); lemma_exp_fin(*(*ub@[1]->BinOp_1)->BinOp_1); } else { lemma_exp_fin(*(*ub@[1]->BinOp_1)->BinOp_1); }
        assert forall|env: Env| sem(a0, env) is Some && sem(b0, env) is Some implies #[trigger] sem(ub@[0], env) == Some(iff_ubv(sem(a0, env)->Some_0, sem(b0, env)->Some_0, witness_truth, 0))
            && sem(ub@[1], env) == Some(iff_ubv(sem(a0, env)->Some_0, sem(b0, env)->Some_0, witness_truth, 1)) by {}
    }
@fn directional_logic_witness @loop 1
    invariant
        vx_v19@ == ub@, vx_n19 == 2, ub@.len() == 2, c0 == *old(linearizer_context),
        lz_inv(*linearizer_context), lz_ext(c0, *linearizer_context), lz_ext(cC, *linearizer_context),
        forall|k: int| 0 <= k < 2 ==> exp_fin(#[trigger] ub@[k]),
        forall|k: int, env: Env| 0 <= k < vx_i19 && #[trigger] lz_ok(*linearizer_context, env) ==> (sem(#[trigger] ub@[k], env) matches Some(u) ==> env[witness_name@] <= u),
@fn directional_logic_witness @loop 1 @start
    let ghost c3 = *linearizer_context;
@fn directional_logic_witness @after "let vx_a20"
    proof { lemma_exp_fin(vx_a20); }
@fn directional_logic_witness @loop 1 @end
    proof {
        assert forall|k: int, env: Env| 0 <= k < vx_i19 + 1 && #[trigger] lz_ok(*linearizer_context, env) implies (sem(#[trigger] ub@[k], env) matches Some(u) ==> env[witness_name@] <= u) by {
            if k < vx_i19 { lemma_lz_ext_mono(c3, *linearizer_context, env); }
        }
    }
@fn directional_logic_witness @tail 5
    proof {
        let cf = *linearizer_context;
        lemma_exp_fin(r__->Ok_0);
        lemma_lz_ext_trans(c1, cC, cf);
        assert forall|env: Env| #[trigger] lz_ok(cf, env) implies (sem(a0, env) matches Some(x) && (x == 0real || x == 1real) && (sem(*l, env) matches Some(tl) ==> x == tl)) by { lemma_lz_ext_mono(c1, cf, env); }
        assert forall|env: Env| #[trigger] lz_ok(cf, env) implies (sem(b0, env) matches Some(y) && (y == 0real || y == 1real) && (sem(*r, env) matches Some(tr) ==> y == tr)) by { lemma_lz_ext_mono(c1, cf, env); }
        assert forall|env: Env| #[trigger] lz_ok(cf, env) implies (env[witness_name@] == 0real || env[witness_name@] == 1real) by { lemma_lz_ext_mono(cC, cf, env); }
        lemma_wit_iff(cf, l, r, a0, b0, witness_truth, witness_name, ub@[0], ub@[1]);
    }
