//@ C13 — "via the added slack and surplus variables": the loop over the rows.  Column n0 + (number of inequality rows before row i) is
//@ the slack / surplus column of row i; x ranges over ALL real vectors of the final width.
@fn DomainVariable::new -> r
    ensures r.as_type == as_type,
@fn DomainVariable::get_type -> r
    ensures *r == self.as_type,
@fn std_normalize_rows -> res
    requires old(domain).wf(), context.slack_index == 0, context.surplus_index == 0,
        context.total_variables + constraints.len() < usize::MAX,
        forall|i: int| 0 <= i < constraints.len() ==> finite((#[trigger] constraints@[i]).rhs) && fin_seq(constraints@[i].coefficients@)
            && constraints@[i].coefficients.len() <= context.total_variables,
    ensures
        res is Err <==> exists|i: int| 0 <= i < constraints.len() && strict_row(#[trigger] constraints@[i]),
        final(domain).wf(),
        res matches Ok((eqs, ctx)) ==> {
            let n0 = context.total_variables as int;
            let width = n0 + nne(constraints@, constraints.len() as int);
            &&& ctx.total_variables == width
            &&& final(variables)@.len() == old(variables)@.len() + nne(constraints@, constraints.len() as int)
            &&& forall|j: int| 0 <= j < old(variables)@.len() ==> final(variables)@[j] == old(variables)@[j]
            &&& forall|j: int| old(variables)@.len() <= j < final(variables)@.len() ==> final(domain).has(#[trigger] final(variables)@[j]@)
                    && nn_unbounded(final(domain).map()[final(variables)@[j]@].as_type)
            &&& eqs.len() == constraints.len()
            &&& forall|i: int| 0 <= i < eqs.len() ==> (#[trigger] eqs@[i]).coefficients.len() == width && fin_seq(eqs@[i].coefficients@) && finite(eqs@[i].rhs) && rv(eqs@[i].rhs) >= 0real
            &&& forall|i: int, x: Seq<real>| 0 <= i < eqs.len() && x.len() >= width ==>
                    (#[trigger] pdot(eqs@[i].coefficients@, x) == rv(eqs@[i].rhs) <==> slack_row_holds(constraints@[i], n0 + nne(constraints@, i), x))
        },
@fn std_normalize_rows @entry
    let ghost cs = constraints@;
    let ghost n0 = context.total_variables as int;
    let ghost v0 = variables@;
    proof { lemma_nne_bounds(cs, cs.len() as int); }
@fn std_normalize_rows @loop 1
    invariant
        vx_n1 == constraints.len(), constraints@ == cs, vx_rc1.len() == vx_i1, domain.wf(), v0 == old(variables)@, n0 + cs.len() < usize::MAX,
        forall|i: int| 0 <= i < cs.len() ==> finite((#[trigger] cs[i]).rhs) && fin_seq(cs[i].coefficients@) && cs[i].coefficients.len() <= n0,
        context.total_variables == n0 + nne(cs, vx_i1 as int), context.slack_index <= vx_i1, context.surplus_index <= vx_i1,
        forall|i: int| 0 <= i < vx_i1 ==> !strict_row(#[trigger] cs[i]),
        variables@.len() == v0.len() + nne(cs, vx_i1 as int),
        forall|j: int| 0 <= j < v0.len() ==> variables@[j] == v0[j],
        forall|j: int| v0.len() <= j < variables@.len() ==> domain.has(#[trigger] variables@[j]@) && nn_unbounded(domain.map()[variables@[j]@].as_type),
        forall|i: int| 0 <= i < vx_i1 ==> (#[trigger] vx_rc1@[i]).coefficients.len() <= n0 + nne(cs, i + 1) && fin_seq(vx_rc1@[i].coefficients@) && finite(vx_rc1@[i].rhs) && rv(vx_rc1@[i].rhs) >= 0real,
        forall|i: int, x: Seq<real>| 0 <= i < vx_i1 && x.len() >= n0 + nne(cs, i + 1) ==>
            (#[trigger] pdot(vx_rc1@[i].coefficients@, x) == rv(vx_rc1@[i].rhs) <==> slack_row_holds(cs[i], n0 + nne(cs, i), x)),
@fn std_normalize_rows @after "let c = vx_vec_take"
    proof { lemma_nne_bounds(cs, vx_i1 as int); lemma_nne_bounds(cs, vx_i1 + 1); assert(c == cs[vx_i1 as int]); }
    let ghost dm = *domain;
    let ghost vs = variables@;
@fn std_normalize_rows @after "let mut constraints = vx_rc1"
    let ghost e0 = constraints@;
    let ghost width = n0 + nne(cs, cs.len() as int);
    proof {
        assert forall|i: int| 0 <= i < cs.len() implies !strict_row(#[trigger] cs[i]) by {}
        assert forall|i: int| 0 <= i < e0.len() implies (#[trigger] e0[i]).coefficients.len() <= width by { lemma_nne_mono(cs, i + 1, cs.len() as int); }
    }
@fn std_normalize_rows @loop 2
    invariant
        vx_n2 == constraints.len(), constraints.len() == e0.len(), e0.len() == cs.len(), context.total_variables == width, width == n0 + nne(cs, cs.len() as int),
        forall|i: int| 0 <= i < e0.len() ==> (#[trigger] e0[i]).coefficients.len() <= width && fin_seq(e0[i].coefficients@) && finite(e0[i].rhs) && rv(e0[i].rhs) >= 0real,
        forall|i: int| vx_i2 <= i < e0.len() ==> constraints@[i] == e0[i],
        forall|i: int, x: Seq<real>| 0 <= i < e0.len() && x.len() >= n0 + nne(cs, i + 1) ==>
            (#[trigger] pdot(e0[i].coefficients@, x) == rv(e0[i].rhs) <==> slack_row_holds(cs[i], n0 + nne(cs, i), x)),
        forall|i: int| 0 <= i < vx_i2 ==> (#[trigger] constraints@[i]).coefficients.len() == width && fin_seq(constraints@[i].coefficients@) && constraints@[i].rhs == e0[i].rhs,
        forall|i: int, x: Seq<real>| 0 <= i < vx_i2 && x.len() >= width ==> #[trigger] pdot(constraints@[i].coefficients@, x) == pdot(e0[i].coefficients@, x),
@fn std_normalize_rows @after "let mut c = vx_vec_take"
    proof { assert(c == e0[vx_i2 as int]); }
@fn std_normalize_rows @tail 1
    proof {
        assert forall|i: int, x: Seq<real>| 0 <= i < constraints.len() && x.len() >= width implies
            (#[trigger] pdot(constraints@[i].coefficients@, x) == rv(constraints@[i].rhs) <==> slack_row_holds(cs[i], n0 + nne(cs, i), x)) by {
            lemma_nne_mono(cs, i + 1, cs.len() as int);
            assert(pdot(e0[i].coefficients@, x) == rv(e0[i].rhs) <==> slack_row_holds(cs[i], n0 + nne(cs, i), x));
        }
    }
@raw
impl InputSpan { #[verifier::external_body] pub fn default() -> (r: InputSpan) { unimplemented!() } }
