//@ C07 — "by propagating constraints backwards onto their variables": the forms the loop works with.
@fn forms_of -> r
    requires forall|k: int| 0 <= k < constraints@.len() ==> c_fin(#[trigger] constraints@[k]),
    ensures r@.len() == constraints@.len(),
        forall|k: int| 0 <= k < constraints@.len() ==> (#[trigger] r@[k] matches Some(f) ==> form_wf(f)
            && forall|env: Env| sem(constraints@[k].lhs, env) is Some && sem(constraints@[k].rhs, env) is Some ==> #[trigger] form_val(f, env) == sem(constraints@[k].lhs, env)->Some_0 - sem(constraints@[k].rhs, env)->Some_0),
@fn forms_of @loop 1
    invariant vx_n1 == constraints@.len(), vx_out1@.len() == vx_i1,
        forall|k: int| 0 <= k < constraints@.len() ==> c_fin(#[trigger] constraints@[k]),
        forall|k: int| 0 <= k < vx_i1 ==> (#[trigger] vx_out1@[k] matches Some(f) ==> form_wf(f)
            && forall|env: Env| sem(constraints@[k].lhs, env) is Some && sem(constraints@[k].rhs, env) is Some ==> #[trigger] form_val(f, env) == sem(constraints@[k].lhs, env)->Some_0 - sem(constraints@[k].rhs, env)->Some_0),
