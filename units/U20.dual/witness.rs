    // Executable form of C20 on the REAL Clarabel path, bounded corpus: the reported shadow price of a named row equals the central finite
    // difference of the optimal value with respect to that row's right-hand side (models where the one-sided differences agree, i.e. no kink);
    // inactive rows report 0, unnamed rows report nothing.
    use crate::solvers::solve_real_lp_problem_clarabel;
    fn build(dir: &OptimizationType, obj: &[f64; 2], rows: &[([f64; 2], Comparison, f64, &str)], bump: Option<(usize, f64)>, off: f64) -> LinearModel {
        let mut lp = LinearModel::new();
        lp.add_variable("x", VariableType::NonNegativeReal(0.0, f64::INFINITY));
        lp.add_variable("y", VariableType::Real(-50.0, 50.0));
        for (k, (c, cmp, r, name)) in rows.iter().enumerate() {
            let r = r + match bump { Some((j, d)) if j == k => d, _ => 0.0 };
            if name.is_empty() { lp.add_constraint(c.to_vec(), *cmp, r); } else { lp.add_named_constraint(c.to_vec(), *cmp, r, name); }
        }
        lp.set_objective(obj.to_vec(), dir.clone());
        let (o, t, _, cs, vs, d) = lp.into_parts();
        LinearModel::new_from_parts(o, t, off, cs, vs, d)
    }
    #[test]
    fn search() {
        let (le, ge, eq) = (Comparison::LessOrEqual, Comparison::GreaterOrEqual, Comparison::Equal);
        let rowsets: Vec<Vec<([f64; 2], Comparison, f64, &str)>> = vec![
            vec![([1.0, 2.0], le, 14.0, "a"), ([3.0, 1.0], le, 18.0, "b"), ([1.0, 0.0], le, 100.0, "slack"), ([0.0, 1.0], ge, -40.0, "")],
            vec![([1.0, 2.0], ge, 14.0, "a"), ([3.0, 1.0], ge, 18.0, "b"), ([1.0, 0.0], ge, 0.5, "c"), ([1.0, 1.0], le, 90.0, "")],
            vec![([1.0, 2.0], le, 14.0, "a"), ([3.0, 1.0], le, 18.0, "b"), ([1.0, 0.0], eq, 2.0, "fix")],
            vec![([2.0, 1.0], le, 10.0, "p"), ([1.0, 3.0], le, 15.0, "q"), ([1.0, -1.0], ge, -20.0, "r")],
            vec![([2.0, 1.0], ge, 4.0, "p"), ([1.0, 3.0], ge, 6.0, "q"), ([1.0, 1.0], eq, 3.5, "s")],
            vec![([1.0, 1.0], le, 8.0, "cap"), ([1.0, -1.0], le, 2.0, "gap"), ([0.0, 1.0], le, 30.0, "wide")],
            // unnamed rows before and between named ones (the prices must stay paired with their own rows)
            vec![([1.0, 1.0], ge, 4.0, ""), ([1.0, 0.0], le, 3.0, "capx"), ([0.0, 1.0], le, 10.0, "lim")],
            vec![([1.0, 2.0], le, 14.0, "a"), ([0.0, 1.0], ge, -40.0, ""), ([3.0, 1.0], le, 18.0, "b")],
            vec![([0.0, 1.0], le, 45.0, ""), ([1.0, 1.0], ge, 3.0, ""), ([2.0, 1.0], ge, 4.0, "p"), ([1.0, 3.0], ge, 6.0, "q")],
        ];
        let objs = [[2.0, 3.0], [1.0, 1.5], [3.0, 0.5], [-1.0, 2.0], [1.0, -0.25]];
        let (mut cases, mut fails, mut compared) = (0u64, 0u32, 0u64);
        let mut distinct: std::collections::HashSet<String> = std::collections::HashSet::new();
        for rows in &rowsets { for obj in &objs { for dir in [OptimizationType::Max, OptimizationType::Min] { for off in [0.0, 2.5] {
            let lp = build(&dir, obj, rows, None, off);
            let tag = format!("{}", lp).replace('\n', " | ");
            let s = match solve_real_lp_problem_clarabel(&lp) { Ok(s) => s, Err(_) => continue };
            cases += 1;
            distinct.insert(tag.clone());
            let mut report = |clause: &str, detail: String| {
                if fails < 40 { println!("WITNESS-FAIL {{\"fn\": \"solve_real_lp_problem_clarabel / collect_good_lp_duals\", \"clause\": \"{}\", \"model\": \"{}\", \"detail\": \"{}\"}}", clause, tag, detail.replace('"', "'")); }
                fails += 1;
            };
            // unnamed rows report none, every named row reports one
            for (name, _) in s.shadow_prices().iter() { if name.is_empty() || !rows.iter().any(|r| r.3 == name) { report("only named rows of the model report a shadow price", format!("price for '{}'", name)); } }
            for (k, (c, cmp, r, name)) in rows.iter().enumerate() {
                if name.is_empty() { continue; }
                let price = match s.shadow_prices().get(*name) { Some(p) => *p, None => { report("every named row reports a shadow price", format!("no price for {}", name)); continue; } };
                let d = 1e-3;
                let v = |delta: f64| solve_real_lp_problem_clarabel(&build(&dir, obj, rows, Some((k, delta)), off)).map(|s| s.value());
                let (vu, vd, v0) = match (v(d), v(-d)) { (Ok(a), Ok(b)) => (a, b, s.value()), _ => continue };
                let (right, left) = ((vu - v0) / d, (v0 - vd) / d);
                // a kink (degenerate / non-unique dual): the property does not apply
                if (right - left).abs() > 1e-4 * (1.0 + right.abs()) { continue; }
                let fd = (vu - vd) / (2.0 * d);
                compared += 1;
                if (price - fd).abs() > 1e-4 * (1.0 + fd.abs()) { report("the shadow price of a named row is the rate of change of the optimal value with respect to its right-hand side, in the user's objective sense", format!("row {} ({:?} {} {}): reported {}, finite difference {}", name, c, cmp, r, price, fd)); }
                // inactive rows report zero
                let x: Vec<f64> = lp.variables().iter().map(|n| s.value_of(n).unwrap_or(0.0)).collect();
                let lhs: f64 = c.iter().zip(x.iter()).map(|(a, b)| a * b).sum();
                if (lhs - r).abs() > 1e-3 * (1.0 + r.abs()) && price.abs() > 1e-5 { report("inactive rows report zero", format!("row {} has slack {} and price {}", name, (lhs - r).abs(), price)); }
            }
        } } } }
        if compared < 100 { println!("WITNESS-FAIL {{\"fn\": \"corpus\", \"clause\": \"vacuity guard: at least 100 prices compared\", \"compared\": {}}}", compared); }
        println!("WITNESS-SAMPLE {{\"prices_compared\": {}}}", compared);
        println!("WITNESS-DONE cases={} distinct={}", cases, distinct.len());
    }
