    // Executable form of C04 on the REAL built-in solvers, bounded corpus: whatever a solver returns as a solution must be feasible for
    // the model (rows, bounds, integrality, 0/1) within 1e-6, carry exactly one value per model variable, report the objective function's
    // value at that point (offset included), and report named-row activities equal to the rows' left-hand sides.
    use crate::solvers::{auto_solver, solve_milp_lp_problem, solve_real_lp_problem_clarabel, solve_real_lp_problem_micro_lp, solve_real_lp_problem_slow_simplex, LpSolution, MILPValue};
    fn check<T: Copy + Into<f64> + Clone + serde::Serialize + serde::de::DeserializeOwned + std::fmt::Display>(who: &str, lp: &LinearModel, s: &LpSolution<T>, tol: f64, fails: &mut u32, tag: &str) {
        let mut report = |clause: &str, detail: String| {
            if *fails < 40 { println!("WITNESS-FAIL {{\"fn\": \"{}\", \"clause\": \"{}\", \"model\": \"{}\", \"detail\": \"{}\"}}", who, clause, tag, detail.replace('"', "'").replace('\n', " ")); }
            *fails += 1;
        };
        let vars = lp.variables();
        // exactly one value per model variable (and nothing else)
        let names: Vec<&String> = s.assignment().iter().map(|a| &a.name).collect();
        for v in vars { let c = names.iter().filter(|n| **n == v).count(); if c != 1 { report("every variable of the model has exactly one value", format!("{} has {} values in {:?}", v, c, names)); return; } }
        if names.len() != vars.len() { report("every variable of the model has exactly one value", format!("assignment {:?} vs variables {:?}", names, vars)); return; }
        let x: Vec<f64> = vars.iter().map(|v| { let t: f64 = s.assignment().iter().find(|a| &a.name == v).unwrap().value.into(); t }).collect();
        // domains
        for (v, xv) in vars.iter().zip(x.iter()) {
            let ok = match lp.domain().get(v).map(|d| *d.get_type()) {
                Some(VariableType::Boolean) => (xv - 0.0).abs() <= tol || (xv - 1.0).abs() <= tol,
                Some(VariableType::IntegerRange(a, b)) => *xv >= a as f64 - tol && *xv <= b as f64 + tol && (xv - xv.round()).abs() <= tol,
                Some(VariableType::NonNegativeReal(a, b)) => *xv >= a.max(0.0) - tol * (1.0 + a.abs()) && *xv <= b + tol * (1.0 + b.abs().min(1e12)),
                Some(VariableType::Real(a, b)) => *xv >= a - tol * (1.0 + a.abs().min(1e12)) && *xv <= b + tol * (1.0 + b.abs().min(1e12)),
                None => false,
            };
            if !ok { report("the returned values satisfy every variable domain (bounds, integrality, 0/1) within 1e-6", format!("{} = {} outside {:?}", v, xv, lp.domain().get(v).map(|d| *d.get_type()))); }
        }
        // rows
        for (j, c) in lp.constraints().iter().enumerate() {
            let lhs: f64 = c.coefficients().iter().zip(x.iter()).map(|(a, b)| a * b).sum();
            let scale = 1.0 + c.rhs().abs() + c.coefficients().iter().zip(x.iter()).map(|(a, b)| (a * b).abs()).sum::<f64>();
            let ok = match c.constraint_type() { Comparison::LessOrEqual | Comparison::Less => lhs <= c.rhs() + tol * scale, Comparison::GreaterOrEqual | Comparison::Greater => lhs >= c.rhs() - tol * scale, Comparison::Equal => (lhs - c.rhs()).abs() <= tol * scale };
            if !ok { report("the returned values satisfy every row within 1e-6", format!("row {} ({}): lhs {} vs rhs {} at {:?}", j, c, lhs, c.rhs(), x)); }
        }
        // objective
        if !matches!(lp.optimization_type(), OptimizationType::Satisfy) {
            let o: f64 = lp.objective().iter().zip(x.iter()).map(|(a, b)| a * b).sum::<f64>() + lp.objective_offset();
            if (o - s.value()).abs() > tol * (1.0 + o.abs()) * 10.0 { report("the reported objective value is the objective function at the returned values, offset included", format!("objective at {:?} is {}, reported {}", x, o, s.value())); }
        }
        // named-row activities
        for (name, act) in s.constraints().iter() {
            let rows: Vec<&LinearConstraint> = lp.constraints().iter().filter(|c| &c.name() == name).collect();
            if rows.is_empty() { report("a reported row activity belongs to a row of the model", format!("no row named {}", name)); continue; }
            let any_match = rows.iter().any(|c| { let lhs: f64 = c.coefficients().iter().zip(x.iter()).map(|(a, b)| a * b).sum(); (lhs - act).abs() <= tol * (1.0 + lhs.abs()) * 10.0 });
            if !any_match { report("each reported named-row activity equals that row's left-hand side at the returned values", format!("row {} reported {} at {:?}", name, act, x)); }
        }
    }
    #[test]
    fn search() {
        let inf = f64::INFINITY;
        let (mut cases, mut fails, mut solved) = (0u64, 0u32, 0u64);
        let mut distinct: std::collections::HashSet<String> = std::collections::HashSet::new();
        let real_shapes = [VariableType::Real(-inf, inf), VariableType::Real(-2.0, inf), VariableType::Real(-inf, 4.0), VariableType::Real(-3.0, 5.0), VariableType::NonNegativeReal(0.0, inf), VariableType::NonNegativeReal(1.0, 6.0)];
        let int_shapes = [VariableType::IntegerRange(-4, 7), VariableType::IntegerRange(0, 3), VariableType::Boolean, VariableType::NonNegativeReal(0.5, 4.5), VariableType::Real(-2.5, 2.5)];
        let rowsets: Vec<Vec<(Vec<f64>, Comparison, f64, &str)>> = vec![
            vec![(vec![1.0, 1.0, 1.0], Comparison::LessOrEqual, 10.0, "cap"), (vec![1.0, -1.0, 0.0], Comparison::GreaterOrEqual, -8.0, "diff"), (vec![0.0, 1.0, 2.0], Comparison::LessOrEqual, 7.5, "")],
            vec![(vec![2.0, 1.0, 0.0], Comparison::Equal, 3.0, "eq"), (vec![1.0, 0.0, 1.0], Comparison::LessOrEqual, 9.0, "u"), (vec![0.0, 1.0, -1.0], Comparison::GreaterOrEqual, -9.0, "l")],
            vec![(vec![1.0, 2.0, 3.0], Comparison::GreaterOrEqual, -4.0, "a"), (vec![1.0, 2.0, 3.0], Comparison::LessOrEqual, 8.0, "a"), (vec![3.0, -1.0, 0.5], Comparison::LessOrEqual, 7.0, "b"), (vec![-1.0, 0.0, 1.0], Comparison::LessOrEqual, 2.0, "__hidden")],
            vec![(vec![1.0, 1.0, 0.0], Comparison::LessOrEqual, -20.0, "lo"), (vec![1.0, 1.0, 0.0], Comparison::GreaterOrEqual, 20.0, "hi")],
            vec![(vec![0.5, 0.25, 1.0], Comparison::LessOrEqual, 3.0, "frac"), (vec![1.0, 1.0, 1.0], Comparison::GreaterOrEqual, -3.0, "")],
        ];
        let objs = [vec![1.0, 2.0, -1.0], vec![-1.0, 1.0, 0.0], vec![0.0, -3.0, 2.0]];
        let build = |shapes: [&VariableType; 3], rows: &Vec<(Vec<f64>, Comparison, f64, &str)>, obj: &Vec<f64>, dir: &OptimizationType, off: f64| -> LinearModel {
            let mut lp = LinearModel::new();
            for (n, t) in ["x", "y", "z"].iter().zip(shapes.iter()) { lp.add_variable(n, **t); }
            for (c, cmp, r, name) in rows { if name.is_empty() { lp.add_constraint(c.clone(), *cmp, *r); } else { lp.add_named_constraint(c.clone(), *cmp, *r, name); } }
            lp.set_objective(obj.clone(), dir.clone());
            let (o, t, _, cs, vs, d) = lp.into_parts();
            LinearModel::new_from_parts(o, t, off, cs, vs, d)
        };
        // continuous models: every real solver
        for (i, sx) in real_shapes.iter().enumerate() { for (j, sy) in real_shapes.iter().enumerate() { if (i + 2 * j) % 3 != 0 { continue; }
            let sz = &real_shapes[(i + j) % real_shapes.len()];
            for rows in rowsets.iter() { for obj in objs.iter() { for dir in [OptimizationType::Min, OptimizationType::Max] { for off in [0.0, 3.0] {
                let lp = build([sx, sy, sz], rows, obj, &dir, off);
                let tag = format!("{}", lp).replace('\n', " | ");
                cases += 1;
                distinct.insert(tag.clone());
                let ra = solve_real_lp_problem_slow_simplex(&lp, 10_000);
                let rb = solve_real_lp_problem_clarabel(&lp);
                if let Ok(s) = &ra { solved += 1; check("solve_real_lp_problem_slow_simplex", &lp, s, 1e-6, &mut fails, &tag); }
                if let Ok(s) = &rb { solved += 1; check("solve_real_lp_problem_clarabel", &lp, s, 1e-6, &mut fails, &tag); }
                // C05: the solvers that answer agree (verdict kind and optimal value)
                let kind = |r: &Result<LpSolution<f64>, SolverError>| match r { Ok(_) => "optimal", Err(SolverError::Infeasible) => "infeasible", Err(SolverError::Unbounded) => "unbounded", Err(_) => "no verdict" };
                let (ka, kb) = (kind(&ra), kind(&rb));
                let disagree = ka != "no verdict" && kb != "no verdict" && (ka != kb || match (&ra, &rb) { (Ok(a), Ok(b)) => (a.value() - b.value()).abs() > 1e-6 * (1.0 + a.value().abs()) * 10.0, _ => false });
                if disagree {
                    if fails < 40 { println!("WITNESS-FAIL {{\"fn\": \"solve_real_lp_problem_slow_simplex / solve_real_lp_problem_clarabel\", \"clause\": \"C05: all solvers that answer agree on the verdict and the optimal value\", \"model\": \"{}\", \"detail\": \"tableau: {} {:?}, clarabel: {} {:?}\"}}", tag, ka, ra.as_ref().map(|s| s.value()).ok(), kb, rb.as_ref().map(|s| s.value()).ok()); }
                    fails += 1;
                }
                // microlp does not return on some LPs with an unbounded optimal face: only models with a bounded box are handed to it without a limit
                let boxed = [sx, sy, sz].iter().all(|t| match t { VariableType::Real(a, b) | VariableType::NonNegativeReal(a, b) => a.is_finite() && b.is_finite(), _ => true });
                if boxed {
                    if let Ok(s) = solve_real_lp_problem_micro_lp(&lp) { solved += 1; check("solve_real_lp_problem_micro_lp", &lp, &s, 1e-6, &mut fails, &tag); }
                    if let Ok(s) = solve_milp_lp_problem(&lp) { solved += 1; check("solve_milp_lp_problem", &lp, &s, 1e-6, &mut fails, &tag); }
                }
            } } } }
        } }
        // mixed-integer models (bounded domains): the MILP bridge and the auto solver
        for (i, sx) in int_shapes.iter().enumerate() { for (j, sy) in int_shapes.iter().enumerate() {
            let sz = &int_shapes[(i + 2 * j + 1) % int_shapes.len()];
            for rows in rowsets.iter() { for obj in objs.iter() { for dir in [OptimizationType::Min, OptimizationType::Max, OptimizationType::Satisfy] {
                let lp = build([sx, sy, sz], rows, obj, &dir, 1.5);
                let tag = format!("{}", lp).replace('\n', " | ");
                cases += 1;
                distinct.insert(tag.clone());
                if let Ok(s) = solve_milp_lp_problem(&lp) { solved += 1; check("solve_milp_lp_problem", &lp, &s, 1e-6, &mut fails, &tag); }
                if let Ok(s) = auto_solver(&lp) { solved += 1; check("auto_solver", &lp, &s, 1e-6, &mut fails, &tag); }
            } } }
        } }
        println!("WITNESS-SAMPLE {{\"solutions_checked\": {}}}", solved);
        if solved < cases / 4 { println!("WITNESS-FAIL {{\"fn\": \"corpus\", \"clause\": \"vacuity guard: at least a quarter of the solver calls return a solution\", \"solved\": {}, \"cases\": {}}}", solved, cases); }
        println!("WITNESS-DONE cases={} distinct={}", cases, distinct.len());
    }
