    // Executable form of C09 on the REAL parser (RoocParser::parse_and_transform), bounded corpus: an expression text is parsed by the repository's
    // grammar and by an independent precedence-climbing reader written here from the documented table; both trees are evaluated on assignments.
    //   tightest: unary - / not;  then * /;  then + -;  then and;  then xor;  then or;  lowest: implies (right-assoc) and iff (left-assoc) on one level.
    //   an implicit multiplication (2x, 2(x+1), (a)(b)c) is a single factor.
    use crate::parser::model_transformer::Exp;
    #[derive(Clone, Debug)]
    enum Tok { Num(f64), Var(&'static str), Op(&'static str), Un(&'static str), Group(Vec<Tok>), Imp(Vec<Tok>) }   // Imp: juxtaposed factors (numbers / groups / a trailing variable)
    fn text(ts: &[Tok], alias: bool) -> String {
        let mut s = String::new();
        for t in ts {
            match t {
                Tok::Num(n) => s.push_str(&format!("{} ", n)), Tok::Var(v) => s.push_str(&format!("{} ", v)),
                Tok::Op(o) => s.push_str(&format!("{} ", if alias { match *o { "and" => "&&", "or" => "||", "implies" => "->", "iff" => "<->", x => x } } else { o })),
                Tok::Un(u) => s.push_str(if *u == "not" { if alias { "!" } else { "not " } } else { "-" }),
                Tok::Group(g) => s.push_str(&format!("({}) ", text(g, alias).trim())),
                Tok::Imp(parts) => { for p in parts { match p { Tok::Num(n) => s.push_str(&format!("{}", n)), Tok::Var(v) => s.push_str(v), Tok::Group(g) => s.push_str(&format!("({})", text(g, alias).trim())), _ => {} } } s.push(' '); }
            }
        }
        s
    }
    // ----- the independent reader: precedence climbing over the token list, evaluating as it goes -----
    fn prec(op: &str) -> (u8, bool) { match op { "implies" => (1, true), "iff" => (1, false), "or" => (2, false), "xor" => (3, false), "and" => (4, false), "+" | "-" => (5, false), "*" | "/" => (6, false), _ => (0, false) } }
    fn apply(op: &str, a: f64, b: f64) -> f64 {
        let t = |v: f64| v != 0.0; let bb = |c: bool| if c { 1.0 } else { 0.0 };
        match op { "+" => a + b, "-" => a - b, "*" => a * b, "/" => a / b, "and" => bb(t(a) && t(b)), "or" => bb(t(a) || t(b)), "xor" => bb(t(a) != t(b)), "implies" => bb(!t(a) || t(b)), "iff" => bb(t(a) == t(b)), _ => f64::NAN }
    }
    fn leaf(ts: &[Tok], i: &mut usize, env: &dyn Fn(&str) -> f64) -> f64 {
        let un = if let Tok::Un(u) = &ts[*i] { *i += 1; Some(*u) } else { None };
        let v = match &ts[*i] {
            Tok::Num(n) => *n, Tok::Var(v) => env(v), Tok::Group(g) => { let mut j = 0; climb(g, &mut j, 0, env) }
            Tok::Imp(parts) => parts.iter().map(|p| match p { Tok::Num(n) => *n, Tok::Var(v) => env(v), Tok::Group(g) => { let mut j = 0; climb(g, &mut j, 0, env) } _ => f64::NAN }).product(),
            _ => f64::NAN,
        };
        *i += 1;
        match un { Some("-") => -v, Some("not") => if v != 0.0 { 0.0 } else { 1.0 }, _ => v }
    }
    fn climb(ts: &[Tok], i: &mut usize, min: u8, env: &dyn Fn(&str) -> f64) -> f64 {
        let mut lhs = leaf(ts, i, env);
        while *i < ts.len() {
            let op = match &ts[*i] { Tok::Op(o) => *o, _ => break };
            let (p, right) = prec(op);
            if p < min { break; }
            *i += 1;
            let rhs = climb(ts, i, if right { p } else { p + 1 }, env);
            lhs = apply(op, lhs, rhs);
        }
        lhs
    }
    // ----- the repository's reading: compile the text and evaluate the tree -----
    fn ev(e: &Exp, env: &dyn Fn(&str) -> f64) -> f64 {
        let t = |v: f64| v != 0.0; let b = |c: bool| if c { 1.0 } else { 0.0 };
        match e {
            Exp::Number(c) => *c, Exp::Variable(n) => env(n),
            Exp::UnOp(UnOp::Neg, a) => -ev(a, env), Exp::UnOp(UnOp::Not, a) | Exp::Not(a) => b(!t(ev(a, env))), Exp::Abs(a) => ev(a, env).abs(),
            Exp::And(es) => b(es.iter().all(|e| t(ev(e, env)))), Exp::Or(es) => b(es.iter().any(|e| t(ev(e, env)))),
            Exp::Xor(a, c) => b(t(ev(a, env)) != t(ev(c, env))), Exp::Implies(a, c) => b(!t(ev(a, env)) || t(ev(c, env))), Exp::Iff(a, c) => b(t(ev(a, env)) == t(ev(c, env))),
            Exp::Min(es) => es.iter().map(|e| ev(e, env)).fold(f64::INFINITY, f64::min), Exp::Max(es) => es.iter().map(|e| ev(e, env)).fold(f64::NEG_INFINITY, f64::max),
            Exp::BinOp(op, a, c) => { let (a, c) = (ev(a, env), ev(c, env)); match op { BinOp::Add => a + c, BinOp::Sub => a - c, BinOp::Mul => a * c, BinOp::Div => a / c,
                BinOp::And => b(t(a) && t(c)), BinOp::Or => b(t(a) || t(c)), BinOp::Xor => b(t(a) != t(c)), BinOp::Implies => b(!t(a) || t(c)), BinOp::Iff => b(t(a) == t(c)) } }
        }
    }
    struct Rng(u64);
    impl Rng { fn next(&mut self, n: usize) -> usize { self.0 = self.0.wrapping_mul(6364136223846793005).wrapping_add(1442695040888963407); ((self.0 >> 33) as usize) % n } }
    fn mk(r: &mut Rng, logic: bool, depth: u32, len: usize) -> Vec<Tok> {
        let avars: [&'static str; 3] = ["x", "y", "z"]; let lvars: [&'static str; 4] = ["p", "q", "andy", "notes"];
        let aops: [&'static str; 4] = ["+", "-", "*", "/"]; let lops: [&'static str; 5] = ["and", "or", "xor", "implies", "iff"];
        let nums = [2.0, 3.0, 0.5, 4.0];
        let mut out = vec![];
        for k in 0..len {
            if k > 0 { out.push(Tok::Op(if logic { lops[r.next(5)] } else { aops[r.next(4)] })); }
            if r.next(4) == 0 { out.push(Tok::Un(if logic { "not" } else { "-" })); }
            let c = r.next(10);
            if depth > 0 && c < 2 { let n = 2 + r.next(2); out.push(Tok::Group(mk(r, logic, depth - 1, n))); }
            else if !logic && c < 5 {
                // implicit multiplications
                let form = r.next(4);
                out.push(Tok::Imp(match form {
                    0 => vec![Tok::Num(nums[r.next(4)]), Tok::Var(avars[r.next(3)])],
                    1 if depth > 0 => vec![Tok::Num(nums[r.next(4)]), Tok::Group(mk(r, false, depth - 1, 2))],
                    2 if depth > 0 => vec![Tok::Group(mk(r, false, depth - 1, 2)), Tok::Group(mk(r, false, depth - 1, 2)), Tok::Var(avars[r.next(3)])],
                    _ => vec![Tok::Group(vec![Tok::Var(avars[r.next(3)])]), Tok::Var(avars[r.next(3)])],
                }));
            }
            else if !logic && c < 7 { out.push(Tok::Num(nums[r.next(4)])); }
            else { out.push(Tok::Var(if logic { lvars[r.next(4)] } else { avars[r.next(3)] })); }
        }
        out
    }
    #[test]
    fn search() {
        let seed: u64 = std::env::var("VERIF_SEED").ok().and_then(|s| s.parse().ok()).unwrap_or(0);
        let mut r = Rng(0x9E3779B97F4A7C15 ^ seed.wrapping_mul(1000003));
        let (mut cases, mut fails, mut parsed) = (0u64, 0u32, 0u64);
        let mut distinct: std::collections::HashSet<String> = std::collections::HashSet::new();
        let mut texts: Vec<(bool, String, Option<Vec<Tok>>)> = vec![];
        for round in 0..700 { let logic = round % 2 == 0; let n = 2 + r.next(4); let ts = mk(&mut r, logic, 2, n); texts.push((logic, text(&ts, false), Some(ts.clone()))); if logic && round % 4 == 0 { texts.push((logic, text(&ts, true), Some(ts))); } }
        for (logic, src_exp, toks) in texts.iter() {
            let src = if *logic { format!("solve\ns.t.\n    {}\ndefine\n    p, q, andy, notes as Boolean", src_exp.trim()) } else { format!("solve\ns.t.\n    {} <= 1000000\ndefine\n    x, y, z as Real(-100, 100)", src_exp.trim()) };
            cases += 1;
            let model = match RoocParser::new(src.clone()).parse_and_transform(vec![], &IndexMap::new()) { Ok(m) => m,
                Err(e) => { if fails < 40 { println!("WITNESS-FAIL {{\"fn\": \"RoocParser::parse_and_transform\", \"clause\": \"a well-formed expression text compiles\", \"expression\": \"{}\", \"detail\": \"{}\"}}", src_exp.trim(), e.replace('"', "'").replace('\n', " ").chars().take(200).collect::<String>()); } fails += 1; continue; } };
            parsed += 1;
            distinct.insert(src_exp.clone());
            let tree = model.constraints()[0].lhs().clone();
            let envs: Vec<[f64; 4]> = if *logic { (0..16u32).map(|b| [(b & 1) as f64, ((b >> 1) & 1) as f64, ((b >> 2) & 1) as f64, ((b >> 3) & 1) as f64]).collect() } else { vec![[3.0, -2.0, 0.5, 0.0], [1.5, 4.0, -3.0, 0.0], [-1.0, 0.25, 2.0, 0.0], [7.0, 3.0, -0.5, 0.0]] };
            for e in envs {
                let env = |n: &str| -> f64 { match n { "x" | "p" => e[0], "y" | "q" => e[1], "z" | "andy" => e[2], "notes" => e[3], _ => f64::NAN } };
                let want = { let ts = toks.as_ref().unwrap(); let mut i = 0; climb(ts, &mut i, 0, &env) };
                let got = ev(&tree, &env);
                if !want.is_finite() || want.abs() > 1e9 { continue; }
                if !((got - want).abs() <= 1e-9 * (1.0 + want.abs())) {
                    if fails < 40 { println!("WITNESS-FAIL {{\"fn\": \"parse_exp (PRATT_PARSER, implicit_mul)\", \"clause\": \"the compiled expression has the value the documented precedence and associativity give it\", \"expression\": \"{}\", \"assignment\": \"{:?}\", \"documented_value\": {}, \"compiled_value\": {}, \"compiled\": \"{}\"}}", src_exp.trim(), e, want, got, tree); }
                    fails += 1;
                    break;
                }
            }
        }
        if parsed < cases * 9 / 10 { println!("WITNESS-FAIL {{\"fn\": \"corpus\", \"clause\": \"vacuity guard: nine tenths of the generated texts compile\", \"parsed\": {}, \"cases\": {}}}", parsed, cases); }
        println!("WITNESS-DONE cases={} distinct={}", cases, distinct.len());
    }
