//@ C05 / C14 — the two-phase start: back to the model's objective.  n columns; x ranges over ALL solutions of the phase-two system.
@fn StandardLinearModel::c_vec -> r
    ensures r@ == self.objective@,
@fn restore_objective -> r
    requires fin_seq(model.objective@), rect(new_a@, model.objective@.len() as int), fin_mat(new_a@), fin_seq(new_b@),
        new_b@.len() == new_a@.len(), new_basis@.len() == new_a@.len(),
        forall|k: int| 0 <= k < new_basis@.len() ==> (#[trigger] new_basis@[k]) < model.objective@.len(),
    ensures r.0@.len() == model.objective@.len(), fin_seq(r.0@), fv(r.1) is Fin,
        forall|x: Seq<real>| x.len() == model.objective@.len() && sat(new_a@, new_b@, x) ==> #[trigger] obj(r.0@, r.1, x) == dot(rvs(model.objective@), x),
        canonical(new_a@, new_basis@) ==> forall|k: int| 0 <= k < new_basis@.len() ==> rv(r.0@[#[trigger] new_basis@[k] as int]) == 0real,
@fn restore_objective @entry
    let ghost n = model.objective@.len() as int;
    let ghost c0 = model.objective@;
@fn restore_objective @loop 1
    invariant vx_n1 == new_basis@.len(), n == c0.len(), c0 == model.objective@, fin_seq(c0), rect(new_a@, n), fin_mat(new_a@), fin_seq(new_b@),
        new_b@.len() == new_a@.len(), new_basis@.len() == new_a@.len(),
        forall|k: int| 0 <= k < new_basis@.len() ==> (#[trigger] new_basis@[k]) < n,
        new_c@.len() == n, fin_seq(new_c@), fv(value) is Fin,
        forall|x: Seq<real>| x.len() == n && sat(new_a@, new_b@, x) ==> #[trigger] obj(new_c@, value, x) == dot(rvs(c0), x),
        canonical(new_a@, new_basis@) ==> forall|k: int| 0 <= k < vx_i1 ==> rv(new_c@[#[trigger] new_basis@[k] as int]) == 0real,
@fn restore_objective @after "let coefficient"
    let ghost c1 = new_c@;
    let ghost v1 = value;
    let ghost row = new_a@[vx_i1 as int]@;
    proof { assert(fv(c1[*variable_index as int]) is Fin); assert(fin_seq(row)); assert(row.len() == n); assert(*variable_index == new_basis@[vx_i1 as int]); }
@fn restore_objective @loop 2
    invariant vx_n2 == n, new_c@.len() == n, c1.len() == n, fin_seq(c1), fin_seq(row), row.len() == n, row == new_a@[row_index as int]@, row_index == vx_i1, vx_i1 < new_a@.len(), fv(coefficient) is Fin,
        forall|j: int| 0 <= j < vx_i2 ==> fv(#[trigger] new_c@[j]) is Fin && rv(new_c@[j]) == rv(c1[j]) - rv(coefficient) * rv(row[j]),
        forall|j: int| vx_i2 <= j < n ==> #[trigger] new_c@[j] == c1[j],
@fn restore_objective @after "let index"
    proof { assert(fv(row[vx_i2 as int]) is Fin); assert(new_a@[row_index as int]@[index as int] == row[vx_i2 as int]); }
@fn restore_objective @after "value = value"
    proof {
        assert(fv(new_b@[row_index as int]) is Fin);
        assert(fin_seq(new_c@)) by { assert forall|j: int| 0 <= j < new_c@.len() implies fv(#[trigger] new_c@[j]) is Fin by {} }
        assert forall|x: Seq<real>| x.len() == n && sat(new_a@, new_b@, x) implies #[trigger] obj(new_c@, value, x) == dot(rvs(c0), x) by {
            lemma_dot_comb(rvs(c1), rvs(row), rv(coefficient), x, rvs(new_c@));
            assert(dot(rvs(new_a@[vx_i1 as int]@), x) == rv(new_b@[vx_i1 as int]));
            assert(obj(c1, v1, x) == dot(rvs(c0), x));
            let f = rv(coefficient); let d = rv(new_b@[vx_i1 as int]);
            assert(rv(value) == rv(v1) - f * d);
        }
        if canonical(new_a@, new_basis@) {
            assert forall|k: int| 0 <= k < vx_i1 + 1 implies rv(new_c@[#[trigger] new_basis@[k] as int]) == 0real by {
                let j = new_basis@[k] as int;
                assert(unit_col(new_a@, j, k));
                assert(rv(new_a@[vx_i1 as int][j]) == (if vx_i1 == k { 1real } else { 0real }));
                assert(rv(new_c@[j]) == rv(c1[j]) - rv(coefficient) * rv(row[j]));
                if k == vx_i1 { assert(rv(c1[j]) == rv(coefficient)); assert(rv(coefficient) * 1real == rv(coefficient)) by (nonlinear_arith); }
                else { assert(rv(c1[j]) == 0real); assert(rv(coefficient) * 0real == 0real) by (nonlinear_arith); }
            }
        }
    }
