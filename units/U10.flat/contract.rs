//@ C10 — "flattening an expression never changes its value: for every assignment at which the original is defined the
//@ rewritten expression is defined and evaluates to the same number".
@fn Exp::to_box -> r
    ensures *r == self,
@fn Exp::make_binop -> r
    ensures *r == Exp::BinOp(op, Box::new(lhs), Box::new(rhs)),
@fn Exp::flatten @attr
#[verifier::exec_allows_no_decreases_clause]
@fn Exp::flatten -> r
    ensures
        exp_fin(self) ==> exp_fin(r),
        forall|env: Env| sem(self, env) is Some ==> #[trigger] sem(r, env) == sem(self, env),
@fn Exp::flatten @keep-arms
    Exp::BinOp / (BinOp::Mul,Exp::BinOp(inner_op@(BinOp::Add|BinOp::Sub),lhs,rhs),c)
    Exp::BinOp / (BinOp::Mul,c,Exp::BinOp(inner_op@(BinOp::Add|BinOp::Sub),lhs,rhs))
    Exp::BinOp / (BinOp::Mul,Exp::UnOp(UnOp::Neg,lhs),c)
    Exp::BinOp / (BinOp::Mul,c,Exp::UnOp(UnOp::Neg,rhs))
    Exp::BinOp / (BinOp::Div,Exp::BinOp(inner_op@(BinOp::Add|BinOp::Sub),lhs,rhs),c)
    Exp::BinOp / (BinOp::Add,lhs,rhs)
    Exp::BinOp / (BinOp::Sub,lhs,rhs)
    Exp::BinOp / (BinOp::Mul,lhs,rhs)
    Exp::BinOp / (BinOp::Div,lhs,rhs)
    Exp::BinOp / (BinOp::And,lhs,rhs)
    Exp::BinOp / (BinOp::Or,lhs,rhs)
    Exp::BinOp / (BinOp::Xor,lhs,rhs)
    Exp::BinOp / (BinOp::Implies,lhs,rhs)
    Exp::BinOp / (BinOp::Iff,lhs,rhs)
    _
@fn Exp::flatten @entry
    proof { lemma_exp_fin(self); lemma_exp_fin(*self->BinOp_1); lemma_exp_fin(*self->BinOp_2); }
    let ghost e0 = self;
@fn Exp::flatten @tail 1
    proof {
        let a = *(*e0->BinOp_1)->BinOp_1; let b = *(*e0->BinOp_1)->BinOp_2; let c = *e0->BinOp_2; let iop = (*e0->BinOp_1)->BinOp_0;
        let t = Exp::BinOp(iop, Box::new(Exp::BinOp(BinOp::Mul, Box::new(a), Box::new(c))), Box::new(Exp::BinOp(BinOp::Mul, Box::new(b), Box::new(c))));
        lemma_exp_fin(t); lemma_exp_fin(*t->BinOp_1); lemma_exp_fin(*t->BinOp_2);
        assert forall|env: Env| sem(e0, env) is Some implies #[trigger] sem(t, env) == sem(e0, env) by {
            lemma_dist(sem(a, env)->Some_0, sem(b, env)->Some_0, sem(c, env)->Some_0);
        }
    }
@fn Exp::flatten @tail 2
    proof {
        let a = *(*e0->BinOp_2)->BinOp_1; let b = *(*e0->BinOp_2)->BinOp_2; let c = *e0->BinOp_1; let iop = (*e0->BinOp_2)->BinOp_0;
        let t = Exp::BinOp(iop, Box::new(Exp::BinOp(BinOp::Mul, Box::new(c), Box::new(a))), Box::new(Exp::BinOp(BinOp::Mul, Box::new(c), Box::new(b))));
        lemma_exp_fin(t); lemma_exp_fin(*t->BinOp_1); lemma_exp_fin(*t->BinOp_2);
        assert forall|env: Env| sem(e0, env) is Some implies #[trigger] sem(t, env) == sem(e0, env) by {
            lemma_dist(sem(a, env)->Some_0, sem(b, env)->Some_0, sem(c, env)->Some_0);
        }
    }
@fn Exp::flatten @tail 3
    proof {
        let a = *(*e0->BinOp_1)->UnOp_1; let c = *e0->BinOp_2;
        let t = Exp::BinOp(BinOp::Mul, Box::new(a), Box::new(c));
        lemma_exp_fin(t); lemma_exp_fin(*r__->UnOp_1);
        assert forall|env: Env| sem(e0, env) is Some implies #[trigger] sem(r__, env) == sem(e0, env) by {
            lemma_negmul(sem(a, env)->Some_0, sem(c, env)->Some_0);
            assert(sem(t, env) is Some);
        }
    }
@fn Exp::flatten @tail 4
    proof {
        let b = *(*e0->BinOp_2)->UnOp_1; let c = *e0->BinOp_1;
        let t = Exp::BinOp(BinOp::Mul, Box::new(c), Box::new(b));
        lemma_exp_fin(t); lemma_exp_fin(*r__->UnOp_1);
        assert forall|env: Env| sem(e0, env) is Some implies #[trigger] sem(r__, env) == sem(e0, env) by {
            lemma_negmul(sem(b, env)->Some_0, sem(c, env)->Some_0);
            assert(sem(t, env) is Some);
        }
    }
@fn Exp::flatten @tail 5
    proof {
        let a = *(*e0->BinOp_1)->BinOp_1; let b = *(*e0->BinOp_1)->BinOp_2; let c = *e0->BinOp_2;
        let ta = Exp::BinOp(BinOp::Div, Box::new(a), Box::new(c)); let tb = Exp::BinOp(BinOp::Div, Box::new(b), Box::new(c));
        lemma_exp_fin(ta); lemma_exp_fin(tb); lemma_exp_fin(*r__->BinOp_1); lemma_exp_fin(*r__->BinOp_2);
        assert forall|env: Env| sem(e0, env) is Some implies #[trigger] sem(r__, env) == sem(e0, env) by {
            lemma_divdist(sem(a, env)->Some_0, sem(b, env)->Some_0, sem(c, env)->Some_0);
            assert(sem(ta, env) is Some && sem(tb, env) is Some);
        }
    }
@fn Exp::flatten @tail *
    proof { lemma_exp_fin(r__); }
@raw
pub proof fn lemma_dist(x: real, y: real, z: real)
    ensures rmul_s(x + y, z) == rmul_s(x, z) + rmul_s(y, z), rmul_s(x - y, z) == rmul_s(x, z) - rmul_s(y, z),
        rmul_s(z, x + y) == rmul_s(z, x) + rmul_s(z, y), rmul_s(z, x - y) == rmul_s(z, x) - rmul_s(z, y),
{
    reveal(rmul_s);
    assert((x + y) * z == x * z + y * z) by (nonlinear_arith);
    assert((x - y) * z == x * z - y * z) by (nonlinear_arith);
    assert(z * (x + y) == z * x + z * y) by (nonlinear_arith);
    assert(z * (x - y) == z * x - z * y) by (nonlinear_arith);
}
pub proof fn lemma_negmul(x: real, z: real)
    ensures rmul_s(-x, z) == -rmul_s(x, z), rmul_s(z, -x) == -rmul_s(z, x),
{
    reveal(rmul_s);
    assert((-x) * z == -(x * z)) by (nonlinear_arith);
    assert(z * (-x) == -(z * x)) by (nonlinear_arith);
}
pub proof fn lemma_divdist(x: real, y: real, z: real)
    ensures z != 0real ==> rdiv_s(x + y, z) == rdiv_s(x, z) + rdiv_s(y, z) && rdiv_s(x - y, z) == rdiv_s(x, z) - rdiv_s(y, z),
{
    reveal(rdiv_s);
    if z != 0real {
        assert((x + y) / z == x / z + y / z) by (nonlinear_arith) requires z != 0real;
        assert((x - y) / z == x / z - y / z) by (nonlinear_arith) requires z != 0real;
    }
}
