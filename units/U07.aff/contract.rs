//@ C07 — propagation through an affine row: for each variable the range implied by the row and by the ranges of the OTHER terms
//@ (prefix / suffix sums) is intersected in; no point of the box at which the row's value lies in the required range is cut off.
@fn BoundsAnalyzer::tighten_affine_form -> r
    requires box_wf(*old(self)), form_wf(*form), finite(old(self).tolerance), rv(old(self).tolerance) >= 0real,
        form.coefficients.keys().len() < usize::MAX,      // (len + 1 does not overflow: not decided here)
    ensures
        box_wf(*final(self)), final(self).tolerance == old(self).tolerance,
        forall|env: Env| #[trigger] box_ok(*old(self), env) && contains_req(comparison, form_val(*form, env)) ==> box_ok(*final(self), env),
@fn BoundsAnalyzer::tighten_affine_form @entry
    let ghost o = *self;
    let ghost n = form.coefficients.keys().len() as int;
    let ghost ks = form.coefficients.keys();
    let ghost mp = form.coefficients.map();
// ---- the range of each term  x_k * c_k
@fn BoundsAnalyzer::tighten_affine_form @loop 1
    invariant
        vx_n1 == n, vx_out1@.len() == vx_i1, *self == o, box_wf(o), form_wf(*form), ks == form.coefficients.keys(), mp == form.coefficients.map(), n == ks.len(),
        forall|j: int| 0 <= j < vx_i1 ==> wf(#[trigger] vx_out1@[j]) && (forall|env: Env| #[trigger] box_ok(o, env) ==> contains(vx_out1@[j], term_val(*form, env, j))),
@fn BoundsAnalyzer::tighten_affine_form @loop 1 @start
    let ghost out0 = vx_out1@;
    proof { assert(ks.contains(ks[vx_i1 as int])); assert(form.coefficients.has(ks[vx_i1 as int])); }
@fn BoundsAnalyzer::tighten_affine_form @loop 1 @end
    proof {
        assert(vx_out1@ == out0.push(vx_out1@[vx_i1 as int]));
        assert forall|j: int| 0 <= j < vx_i1 + 1 implies wf(#[trigger] vx_out1@[j]) && (forall|env: Env| #[trigger] box_ok(o, env) ==> contains(vx_out1@[j], term_val(*form, env, j))) by {
            if j < vx_i1 { assert(vx_out1@[j] == out0[j]); }
            else {
                assert forall|env: Env| #[trigger] box_ok(o, env) implies contains(vx_out1@[j], term_val(*form, env, j)) by {
                    if o.variable_bounds.has(name@) { assert(contains(o.variable_bounds.map()[name@], env[name@])); }
                    assert(term_val(*form, env, j) == rmul(env[name@], rv(*coefficient)));
                    assert(contains(vx_out1@[j], rmul(env[name@], rv(*coefficient))));
                }
            }
        }
    }
// ---- prefix sums: constant + the first j terms
@fn BoundsAnalyzer::tighten_affine_form @loop 2
    invariant
        vx_n2 == n, vx_v2@ == terms@, terms@.len() == n, prefixes@.len() == vx_i2 + 1, n == ks.len(), ks == form.coefficients.keys(), mp == form.coefficients.map(),
        forall|j: int| 0 <= j < n ==> wf(#[trigger] terms@[j]) && (forall|env: Env| #[trigger] box_ok(o, env) ==> contains(terms@[j], term_val(*form, env, j))),
        forall|j: int| 0 <= j <= vx_i2 ==> wf(#[trigger] prefixes@[j]) && (forall|env: Env| #[trigger] box_ok(o, env) ==> contains(prefixes@[j], rv(form.constant) + tsum(ks, mp, env, j))),
@fn BoundsAnalyzer::tighten_affine_form @loop 2 @start
    let ghost p0 = prefixes@;
@fn BoundsAnalyzer::tighten_affine_form @loop 2 @end
    proof {
        assert(prefixes@ == p0.push(prefixes@[vx_i2 + 1]));
        assert forall|j: int| 0 <= j <= vx_i2 + 1 implies wf(#[trigger] prefixes@[j]) && (forall|env: Env| #[trigger] box_ok(o, env) ==> contains(prefixes@[j], rv(form.constant) + tsum(ks, mp, env, j))) by {
            if j <= vx_i2 { assert(prefixes@[j] == p0[j]); }
            else {
                assert(wf(p0[vx_i2 as int]) && wf(terms@[vx_i2 as int]));
                assert forall|env: Env| #[trigger] box_ok(o, env) implies contains(prefixes@[j], rv(form.constant) + tsum(ks, mp, env, j)) by {
                    assert(contains(p0[vx_i2 as int], rv(form.constant) + tsum(ks, mp, env, vx_i2 as int)));
                    assert(contains(terms@[vx_i2 as int], term_val(*form, env, vx_i2 as int)));
                }
            }
        }
    }
// ---- suffix sums: the terms from j on
@fn BoundsAnalyzer::tighten_affine_form @loop 3
    invariant
        vx_lo3 == 0, vx_j3 <= n, terms@.len() == n, suffixes@.len() == n + 1, n == ks.len(), ks == form.coefficients.keys(), mp == form.coefficients.map(),
        forall|j: int| 0 <= j < n ==> wf(#[trigger] terms@[j]) && (forall|env: Env| #[trigger] box_ok(o, env) ==> contains(terms@[j], term_val(*form, env, j))),
        forall|j: int| vx_j3 <= j <= n ==> wf(#[trigger] suffixes@[j]) && (forall|env: Env| #[trigger] box_ok(o, env) ==> contains(suffixes@[j], tail_sum(*form, env, j))),
    decreases vx_j3,
@fn BoundsAnalyzer::tighten_affine_form @loop 3 @start
    let ghost s0 = suffixes@;
@fn BoundsAnalyzer::tighten_affine_form @loop 3 @end
    proof {
        let idx = vx_j3 as int;
        assert forall|j: int| idx <= j <= n implies wf(#[trigger] suffixes@[j]) && (forall|env: Env| #[trigger] box_ok(o, env) ==> contains(suffixes@[j], tail_sum(*form, env, j))) by {
            if j > idx { assert(suffixes@[j] == s0[j]); }
            else {
                assert(wf(terms@[idx]) && wf(s0[idx + 1]));
                assert forall|env: Env| #[trigger] box_ok(o, env) implies contains(suffixes@[j], tail_sum(*form, env, j)) by {
                    assert(contains(terms@[idx], term_val(*form, env, idx)));
                    assert(contains(s0[idx + 1], tail_sum(*form, env, idx + 1)));
                    assert(tail_sum(*form, env, idx) == term_val(*form, env, idx) + tail_sum(*form, env, idx + 1));
                }
            }
        }
    }
// ---- each variable: (required - others) / c
@fn BoundsAnalyzer::tighten_affine_form @loop 4
    invariant
        vx_n4 == n, prefixes@.len() == n + 1, suffixes@.len() == n + 1, n == ks.len(), ks == form.coefficients.keys(), mp == form.coefficients.map(), form_wf(*form),
        box_wf(*self), self.tolerance == o.tolerance, finite(o.tolerance), rv(o.tolerance) >= 0real, wf(required),
        forall|d: real| contains(required, d) <==> contains_req(comparison, d),
        forall|j: int| 0 <= j <= n ==> wf(#[trigger] prefixes@[j]) && (forall|env: Env| #[trigger] box_ok(o, env) ==> contains(prefixes@[j], rv(form.constant) + tsum(ks, mp, env, j))),
        forall|j: int| 0 <= j <= n ==> wf(#[trigger] suffixes@[j]) && (forall|env: Env| #[trigger] box_ok(o, env) ==> contains(suffixes@[j], tail_sum(*form, env, j))),
        forall|env: Env| #[trigger] box_ok(o, env) && contains_req(comparison, form_val(*form, env)) ==> box_ok(*self, env),
@fn BoundsAnalyzer::tighten_affine_form @loop 4 @start
    let ghost sp = *self;
    proof { assert(ks.contains(ks[vx_i4 as int])); assert(form.coefficients.has(ks[vx_i4 as int])); }
@fn BoundsAnalyzer::tighten_affine_form @before "if self.tighten_variable(name, candidate)"
    proof {
        let i = vx_i4 as int;
        lemma_mul_div_aff(rv(*coefficient));
        assert(wf(prefixes@[i]) && wf(suffixes@[i + 1]));
        assert forall|env: Env| #[trigger] box_ok(o, env) && contains_req(comparison, form_val(*form, env)) implies contains(candidate, env[name@]) by {
            let total = form_val(*form, env);
            assert(contains(prefixes@[i], rv(form.constant) + tsum(ks, mp, env, i)));
            assert(contains(suffixes@[i + 1], tail_sum(*form, env, i + 1)));
            let oth = (rv(form.constant) + tsum(ks, mp, env, i)) + tail_sum(*form, env, i + 1);
            assert(contains(others, oth));
            assert(total - oth == term_val(*form, env, i));
            assert(contains(required, total));
        }
    }
@raw
pub proof fn lemma_mul_div_aff(c: real)
    requires c != 0real,
    ensures forall|x: real| #[trigger] rdiv_s(rmul_s(x, c), c) == x,
{
    reveal(rmul_s); reveal(rdiv_s);
    assert forall|x: real| #[trigger] rdiv_s(rmul_s(x, c), c) == x by { assert((x * c) / c == x) by (nonlinear_arith) requires c != 0real; }
}
