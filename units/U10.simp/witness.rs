    // Executable form of U10.simp's postcondition (+ idempotence and the division clause, bounded), run against the REAL Exp::simplify:
    // for every small expression tree and assignment where the original is defined, the flattened one evaluates to the same number.
    // Grid: integers and halves only, divisors that are powers of two -> every intermediate value is exact in f64.
    fn ev(e: &Exp, x: f64, y: f64) -> Option<f64> {
        match e {
            Exp::Number(v) => Some(*v),
            Exp::Variable(n) => Some(if n == "x" { x } else { y }),
            Exp::UnOp(UnOp::Neg, a) => ev(a, x, y).map(|v| -v),
            Exp::Abs(a) => ev(a, x, y).map(|v| v.abs()),
            Exp::Min(es) => { if es.is_empty() { return None; } let mut m = f64::INFINITY; for e in es { m = m.min(ev(e, x, y)?); } Some(m) }
            Exp::Max(es) => { if es.is_empty() { return None; } let mut m = f64::NEG_INFINITY; for e in es { m = m.max(ev(e, x, y)?); } Some(m) }
            Exp::BinOp(op, a, b) => {
                let (a, b) = (ev(a, x, y)?, ev(b, x, y)?);
                match op {
                    BinOp::Add => Some(a + b),
                    BinOp::Sub => Some(a - b),
                    BinOp::Mul => Some(a * b),
                    BinOp::Div => if b == 0.0 { None } else { Some(a / b) },
                    BinOp::And => Some(if a != 0.0 && b != 0.0 { 1.0 } else { 0.0 }),
                    BinOp::Or => Some(if a != 0.0 || b != 0.0 { 1.0 } else { 0.0 }),
                    BinOp::Xor => Some(if (a != 0.0) != (b != 0.0) { 1.0 } else { 0.0 }),
                    BinOp::Implies => Some(if a == 0.0 || b != 0.0 { 1.0 } else { 0.0 }),
                    BinOp::Iff => Some(if (a != 0.0) == (b != 0.0) { 1.0 } else { 0.0 }),
                }
            }
            Exp::And(es) => { let mut r = true; for e in es { r = (ev(e, x, y)? != 0.0) && r; } Some(if r { 1.0 } else { 0.0 }) }
            Exp::Or(es) => { let mut r = false; for e in es { r = (ev(e, x, y)? != 0.0) || r; } Some(if r { 1.0 } else { 0.0 }) }
            Exp::Not(a) => ev(a, x, y).map(|v| if v != 0.0 { 0.0 } else { 1.0 }),
            Exp::UnOp(UnOp::Not, a) => ev(a, x, y).map(|v| if v != 0.0 { 0.0 } else { 1.0 }),
            Exp::Xor(a, b) => { let (a, b) = (ev(a, x, y)? != 0.0, ev(b, x, y)? != 0.0); Some(if a != b { 1.0 } else { 0.0 }) }
            Exp::Implies(a, b) => { let (a, b) = (ev(a, x, y)? != 0.0, ev(b, x, y)? != 0.0); Some(if !a || b { 1.0 } else { 0.0 }) }
            Exp::Iff(a, b) => { let (a, b) = (ev(a, x, y)? != 0.0, ev(b, x, y)? != 0.0); Some(if a == b { 1.0 } else { 0.0 }) }
        }
    }
    // a division by zero, or by an expression containing a variable
    fn has_var(e: &Exp) -> bool { match e { Exp::Variable(_) => true, Exp::Number(_) => false, Exp::UnOp(_, a) | Exp::Abs(a) => has_var(a), Exp::BinOp(_, a, b) => has_var(a) || has_var(b), Exp::Min(es) | Exp::Max(es) => es.iter().any(has_var), _ => false } }
    fn bad(e: &Exp) -> bool {
        match e {
            Exp::BinOp(op, a, b) => (matches!(op, BinOp::Div) && (has_var(b) || ev(b, 0.0, 0.0).map(|v| v == 0.0).unwrap_or(true))) || bad(a) || bad(b),
            Exp::UnOp(_, a) | Exp::Abs(a) => bad(a),
            Exp::Min(es) | Exp::Max(es) => es.iter().any(bad),
            _ => false,
        }
    }
    fn leaves() -> Vec<Exp> {
        vec![Exp::Number(0.0), Exp::Number(1.0), Exp::Number(-2.0), Exp::Number(4.0), Exp::Variable("x".to_string()), Exp::Variable("y".to_string())]
    }
    fn grow(prev: &[Exp], all: &[Exp]) -> Vec<Exp> {
        let mut out = vec![];
        for a in prev {
            out.push(Exp::UnOp(UnOp::Neg, a.clone().to_box()));
            out.push(Exp::Abs(a.clone().to_box()));
            for b in all {
                for op in [BinOp::Add, BinOp::Sub, BinOp::Mul, BinOp::Div] {
                    out.push(Exp::BinOp(op, a.clone().to_box(), b.clone().to_box()));
                    out.push(Exp::BinOp(op, b.clone().to_box(), a.clone().to_box()));
                }
            }
        }
        out
    }
    #[test]
    fn search() {
        let l0 = leaves();
        let l1 = grow(&l0, &l0);
        let mut pool: Vec<Exp> = l0.clone();
        pool.extend(l1.iter().cloned());
        // depth 3: combine depth-2 terms with leaves and depth-2 terms taken on a stride (keeps the run to a few seconds)
        let mut l2: Vec<Exp> = vec![];
        for (i, a) in l1.iter().enumerate() {
            for b in l0.iter() {
                for op in [BinOp::Mul, BinOp::Div, BinOp::Add, BinOp::Sub] {
                    l2.push(Exp::BinOp(op, a.clone().to_box(), b.clone().to_box()));
                    l2.push(Exp::BinOp(op, b.clone().to_box(), a.clone().to_box()));
                }
            }
            if i % 7 == 0 {
                for (j, b) in l1.iter().enumerate() {
                    if j % 11 == 0 { l2.push(Exp::BinOp(BinOp::Mul, a.clone().to_box(), b.clone().to_box())); l2.push(Exp::BinOp(BinOp::Div, a.clone().to_box(), b.clone().to_box())); }
                }
            }
        }
        pool.extend(l2);
        // unsafe divisions under abs / min / max / neg wrappers, multiplied by a (literal or folded) zero on either side
        {
            let x = || Exp::Variable("x".to_string());
            let n = |c: f64| Exp::Number(c);
            let b = |op: BinOp, a: Exp, c: Exp| Exp::BinOp(op, a.to_box(), c.to_box());
            let divs = vec![b(BinOp::Div, n(1.0), x()), b(BinOp::Div, x(), n(0.0)), b(BinOp::Div, n(4.0), b(BinOp::Sub, n(1.0), n(1.0))), b(BinOp::Div, n(1.0), b(BinOp::Add, x(), n(1.0)))];
            let zeros = vec![n(0.0), b(BinOp::Sub, n(4.0), n(4.0)), b(BinOp::Mul, n(0.0), n(-2.0))];
            for d in &divs {
                let wraps = vec![d.clone(), Exp::Abs(d.clone().to_box()), Exp::UnOp(UnOp::Neg, d.clone().to_box()), Exp::Min(vec![d.clone(), n(4.0)]), Exp::Max(vec![n(1.0), d.clone()]),
                                 Exp::Abs(Exp::UnOp(UnOp::Neg, d.clone().to_box()).to_box()), Exp::Max(vec![Exp::Abs(d.clone().to_box()), n(0.0)]), b(BinOp::Add, Exp::Abs(d.clone().to_box()), n(1.0))];
                for w in &wraps { for z in &zeros {
                    pool.push(b(BinOp::Mul, z.clone(), w.clone()));
                    pool.push(b(BinOp::Mul, w.clone(), z.clone()));
                    pool.push(b(BinOp::Add, n(1.0), b(BinOp::Mul, z.clone(), w.clone())));
                } }
            }
        }
        // logic nodes (structural and binary) over numbers (0, 1, -2, 4: non-0/1 truthy constants included), variables and small arithmetic terms
        {
            let bx = |e: &Exp| e.clone().to_box();
            let atoms: Vec<Exp> = { let mut v = l0.clone(); v.push(Exp::BinOp(BinOp::Sub, bx(&l0[4]), bx(&l0[5]))); v.push(Exp::BinOp(BinOp::Mul, bx(&l0[2]), bx(&l0[4]))); v };
            let mut lg: Vec<Exp> = vec![];
            for a in &atoms {
                lg.push(Exp::Not(bx(a))); lg.push(Exp::UnOp(UnOp::Not, bx(a))); lg.push(Exp::And(vec![a.clone()])); lg.push(Exp::Or(vec![a.clone()]));
                for b in &atoms {
                    lg.push(Exp::And(vec![a.clone(), b.clone()])); lg.push(Exp::Or(vec![a.clone(), b.clone()]));
                    lg.push(Exp::Xor(bx(a), bx(b))); lg.push(Exp::Implies(bx(a), bx(b))); lg.push(Exp::Iff(bx(a), bx(b)));
                    for op in [BinOp::And, BinOp::Or, BinOp::Xor, BinOp::Implies, BinOp::Iff] { lg.push(Exp::BinOp(op, bx(a), bx(b))); }
                    lg.push(Exp::And(vec![a.clone(), Exp::Number(1.0), b.clone()])); lg.push(Exp::Or(vec![Exp::Number(0.0), a.clone(), b.clone()]));
                    lg.push(Exp::And(vec![Exp::And(vec![a.clone(), Exp::Number(4.0)]), b.clone()])); lg.push(Exp::Or(vec![Exp::Or(vec![a.clone(), Exp::Number(0.0)]), b.clone()]));
                }
            }
            // logic values inside arithmetic and nested once more
            let n = lg.len();
            for k in (0..n).step_by(5) {
                let e = lg[k].clone();
                lg.push(Exp::BinOp(BinOp::Add, bx(&e), bx(&l0[4]))); lg.push(Exp::BinOp(BinOp::Mul, bx(&l0[3]), bx(&e)));
                lg.push(Exp::Not(bx(&e))); lg.push(Exp::And(vec![e.clone(), l0[5].clone()])); lg.push(Exp::Implies(bx(&e), bx(&l0[4])));
            }
            pool.extend(lg);
        }
        let envs = [(-2.0, 0.5), (0.5, 3.0), (3.0, -2.0), (1.0, 1.0), (0.0, 1.0), (1.0, 0.0), (0.0, 0.0)];
        let mut cases = 0u64;
        let mut fails = 0;
        let (mut site_count, mut site_example): (u64, Option<String>) = (0, None);
        for e in &pool {
            let f = e.simplify();
            cases += 1;
            if format!("{:?}", f.simplify()) != format!("{:?}", f) && fails < 5 {
                fails += 1;
                println!("WITNESS-FAIL {{\"fn\": \"Exp::simplify\", \"clause\": \"idempotence (bounded)\", \"expression\": \"{}\", \"once\": \"{}\", \"twice\": \"{}\"}}", e, f, f.simplify());
            }
            if bad(e) && !bad(&f) && fails < 5 {
                fails += 1;
                println!("WITNESS-FAIL {{\"fn\": \"Exp::simplify\", \"clause\": \"a division by zero or by a non-constant is never rewritten away (bounded)\", \"expression\": \"{}\", \"simplified\": \"{}\"}}", e, f);
            }
            let mut reported = false;
            for (x, y) in envs {
                cases += 1;
                if reported { continue; }
                if let Some(v) = ev(e, x, y) {
                    let ok = match ev(&f, x, y) { Some(w) => (w - v).abs() <= 1e-9 * (1.0 + v.abs()), None => false };
                    if !ok && unwrapped_somewhere(e) {
                        // call site: simplify_logic_nary hands back its single remaining operand without the connective (one aggregated entry)
                        reported = true;
                        site_count += 1;
                        if site_example.is_none() { site_example = Some(format!("\"example\": \"{}\", \"x\": {}, \"y\": {}, \"original_value\": {}, \"simplified\": \"{}\", \"simplified_value\": \"{:?}\"", e, x, y, v, f, ev(&f, x, y))); }
                        continue;
                    }
                    if !ok && fails < 40 {
                        reported = true;
                        fails += 1;
                        println!("WITNESS-FAIL {{\"fn\": \"Exp::simplify\", \"clause\": \"sem(r, env) == sem(self, env)\", \"expression\": \"{}\", \"x\": {}, \"y\": {}, \"original_value\": {}, \"simplified\": \"{}\", \"simplified_value\": \"{:?}\"}}", e, x, y, v, f, ev(&f, x, y));
                    }
                }
            }
        }
        if let Some(ex) = site_example {
            println!("WITNESS-FAIL {{\"fn\": \"Exp::simplify\", \"clause\": \"sem(r, env) == sem(self, env)\", \"site\": \"simplify_logic_nary returns its single remaining operand without the connective\", \"expressions\": {}, {}}}", site_count, ex);
        }
        println!("WITNESS-DONE cases={}", cases);
    }
    // does some and / or node of e simplify to something that is neither a constant nor an and / or?  (only the single-remaining-operand arm does that)
    fn unwrapped_somewhere(e: &Exp) -> bool {
        let here = match e {
            Exp::And(_) | Exp::Or(_) | Exp::BinOp(BinOp::And, _, _) | Exp::BinOp(BinOp::Or, _, _) => !matches!(e.simplify(), Exp::Number(_) | Exp::And(_) | Exp::Or(_)),
            _ => false,
        };
        here || match e {
            Exp::And(es) | Exp::Or(es) | Exp::Min(es) | Exp::Max(es) => es.iter().any(unwrapped_somewhere),
            Exp::Not(a) | Exp::Abs(a) | Exp::UnOp(_, a) => unwrapped_somewhere(a),
            Exp::Xor(a, b) | Exp::Implies(a, b) | Exp::Iff(a, b) | Exp::BinOp(_, a, b) => unwrapped_somewhere(a) || unwrapped_somewhere(b),
            _ => false,
        }
    }
