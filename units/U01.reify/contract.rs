//@ C01 — reified logic values: the auxiliary is tied to its defining expressions by queued comparisons.
@fn reify_logic_variable -> res
    requires lz_inv(*old(linearizer_context)), forall|k: int| 0 <= k < constraints@.len() ==> exp_fin((#[trigger] constraints@[k]).1),
    ensures
        lz_inv(*final(linearizer_context)), lz_ext(*old(linearizer_context), *final(linearizer_context)),
        res matches Ok(lc) ==> lc_fin(lc) && forall|env: Env| #[trigger] lz_ok(*final(linearizer_context), env) ==> {
            &&& lc_eval(lc, env) == env[var_name@]
            &&& (env[var_name@] == 0real || env[var_name@] == 1real)
            &&& forall|k: int| 0 <= k < constraints@.len() ==> (sem((#[trigger] constraints@[k]).1, env) matches Some(v) ==> cmp_sem(constraints@[k].0, env[var_name@], v))
        },
@fn reify_logic_variable @entry
    let ghost c0 = *linearizer_context;
    let ghost cs = constraints;
@fn reify_logic_variable @loop 1
    invariant
        vx_v2@ == cs@, vx_n2 == cs@.len(), c0 == *old(linearizer_context), lz_inv(*linearizer_context), lz_ext(c0, *linearizer_context),
        forall|k: int| 0 <= k < cs@.len() ==> exp_fin((#[trigger] cs@[k]).1),
        forall|k: int, env: Env| 0 <= k < vx_i2 && #[trigger] lz_ok(*linearizer_context, env) ==>
            (sem((#[trigger] cs@[k]).1, env) matches Some(v) ==> cmp_sem(cs@[k].0, env[var_name@], v)),
@fn reify_logic_variable @loop 1 @start
    let ghost c1 = *linearizer_context;
@fn reify_logic_variable @after "let vx_a3"
    proof { lemma_exp_fin(vx_a3.lhs); }
@fn reify_logic_variable @loop 1 @end
    proof {
        assert forall|k: int, env: Env| 0 <= k < vx_i2 + 1 && #[trigger] lz_ok(*linearizer_context, env) implies
            (sem((#[trigger] cs@[k]).1, env) matches Some(v) ==> cmp_sem(cs@[k].0, env[var_name@], v)) by {
            if k < vx_i2 { lemma_lz_ext_mono(c1, *linearizer_context, env); }
        }
    }
@fn reify_logic_variable @after "let vx_a1"
    let ghost c2 = *linearizer_context;
@fn reify_logic_variable @tail 1
    proof {
        let cf = *linearizer_context;
        reveal(rmul_s);
        assert forall|env: Env| #[trigger] lz_ok(cf, env) implies (forall|k: int| 0 <= k < cs@.len() ==> (sem((#[trigger] cs@[k]).1, env) matches Some(v) ==> cmp_sem(cs@[k].0, env[var_name@], v))) by {
            lemma_lz_ext_mono(c2, cf, env);
        }
    }
