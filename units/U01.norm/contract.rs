//@ C01 — comparisons between a logic value and a constant.
@fn comparison_holds -> r
    ensures fv(lhs) is Fin && fv(rhs) is Fin && r ==> cmp_sem(comparison, rv(lhs), rv(rhs)),
@fn reversed_comparison -> r
    ensures forall|a: real, b: real| #[trigger] cmp_sem(r, a, b) == cmp_sem(comparison, b, a),
@fn is_logic_value @attr
#[verifier::exec_allows_no_decreases_clause]
@fn is_logic_value -> r
    requires lz_inv(*linearizer_context),
    ensures r ==> forall|env: Env| #[trigger] dom_ok(linearizer_context.domain, env) ==> (sem(*exp, env) matches Some(v) ==> (v == 0real || v == 1real)),
@fn try_normalize_logic_constraint -> r
    requires lz_inv(*linearizer_context), exp_fin(*lhs), exp_fin(*rhs),
    ensures
        r matches Some(NormalizedLogicConstraint::Tautology) ==> forall|env: Env| (#[trigger] dom_ok(linearizer_context.domain, env) && sem(*lhs, env) is Some && sem(*rhs, env) is Some) ==> cmp_sem(comparison, sem(*lhs, env)->Some_0, sem(*rhs, env)->Some_0),
        r matches Some(NormalizedLogicConstraint::Assertion { exp, requirement }) ==> exp_fin(exp) && forall|env: Env| (#[trigger] dom_ok(linearizer_context.domain, env) && sem(*lhs, env) is Some && sem(*rhs, env) is Some) ==>
            sem(exp, env) is Some && (truthy(sem(exp, env)->Some_0) == (requirement is MustBeTrue) ==> cmp_sem(comparison, sem(*lhs, env)->Some_0, sem(*rhs, env)->Some_0)),
@fn is_logic_value @entry
    proof { reveal(lz_inv); }
@fn is_logic_value @tail *
    proof {
        if r__ {
            assert forall|env: Env| #[trigger] dom_ok(linearizer_context.domain, env) implies (sem(*exp, env) matches Some(v) ==> (v == 0real || v == 1real)) by {
                if exp is Variable { assert(linearizer_context.domain.has(exp->Variable_0@)); assert(in_domain(linearizer_context.domain.map()[exp->Variable_0@].as_type, env[exp->Variable_0@])); }
                if exp is And { lemma_all_01(exp->And_0@, env, true, exp->And_0@.len() as int); }
                if exp is Or { lemma_all_01(exp->Or_0@, env, false, exp->Or_0@.len() as int); }
                if exp is Not { lemma_sem_not(exp->Not_0, env); }
                if exp is Xor { lemma_sem_xor(exp->Xor_0, exp->Xor_1, env); }
                if exp is Implies { lemma_sem_implies(exp->Implies_0, exp->Implies_1, env); }
                if exp is Iff { lemma_sem_iff(exp->Iff_0, exp->Iff_1, env); }
                if exp is BinOp { lemma_sem_binop(exp->BinOp_0, exp->BinOp_1, exp->BinOp_2, env); }
                if exp is UnOp { lemma_sem_unop(exp->UnOp_0, exp->UnOp_1, env); }
            }
        }
    }
