//@ C13/C04 — "the same objective value (after the recorded sign flip and offset)".  The tableau minimises
//@ z = c.x - current_value, so at the optimal basic solution z = -current_value (C14).  A max problem was
//@ negated, so the user's optimum is -z; the offset lives in the user's frame and is never negated.
@fn Tableau::current_value -> r
    ensures r == self.current_value,
@fn Tableau::value_offset -> r
    ensures r == self.value_offset,
@fn Tableau::flip_result -> r
    ensures r == self.flip_result,
@fn OptimalTableau::new -> r
    ensures r.values == values, r.tableau == tableau, r.flip_result == tableau.flip_result,
@fn OptimalTableau::optimal_value -> r
    requires finite(self.tableau.current_value), finite(self.tableau.value_offset),
    ensures
        finite(r),
        rv(r) == (if self.flip_result { rv(self.tableau.current_value) } else { -rv(self.tableau.current_value) }) + rv(self.tableau.value_offset),
