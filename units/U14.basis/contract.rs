//@ C05 / C14 — the direct start: the basis vector handed to Tableau::new.
@fn basis_columns -> r
    ensures r@.len() == selected_vars@.len(),
        forall|k: int| 0 <= k < r@.len() ==> #[trigger] r@[k] == selected_vars@[k].column,
@fn basis_columns @loop 1
    invariant vx_n1 == selected_vars@.len(), vx_out1@.len() == vx_i1,
        forall|k: int| 0 <= k < vx_i1 ==> #[trigger] vx_out1@[k] == selected_vars@[k].column,
@raw
// entry (i, col) differs from zero beyond the tolerance (same text as in U14.pick)
pub open spec fn nz(model: StandardLinearModel, i: int, col: int) -> bool { !t_eq(rv(model.constraints@[i].coefficients@[col]), 0real, EPS()) }
pub open spec fn pick_ok(model: StandardLinearModel, v: IndependentVariable) -> bool {
    &&& v.row < model.constraints@.len() && v.column < model.variables@.len()
    &&& v.value == model.constraints@[v.row as int].coefficients@[v.column as int]
    &&& fv(v.value) is Fin && t_gt(rv(v.value), 0real, EPS())
    &&& forall|i: int| 0 <= i < model.constraints@.len() && i != v.row ==> !nz(model, i, v.column as int)
}
// Composition of the postconditions of U14.pick (every candidate is pick_ok), U14.rows (a selected entry is one of the candidates;
// with as many entries as rows, entry k sits in row k) and basis_columns: the basic column of row k has its only entry beyond the
// tolerance in row k, positive -- and no column is basic for two rows.
pub proof fn lemma_basis_of_rows(model: StandardLinearModel, sel: Seq<IndependentVariable>, basis: Seq<usize>)
    requires sel.len() == model.constraints@.len(), basis.len() == sel.len(),
        forall|k: int| 0 <= k < sel.len() ==> pick_ok(model, #[trigger] sel[k]) && sel[k].row == k,
        forall|k: int| 0 <= k < basis.len() ==> #[trigger] basis[k] == sel[k].column,
    ensures
        forall|k: int| 0 <= k < basis.len() ==> (#[trigger] basis[k]) < model.variables@.len()
            && t_gt(rv(model.constraints@[k].coefficients@[basis[k] as int]), 0real, EPS())
            && forall|i: int| 0 <= i < model.constraints@.len() && i != k ==> !nz(model, i, basis[k] as int),
        forall|k: int, l: int| 0 <= k < l < basis.len() ==> basis[k] != basis[l],
{
    assert forall|k: int| 0 <= k < basis.len() implies (#[trigger] basis[k]) < model.variables@.len()
            && t_gt(rv(model.constraints@[k].coefficients@[basis[k] as int]), 0real, EPS())
            && forall|i: int| 0 <= i < model.constraints@.len() && i != k ==> !nz(model, i, basis[k] as int) by {
        assert(pick_ok(model, sel[k]));
    }
    assert forall|k: int, l: int| 0 <= k < l < basis.len() implies basis[k] != basis[l] by {
        assert(pick_ok(model, sel[k])); assert(pick_ok(model, sel[l]));
        if basis[k] == basis[l] {
            // column c is a singleton of row k, so its entry in row l is (tolerantly) zero; yet it is positive beyond the tolerance there
            assert(!nz(model, l, sel[k].column as int));
            assert(t_gt(rv(model.constraints@[l].coefficients@[sel[l].column as int]), 0real, EPS()));
            lemma_tgt_not_teq(rv(model.constraints@[l].coefficients@[sel[l].column as int]));
        }
    }
}
pub proof fn lemma_tgt_not_teq(x: real)
    requires t_gt(x, 0real, EPS()),
    ensures !t_eq(x, 0real, EPS()),
{ }
