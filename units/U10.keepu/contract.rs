//@ C10 — "a division by zero or by a non-constant is never rewritten away".
@fn Exp::to_box -> r
    ensures *r == self,
@fn num_truthy @assumed -> r
    ensures true,
@fn logic_number @assumed -> r
    ensures true,
@fn simplify_logic_nary @assumed -> r
    ensures true,
@fn Exp::simplify @attr
#[verifier::exec_allows_no_decreases_clause]
@fn Exp::simplify -> r
    ensures
        arith(*self) ==> arith(r),
        exp_fin(*self) ==> exp_fin(r),
        // wherever the original is undefined (a division by zero), so is the result: the division has not been rewritten away
        arith(*self) && exp_fin(*self) ==> forall|env: Env| sem(*self, env) is None ==> #[trigger] sem(r, env) is None,
        // (value preservation, proved with the same text in U10.simp: needed here as induction hypothesis for constant divisors)
        forall|env: Env| sem(*self, env) is Some ==> #[trigger] sem(r, env) == sem(*self, env),
@fn Exp::simplify @keep-arms
    Exp::UnOp / UnOp::Neg
    Exp::Abs
@fn Exp::simplify @entry
    proof { lemma_bad_div(*self); lemma_exp_fin(*self); lemma_simp_arith(); }
@fn Exp::simplify @after "let exp = exp.simplify();" #1
    let ghost i1 = exp;
    let ghost i0 = *self->UnOp_1;
    proof { lemma_exp_fin(i1);
        assert forall|env: Env| true implies (#[trigger] sem(*self, env) is Some ==> sem(i0, env) is Some && sem(i1, env) == sem(i0, env))
            && (arith(*self) && exp_fin(*self) && sem(*self, env) is None ==> sem(i1, env) is None) by { assert(sem(*self, env) is None ==> sem(i0, env) is None); } }
@fn Exp::simplify @tail 2-3
    proof { lemma_exp_fin(r__); lemma_exp_fin(*r__->UnOp_1);
        assert(arith(*self) ==> arith(r__));
        assert(arith(*self) && exp_fin(*self) ==> forall|env: Env| sem(*self, env) is None ==> #[trigger] sem(r__, env) is None);
        assert forall|env: Env| sem(*self, env) is Some implies #[trigger] sem(r__, env) == sem(*self, env) by { assert(sem(i0, env) is Some); assert(sem(i1, env) == sem(i0, env)); }
    }
@fn Exp::simplify @after "let exp = exp.simplify();" #2
    let ghost j1 = exp;
    let ghost j0 = *self->Abs_0;
    proof { lemma_exp_fin(j1);
        assert forall|env: Env| true implies (#[trigger] sem(*self, env) is Some ==> sem(j0, env) is Some && sem(j1, env) == sem(j0, env))
            && (arith(*self) && exp_fin(*self) && sem(*self, env) is None ==> sem(j1, env) is None) by { assert(sem(*self, env) is None ==> sem(j0, env) is None); } }
@fn Exp::simplify @tail 5-6
    proof { lemma_exp_fin(r__); lemma_exp_fin(*r__->Abs_0);
        assert(arith(*self) ==> arith(r__));
        assert(arith(*self) && exp_fin(*self) ==> forall|env: Env| sem(*self, env) is None ==> #[trigger] sem(r__, env) is None);
        assert forall|env: Env| sem(*self, env) is Some implies #[trigger] sem(r__, env) == sem(*self, env) by { assert(sem(j0, env) is Some); assert(sem(j1, env) == sem(j0, env)); }
    }
@raw
// real-arithmetic identities behind the folding rules (0 + x, x * 1, x * 0, x / 1): pure facts about the opaque product / quotient
pub proof fn lemma_simp_arith()
    ensures
        forall|x: real| #[trigger] rmul_s(0real, x) == 0real,
        forall|x: real| #[trigger] rmul_s(x, 0real) == 0real,
        forall|x: real| #[trigger] rmul_s(1real, x) == x,
        forall|x: real| #[trigger] rmul_s(x, 1real) == x,
        forall|x: real| #[trigger] rdiv_s(x, 1real) == x,
{
    reveal(rmul_s); reveal(rdiv_s);
    assert forall|x: real| #[trigger] rmul_s(0real, x) == 0real by { assert(0real * x == 0real) by (nonlinear_arith); }
    assert forall|x: real| #[trigger] rmul_s(x, 0real) == 0real by { assert(x * 0real == 0real) by (nonlinear_arith); }
    assert forall|x: real| #[trigger] rmul_s(1real, x) == x by { assert(1real * x == x) by (nonlinear_arith); }
    assert forall|x: real| #[trigger] rmul_s(x, 1real) == x by { assert(x * 1real == x) by (nonlinear_arith); }
    assert forall|x: real| #[trigger] rdiv_s(x, 1real) == x by { assert(x / 1real == x) by (nonlinear_arith); }
}
