    #[kani::proof]
    #[kani::unwind(7)]
    fn remove_many_len4() { remove_many_upto(4); }
    #[kani::proof]
    #[kani::unwind(5)]
    fn remove_many_len2() { remove_many_upto(2); }
    fn remove_many_upto(maxn: usize) {
        let n: usize = kani::any();
        kani::assume(n <= maxn);
        let mut v: Vec<u8> = Vec::new();
        let mut k = 0;
        while k < n { v.push(kani::any()); k += 1; }
        let orig = v.clone();
        let m: usize = kani::any();
        kani::assume(m <= 2);
        let i0: usize = kani::any();
        let i1: usize = kani::any();
        kani::assume(i0 < 6 && i1 < 6);
        let idx = [i0, i1];
        let listed = &idx[..m];
        kani::cover!(true);
        remove_many(&mut v, listed);
        // expected: elements of orig whose index is not listed, order kept
        let mut e = 0;      // position in the result
        let mut j = 0;
        while j < n {
            let is_listed = (m >= 1 && j == i0) || (m >= 2 && j == i1);
            if !is_listed {
                assert!(e < v.len());
                assert!(v[e] == orig[j]);
                e += 1;
            }
            j += 1;
        }
        assert!(v.len() == e);
    }
