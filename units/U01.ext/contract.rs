//@ C01/C02 — min / max lowering against the same general contract as every other arm of Exp::linearize.
@fn ValueRequirement::description @assumed -> r
    ensures true,
@fn variables_without_finite_bounds @assumed -> r
    ensures true,
//@ the sum of the listed expressions (rule R34b turns the cloned / next / fold chain into an index loop)
@fn sum_exps -> r
    ensures
        (forall|k: int| 0 <= k < exps@.len() ==> exp_fin(#[trigger] exps@[k])) ==> exp_fin(r),
        forall|env: Env| (forall|k: int| 0 <= k < exps@.len() ==> sem(#[trigger] exps@[k], env) is Some) ==> #[trigger] sem(r, env) == Some(ssum(exps@, env, exps@.len() as int)),
@fn sum_exps @after "let first"
    proof {
        lemma_exp_fin(first);
        assert forall|env: Env| (forall|k: int| 0 <= k < exps@.len() ==> sem(#[trigger] exps@[k], env) is Some) implies #[trigger] sem(first, env) == Some(ssum(exps@, env, 1)) by {
            reveal_with_fuel(ssum, 3);
            if vx_n1 > 0 { assert(sem(exps@[0], env) is Some); }
        }
    }
@fn sum_exps @loop 1
    invariant
        vx_n1 == exps@.len(),
        ((forall|k: int| 0 <= k < exps@.len() ==> exp_fin(#[trigger] exps@[k])) ==> exp_fin(vx_acc1)),
        (forall|env: Env| (forall|k: int| 0 <= k < exps@.len() ==> sem(#[trigger] exps@[k], env) is Some) ==> #[trigger] sem(vx_acc1, env) == Some(ssum(exps@, env, vx_i1 as int))),
@fn sum_exps @loop 1 @start
    let ghost acc0 = vx_acc1;
@fn sum_exps @loop 1 @end
    proof {
        lemma_exp_fin(vx_acc1);
        assert forall|env: Env| (forall|k: int| 0 <= k < exps@.len() ==> sem(#[trigger] exps@[k], env) is Some) implies #[trigger] sem(vx_acc1, env) == Some(ssum(exps@, env, vx_i1 + 1)) by {
            lemma_sem_binop(BinOp::Add, vx_acc1->BinOp_1, vx_acc1->BinOp_2, env);
            assert(sem(acc0, env) == Some(ssum(exps@, env, vx_i1 as int)));
            assert(sem(exps@[vx_i1 as int], env) is Some);
        }
    }
@fn linearize_extreme @attr
#[verifier::exec_allows_no_decreases_clause]
@fn linearize_extreme -> res
    requires lz_inv(*old(linearizer_context)), forall|i: int| 0 <= i < exps@.len() ==> exp_fin(#[trigger] exps@[i]),
    ensures
        lz_inv(*final(linearizer_context)),
        lz_ext(*old(linearizer_context), *final(linearizer_context)),
        res matches Ok(lc) ==> lc_fin(lc),
        res matches Ok(lc) ==> forall|env: Env| #[trigger] lz_ok(*final(linearizer_context), env) ==>
            (ext_val(exps@, env, kind is Min) matches Some(tv) ==> relaxes(requirement, lc_eval(lc, env), tv)),
@fn linearize_extreme @entry
    let ghost c0 = *linearizer_context;
    let ghost is_min = kind is Min;
    let ghost es = exps@;
    proof { lemma_lz_box(c0); reveal(ob_ok); reveal(ri_ok); assert(ob_ok(Seq::<Bounds>::empty(), es, c0.bounds, 0)); assert(ri_ok(is_min, Seq::<Bounds>::empty(), Seq::<usize>::empty(), es.len() as int, 0)); }
// ---- operand ranges
@fn linearize_extreme @loop 1 @start
    let ghost out0 = vx_out4@;
@fn linearize_extreme @loop 1 @end
    proof {
        reveal(ob_ok);
        assert(vx_out4@ == out0.push(vx_out4@[vx_i4 as int]));
        assert forall|j: int| 0 <= j < vx_i4 + 1 implies wf(#[trigger] vx_out4@[j]) && encl(vx_out4@[j], es[j], c0.bounds) by { if j < vx_i4 { assert(vx_out4@[j] == out0[j]); } }
    }
@fn linearize_extreme @loop 1
    invariant
        vx_n4 == es.len(), vx_out4@.len() == vx_i4, *linearizer_context == c0, box_wf(c0.bounds), es == exps@,
        forall|i: int| 0 <= i < es.len() ==> exp_fin(#[trigger] es[i]),
        ob_ok(vx_out4@, es, c0.bounds, vx_i4 as int),
// ---- pruning of dominated operands
@fn linearize_extreme @loop 2
    invariant
        es == exps@, es.len() > 0, vx_n5 == es.len(), operand_bounds@.len() == es.len(), *linearizer_context == c0,
        ri_ok(is_min, operand_bounds@, retained_indices@, es.len() as int, index as int),
        is_min == (kind is Min),
@fn linearize_extreme @loop 3
    invariant
        es == exps@, vx_n6 == es.len(), vx_i6 <= vx_n6, index < es.len(), operand_bounds@.len() == es.len(), is_min == (kind is Min),
        !dominated ==> forall|j: int| 0 <= j < vx_i6 ==> !#[trigger] dominates(is_min, operand_bounds@, j, index as int),
        dominated ==> exists|j: int| 0 <= j < es.len() && #[trigger] dominates(is_min, operand_bounds@, j, index as int),
    ensures
        !dominated ==> forall|j: int| 0 <= j < es.len() ==> !#[trigger] dominates(is_min, operand_bounds@, j, index as int),
        dominated ==> has_dom(is_min, operand_bounds@, es.len() as int, index as int),
@fn linearize_extreme @before "dominated = true;"
    proof { assert(dominates(is_min, operand_bounds@, other_index as int, index as int)); }
@fn linearize_extreme @loop 2 @start
    let ghost ri0 = retained_indices@;
@fn linearize_extreme @loop 2 @end
    proof {
        reveal(ri_ok);
        let ob = operand_bounds@; let ri = retained_indices@; let n = es.len() as int;
        if dominated {
            assert(ri == ri0);
            assert(has_dom(is_min, ob, n, index as int));
            assert forall|i: int| 0 <= i < index + 1 implies #[trigger] kept(ri, i) || has_dom(is_min, ob, n, i) by {
                if i < index { assert(kept(ri0, i) || has_dom(is_min, ob, n, i)); }
            }
        } else {
            assert(ri == ri0.push(index));
            assert forall|k: int, j: int| 0 <= k < ri.len() && 0 <= j < n implies !#[trigger] dominates(is_min, ob, j, ri[k] as int) by {
                if k < ri0.len() { assert(ri[k] == ri0[k]); }
            }
            assert forall|i: int| 0 <= i < index + 1 implies #[trigger] kept(ri, i) || has_dom(is_min, ob, n, i) by {
                if i == index { assert(ri[ri0.len() as int] as int == index); }
                else { if kept(ri0, i) { let k = choose|k: int| 0 <= k < ri0.len() && #[trigger] ri0[k] as int == i; assert(ri[k] as int == i); } }
            }
        }
    }
// ---- the retained operands and their ranges
@fn linearize_extreme @loop 4 @start
    proof { reveal(ri_ok); assert((retained_indices@[vx_i7 as int] as int) < es.len()); }
@fn linearize_extreme @loop 5 @start
    proof { reveal(ri_ok); assert((retained_indices@[vx_i8 as int] as int) < es.len()); }
@fn linearize_extreme @loop 4
    invariant
        vx_n7 == retained_indices@.len(), vx_out7@.len() == vx_i7, es == exps@, operand_bounds@.len() == es.len(),
        ri_ok(is_min, operand_bounds@, retained_indices@, es.len() as int, es.len() as int),
        forall|k: int| 0 <= k < vx_i7 ==> #[trigger] vx_out7@[k] == es[retained_indices@[k] as int],
@fn linearize_extreme @loop 5
    invariant
        vx_n8 == retained_indices@.len(), vx_out8@.len() == vx_i8, es == exps@, operand_bounds@.len() == es.len(),
        ri_ok(is_min, operand_bounds@, retained_indices@, es.len() as int, es.len() as int),
        forall|k: int| 0 <= k < vx_i8 ==> #[trigger] vx_out8@[k] == operand_bounds@[retained_indices@[k] as int],
@fn linearize_extreme @after "let extreme_exp"
    let ghost ri = retained_indices@;
    let ghost ob = operand_bounds@;
    let ghost res_ = retained_exps@;
    proof {
        reveal(ri_ok);
        assert(res_ =~= pick(es, ri));
        assert(retained_bounds@ =~= pickb(ob, ri));
        assert forall|k: int| 0 <= k < res_.len() implies exp_fin(#[trigger] res_[k]) by { assert(res_[k] == es[ri[k] as int]); }
        // (the cloned vector has the same elements: Exp::clone returns an equal value)
        let cl = if is_min { extreme_exp->Min_0@ } else { extreme_exp->Max_0@ };
        assert(is_min ==> extreme_exp is Min); assert(!is_min ==> extreme_exp is Max);
        assert(cl.len() == res_.len());
        assert forall|k: int| 0 <= k < cl.len() implies #[trigger] cl[k] == res_[k] by { }
        assert(cl =~= res_);
        lemma_exp_fin_list_intro(extreme_exp);
    }
// ---- the finiteness guard of the exact lowering
@fn linearize_extreme @loop 6
    invariant
        vx_n9 == retained_bounds@.len(), vx_all9 ==> forall|j: int| 0 <= j < vx_i9 ==> fv(#[trigger] retained_bounds@[j].lower) is Fin,
    ensures
        vx_all9 ==> forall|j: int| 0 <= j < retained_bounds@.len() ==> fv(#[trigger] retained_bounds@[j].lower) is Fin,
@fn linearize_extreme @loop 7
    invariant
        vx_n10 == retained_bounds@.len(), vx_all10 ==> forall|j: int| 0 <= j < vx_i10 ==> fv(#[trigger] retained_bounds@[j].upper) is Fin,
    ensures
        vx_all10 ==> forall|j: int| 0 <= j < retained_bounds@.len() ==> fv(#[trigger] retained_bounds@[j].upper) is Fin,
@fn linearize_extreme @before "let extreme_id"
    let ghost rb = retained_bounds@;
    let ghost eb = extreme_bounds;
    proof {
        assert(*linearizer_context == c0);
        assert(wf(eb));
        assert(!one_sided && !is_min ==> fv(eb.upper) is Fin && forall|j: int| 0 <= j < rb.len() ==> fv(#[trigger] rb[j].lower) is Fin);
        assert(!one_sided && is_min ==> fv(eb.lower) is Fin && forall|j: int| 0 <= j < rb.len() ==> fv(#[trigger] rb[j].upper) is Fin);
    }
@fn linearize_extreme @after "let extreme_id"
    let ghost c1 = *linearizer_context;
    proof { lemma_lz_same(c0, c1); }
@fn linearize_extreme @after "linearizer_context.declare_variable(vx_a1"
    let ghost c2 = *linearizer_context;
    let ghost t = var_name@;
    proof { lemma_lz_ext_trans(c0, c1, c2); }
// ---- the operands are lowered with the operand requirement
@fn linearize_extreme @before "let mut operands"
    proof { reveal(ops_ok); assert(ops_ok(Seq::<Exp>::empty(), res_, operand_requirement, c2, 0)); }
@fn linearize_extreme @loop 8
    invariant
        c0 == *old(linearizer_context), vx_n11 == res_.len(), vx_v11@ == res_, operands@.len() == vx_i11, lz_inv(*linearizer_context), lz_ext(c0, *linearizer_context), lz_ext(c2, *linearizer_context),
        forall|k: int| 0 <= k < res_.len() ==> exp_fin(#[trigger] res_[k]),
        ops_ok(operands@, res_, operand_requirement, *linearizer_context, vx_i11 as int),
@fn linearize_extreme @loop 8 @start
    let ghost cp = *linearizer_context;
    let ghost ops0 = operands@;
@fn linearize_extreme @loop 8 @end
    proof {
        reveal(ops_ok);
        let cn = *linearizer_context;
        lemma_ops_ok_mono(ops0, res_, operand_requirement, cp, cn, vx_i11 as int);
        assert(operands@ == ops0.push(operands@[vx_i11 as int]));
        assert forall|k: int| 0 <= k < vx_i11 + 1 implies exp_fin(#[trigger] operands@[k]) && op_rel(operands@[k], res_[k], operand_requirement, cn) by {
            if k < vx_i11 { assert(operands@[k] == ops0[k]); }
            else {
                assert forall|env: Env| #[trigger] lz_ok(cn, env) implies sem(operands@[k], env) is Some && (sem(res_[k], env) matches Some(tv) ==> relaxes(operand_requirement, sem(operands@[k], env)->Some_0, tv)) by { }
            }
        }
    }
// ---- single retained operand: it is the extreme
@fn linearize_extreme @before "return exps[retained_indices[0]]"
    let ghost ri1 = retained_indices@;
    let ghost ob1 = operand_bounds@;
// ---- one-sided rows
@fn linearize_extreme @before "if one_sided"
    let ghost c3 = *linearizer_context;
    let ghost ops = operands@;
    proof { assert(ops.len() == res_.len()); reveal(one_rows); assert(one_rows(ops, t, is_min, c3, 0)); }
@fn linearize_extreme @loop 9
    invariant
        vx_n12 == ops.len(), vx_v12@ == ops, lz_inv(*linearizer_context), lz_ext(c0, *linearizer_context), lz_ext(c3, *linearizer_context), t == var_name@,
        ops_ok(ops, res_, operand_requirement, c3, ops.len() as int), is_min == (kind is Min),
        one_rows(ops, t, is_min, *linearizer_context, vx_i12 as int),
@fn linearize_extreme @loop 9 @start
    let ghost cp = *linearizer_context;
@fn linearize_extreme @loop 9 @end
    proof {
        reveal(ops_ok); reveal(one_rows);
        let cn = *linearizer_context;
        lemma_one_rows_mono(ops, t, is_min, cp, cn, vx_i12 as int);
        assert forall|k: int, env: Env| 0 <= k < vx_i12 + 1 && #[trigger] lz_ok(cn, env) implies (sem(#[trigger] ops[k], env) matches Some(v) && (if is_min { env[t] <= v } else { env[t] >= v })) by {
            if k == vx_i12 {
                assert(lz_ok(cp, env) && c_holds_w(vx_a13, env));
                lemma_lz_ext_mono(c3, cp, env);
                assert(op_rel(ops[k], res_[k], operand_requirement, c3));
            }
        }
    }
@fn linearize_extreme @before "linearizer_context.add_constraint(vx_a13)"
    proof { reveal(ops_ok); assert(exp_fin(ops[vx_i12 as int])); assert(operand == ops[vx_i12 as int]); lemma_exp_fin(vx_a13.lhs); }
// ---- exact lowering: one Boolean selector per operand
@fn linearize_extreme @before "let mut selectors"
    proof { reveal(sel_ok); assert(sel_ok(Seq::<Exp>::empty(), c3, 0)); }
@fn linearize_extreme @loop 10
    invariant
        c0 == *old(linearizer_context), operands@ == ops, selectors@.len() == index, lz_inv(*linearizer_context), lz_ext(c0, *linearizer_context), lz_ext(c3, *linearizer_context),
        sel_ok(selectors@, *linearizer_context, index as int),
@fn linearize_extreme @loop 10 @start
    let ghost cp = *linearizer_context;
    let ghost sel0 = selectors@;
@fn linearize_extreme @loop 10 @end
    proof {
        reveal(sel_ok);
        let cn = *linearizer_context;
        lemma_sel_ok_mono(sel0, cp, cn, index as int);
        assert(selectors@ == sel0.push(selectors@[index as int]));
        assert forall|k: int| 0 <= k < index + 1 implies (#[trigger] selectors@[k]) is Variable && cn.domain.has(selectors@[k]->Variable_0@) && cn.domain.map()[selectors@[k]->Variable_0@].as_type is Boolean by {
            if k < index { assert(selectors@[k] == sel0[k]); }
        }
    }
// ---- exact lowering: t on the right side of every operand, and within big-M * (1 - selector) of it
@fn linearize_extreme @before "{ let vx_n16"
    let ghost c4 = *linearizer_context;
    let ghost sels = selectors@;
    proof { assert(sels.len() == ops.len()); assert(rb.len() == ops.len()); reveal(ex_rows); assert(ex_rows(ops, sels, rb, eb, t, is_min, c4, 0)); }
@fn linearize_extreme @loop 11
    invariant
        vx_n16 == ops.len(), operands@ == ops, selectors@ == sels, retained_bounds@ == rb, extreme_bounds == eb, t == var_name@, is_min == (kind is Min), !one_sided,
        sels.len() == ops.len(), rb.len() == ops.len(),
        lz_inv(*linearizer_context), lz_ext(c0, *linearizer_context), lz_ext(c3, *linearizer_context), lz_ext(c4, *linearizer_context),
        ops_ok(ops, res_, operand_requirement, c3, ops.len() as int), sel_ok(sels, c4, ops.len() as int),
        !is_min ==> fv(eb.upper) is Fin && forall|j: int| 0 <= j < rb.len() ==> fv(#[trigger] rb[j].lower) is Fin,
        is_min ==> fv(eb.lower) is Fin && forall|j: int| 0 <= j < rb.len() ==> fv(#[trigger] rb[j].upper) is Fin,
        ex_rows(ops, sels, rb, eb, t, is_min, *linearizer_context, vx_i16 as int),
@fn linearize_extreme @loop 11 @start
    let ghost cp = *linearizer_context;
    let ghost k0 = vx_i16 as int;
    proof {
        reveal(ops_ok); reveal(sel_ok);
        assert(exp_fin(ops[k0]));
        assert(sels[k0] is Variable);
        lemma_exp_fin(sels[k0]);
        ax_sub(eb.upper, rb[k0].lower); ax_sub(rb[k0].upper, eb.lower);
    }
@fn linearize_extreme @before "linearizer_context.add_constraint(vx_a17)"
    proof { lemma_exp_fin(vx_a17.lhs); assert(vx_a17.rhs == ops[k0]); }
@fn linearize_extreme @before "linearizer_context.add_constraint(vx_a18)"
    let ghost cq = *linearizer_context;
    proof {
        let r = vx_a18.rhs;
        lemma_exp_fin(vx_a18.lhs); lemma_exp_fin(r); lemma_exp_fin(*r->BinOp_2); lemma_exp_fin(*(*r->BinOp_2)->BinOp_1); lemma_exp_fin(*(*r->BinOp_2)->BinOp_2);
        lemma_exp_fin(*(*(*r->BinOp_2)->BinOp_2)->BinOp_1); lemma_exp_fin(*(*(*r->BinOp_2)->BinOp_2)->BinOp_2);
        assert(*r->BinOp_1 == ops[k0]);
        assert(c_fin(vx_a18));
    }
@fn linearize_extreme @before "linearizer_context.add_constraint(vx_a19)"
    proof { lemma_exp_fin(vx_a19.lhs); assert(vx_a19.rhs == ops[k0]); }
@fn linearize_extreme @before "linearizer_context.add_constraint(vx_a20)"
    let ghost cq = *linearizer_context;
    proof {
        let r = vx_a20.rhs;
        lemma_exp_fin(vx_a20.lhs); lemma_exp_fin(r); lemma_exp_fin(*r->BinOp_2); lemma_exp_fin(*(*r->BinOp_2)->BinOp_1); lemma_exp_fin(*(*r->BinOp_2)->BinOp_2);
        lemma_exp_fin(*(*(*r->BinOp_2)->BinOp_2)->BinOp_1); lemma_exp_fin(*(*(*r->BinOp_2)->BinOp_2)->BinOp_2);
        assert(*r->BinOp_1 == ops[k0]);
        assert(c_fin(vx_a20));
    }
@fn linearize_extreme @after "linearizer_context.add_constraint(vx_a18)"
    proof {
        let cn = *linearizer_context;
        assert forall|env: Env| #[trigger] lz_ok(cn, env) implies (sem(ops[k0], env) matches Some(v) && ({
            let slack = rmul_s(big_m(rb, eb, is_min, k0), 1real - env[sels[k0]->Variable_0@]);
            if is_min { env[t] <= v && env[t] >= v - slack } else { env[t] >= v && env[t] <= v + slack } })) by {
            assert(lz_ok(cq, env) && c_holds_w(vx_a18, env));
            assert(lz_ok(cp, env) && c_holds_w(vx_a17, env));
            lemma_lz_ext_mono(c3, cp, env);
            assert(op_rel(ops[k0], res_[k0], operand_requirement, c3)) by { reveal(ops_ok); }
            let r = vx_a18.rhs; let m = *r->BinOp_2; let sb = *m->BinOp_2;
            lemma_sem_binop(r->BinOp_0, r->BinOp_1, r->BinOp_2, env); lemma_sem_binop(BinOp::Mul, m->BinOp_1, m->BinOp_2, env); lemma_sem_binop(BinOp::Sub, sb->BinOp_1, sb->BinOp_2, env);
        }
    }
@fn linearize_extreme @after "linearizer_context.add_constraint(vx_a20)"
    proof {
        let cn = *linearizer_context;
        assert forall|env: Env| #[trigger] lz_ok(cn, env) implies (sem(ops[k0], env) matches Some(v) && ({
            let slack = rmul_s(big_m(rb, eb, is_min, k0), 1real - env[sels[k0]->Variable_0@]);
            if is_min { env[t] <= v && env[t] >= v - slack } else { env[t] >= v && env[t] <= v + slack } })) by {
            assert(lz_ok(cq, env) && c_holds_w(vx_a20, env));
            assert(lz_ok(cp, env) && c_holds_w(vx_a19, env));
            lemma_lz_ext_mono(c3, cp, env);
            assert(op_rel(ops[k0], res_[k0], operand_requirement, c3)) by { reveal(ops_ok); }
            let r = vx_a20.rhs; let m = *r->BinOp_2; let sb = *m->BinOp_2;
            lemma_sem_binop(r->BinOp_0, r->BinOp_1, r->BinOp_2, env); lemma_sem_binop(BinOp::Mul, m->BinOp_1, m->BinOp_2, env); lemma_sem_binop(BinOp::Sub, sb->BinOp_1, sb->BinOp_2, env);
        }
    }
@fn linearize_extreme @loop 11 @end
    proof {
        let cn = *linearizer_context;
        lemma_ex_rows_mono(ops, sels, rb, eb, t, is_min, cp, cn, k0);
        reveal(ex_rows);
        assert(ex_rows(ops, sels, rb, eb, t, is_min, cn, k0 + 1));
    }
// ---- exact lowering: exactly one selector is on
@fn linearize_extreme @before "linearizer_context.add_constraint(vx_a3)"
    let ghost c5 = *linearizer_context;
    proof {
        assert forall|k: int| 0 <= k < sels.len() implies exp_fin(#[trigger] sels[k]) by { reveal(sel_ok); lemma_exp_fin(sels[k]); }
        lemma_exp_fin(vx_a3.rhs);
        assert(c_fin(vx_a3));
    }
@fn linearize_extreme @return 3
    proof { lemma_conclude_single(is_min, es, ob1, ri1, c0, *linearizer_context); }
@fn linearize_extreme @return 5
    proof { lemma_mul_one(); lemma_conclude_one(is_min, es, ob, ri, res_, ops, operand_requirement, requirement, t, c0, c3, *linearizer_context); }
@fn linearize_extreme @tail 1
    proof {
        let cf = *linearizer_context;
        let n = ops.len() as int;
        lemma_mul_one();
        // the last row: the selectors sum to one
        assert forall|env: Env| #[trigger] lz_ok(cf, env) implies lz_ok(c5, env) && ssum(sels, env, n) == 1real by {
            assert(lz_ok(c5, env) && c_holds_w(vx_a3, env));
            assert forall|k: int| 0 <= k < n implies sem(#[trigger] sels[k], env) is Some by { reveal(sel_ok); }
            assert(sem(vx_a3.lhs, env) == Some(ssum(sels, env, n)));
        }
        lemma_conclude_exact(is_min, es, ob, ri, res_, ops, sels, rb, eb, operand_requirement, requirement, t, c0, c3, c4, c5, cf);
    }
@raw
pub proof fn lemma_mul_zero() ensures forall|x: real| #[trigger] rmul_s(x, 0real) == 0real
{ reveal(rmul_s); assert forall|x: real| #[trigger] rmul_s(x, 0real) == 0real by { assert(x * 0real == 0real) by (nonlinear_arith); } }
pub proof fn lemma_mul_one() ensures forall|x: real| #[trigger] rmul_s(1real, x) == x
{ reveal(rmul_s); assert forall|x: real| #[trigger] rmul_s(1real, x) == x by { assert(1real * x == x) by (nonlinear_arith); } }
// ---- conclusions (kept out of the function body: each is a small separate query)
pub proof fn lemma_conclude_single(is_min: bool, es: Seq<Exp>, ob: Seq<Bounds>, ri: Seq<usize>, c0: Linearizer, cf: Linearizer)
    requires ob.len() == es.len(), ob_ok(ob, es, c0.bounds, es.len() as int), ri_ok(is_min, ob, ri, es.len() as int, es.len() as int), ri.len() == 1, lz_ext(c0, cf),
    ensures forall|env: Env| #[trigger] lz_ok(cf, env) && ext_val(es, env, is_min) is Some ==> ext_val(es, env, is_min) == sem(es[ri[0] as int], env),
{
    assert forall|env: Env| #[trigger] lz_ok(cf, env) && ext_val(es, env, is_min) is Some implies ext_val(es, env, is_min) == sem(es[ri[0] as int], env) by {
        lemma_lz_ext_mono(c0, cf, env);
        lemma_lz_box(c0);
        lemma_prune(is_min, es, ob, ri, c0.bounds, env);
        assert(pick(es, ri).len() == 1);
    }
}
pub proof fn lemma_conclude_one(is_min: bool, es: Seq<Exp>, ob: Seq<Bounds>, ri: Seq<usize>, res_: Seq<Exp>, ops: Seq<Exp>, opreq: ValueRequirement, req: ValueRequirement,
                                t: Seq<char>, c0: Linearizer, c3: Linearizer, cf: Linearizer)
    requires ob.len() == es.len(), ob_ok(ob, es, c0.bounds, es.len() as int), ri_ok(is_min, ob, ri, es.len() as int, es.len() as int), res_ == pick(es, ri), ops.len() == res_.len(),
        ops_ok(ops, res_, opreq, c3, ops.len() as int), one_rows(ops, t, is_min, cf, ops.len() as int), lz_ext(c0, cf), lz_ext(c3, cf),
        is_min ==> opreq is PreferHigher && req is PreferHigher, !is_min ==> opreq is PreferLower && req is PreferLower,
    ensures forall|env: Env| #[trigger] lz_ok(cf, env) && ext_val(es, env, is_min) is Some ==> relaxes(req, env[t], ext_val(es, env, is_min)->Some_0),
{
    reveal(ops_ok); reveal(one_rows);
    assert forall|env: Env| #[trigger] lz_ok(cf, env) && ext_val(es, env, is_min) is Some implies relaxes(req, env[t], ext_val(es, env, is_min)->Some_0) by {
        lemma_lz_ext_mono(c0, cf, env); lemma_lz_ext_mono(c3, cf, env);
        lemma_lz_box(c0);
        lemma_prune(is_min, es, ob, ri, c0.bounds, env);
        // every retained operand: t is beyond its lowered value, which is beyond its true value
        assert forall|k: int| 0 <= k < res_.len() implies (sem(#[trigger] res_[k], env) matches Some(v) && (if is_min { env[t] <= v } else { env[t] >= v })) by {
            lemma_fold_member2(res_, env, is_min, res_.len() as int, k);
            assert(op_rel(ops[k], res_[k], opreq, c3));
            assert(sem(ops[k], env) is Some);
        }
        lemma_fold_bound(res_, env, is_min, res_.len() as int, env[t]);
    }
}
pub proof fn lemma_conclude_exact(is_min: bool, es: Seq<Exp>, ob: Seq<Bounds>, ri: Seq<usize>, res_: Seq<Exp>, ops: Seq<Exp>, sels: Seq<Exp>, rb: Seq<Bounds>, eb: Bounds,
                                  opreq: ValueRequirement, req: ValueRequirement, t: Seq<char>, c0: Linearizer, c3: Linearizer, c4: Linearizer, c5: Linearizer, cf: Linearizer)
    requires ob.len() == es.len(), ob_ok(ob, es, c0.bounds, es.len() as int), ri_ok(is_min, ob, ri, es.len() as int, es.len() as int), res_ == pick(es, ri),
        ops.len() == res_.len(), sels.len() == ops.len(), opreq is Exact,
        ops_ok(ops, res_, opreq, c3, ops.len() as int), sel_ok(sels, c4, ops.len() as int), ex_rows(ops, sels, rb, eb, t, is_min, c5, ops.len() as int),
        lz_ext(c0, c5), lz_ext(c3, c5), lz_ext(c4, c5),
        forall|env: Env| #[trigger] lz_ok(cf, env) ==> lz_ok(c5, env) && ssum(sels, env, ops.len() as int) == 1real,
    ensures forall|env: Env| #[trigger] lz_ok(cf, env) && ext_val(es, env, is_min) is Some ==> relaxes(req, env[t], ext_val(es, env, is_min)->Some_0),
{
    reveal(ops_ok); reveal(ex_rows);
    lemma_mul_zero();
    let n = ops.len() as int;
    assert forall|env: Env| #[trigger] lz_ok(cf, env) && ext_val(es, env, is_min) is Some implies relaxes(req, env[t], ext_val(es, env, is_min)->Some_0) by {
        assert(lz_ok(c5, env));
        lemma_lz_ext_mono(c0, c5, env); lemma_lz_ext_mono(c3, c5, env); lemma_lz_ext_mono(c4, c5, env);
        lemma_lz_box(c0);
        lemma_prune(is_min, es, ob, ri, c0.bounds, env);
        // selectors are 0/1 and sum to one: one of them is on
        if forall|k: int| 0 <= k < n ==> env[(#[trigger] sels[k])->Variable_0@] != 1real {
            assert forall|k: int| 0 <= k < n implies sem(#[trigger] sels[k], env) == Some(0real) by { lemma_sel_bool(sels, c4, n, env, k); }
            lemma_ssum_zero(sels, env, n);
        }
        let ks = choose|k: int| 0 <= k < n && env[(#[trigger] sels[k])->Variable_0@] == 1real;
        // every retained operand is defined; its lowered value is its true value
        assert forall|k: int| 0 <= k < n implies (sem(#[trigger] res_[k], env) matches Some(v) && sem(ops[k], env) == Some(v) && (if is_min { env[t] <= v } else { env[t] >= v })) by {
            lemma_fold_member2(res_, env, is_min, n, k);
            assert(op_rel(ops[k], res_[k], opreq, c3));
        }
        lemma_fold_bound(res_, env, is_min, n, env[t]);
        lemma_fold_member2(res_, env, is_min, n, ks);
        assert(sem(ops[ks], env) is Some);
    }
}
