//@ C14 — one pivot from ANY well-formed tableau (hence every prefix of every pivot sequence):
//@ (i) the equation system keeps exactly its solutions, (ii) the entering column becomes the unit
//@ column e_t and unit columns of other basic rows stay unit columns, (iii) the objective function
//@ c.x - value is unchanged on the solution set, (iv) basis bookkeeping and dimensions.
@fn Tableau::pivot -> res
    requires
        tab_wf(*old(self)),
        t < old(self).a.len(),
        h < old(self).c.len(),
        rv(old(self).a[t as int][h as int]) != 0real,
    ensures
        res is Ok,
        tab_wf(*final(self)),
        final(self).a.len() == old(self).a.len(),
        final(self).c.len() == old(self).c.len(),
        final(self).in_basis@ == old(self).in_basis@.update(t as int, h),
        final(self).flip_result == old(self).flip_result,
        final(self).value_offset == old(self).value_offset,
        final(self).variables == old(self).variables,
        forall|x: Seq<real>| x.len() == old(self).c.len() ==> (#[trigger] sat(final(self).a@, final(self).b@, x) <==> sat(old(self).a@, old(self).b@, x)),
        unit_col(final(self).a@, h as int, t as int),
        forall|j: int, r: int| 0 <= j < old(self).c.len() && 0 <= r < old(self).a.len() && r != t && #[trigger] unit_col(old(self).a@, j, r) ==> unit_col(final(self).a@, j, r),
        rv(final(self).c[h as int]) == 0real,
        forall|x: Seq<real>| x.len() == old(self).c.len() && #[trigger] sat(old(self).a@, old(self).b@, x) ==> obj(final(self).c@, final(self).current_value, x) == obj(old(self).c@, old(self).current_value, x),
        rv(final(self).current_value) == rv(old(self).current_value) - (rv(old(self).c[h as int]) / rv(old(self).a[t as int][h as int])) * rv(old(self).b[t as int]),
        rv(final(self).b[t as int]) == rv(old(self).b[t as int]) / rv(old(self).a[t as int][h as int]),
        forall|i: int| 0 <= i < old(self).a.len() && i != t ==> rv(#[trigger] final(self).b[i]) == rv(old(self).b[i]) - (rv(old(self).a[i][h as int]) / rv(old(self).a[t as int][h as int])) * rv(old(self).b[t as int]),
@fn Tableau::pivot @entry
    let ghost a0 = self.a@;
    let ghost b0 = self.b@;
    let ghost c0 = self.c@;
    let ghost v0 = self.current_value;
    let ghost n = self.c.len() as int;
    let ghost m = self.a.len() as int;
@fn Tableau::pivot @after "let pivot ="
    let ghost p = rv(pivot);
    let ghost rt = rvs(a0[t as int]@);
    assert(fin_seq(a0[t as int]@));
@fn Tableau::pivot @loop 1
    invariant
        vx_n1 == m, a.len() == m, b.len() == m, rect(a@, n), t < m, h < n, p == rv(pivot), p != 0real, fv(pivot) is Fin,
        a@[t as int] == a0[t as int], b@[t as int] == b0[t as int], rt == rvs(a0[t as int]@),
        a0.len() == m, b0.len() == m, rect(a0, n), fin_mat(a0), fin_seq(b0),
        forall|k: int| i <= k < m ==> #[trigger] a@[k] == a0[k],
        forall|k: int| i <= k < m ==> #[trigger] b@[k] == b0[k],
        forall|k: int| 0 <= k < i && k != t ==> row_upd(#[trigger] a@[k]@, b@[k], a0[k]@, b0[k], a0[t as int]@, b0[t as int], h as int, p, n),
@fn Tableau::pivot @after "let factor = a[i][h]"
    let ghost f = rv(a0[i as int][h as int]) / p;
    assert(a@[i as int] == a0[i as int]);
    assert(fin_seq(a0[i as int]@));
    assert(fin_seq(a0[t as int]@));
    assert(fv(factor) is Fin && rv(factor) == f);
@fn Tableau::pivot @loop 2
    invariant
        vx_n2 == n,
        a.len() == m, b.len() == m, rect(a@, n), t < m, h < n, i < m, i != t, fv(factor) is Fin, rv(factor) == f,
        a@[t as int] == a0[t as int], b@[t as int] == b0[t as int],
        a0.len() == m, b0.len() == m, rect(a0, n), fin_mat(a0), fin_seq(b0),
        b@[i as int] == b0[i as int],
        forall|k: int| i < k < m ==> #[trigger] a@[k] == a0[k],
        forall|k: int| i <= k < m ==> #[trigger] b@[k] == b0[k],
        forall|k: int| 0 <= k < i && k != t ==> row_upd(#[trigger] a@[k]@, b@[k], a0[k]@, b0[k], a0[t as int]@, b0[t as int], h as int, p, n),
        forall|jj: int| 0 <= jj < j ==> fv(#[trigger] a@[i as int][jj]) is Fin && rv(a@[i as int][jj]) == rv(a0[i as int][jj]) - f * rv(a0[t as int][jj]),
        forall|jj: int| j <= jj < n ==> a@[i as int][jj] == a0[i as int][jj],
@fn Tableau::pivot @loop 2 @start
    let ghost a_prev = a@;
    assert(fin_seq(a0[i as int]@));
    assert(fin_seq(a0[t as int]@));
@fn Tableau::pivot @loop 2 @end
    assert(forall|k: int| 0 <= k < m && k != i ==> #[trigger] a@[k] == a_prev[k]);
    assert(a@[i as int]@ == a_prev[i as int]@.update(j as int, a@[i as int]@[j as int]));
    assert(fv(a0[i as int]@[j as int]) is Fin);
    assert(fv(a0[t as int]@[j as int]) is Fin);
    assert(a_prev[i as int]@[j as int] == a0[i as int]@[j as int]);
    assert(a_prev[t as int]@[j as int] == a0[t as int]@[j as int]);
@fn Tableau::pivot @after "let factor = c[h]"
    let ghost fc = rv(c0[h as int]) / p;
    let ghost a1 = a@;
    let ghost b1 = b@;
    assert(fv(factor) is Fin && rv(factor) == fc);
    assert(fin_seq(a0[t as int]@));
@fn Tableau::pivot @loop 3
    invariant
        vx_n3 == n, c.len() == n, h < n, b.len() == m, a.len() == m, rect(a@, n), t < m, a@ == a1, b@ == b1,
        a1[t as int] == a0[t as int], fin_seq(a0[t as int]@), a0[t as int].len() == n, fv(factor) is Fin, rv(factor) == fc, c0.len() == n, fin_seq(c0),
        forall|jj: int| 0 <= jj < vx_i3 ==> fv(#[trigger] c@[jj]) is Fin && rv(c@[jj]) == rv(c0[jj]) - fc * rv(a0[t as int][jj]),
        forall|jj: int| vx_i3 <= jj < n ==> #[trigger] c@[jj] == c0[jj],
@fn Tableau::pivot @loop 4
    invariant
        vx_n4 == n, b.len() == m, in_basis.len() == m,
        a.len() == m, rect(a@, n), t < m, p == rv(pivot), p != 0real, fv(pivot) is Fin, a1.len() == m, rect(a1, n), fin_seq(a1[t as int]@),
        forall|k: int| 0 <= k < m && k != t ==> #[trigger] a@[k] == a1[k],
        forall|jj: int| 0 <= jj < i ==> fv(#[trigger] a@[t as int][jj]) is Fin && rv(a@[t as int][jj]) == rv(a1[t as int][jj]) / p,
        forall|jj: int| i <= jj < n ==> a@[t as int][jj] == a1[t as int][jj],
@fn Tableau::pivot @loop 4 @start
    let ghost a_prev = a@;
@fn Tableau::pivot @loop 4 @end
    assert(forall|k: int| 0 <= k < m && k != t ==> #[trigger] a@[k] == a_prev[k]);
    assert(a@[t as int]@ == a_prev[t as int]@.update(i as int, a@[t as int]@[i as int]));
    assert(fv(a1[t as int]@[i as int]) is Fin);
    assert(a_prev[t as int]@[i as int] == a1[t as int]@[i as int]);
@fn Tableau::pivot @tail 1
    proof {
        let a2 = a@; let b2 = b@; let c2 = c@;
        assert(fin_mat(a2)) by {
            assert forall|k: int| 0 <= k < m implies fin_seq((#[trigger] a2[k])@) by {
                if k != t { assert(a2[k] == a1[k]); assert(row_upd(a1[k]@, b1[k], a0[k]@, b0[k], a0[t as int]@, b0[t as int], h as int, p, n)); }
            }
        }
        assert(fin_seq(b2)) by {
            assert forall|k: int| 0 <= k < m implies fv(#[trigger] b2[k]) is Fin by {
                if k != t { assert(row_upd(a1[k]@, b1[k], a0[k]@, b0[k], a0[t as int]@, b0[t as int], h as int, p, n)); }
            }
        }
        lemma_pivot_post(a0, b0, c0, v0, a2, b2, c2, self.current_value, t as int, h as int, n, m);
    }
@raw
// how a non-pivot row k looks after elimination, in terms of the ORIGINAL rows (ghost bookkeeping)
pub open spec fn row_upd(ak: Seq<F64>, bk: F64, a0k: Seq<F64>, b0k: F64, a0t: Seq<F64>, b0t: F64, h: int, p: real, n: int) -> bool {
    let f = rv(a0k[h]) / p;
    &&& fv(bk) is Fin && rv(bk) == rv(b0k) - f * rv(b0t)
    &&& forall|j: int| 0 <= j < n ==> fv(#[trigger] ak[j]) is Fin && rv(ak[j]) == rv(a0k[j]) - f * rv(a0t[j])
}
// Pure linear algebra: IF the new tableau is the elementary row transformation of the old one
// (rows k != t: row_k - (a_kh/p) row_t; row t: row_t / p; costs: c - (c_h/p) row_t; value likewise)
// THEN the solution set, the unit columns and the objective function are preserved.
pub proof fn lemma_pivot_post(a0: Seq<Vec<F64>>, b0: Seq<F64>, c0: Seq<F64>, v0: F64, a2: Seq<Vec<F64>>, b2: Seq<F64>, c2: Seq<F64>, v2: F64, t: int, h: int, n: int, m: int)
    requires
        a0.len() == m, b0.len() == m, a2.len() == m, b2.len() == m, c0.len() == n, c2.len() == n, rect(a0, n), rect(a2, n),
        0 <= t < m, 0 <= h < n, rv(a0[t][h]) != 0real,
        forall|k: int| 0 <= k < m && k != t ==> row_upd(#[trigger] a2[k]@, b2[k], a0[k]@, b0[k], a0[t]@, b0[t], h, rv(a0[t][h]), n),
        forall|j: int| 0 <= j < n ==> rv(#[trigger] a2[t][j]) == rv(a0[t][j]) / rv(a0[t][h]),
        rv(b2[t]) == rv(b0[t]) / rv(a0[t][h]),
        forall|j: int| 0 <= j < n ==> rv(#[trigger] c2[j]) == rv(c0[j]) - (rv(c0[h]) / rv(a0[t][h])) * rv(a0[t][j]),
        rv(v2) == rv(v0) - (rv(c0[h]) / rv(a0[t][h])) * rv(b0[t]),
    ensures
        forall|x: Seq<real>| x.len() == n ==> (#[trigger] sat(a2, b2, x) <==> sat(a0, b0, x)),
        unit_col(a2, h, t),
        forall|j: int, r: int| 0 <= j < n && 0 <= r < m && r != t && #[trigger] unit_col(a0, j, r) ==> unit_col(a2, j, r),
        rv(c2[h]) == 0real,
        forall|x: Seq<real>| x.len() == n && #[trigger] sat(a0, b0, x) ==> obj(c2, v2, x) == obj(c0, v0, x),
        forall|i: int| 0 <= i < m && i != t ==> rv(#[trigger] b2[i]) == rv(b0[i]) - (rv(a0[i][h]) / rv(a0[t][h])) * rv(b0[t]),
{
    reveal(rmul_s); reveal(rdiv_s);
    let p = rv(a0[t][h]);
    let rt = rvs(a0[t]@);
    assert forall|x: Seq<real>| x.len() == n implies (#[trigger] sat(a2, b2, x) <==> sat(a0, b0, x)) by {
        let dt = dot(rt, x);
        lemma_dot_scale(rt, p, x, rvs(a2[t]@));
        assert(dot(rvs(a2[t]@), x) == dt / p);
        assert forall|k: int| 0 <= k < m && k != t implies
            dot(rvs(#[trigger] a2[k]@), x) == dot(rvs(a0[k]@), x) - (rv(a0[k][h]) / p) * dt by {
            assert(row_upd(a2[k]@, b2[k], a0[k]@, b0[k], a0[t]@, b0[t], h, p, n));
            lemma_dot_comb(rvs(a0[k]@), rt, rv(a0[k][h]) / p, x, rvs(a2[k]@));
        }
        if sat(a0, b0, x) {
            assert(dot(rvs(a0[t]@), x) == rv(b0[t]));
            assert forall|k: int| 0 <= k < m implies dot(rvs(#[trigger] a2[k]@), x) == rv(b2[k]) by {
                if k != t { assert(dot(rvs(a0[k]@), x) == rv(b0[k])); assert(row_upd(a2[k]@, b2[k], a0[k]@, b0[k], a0[t]@, b0[t], h, p, n)); }
            }
        }
        if sat(a2, b2, x) {
            assert(dot(rvs(a2[t]@), x) == rv(b2[t]));
            assert(dt == rv(b0[t])) by (nonlinear_arith) requires dt / p == rv(b0[t]) / p, p != 0real;
            assert forall|k: int| 0 <= k < m implies dot(rvs(#[trigger] a0[k]@), x) == rv(b0[k]) by {
                if k != t { assert(dot(rvs(a2[k]@), x) == rv(b2[k])); assert(row_upd(a2[k]@, b2[k], a0[k]@, b0[k], a0[t]@, b0[t], h, p, n)); }
            }
        }
    }
    assert(unit_col(a2, h, t)) by {
        assert forall|i: int| 0 <= i < m implies rv((#[trigger] a2[i])[h]) == (if i == t { 1real } else { 0real }) by {
            if i == t {
                assert(p / p == 1real) by (nonlinear_arith) requires p != 0real;
            } else {
                assert(row_upd(a2[i]@, b2[i], a0[i]@, b0[i], a0[t]@, b0[t], h, p, n));
                let q = rv(a0[i][h]);
                assert(q - (q / p) * p == 0real) by (nonlinear_arith) requires p != 0real;
            }
        }
    }
    assert forall|j: int, r: int| 0 <= j < n && 0 <= r < m && r != t && #[trigger] unit_col(a0, j, r) implies unit_col(a2, j, r) by {
        assert(rv(a0[t][j]) == 0real);
        assert forall|i: int| 0 <= i < m implies rv((#[trigger] a2[i])[j]) == (if i == r { 1real } else { 0real }) by {
            if i == t {
                assert(0real / p == 0real) by (nonlinear_arith) requires p != 0real;
            } else {
                assert(row_upd(a2[i]@, b2[i], a0[i]@, b0[i], a0[t]@, b0[t], h, p, n));
                let f = rv(a0[i][h]) / p;
                assert(f * 0real == 0real) by (nonlinear_arith);
                assert(rv(a0[i][j]) == (if i == r { 1real } else { 0real }));
            }
        }
    }
    let fc = rv(c0[h]) / p;
    assert(rv(c2[h]) == 0real) by {
        let q = rv(c0[h]);
        assert(q - (q / p) * p == 0real) by (nonlinear_arith) requires p != 0real;
    }
    assert forall|x: Seq<real>| x.len() == n && #[trigger] sat(a0, b0, x) implies obj(c2, v2, x) == obj(c0, v0, x) by {
        lemma_dot_comb(rvs(c0), rt, fc, x, rvs(c2));
        assert(dot(rvs(a0[t]@), x) == rv(b0[t]));
    }
    assert forall|i: int| 0 <= i < m && i != t implies rv(#[trigger] b2[i]) == rv(b0[i]) - (rv(a0[i][h]) / p) * rv(b0[t]) by {
        assert(row_upd(a2[i]@, b2[i], a0[i]@, b0[i], a0[t]@, b0[t], h, p, n));
    }
}
