    // Differential, bounded: for small LPs the tableau path (to_standard_form -> two-phase tableau -> simplex -> map back) must agree
    // with the microlp path on verdict and optimal value.  Catches column-layout, bound-row, sign-flip and offset mistakes of the conversion.
    use crate::solvers::{solve_milp_lp_problem_with, solve_real_lp_problem_slow_simplex, LpSolution, MilpOptions};
    #[test]
    fn search() {
        let inf = f64::INFINITY;
        let shapes = [
            VariableType::Real(-inf, inf), VariableType::Real(0.0, inf), VariableType::Real(-inf, 4.0), VariableType::Real(-2.0, inf), VariableType::Real(-3.0, 5.0),
            VariableType::NonNegativeReal(0.0, inf), VariableType::NonNegativeReal(1.0, inf), VariableType::NonNegativeReal(0.0, 6.0),
        ];
        // row sets over (x, y): (coefficients, comparison, rhs)
        let rowsets: Vec<Vec<(Vec<f64>, Comparison, f64)>> = vec![
            vec![(vec![1.0, 1.0], Comparison::LessOrEqual, 10.0), (vec![1.0, -1.0], Comparison::GreaterOrEqual, -8.0)],
            vec![(vec![1.0, 1.0], Comparison::LessOrEqual, 10.0), (vec![1.0, 1.0], Comparison::GreaterOrEqual, -10.0), (vec![1.0, -1.0], Comparison::LessOrEqual, 6.0), (vec![-1.0, 1.0], Comparison::LessOrEqual, 6.0)],
            vec![(vec![2.0, 1.0], Comparison::Equal, 3.0), (vec![1.0, 0.0], Comparison::LessOrEqual, 9.0), (vec![0.0, 1.0], Comparison::GreaterOrEqual, -9.0), (vec![1.0, 0.0], Comparison::GreaterOrEqual, -9.0), (vec![0.0, 1.0], Comparison::LessOrEqual, 9.0)],
            vec![(vec![1.0, 2.0], Comparison::GreaterOrEqual, -4.0), (vec![1.0, 2.0], Comparison::LessOrEqual, 8.0), (vec![3.0, -1.0], Comparison::LessOrEqual, 7.0), (vec![3.0, -1.0], Comparison::GreaterOrEqual, -7.0)],
            vec![(vec![1.0, 1.0], Comparison::LessOrEqual, -20.0), (vec![1.0, 1.0], Comparison::GreaterOrEqual, 20.0)],
            // rows that leave a ray open and do not all involve the ray variable
            vec![(vec![0.0, 1.0], Comparison::LessOrEqual, 3.0), (vec![1.0, -1.0], Comparison::GreaterOrEqual, -2.0)],
            vec![(vec![0.0, 1.0], Comparison::LessOrEqual, 2.0), (vec![0.0, 1.0], Comparison::GreaterOrEqual, -2.0), (vec![1.0, 0.0], Comparison::LessOrEqual, 3.5), (vec![1.0, 0.0], Comparison::GreaterOrEqual, -0.000001)],
            // direct start (no phase one) from a singleton STRUCTURAL column whose entry is not 1 and whose cost is not 0: the row has to be
            // scaled before the reduced costs are taken (seed C14 of round 14 computed them from the unscaled row)
            vec![(vec![2.0, 1.0], Comparison::Equal, 4.0), (vec![0.0, 1.0], Comparison::LessOrEqual, 3.0)],
            vec![(vec![1.0, 4.0], Comparison::Equal, 6.0), (vec![1.0, 0.0], Comparison::LessOrEqual, 3.0)],
        ];
        let objs = [vec![1.0, 2.0], vec![-1.0, 1.0], vec![1.0, 0.0], vec![0.0, -3.0]];
        let mut cases = 0u64;
        let mut fails = 0;
        for sx in shapes.iter() { for sy in shapes.iter() { for rows in rowsets.iter() { for obj in objs.iter() {
            for dir in [OptimizationType::Min, OptimizationType::Max] { for off in [0.0, 3.0] {
                let mut lp = LinearModel::new();
                lp.add_variable("x", *sx);
                lp.add_variable("y", *sy);
                for (c, cmp, r) in rows { lp.add_constraint(c.clone(), *cmp, *r); }
                lp.set_objective(obj.clone(), dir.clone());
                let (o, t, _, cs, vs, d) = lp.into_parts();
                let lp = LinearModel::new_from_parts(o, t, off, cs, vs, d);
                cases += 1;
                let a = solve_real_lp_problem_slow_simplex(&lp, 10_000);
                // reference: the microlp bridge with a time limit (microlp itself does not return on some LPs with an unbounded optimal face:
                // those cases come back as LimitReached and are skipped)
                let b = solve_milp_lp_problem_with(&lp, &MilpOptions { mip_gap: None, time_limit: Some(std::time::Duration::from_millis(150)) });
                // the tableau path has no time limit: every answer other than a verdict (or its iteration limit) is a failure to reach one of the three verdicts
                let va = match &a { Ok(_) => "optimal", Err(SolverError::Infeasible) => "infeasible", Err(SolverError::Unbounded) => "unbounded", Err(SolverError::LimitReached) => "other", Err(_) => "no-verdict" };
                let vb = match &b { Ok(_) => "optimal", Err(SolverError::Infeasible) => "infeasible", Err(SolverError::Unbounded) => "unbounded", Err(_) => "other" };
                let mut bad = va != vb && va != "other" && vb != "other";
                let mut detail = String::new();
                if let (Ok(sa), Ok(sb)) = (&a, &b) {
                    if (sa.value() - sb.value()).abs() > 1e-6 * (1.0 + sb.value().abs()) { bad = true; detail = format!("tableau optimum {} vs microlp optimum {}", sa.value(), sb.value()); }
                }
                // the point mapped back from the standard form (as_lp_solution) is a feasible point of the ORIGINAL model with the reported value
                if let Ok(sa) = &a {
                    let mut xs = [f64::NAN; 2];
                    for asg in sa.assignment().iter() { if asg.name == "x" { xs[0] = asg.value; } if asg.name == "y" { xs[1] = asg.value; } }
                    let tol = 1e-6;
                    let in_dom = |t: &VariableType, v: f64| match t { VariableType::Real(lo, hi) => v >= *lo - tol && v <= *hi + tol, VariableType::NonNegativeReal(lo, hi) => v >= -tol && v >= *lo - tol && v <= *hi + tol, _ => true };
                    let mut why = String::new();
                    if xs[0].is_nan() || xs[1].is_nan() { why = format!("no value for x or y in {:?}", sa.assignment()); }
                    else if !in_dom(sx, xs[0]) || !in_dom(sy, xs[1]) { why = format!("point ({}, {}) is outside the declared ranges", xs[0], xs[1]); }
                    else {
                        for (c, cmp, r) in rows {
                            let l = c[0] * xs[0] + c[1] * xs[1];
                            let ok = match cmp { Comparison::LessOrEqual | Comparison::Less => l <= *r + tol, Comparison::GreaterOrEqual | Comparison::Greater => l >= *r - tol, Comparison::Equal => (l - *r).abs() <= tol };
                            if !ok { why = format!("point ({}, {}) violates the row {:?} {:?} {}", xs[0], xs[1], c, cmp, r); break; }
                        }
                        let ov = obj[0] * xs[0] + obj[1] * xs[1] + off;
                        if why.is_empty() && (ov - sa.value()).abs() > 1e-6 * (1.0 + ov.abs()) { why = format!("objective at the returned point ({}, {}) is {} but the reported value is {}", xs[0], xs[1], ov, sa.value()); }
                    }
                    if !why.is_empty() && !bad { bad = true; detail = why; }
                }
                if bad && fails < 6 {
                    fails += 1;
                    println!("WITNESS-FAIL {{\"fn\": \"to_standard_form\", \"clause\": \"C13: the standard form has the same verdict and optimum as the model\", \"x\": \"{:?}\", \"y\": \"{:?}\", \"rows\": \"{:?}\", \"objective\": \"{:?} {:?} + {}\", \"tableau_path\": \"{}\", \"microlp_path\": \"{}\", \"detail\": \"{}\"}}", sx, sy, rows, dir, obj, off, va, vb, detail);
                }
            } }
        } } } }
        println!("WITNESS-DONE cases={}", cases);
    }
