//@ C13 — "the split of free variables": the positional removal every row, the objective and the variable list go through.
@fn remove_many
    ensures final(vec)@ == remove_idx(old(vec)@, indices@),
@fn remove_many @entry
    let ghost v0 = vec@;
@fn remove_many @loop 1
    invariant vx_n1 == v0.len(), vec@ == v0, v0 == old(vec)@, i == vx_i1,
        vx_rt1@ == remove_idx(v0.take(vx_i1 as int), indices@),
@fn remove_many @after "let vx_e1"
    proof {
        let t1 = v0.take(vx_i1 + 1);
        assert(t1.drop_last() =~= v0.take(vx_i1 as int));
        assert(t1.last() == v0[vx_i1 as int]);
        assert(t1.len() - 1 == vx_i1);
    }
@fn remove_many @end
    proof { assert(v0.take(vx_n1 as int) =~= v0); }
