//@ C04 — "the returned assignment satisfies every constraint": the point read off the final tableau.
@fn Tableau::variables_values -> r
    requires tab_wf(*self), forall|k: int| 0 <= k < self.in_basis@.len() ==> (#[trigger] self.in_basis@[k]) < self.c@.len(),
        forall|k: int, l: int| 0 <= k < l < self.in_basis@.len() ==> self.in_basis@[k] != self.in_basis@[l],
    ensures r@.len() == self.c@.len(), fin_seq(r@), basic_solution(self.in_basis@, self.b@, rvs(r@)),
        canonical(self.a@, self.in_basis@) ==> sat(self.a@, self.b@, rvs(r@)),
@fn Tableau::variables_values @loop 1
    invariant vx_n1 == self.in_basis@.len(), tab_wf(*self), values@.len() == self.c@.len(), fin_seq(values@),
        forall|k: int| 0 <= k < self.in_basis@.len() ==> (#[trigger] self.in_basis@[k]) < self.c@.len(),
        forall|k: int, l: int| 0 <= k < l < self.in_basis@.len() ==> self.in_basis@[k] != self.in_basis@[l],
        forall|k: int| 0 <= k < vx_i1 ==> values@[#[trigger] self.in_basis@[k] as int] == self.b@[k],
        forall|j: int| 0 <= j < values@.len() && (forall|k: int| 0 <= k < vx_i1 ==> #[trigger] self.in_basis@[k] != j) ==> fv(#[trigger] values@[j]) == Ext::Fin(0real),
@fn Tableau::variables_values @after "let j = "
    let ghost v0 = values@;
    proof { assert(j == self.in_basis@[vx_i1 as int]); assert(fv(self.b@[vx_i1 as int]) is Fin); }
@fn Tableau::variables_values @after "values[j] = "
    proof {
        assert forall|k: int| 0 <= k < vx_i1 + 1 implies values@[#[trigger] self.in_basis@[k] as int] == self.b@[k] by {
            if k < vx_i1 { assert(self.in_basis@[k] != self.in_basis@[vx_i1 as int]); assert(v0[self.in_basis@[k] as int] == self.b@[k]); }
        }
        assert forall|jj: int| 0 <= jj < values@.len() && (forall|k: int| 0 <= k < vx_i1 + 1 ==> #[trigger] self.in_basis@[k] != jj) implies fv(#[trigger] values@[jj]) == Ext::Fin(0real) by {
            assert(self.in_basis@[vx_i1 as int] != jj);
            assert(values@[jj] == v0[jj]);
        }
    }
@fn Tableau::variables_values @tail 1
    proof {
        let x = rvs(values@);
        assert(basic_solution(self.in_basis@, self.b@, x)) by {
            assert forall|k: int| 0 <= k < self.in_basis@.len() implies x[#[trigger] self.in_basis@[k] as int] == rv(self.b@[k]) by {}
            assert forall|jj: int| 0 <= jj < x.len() && (forall|k: int| 0 <= k < self.in_basis@.len() ==> #[trigger] self.in_basis@[k] != jj) implies #[trigger] x[jj] == 0real by {
                assert(fv(values@[jj]) == Ext::Fin(0real));
            }
        }
        if canonical(self.a@, self.in_basis@) { lemma_basic_sat(self.a@, self.b@, self.in_basis@, x); }
    }
