    // Loop-free harnesses over symbolic handles and payloads (complete, not bounded).  Every built tree is mem::forget-ed
    // (drop glue of a recursive enum unwinds without bound in CBMC).
    fn is_var(e: &Expr, i: usize) -> bool { matches!(e, Expr::Variable(j) if *j == i) }
    fn is_num(e: &Expr, c: f64) -> bool { matches!(e, Expr::Number(d) if d.to_bits() == c.to_bits()) }
    macro_rules! check_bin {
        ($e:expr, $op:pat, $l:expr, $r:expr) => {{
            let t: Expr = $e;
            let ok = match &t { Expr::BinOp($op, l, r) => { let (lf, rf): (&dyn Fn(&Expr) -> bool, &dyn Fn(&Expr) -> bool) = (&$l, &$r); lf(l) && rf(r) } _ => false };
            assert!(ok, "operator built a different node");
            core::mem::forget(t);
        }};
    }
    #[kani::proof]
    fn arith_var_var() {
        let a = Var { index: kani::any() };
        let b = Var { index: kani::any() };
        kani::cover!(true);
        check_bin!(a + b, BinOp::Add, |e: &Expr| is_var(e, a.index), |e: &Expr| is_var(e, b.index));
        check_bin!(a - b, BinOp::Sub, |e: &Expr| is_var(e, a.index), |e: &Expr| is_var(e, b.index));
        check_bin!(a * b, BinOp::Mul, |e: &Expr| is_var(e, a.index), |e: &Expr| is_var(e, b.index));
        check_bin!(a / b, BinOp::Div, |e: &Expr| is_var(e, a.index), |e: &Expr| is_var(e, b.index));
    }
    #[kani::proof]
    fn arith_var_scalar() {
        let a = Var { index: kani::any() };
        let c: f64 = kani::any();
        let n: i32 = kani::any();
        kani::cover!(true);
        check_bin!(a + c, BinOp::Add, |e: &Expr| is_var(e, a.index), |e: &Expr| is_num(e, c));
        check_bin!(c + a, BinOp::Add, |e: &Expr| is_num(e, c), |e: &Expr| is_var(e, a.index));
        check_bin!(a - c, BinOp::Sub, |e: &Expr| is_var(e, a.index), |e: &Expr| is_num(e, c));
        check_bin!(c - a, BinOp::Sub, |e: &Expr| is_num(e, c), |e: &Expr| is_var(e, a.index));
        check_bin!(a * c, BinOp::Mul, |e: &Expr| is_var(e, a.index), |e: &Expr| is_num(e, c));
        check_bin!(c * a, BinOp::Mul, |e: &Expr| is_num(e, c), |e: &Expr| is_var(e, a.index));
        check_bin!(a / c, BinOp::Div, |e: &Expr| is_var(e, a.index), |e: &Expr| is_num(e, c));
        check_bin!(c / a, BinOp::Div, |e: &Expr| is_num(e, c), |e: &Expr| is_var(e, a.index));
        check_bin!(a + n, BinOp::Add, |e: &Expr| is_var(e, a.index), |e: &Expr| is_num(e, n as f64));
        check_bin!(n - a, BinOp::Sub, |e: &Expr| is_num(e, n as f64), |e: &Expr| is_var(e, a.index));
        check_bin!(a * n, BinOp::Mul, |e: &Expr| is_var(e, a.index), |e: &Expr| is_num(e, n as f64));
        check_bin!(n / a, BinOp::Div, |e: &Expr| is_num(e, n as f64), |e: &Expr| is_var(e, a.index));
        check_bin!(a - n, BinOp::Sub, |e: &Expr| is_var(e, a.index), |e: &Expr| is_num(e, n as f64));
        check_bin!(a / n, BinOp::Div, |e: &Expr| is_var(e, a.index), |e: &Expr| is_num(e, n as f64));
        check_bin!(n + a, BinOp::Add, |e: &Expr| is_num(e, n as f64), |e: &Expr| is_var(e, a.index));
        check_bin!(n * a, BinOp::Mul, |e: &Expr| is_num(e, n as f64), |e: &Expr| is_var(e, a.index));
    }
    #[kani::proof]
    fn arith_expr_mixed() {
        let a = Var { index: kani::any() };
        let b = Var { index: kani::any() };
        let c: f64 = kani::any();
        let n: i32 = kani::any();
        kani::cover!(true);
        let x = || Expr::Variable(b.index);
        check_bin!(x() + a, BinOp::Add, |e: &Expr| is_var(e, b.index), |e: &Expr| is_var(e, a.index));
        check_bin!(a - x(), BinOp::Sub, |e: &Expr| is_var(e, a.index), |e: &Expr| is_var(e, b.index));
        check_bin!(x() - a, BinOp::Sub, |e: &Expr| is_var(e, b.index), |e: &Expr| is_var(e, a.index));
        check_bin!(a / x(), BinOp::Div, |e: &Expr| is_var(e, a.index), |e: &Expr| is_var(e, b.index));
        check_bin!(x() / a, BinOp::Div, |e: &Expr| is_var(e, b.index), |e: &Expr| is_var(e, a.index));
        check_bin!(x() * c, BinOp::Mul, |e: &Expr| is_var(e, b.index), |e: &Expr| is_num(e, c));
        check_bin!(c - x(), BinOp::Sub, |e: &Expr| is_num(e, c), |e: &Expr| is_var(e, b.index));
        check_bin!(x() - c, BinOp::Sub, |e: &Expr| is_var(e, b.index), |e: &Expr| is_num(e, c));
        check_bin!(c / x(), BinOp::Div, |e: &Expr| is_num(e, c), |e: &Expr| is_var(e, b.index));
        check_bin!(x() / c, BinOp::Div, |e: &Expr| is_var(e, b.index), |e: &Expr| is_num(e, c));
        check_bin!(x() - n, BinOp::Sub, |e: &Expr| is_var(e, b.index), |e: &Expr| is_num(e, n as f64));
        check_bin!(n - x(), BinOp::Sub, |e: &Expr| is_num(e, n as f64), |e: &Expr| is_var(e, b.index));
        check_bin!(n / x(), BinOp::Div, |e: &Expr| is_num(e, n as f64), |e: &Expr| is_var(e, b.index));
        check_bin!(x() / n, BinOp::Div, |e: &Expr| is_var(e, b.index), |e: &Expr| is_num(e, n as f64));
        let y = Expr::Variable(a.index);
        check_bin!(x() - &y, BinOp::Sub, |e: &Expr| is_var(e, b.index), |e: &Expr| is_var(e, a.index));
        check_bin!(x() / &y, BinOp::Div, |e: &Expr| is_var(e, b.index), |e: &Expr| is_var(e, a.index));
        check_bin!(x() - Expr::Number(c), BinOp::Sub, |e: &Expr| is_var(e, b.index), |e: &Expr| is_num(e, c));
        check_bin!(Expr::Number(c) / x(), BinOp::Div, |e: &Expr| is_num(e, c), |e: &Expr| is_var(e, b.index));
        core::mem::forget(y);
    }
    #[kani::proof]
    fn unary_and_logic() {
        let a = Var { index: kani::any() };
        let b = Var { index: kani::any() };
        let f: bool = kani::any();
        kani::cover!(true);
        let t = -a; assert!(matches!(&t, Expr::UnOp(UnOp::Neg, i) if is_var(i, a.index))); core::mem::forget(t);
        let t = -Expr::Variable(b.index); assert!(matches!(&t, Expr::UnOp(UnOp::Neg, i) if is_var(i, b.index))); core::mem::forget(t);
        let t = !a; assert!(matches!(&t, Expr::Not(i) if is_var(i, a.index))); core::mem::forget(t);
        let t = !Expr::Variable(b.index); assert!(matches!(&t, Expr::Not(i) if is_var(i, b.index))); core::mem::forget(t);
        let t = a.implies(b); assert!(matches!(&t, Expr::Implies(l, r) if is_var(l, a.index) && is_var(r, b.index))); core::mem::forget(t);
        let t = a.iff(b); assert!(matches!(&t, Expr::Iff(l, r) if is_var(l, a.index) && is_var(r, b.index))); core::mem::forget(t);
        let t = Expr::Variable(a.index).implies(b); assert!(matches!(&t, Expr::Implies(l, r) if is_var(l, a.index) && is_var(r, b.index))); core::mem::forget(t);
        let t = a ^ b; assert!(matches!(&t, Expr::Xor(l, r) if is_var(l, a.index) && is_var(r, b.index))); core::mem::forget(t);
        let t = a ^ Expr::Variable(b.index); assert!(matches!(&t, Expr::Xor(l, r) if is_var(l, a.index) && is_var(r, b.index))); core::mem::forget(t);
        let t = abs(a); assert!(matches!(&t, Expr::Abs(i) if is_var(i, a.index))); core::mem::forget(t);
    }
