//@ C01/C02/C08 — the Abs arm, checked against the SAME general contract as the affine arms (imported from U01.aff).
@fn Exp::linearize @attr
#[verifier::exec_allows_no_decreases_clause]
@fn Exp::linearize @keep-arms
    Exp::Abs
@fn ValueRequirement::description @assumed -> r
    ensures true,
@fn variables_without_finite_bounds @assumed -> r
    ensures true,
@fn Exp::linearize @entry
    proof { reveal_with_fuel(exp_fin, 2); lemma_real_arith_abs(); lemma_lz_box(*linearizer_context); }
    let ghost c0 = *linearizer_context;
    let ghost ee = *self->Abs_0;
@fn Exp::linearize @after "let inner = context_to_exp"
    let ghost c1 = *linearizer_context;
    let ghost inner_e = inner;
@fn Exp::linearize @after "linearizer_context.abs_count ="
    let ghost c2 = *linearizer_context;
    proof { lemma_lz_same(c1, c2); lemma_lz_ext_trans(c0, c1, c2); }
@fn Exp::linearize @before "linearizer_context.declare_variable(vx_a5"
    proof { lemma_f_neg(inner_bounds.lower); assert(vt_wf(vx_a6)); }
@fn Exp::linearize @after "linearizer_context.declare_variable(vx_a5"
    let ghost c3 = *linearizer_context;
    proof { lemma_lz_ext_trans(c0, c2, c3); }
@fn Exp::linearize @before "linearizer_context.add_constraint(vx_a7)"
    proof { lemma_exp_fin(vx_a7.lhs); }
@fn Exp::linearize @before "linearizer_context.add_constraint(vx_a8)"
    proof { lemma_exp_fin(vx_a8.lhs); lemma_exp_fin(vx_a8.rhs); }
@fn Exp::linearize @before "linearizer_context.add_constraint(vx_a11)"
    proof {
        lemma_f_mul_by(inner_bounds.lower);
        let e = vx_a11.rhs; let m = *e->BinOp_2; let s2 = *m->BinOp_2;
        lemma_exp_fin(vx_a11.lhs); lemma_exp_fin(e); lemma_exp_fin(m); lemma_exp_fin(*m->BinOp_1); lemma_exp_fin(s2); lemma_exp_fin(*s2->BinOp_1); lemma_exp_fin(*s2->BinOp_2);
    }
@fn Exp::linearize @before "linearizer_context.add_constraint(vx_a12)"
    proof {
        lemma_f_mul_by(inner_bounds.upper);
        let e = vx_a12.rhs; let m = *e->BinOp_2; let ng = *e->BinOp_1;
        lemma_exp_fin(vx_a12.lhs); lemma_exp_fin(e); lemma_exp_fin(ng); lemma_exp_fin(m); lemma_exp_fin(*m->BinOp_1); lemma_exp_fin(*m->BinOp_2);
    }
@fn Exp::linearize @after "linearizer_context.add_constraint(vx_a7)"
    let ghost c4 = *linearizer_context;
    proof { lemma_lz_ext_trans(c0, c3, c4); }
@fn Exp::linearize @after "linearizer_context.add_constraint(vx_a8)"
    let ghost c5 = *linearizer_context;
    proof {
        lemma_lz_ext_trans(c0, c4, c5);
        // rows-complete (nothing feasible is cut off): wherever the inner value v lies in its derived range, the intended
        // auxiliary value |v| satisfies the two lower rows and the declared range of the auxiliary
        assert forall|env: Env| (sem(inner_e, env) matches Some(v) && contains(inner_bounds, v) && env[var_name@] == sem_abs(v))
            implies c_holds_w(vx_a7, env) && c_holds_w(vx_a8, env) && in_domain(vx_a6, #[trigger] env[var_name@]) by {
            broadcast use semx2;
            lemma_f_neg(inner_bounds.lower);
        }
    }
@fn Exp::linearize @after "linearizer_context.declare_variable(vx_a10"
    let ghost c6 = *linearizer_context;
    proof { lemma_lz_ext_trans(c0, c5, c6); }
@fn Exp::linearize @after "linearizer_context.add_constraint(vx_a11)"
    let ghost c7 = *linearizer_context;
    proof { lemma_lz_ext_trans(c0, c6, c7); }
@fn Exp::linearize @after "linearizer_context.add_constraint(vx_a12)"
    proof {
        let c8 = *linearizer_context;
        let an = var_name@;
        lemma_lz_ext_trans(c0, c7, c8);
        // float facts about the two big-M literals, established once (outside the quantifier over assignments)
        let k3 = (*(*vx_a11.rhs->BinOp_2)->BinOp_1)->Number_0;
        let k4 = (*(*vx_a12.rhs->BinOp_2)->BinOp_1)->Number_0;
        lemma_f_mul_by(inner_bounds.lower); lemma_f_mul_by(inner_bounds.upper);
        assert(fv(k3) == Ext::Fin(rmul_s(2real, rv(inner_bounds.lower))) && fv(k4) == Ext::Fin(rmul_s(2real, rv(inner_bounds.upper))));
        // rows-complete, exact case: with the intended values (|v| and the sign indicator) the two big-M rows hold
        // for EVERY v in the derived range [L, U]: this is what a too-small big-M constant would break
        assert forall|env: Env| (sem(inner_e, env) matches Some(v) && contains(inner_bounds, v) && env[an] == sem_abs(v)
            && #[trigger] env[positive_name@] == (if v >= 0real { 1real } else { 0real }))
            implies c_holds_w(vx_a11, env) && c_holds_w(vx_a12, env) by {
            broadcast use semx2;
            let v = sem(inner_e, env)->Some_0;
            lemma_abs_rows_complete(env[an], v, env[positive_name@], rv(inner_bounds.lower), rv(inner_bounds.upper));
        }
        // exact case: the four rows force the auxiliary to be |v|
        assert forall|env: Env| #[trigger] lz_ok(c8, env) implies (sem(*self, env) is Some ==> env[an] == sem_abs(sem(ee, env)->Some_0)) by {
            if sem(*self, env) is Some {
                let v = sem(ee, env)->Some_0;
                let p = env[positive_name@];
                assert(lz_ok(c7, env)); assert(lz_ok(c6, env)); assert(lz_ok(c5, env)); assert(lz_ok(c4, env)); assert(lz_ok(c3, env)); assert(lz_ok(c2, env));
                assert(lz_ok(c1, env));
                assert(sem(inner_e, env) == Some(v));
                assert(p == 0real || p == 1real);
                assert(c_holds_w(vx_a7, env) && c_holds_w(vx_a8, env) && c_holds_w(vx_a11, env) && c_holds_w(vx_a12, env));
                assert(env[an] == sem_abs(v)) by { broadcast use semx2; lemma_abs_rows(env[an], v, p, rv(k3), rv(k4)); }
            }
        }
    }
@fn Exp::linearize @before "Ok(LinearizationContext::from_var(var_name"
    proof {
        let cf = *linearizer_context;
        let an = var_name@;
        assert forall|env: Env| #[trigger] lz_ok(cf, env) implies (sem(*self, env) matches Some(t) ==> relaxes(requirement, rmul_s(1real, env[an]), t)) by {
            if sem(*self, env) is Some {
                let v = sem(ee, env)->Some_0;
                assert(sem(*self, env) == Some(sem_abs(v)));
                if !needs_exact_value {
                    assert(lz_ok(c5, env)); assert(lz_ok(c4, env)); assert(lz_ok(c3, env)); assert(lz_ok(c2, env));
                    assert(lz_ok(c1, env));
                    assert(sem(inner_e, env) == Some(v));
                    assert(c_holds_w(vx_a7, env) && c_holds_w(vx_a8, env));
                    assert(env[an] >= v && env[an] >= -v) by { broadcast use semx2; }
                }
            }
        }
    }
@raw
pub proof fn lemma_real_arith_abs()
    ensures
        forall|x: real| #[trigger] rmul_s(-1real, x) == -x,
        forall|x: real| #[trigger] rmul_s(1real, x) == x,
        forall|x: real| #[trigger] rmul_s(x, 0real) == 0real,
        forall|x: real| #[trigger] rmul_s(x, 1real) == x,
{
    reveal(rmul_s); reveal(rdiv_s);
    assert forall|x: real| #[trigger] rmul_s(-1real, x) == -x by { assert((-1real) * x == -x) by (nonlinear_arith); }
    assert forall|x: real| #[trigger] rmul_s(1real, x) == x by { assert(1real * x == x) by (nonlinear_arith); }
    assert forall|x: real| #[trigger] rmul_s(x, 0real) == 0real by { assert(x * 0real == 0real) by (nonlinear_arith); }
    assert forall|x: real| #[trigger] rmul_s(x, 1real) == x by { assert(x * 1real == x) by (nonlinear_arith); }
}
// the four rows force a = |v| for p in {0,1}, whatever the constants l2 and u2 are (soundness needs no bound)
pub proof fn lemma_abs_rows(a: real, v: real, p: real, l2: real, u2: real)
    requires a >= v, a >= -v, p == 0real || p == 1real,
        a <= v - rmul_s(l2, 1real - p), a <= -v + rmul_s(u2, p),
    ensures a == sem_abs(v),
{
    reveal(rmul_s);
    assert(l2 * 0real == 0real) by (nonlinear_arith);
    assert(u2 * 0real == 0real) by (nonlinear_arith);
}
// with the intended values the big-M rows hold for every v in [l, u] when the constants are 2l and 2u
pub proof fn lemma_abs_rows_complete(a: real, v: real, p: real, l: real, u: real)
    requires l <= v <= u, a == sem_abs(v), p == (if v >= 0real { 1real } else { 0real }),
    ensures a <= v - rmul_s(rmul_s(2real, l), 1real - p), a <= -v + rmul_s(rmul_s(2real, u), p),
{
    reveal(rmul_s);
    assert((2real * l) * 0real == 0real) by (nonlinear_arith);
    assert((2real * u) * 0real == 0real) by (nonlinear_arith);
    assert((2real * l) * 1real == 2real * l) by (nonlinear_arith);
    assert((2real * u) * 1real == 2real * u) by (nonlinear_arith);
}
