    // Executable form of C01 / C02 on the REAL pipeline (Linearizer::linearize + the MILP bridge as feasibility oracle), bounded:
    //  C01  for a family of small source constraints  E cmp c  over x in Real(-3,5), y in Real(-4,2) and a grid of assignments:
    //       the source constraint holds at (x, y)  <=>  the compiled linear model is feasible with x and y fixed to those values;
    //  C02  for objectives min E / max E: with x and y fixed, the optimum of the linear objective equals E(x, y).
    use crate::parser::model_transformer::{Model, Objective};
    use crate::solvers::{solve_milp_lp_problem, SolverError as SE};
    fn v(n: &str) -> Exp { Exp::Variable(n.to_string()) }
    fn num(c: f64) -> Exp { Exp::Number(c) }
    fn bin(op: BinOp, a: Exp, b: Exp) -> Exp { Exp::BinOp(op, a.to_box(), b.to_box()) }
    fn neg(a: Exp) -> Exp { Exp::UnOp(UnOp::Neg, a.to_box()) }
    fn abs(a: Exp) -> Exp { Exp::Abs(a.to_box()) }
    fn ev(e: &Exp, x: f64, y: f64) -> f64 {
        match e {
            Exp::Number(c) => *c,
            Exp::Variable(n) => if n == "x" { x } else { y },
            Exp::UnOp(UnOp::Neg, a) => -ev(a, x, y),
            Exp::Abs(a) => ev(a, x, y).abs(),
            Exp::Min(es) => es.iter().map(|e| ev(e, x, y)).fold(f64::INFINITY, f64::min),
            Exp::Max(es) => es.iter().map(|e| ev(e, x, y)).fold(f64::NEG_INFINITY, f64::max),
            Exp::BinOp(op, a, b) => { let (a, b) = (ev(a, x, y), ev(b, x, y)); match op { BinOp::Add => a + b, BinOp::Sub => a - b, BinOp::Mul => a * b, BinOp::Div => a / b, _ => f64::NAN } }
            _ => f64::NAN,
        }
    }
    fn family() -> Vec<Exp> {
        let (x, y) = (v("x"), v("y"));
        vec![
            abs(x.clone()),
            abs(bin(BinOp::Sub, x.clone(), y.clone())),
            abs(bin(BinOp::Add, bin(BinOp::Mul, num(2.0), x.clone()), num(1.0))),
            neg(abs(x.clone())),
            abs(bin(BinOp::Sub, x.clone(), num(10.0))),
            abs(bin(BinOp::Add, y.clone(), num(6.0))),
            abs(bin(BinOp::Sub, Exp::Min(vec![x.clone(), y.clone()]), num(20.0))),
            abs(bin(BinOp::Sub, Exp::Max(vec![x.clone(), y.clone()]), num(20.0))),
            abs(bin(BinOp::Add, Exp::Max(vec![x.clone(), y.clone()]), num(20.0))),
            Exp::Min(vec![x.clone(), y.clone()]),
            Exp::Max(vec![x.clone(), y.clone()]),
            neg(Exp::Min(vec![x.clone(), y.clone()])),
            bin(BinOp::Sub, num(3.0), Exp::Max(vec![x.clone(), y.clone()])),
            bin(BinOp::Mul, num(2.0), Exp::Min(vec![x.clone(), bin(BinOp::Add, y.clone(), num(1.0))])),
            bin(BinOp::Mul, num(-2.0), Exp::Max(vec![x.clone(), y.clone()])),
            bin(BinOp::Div, abs(bin(BinOp::Sub, x.clone(), y.clone())), num(-2.0)),
            abs(Exp::Max(vec![x.clone(), y.clone()])),
            Exp::Min(vec![abs(x.clone()), y.clone()]),
            bin(BinOp::Sub, Exp::Max(vec![x.clone(), y.clone()]), Exp::Min(vec![x.clone(), y.clone()])),
            abs(neg(abs(bin(BinOp::Sub, x.clone(), num(1.0))))),
        ]
    }
    fn domain() -> IndexMap<String, DomainVariable> {
        let mut d = IndexMap::new();
        for (n, lo, hi) in [("x", -3.0, 5.0), ("y", -4.0, 2.0)] {
            let mut dv = DomainVariable::new(VariableType::Real(lo, hi), InputSpan::default());
            dv.increment_usage();
            d.insert(n.to_string(), dv);
        }
        d
    }
    fn fixed(lm: &LinearModel, x: f64, y: f64) -> LinearModel {
        let mut m = lm.clone();
        let vars = m.variables().clone();
        for (n, val) in [("x", x), ("y", y)] {
            let mut row = vec![0.0; vars.len()];
            if let Some(i) = vars.iter().position(|s| s == n) { row[i] = 1.0; m.add_constraint(row, Comparison::Equal, val); }
        }
        m
    }
    #[test]
    fn search() {
        let xs = [-3.0, -1.0, 0.5, 2.0, 5.0];
        let ys = [-4.0, -1.5, 0.0, 2.0];
        let cs = [-1.0, 0.5, 2.0, 15.0, 18.5];
        let mut cases = 0u64;
        let mut fails = 0;
        for e in family() {
            // ---- C01: constraints ----
            for cmp in [Comparison::LessOrEqual, Comparison::GreaterOrEqual, Comparison::Equal] {
                for c in cs {
                    let model = Model::new(Objective::new(OptimizationType::Satisfy, num(0.0)), vec![Constraint::new(e.clone(), cmp, num(c), String::new())], domain());
                    let lm = match Linearizer::linearize(model) { Ok(lm) => lm, Err(_) => continue };
                    for x in xs { for y in ys {
                        cases += 1;
                        let val = ev(&e, x, y);
                        let src = match cmp { Comparison::LessOrEqual => val <= c + 1e-7, Comparison::GreaterOrEqual => val >= c - 1e-7, _ => (val - c).abs() <= 1e-7 };
                        let strict = match cmp { Comparison::LessOrEqual => val <= c - 1e-5 || (val - c).abs() <= 1e-9, Comparison::GreaterOrEqual => val >= c + 1e-5 || (val - c).abs() <= 1e-9, _ => (val - c).abs() <= 1e-9 };
                        let lin = match solve_milp_lp_problem(&fixed(&lm, x, y)) { Ok(_) => true, Err(SE::Infeasible) => false, Err(_) => continue };
                        // skip assignments within the solver tolerance of the boundary
                        if src != strict { continue; }
                        if src != lin && fails < 6 {
                            fails += 1;
                            println!("WITNESS-FAIL {{\"fn\": \"Exp::linearize\", \"clause\": \"C01: source constraint holds <=> linear model feasible with the declared variables fixed\", \"constraint\": \"{} {} {}\", \"x\": {}, \"y\": {}, \"source_value\": {}, \"source_holds\": {}, \"linear_model_feasible\": {}}}", e, cmp, c, x, y, val, src, lin);
                        }
                    } }
                }
            }
            // ---- C02: objectives ----
            for dir in [OptimizationType::Min, OptimizationType::Max] {
                let model = Model::new(Objective::new(dir.clone(), e.clone()), vec![], domain());
                let lm = match Linearizer::linearize(model) { Ok(lm) => lm, Err(_) => continue };
                for x in xs { for y in ys {
                    cases += 1;
                    let val = ev(&e, x, y);
                    match solve_milp_lp_problem(&fixed(&lm, x, y)) {
                        Ok(sol) => if (sol.value() - val).abs() > 1e-6 && fails < 6 {
                            fails += 1;
                            println!("WITNESS-FAIL {{\"fn\": \"Exp::linearize\", \"clause\": \"C02: best linear objective over the auxiliaries == source objective\", \"objective\": \"{:?} {}\", \"x\": {}, \"y\": {}, \"source_value\": {}, \"linear_optimum\": {}}}", dir, e, x, y, val, sol.value());
                        },
                        Err(er) => if fails < 6 {
                            fails += 1;
                            println!("WITNESS-FAIL {{\"fn\": \"Exp::linearize\", \"clause\": \"C02: linear model has an optimum at a source-feasible assignment\", \"objective\": \"{:?} {}\", \"x\": {}, \"y\": {}, \"source_value\": {}, \"solver\": \"{}\"}}", dir, e, x, y, val, er);
                        },
                    }
                } }
            }
        }
        println!("WITNESS-DONE cases={}", cases);
    }
