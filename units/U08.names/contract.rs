//@ C08 — "has unique non-empty row names with the first use of each user-written name preserved"
@fn dedup_names
    requires
        // what the statements before the slice establish (iterator chain, NOT in this unit): every user-written name is a source name
        forall|j: int| 0 <= j < old(linear_constraints)@.len() && nm(old(linear_constraints)@, j).len() > 0 ==> source_names.has(#[trigger] nm(old(linear_constraints)@, j)),
    ensures
        // nothing but the name of a row changes; unnamed rows stay unnamed, named rows stay named
        dd_frame(final(linear_constraints)@, old(linear_constraints)@),
        // uniqueness
        names_distinct(row_names(final(linear_constraints)@), final(linear_constraints)@.len() as int),
        // the first use of each user-written name is preserved
        forall|j: int| 0 <= j < old(linear_constraints)@.len() && first_use(row_names(old(linear_constraints)@), j) ==> #[trigger] nm(final(linear_constraints)@, j) == nm(old(linear_constraints)@, j),
        // a row that was renamed got a name no user wrote
        forall|j: int| 0 <= j < old(linear_constraints)@.len() && #[trigger] nm(final(linear_constraints)@, j) != nm(old(linear_constraints)@, j) ==> !source_names.has(nm(final(linear_constraints)@, j)),
@fn dedup_names @attr
    #[verifier::exec_allows_no_decreases_clause]
@fn dedup_names @entry
    let ghost o = linear_constraints@;
@fn dedup_names @loop 1
    invariant
        vx_n1 == o.len(), vx_i1 <= vx_n1,
        forall|j: int| 0 <= j < o.len() && nm(o, j).len() > 0 ==> source_names.has(#[trigger] nm(o, j)),
        dd_inv(linear_constraints@, o, assigned_names.set(), source_names.set(), vx_i1 as int),
@fn dedup_names @loop 2
    invariant_except_break
        dd_inv(linear_constraints@, o, assigned_names.set(), source_names.set(), vx_c1 as int),
        nm(linear_constraints@, vx_c1 as int) == nm(o, vx_c1 as int),
    invariant
        vx_n1 == o.len(), vx_c1 < vx_n1, vx_i1 == vx_c1 + 1,
        nm(o, vx_c1 as int).len() > 0,
        !first_use(row_names(o), vx_c1 as int),
        forall|j: int| 0 <= j < o.len() && nm(o, j).len() > 0 ==> source_names.has(#[trigger] nm(o, j)),
    ensures
        dd_inv(linear_constraints@, o, assigned_names.set(), source_names.set(), vx_i1 as int),
@fn dedup_names @end
    proof {
        let v = linear_constraints@;
        assert forall|i: int, j: int| 0 <= i < j < v.len() && (#[trigger] row_names(v)[i]).len() > 0 && (#[trigger] row_names(v)[j]).len() > 0 implies row_names(v)[i] != row_names(v)[j] by {
            assert(nm(v, i) != nm(v, j));
        }
    }
@fn dedup_names @before "continue"
    proof {
        let v = linear_constraints@; let c = vx_c1 as int;
        assert(nm(v, c) == nm(o, c));
        if nm(v, c).len() > 0 {
            assert(assigned_names.set().contains(nm(v, c)));
        }
        assert forall|s: Seq<char>| #[trigger] assigned_names.set().contains(s) implies s.len() > 0 && exists|j: int| 0 <= j < c + 1 && #[trigger] nm(v, j) == s by {
            if s == nm(v, c) { assert(nm(v, c) == s); }
        }
    }
@fn dedup_names @before "let mut counter"
    proof {
        let v = linear_constraints@; let c = vx_c1 as int;
        assert(nm(v, c) == nm(o, c));
        assert(assigned_names.set().contains(nm(o, c)));
        let k = choose|k: int| 0 <= k < c && #[trigger] nm(v, k) == nm(o, c);
        assert(source_names.has(nm(o, c)));
        assert(nm(v, k) == nm(o, k));
        assert(row_names(o)[k] == row_names(o)[c]);
    }
@fn dedup_names @before "assigned_names.insert(candidate.clone())"
    let ghost v0 = linear_constraints@;
    let ghost a0 = assigned_names.set();
@fn dedup_names @before "break"
    proof {
        let v = linear_constraints@; let c = vx_c1 as int;
        assert(nm(v, c) == candidate@);
        assert(forall|j: int| 0 <= j < v.len() && j != c ==> nm(v, j) == nm(v0, j));
        assert forall|s: Seq<char>| #[trigger] assigned_names.set().contains(s) implies s.len() > 0 && exists|j: int| 0 <= j < c + 1 && #[trigger] nm(v, j) == s by {
            if s == candidate@ { assert(nm(v, c) == s); } else {
                assert(a0.contains(s));
                let j = choose|j: int| 0 <= j < c && #[trigger] nm(v0, j) == s;
                assert(nm(v, j) == s);
            }
        }
        assert forall|i: int, j: int| 0 <= i < j < c + 1 && nm(v, i).len() > 0 implies #[trigger] nm(v, i) != #[trigger] nm(v, j) by {
            assert(nm(v, i) == nm(v0, i));
            if j == c { assert(a0.contains(nm(v0, i))); } else { assert(nm(v, j) == nm(v0, j)); }
        }
    }
@fn source_names_of -> r
    ensures forall|j: int| 0 <= j < linear_constraints@.len() && nm(linear_constraints@, j).len() > 0 ==> r.has(#[trigger] nm(linear_constraints@, j)),
        forall|k: Seq<char>| #[trigger] r.has(k) ==> k.len() > 0 && named_before(linear_constraints@, linear_constraints@.len() as int, k),
@fn source_names_of @loop 1
    invariant vx_n1 == linear_constraints@.len(),
        forall|j: int| 0 <= j < vx_i1 && nm(linear_constraints@, j).len() > 0 ==> vx_set1.has(#[trigger] nm(linear_constraints@, j)),
        forall|k: Seq<char>| #[trigger] vx_set1.has(k) ==> k.len() > 0 && named_before(linear_constraints@, vx_i1 as int, k),
@fn source_names_of @before "let vx_keep1"
    let ghost s0 = vx_set1;
@fn source_names_of @before "if vx_keep1"
    proof {
        assert forall|k: Seq<char>| #[trigger] s0.has(k) implies named_before(linear_constraints@, vx_i1 + 1, k) by {
            let j = choose|j: int| 0 <= j < vx_i1 && #[trigger] nm(linear_constraints@, j) == k;
            assert(nm(linear_constraints@, j) == k);
        }
    }
@fn source_names_of @after "vx_set1.insert"
    proof {
        assert(named_before(linear_constraints@, vx_i1 + 1, nm(linear_constraints@, vx_i1 as int))) by { assert(nm(linear_constraints@, vx_i1 as int) == nm(linear_constraints@, vx_i1 as int)); }
        assert(nm(linear_constraints@, vx_i1 as int).len() > 0);
        assert forall|k: Seq<char>| #[trigger] vx_set1.has(k) implies k.len() > 0 && named_before(linear_constraints@, vx_i1 + 1, k) by {
            if k != nm(linear_constraints@, vx_i1 as int) { assert(s0.has(k)); }
        }
    }
