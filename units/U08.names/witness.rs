    // Executable form of C08 on the REAL Linearizer::linearize, bounded: every compiled model of a family of source models
    // (duplicate / adversarial row names, abs / min / max rows that create auxiliaries, unused declarations, unbounded operands)
    // is well-formed.  Row i of the source has the unique right-hand side 100 + i, so an output row can be traced back to it.
    use crate::parser::model_transformer::{Model, Objective};
    fn v(n: &str) -> Exp { Exp::Variable(n.to_string()) }
    fn num(c: f64) -> Exp { Exp::Number(c) }
    fn bin(op: BinOp, a: Exp, b: Exp) -> Exp { Exp::BinOp(op, a.to_box(), b.to_box()) }
    fn abs(a: Exp) -> Exp { Exp::Abs(a.to_box()) }
    fn domain(unbounded: bool) -> IndexMap<String, DomainVariable> { domain2(if unbounded { 1 } else { 0 }) }
    // kind 0: all bounded; 1: x unbounded above; 2: x unbounded below; 3: x free
    fn domain2(kind: u8) -> IndexMap<String, DomainVariable> {
        let mut d = IndexMap::new();
        let xlo = if kind == 2 || kind == 3 { f64::NEG_INFINITY } else { -3.0 };
        let xhi = if kind == 1 || kind == 3 { f64::INFINITY } else { 5.0 };
        // declared out of order on purpose; `unused` is never referenced
        for (n, lo, hi, used) in [("y", -4.0, 2.0, true), ("x", xlo, xhi, true), ("unused", 0.0, 1.0, false), ("b", 0.0, 9.0, true),
            // names whose String order differs from their case-insensitive order ("Zed" < "b", "xB" < "x_1"): the variable list is
            // promised in String order (seed C08 of round 14 sorted by the lower-cased name); declared and marked used, in no row
            ("x_1", 0.0, 1.0, true), ("Zed", 0.0, 1.0, true), ("xB", 0.0, 1.0, true)] {
            let mut dv = DomainVariable::new(VariableType::Real(lo, hi), InputSpan::default());
            if used { dv.increment_usage(); }
            d.insert(n.to_string(), dv);
        }
        d
    }
    fn lhs_family() -> Vec<Exp> {
        let (x, y, b) = (v("x"), v("y"), v("b"));
        vec![
            bin(BinOp::Add, x.clone(), y.clone()),
            bin(BinOp::Sub, bin(BinOp::Mul, num(2.0), x.clone()), b.clone()),
            abs(bin(BinOp::Sub, x.clone(), y.clone())),
            Exp::Max(vec![x.clone(), y.clone(), b.clone()]),
            Exp::Min(vec![x.clone(), b.clone()]),
            bin(BinOp::Add, abs(x.clone()), abs(y.clone())),
        ]
    }
    fn name_lists() -> Vec<Vec<&'static str>> {
        vec![
            vec!["a", "a", "a"],
            vec!["a", "a", "a__2"],
            vec!["a__2", "a", "a"],
            vec!["a", "", "a", "", "b", "b"],
            vec!["a", "a", "a__2", "a__2", "a__3", "a"],
            vec!["a__2__2", "a__2", "a__2", "a", "a"],
            vec!["", "", ""],
            vec!["__cap", "__cap", "__cap"],
            vec!["__r", "__r", "__r__2", "r", "r"],
            vec!["a_rather_long_name_for_a_row_of_a_small_model_0123456789", "a_rather_long_name_for_a_row_of_a_small_model_0123456789", "s", "s"],
            vec!["c1", "c2", "c1", "c2", "c1__2", "c2__2", "c1", "c2"],
        ]
    }
    fn fail(n: &mut u32, clause: &str, detail: String) {
        if *n < 8 { println!("WITNESS-FAIL {{\"fn\": \"Linearizer::linearize\", \"clause\": \"{}\", \"detail\": \"{}\"}}", clause, detail.replace('"', "'")); }
        *n += 1;
    }
    #[test]
    fn search() {
        let mut cases = 0u64;
        let mut fails = 0u32;
        let fam = lhs_family();
        for (li, names) in name_lists().iter().enumerate() {
            for shift in 0..fam.len() {
                for cmp in [Comparison::LessOrEqual, Comparison::GreaterOrEqual] {
                    for obj in [OptimizationType::Min, OptimizationType::Satisfy] {
                        cases += 1;
                        let cons: Vec<Constraint> = names.iter().enumerate().map(|(i, n)| Constraint::new(fam[(i + shift) % fam.len()].clone(), cmp, num(100.0 + i as f64), n.to_string())).collect();
                        let desc = format!("names {:?}, first lhs #{}, {:?}, objective {:?}", names, shift, cmp, obj);
                        let model = Model::new(Objective::new(obj.clone(), bin(BinOp::Add, v("x"), num(3.0))), cons, domain(false));
                        let lm = match Linearizer::linearize(model) { Ok(lm) => lm, Err(e) => { fail(&mut fails, "a bounded model of the family compiles", format!("{}: {}", desc, e)); continue } };
                        // ---- variable list: sorted, duplicate-free, equal to the key set of the domain, contains every referenced variable
                        let vars = lm.variables();
                        if !vars.windows(2).all(|w| w[0] < w[1]) { fail(&mut fails, "variable list is sorted and duplicate-free", format!("{}: {:?}", desc, vars)); }
                        let mut keys: Vec<String> = lm.domain().keys().cloned().collect(); keys.sort();
                        let mut sv = vars.clone(); sv.sort();
                        if keys != sv { fail(&mut fails, "variable list equals the domain's key set", format!("{}: vars {:?} domain {:?}", desc, vars, keys)); }
                        for need in ["x", "y", "b"] { if !vars.iter().any(|s| s == need) { fail(&mut fails, "every variable of the source objective or constraints is present", format!("{}: {} missing from {:?}", desc, need, vars)); } }
                        // ---- one finite coefficient per variable
                        if lm.objective().len() != vars.len() || lm.objective().iter().any(|c| !c.is_finite()) || !lm.objective_offset().is_finite() { fail(&mut fails, "objective: one finite coefficient per variable, finite offset", format!("{}: {:?} + {}", desc, lm.objective(), lm.objective_offset())); }
                        for r in lm.constraints() {
                            if r.coefficients().len() != vars.len() || r.coefficients().iter().any(|c| !c.is_finite()) || !r.rhs().is_finite() { fail(&mut fails, "row: one finite coefficient per variable, finite right-hand side", format!("{}: {:?} {} {}", desc, r.coefficients(), r.constraint_type(), r.rhs())); }
                        }
                        // ---- row names
                        let out: Vec<String> = lm.constraints().iter().map(|r| r.name()).filter(|n| !n.is_empty()).collect();
                        let mut dedup = out.clone(); dedup.sort(); dedup.dedup();
                        if dedup.len() != out.len() { fail(&mut fails, "non-empty row names are unique", format!("{}: {:?}", desc, out)); }
                        let nsrc = names.iter().filter(|n| !n.is_empty()).count();
                        if out.len() != nsrc { fail(&mut fails, "named rows stay named, unnamed rows stay unnamed", format!("{}: {} named source rows, output names {:?}", desc, nsrc, out)); }
                        for (i, n) in names.iter().enumerate() {
                            if n.is_empty() { continue; }
                            let first = names.iter().position(|m| m == n).unwrap() == i;
                            // the affine rows of the family keep their right-hand side up to the constant moved across; trace by name set instead for the others
                            if first && !out.iter().any(|o| o == n) { fail(&mut fails, "the first use of each user-written name is preserved", format!("{}: {} missing from {:?}", desc, n, out)); }
                        }
                        let generated: Vec<&String> = out.iter().filter(|o| !names.iter().any(|n| n == *o)).collect();
                        let distinct_user = { let mut u: Vec<&str> = names.iter().filter(|n| !n.is_empty()).cloned().collect(); u.sort(); u.dedup(); u.len() };
                        if generated.len() + distinct_user != out.len() { fail(&mut fails, "a generated name never equals a user-written name; each user-written name is used once", format!("{}: {:?}", desc, out)); }
                        // affine rows can be traced: the row whose source is the first use of a name keeps it
                        for (i, n) in names.iter().enumerate() {
                            let e = &fam[(i + shift) % fam.len()];
                            if n.is_empty() || !matches!(e, Exp::BinOp(..)) || matches!(e, Exp::BinOp(BinOp::Add, a, _) if matches!(**a, Exp::Abs(_))) { continue; }
                            let first = names.iter().position(|m| m == n).unwrap() == i;
                            if let Some(r) = lm.constraints().iter().find(|r| r.rhs() == 100.0 + i as f64) {
                                if first && r.name() != *n { fail(&mut fails, "the first use of each user-written name is preserved (same row)", format!("{}: source row {} named {} came out as {}", desc, i, n, r.name())); }
                                if !first && names.iter().any(|m| *m == r.name()) { fail(&mut fails, "a later duplicate is renamed to a name no user wrote", format!("{}: source row {} named {} came out as {}", desc, i, n, r.name())); }
                            }
                        }
                        // ---- generated rows are unnamed: the number of rows is at least the number of source rows
                        if lm.constraints().len() < names.len() { fail(&mut fails, "every source row is compiled", format!("{}: {} rows", desc, lm.constraints().len())); }
                    }
                }
            }
        }
        // ---- a missing finite bound is an error naming the variable, never a constant
        let unb: Vec<Exp> = vec![abs(bin(BinOp::Sub, v("x"), v("y"))), Exp::Max(vec![v("x"), v("y")]), Exp::Min(vec![v("x"), v("y")]), Exp::Max(vec![v("x"), num(0.0)]), Exp::Min(vec![v("x"), num(0.0)]),
                                 Exp::Max(vec![v("y"), v("x"), v("b")]), Exp::Min(vec![v("b"), v("x"), v("y")]), abs(v("x")), bin(BinOp::Sub, num(1.0), Exp::Max(vec![v("x"), v("y")]))];
        for kind in [1u8, 2, 3] { for e in unb.iter() {
            for (cmp, obj) in [(Some(Comparison::GreaterOrEqual), None), (Some(Comparison::LessOrEqual), None), (Some(Comparison::Equal), None), (None, Some(OptimizationType::Min)), (None, Some(OptimizationType::Max))] {
                cases += 1;
                let model = match (cmp, obj.clone()) {
                    (Some(c), _) => Model::new(Objective::new(OptimizationType::Satisfy, num(0.0)), vec![Constraint::new(e.clone(), c, num(1.0), String::new())], domain2(kind)),
                    (None, Some(o)) => Model::new(Objective::new(o, e.clone()), vec![], domain2(kind)),
                    _ => unreachable!(),
                };
                let cmp = cmp.unwrap_or(Comparison::Equal);
                match Linearizer::linearize(model) {
                    Err(LinearizationError::MissingFiniteBounds { variables, .. }) => if !variables.iter().any(|s| s == "x") { fail(&mut fails, "the missing-bounds error names the unbounded variables", format!("{} {} 1: {:?}", e, cmp, variables)); },
                    Err(_) => {}
                    Ok(lm) => {
                        // accepted only if no constant depends on the missing bound: all numbers finite is the least to ask
                        let bad = lm.constraints().iter().any(|r| !r.rhs().is_finite() || r.coefficients().iter().any(|c| !c.is_finite())) || lm.objective().iter().any(|c| !c.is_finite()) || !lm.objective_offset().is_finite();
                        if bad { fail(&mut fails, "no non-finite constant is emitted when a bound is missing", format!("domain kind {}: {} {} 1 / objective {:?}", kind, e, cmp, obj)); }
                    }
                }
            }
        } }
        println!("WITNESS-DONE cases={}", cases);
    }
