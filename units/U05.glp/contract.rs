//@ C05 — "expressed through the dedicated infeasible / unbounded error kinds": the Clarabel path.
@fn map_resolution_error -> r
    ensures
        error is Unbounded <==> r is Unbounded,
        error is Infeasible <==> r is Infeasible,
        (error is Other || error is Str) <==> r is Other,
@fn variable_definition -> r
    ensures r.gname == name@,
        variable_type is Boolean ==> r.gint && r.gmin == Ext::Fin(0real) && r.gmax == Ext::Fin(1real),
        variable_type matches VariableType::IntegerRange(lo, hi) ==> r.gint && r.gmin == Ext::Fin(*lo as real) && r.gmax == Ext::Fin(*hi as real),
        variable_type matches VariableType::Real(lo, hi) ==> !r.gint && r.gmin == fv(*lo) && r.gmax == fv(*hi),
        variable_type matches VariableType::NonNegativeReal(lo, hi) ==> !r.gint && r.gmin == fv(*lo) && r.gmax == fv(*hi),
