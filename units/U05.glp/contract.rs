//@ C05 — "expressed through the dedicated infeasible / unbounded error kinds": the Clarabel path.
@fn map_resolution_error -> r
    ensures
        error is Unbounded <==> r is Unbounded,
        error is Infeasible <==> r is Infeasible,
        (error is Other || error is Str) <==> r is Other,
