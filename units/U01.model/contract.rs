//@ C01 — model level: the queue is drained; each popped constraint is lowered, and what the final context demands implies it.
@fn Constraint::into_parts -> r
    ensures r.0 == self.lhs, r.1 == self.constraint_type, r.2 == self.rhs, r.3 == self.name,
@fn Constraint::is_logic_assertion -> r
    ensures r == self.is_logic_assertion,
@fn Linearizer::pop_constraint -> r
    ensures
        final(self).linear_constraints == old(self).linear_constraints, final(self).domain == old(self).domain, final(self).bounds == old(self).bounds,
        r matches Some(c) ==> old(self).constraints@ == seq![c] + final(self).constraints@,
        r is None ==> old(self).constraints@.len() == 0 && final(self).constraints@ == old(self).constraints@,
@fn lower_all_constraints @attr
#[verifier::exec_allows_no_decreases_clause]
@fn lower_all_constraints -> res
    requires lz_inv(context),
    ensures
        res matches Ok(c1) ==> c1.constraints@.len() == 0 && lz_inv(c1)
            && forall|env: Env, c: Constraint| #[trigger] lz_ok(c1, env) && #[trigger] context.constraints@.contains(c) ==> c_holds_w(c, env),
@fn lower_all_constraints @entry
    let ghost c00 = context;
    let ghost q0 = context.constraints@;
    let ghost mut popped: Seq<Constraint> = Seq::empty();
@fn lower_all_constraints @loop 1
    invariant
        lz_inv(context), loop_inv(q0, popped, context),
    ensures
        context.constraints@.len() == 0,
@fn lower_all_constraints @loop 1 @start
    let ghost a = context;
@fn lower_all_constraints @after "let Some(constraint)"
    let ghost b = context;
    let ghost c = constraint;
    proof { lemma_pop(a, b, c); }
@fn lower_all_constraints @after "let rhs = rhs.flatten().simplify();"
    proof {
        // the simplified sides denote the original sides wherever those are defined
        assert(exp_fin(lhs) && exp_fin(rhs));
        assert forall|env: Env| true implies (sem(c.lhs, env) is Some ==> #[trigger] sem(lhs, env) == sem(c.lhs, env)) && (sem(c.rhs, env) is Some ==> sem(rhs, env) == sem(c.rhs, env)) by { }
    }
@fn lower_all_constraints @before "break"
    proof {
        lemma_lz_same_view(a, context);
        assert(loop_inv(q0, popped, context)) by {
            assert forall|x: Constraint| #[trigger] q0.contains(x) implies popped.contains(x) || context.constraints@.contains(x) by { assert(popped.contains(x) || a.constraints@.contains(x)); }
        }
    }
// a bare logic assertion
@fn lower_all_constraints @before "continue" #1
    proof {
        assert forall|env: Env| #[trigger] lz_ok(context, env) implies c_holds_w(c, env) by {
            if sem(c.lhs, env) is Some { assert(sem(lhs, env) == sem(c.lhs, env)); }
        }
        lemma_step(q0, popped, a, b, context, c);
        popped = popped.push(c);
    }
// a comparison the normal form calls a tautology: nothing is emitted
@fn lower_all_constraints @before "continue" #2
    proof {
        assert forall|env: Env| #[trigger] lz_ok(context, env) implies c_holds_w(c, env) by {
            assert(dom_ok(context.domain, env)) by { reveal(lz_ok); }
            if sem(c.lhs, env) is Some && sem(c.rhs, env) is Some { assert(sem(lhs, env) == sem(c.lhs, env) && sem(rhs, env) == sem(c.rhs, env)); assert(sem(lhs, env) is Some); }
        }
        lemma_step(q0, popped, a, b, context, c);
        popped = popped.push(c);
    }
// a contradiction: the row 0 = 1 is emitted, no assignment satisfies the grown context
@fn lower_all_constraints @before "context.emit_constraint(vx_a1"
    proof { lemma_exp_fin(vx_a1); lemma_exp_fin(vx_a2); }
@fn lower_all_constraints @before "continue" #3
    proof {
        assert forall|env: Env| #[trigger] lz_ok(context, env) implies c_holds_w(c, env) by {
            assert(sem(vx_a1, env) == Some(0real) && sem(vx_a2, env) == Some(1real));
        }
        lemma_step(q0, popped, a, b, context, c);
        popped = popped.push(c);
    }
// a comparison whose normal form is a logic assertion
@fn lower_all_constraints @before "continue" #4
    proof {
        assert forall|env: Env| #[trigger] lz_ok(context, env) implies c_holds_w(c, env) by {
            lemma_lz_ext_mono(b, context, env);
            assert(dom_ok(b.domain, env)) by { reveal(lz_ok); }
            if sem(c.lhs, env) is Some && sem(c.rhs, env) is Some { assert(sem(lhs, env) == sem(c.lhs, env) && sem(rhs, env) == sem(c.rhs, env)); assert(sem(lhs, env) is Some); }
        }
        lemma_step(q0, popped, a, b, context, c);
        popped = popped.push(c);
    }
// an arithmetic comparison: a row is emitted
@fn lower_all_constraints @loop 1 @end
    proof {
        assert forall|env: Env| #[trigger] lz_ok(context, env) implies c_holds_w(c, env) by {
            if sem(c.lhs, env) is Some && sem(c.rhs, env) is Some { assert(sem(lhs, env) == sem(c.lhs, env) && sem(rhs, env) == sem(c.rhs, env)); }
        }
        lemma_step(q0, popped, a, b, context, c);
        popped = popped.push(c);
    }
