//@ C01 — soundness of the one-directional logic witnesses (base case and the n-ary connectives).
@fn directional_logic_witness @attr
#[verifier::exec_allows_no_decreases_clause]
@fn directional_logic_witness -> res
    requires lz_inv(*old(linearizer_context)), exp_fin(*exp),
    ensures
        lz_inv(*final(linearizer_context)),
        lz_ext(*old(linearizer_context), *final(linearizer_context)),
        res matches Ok(w) ==> exp_fin(w) && wit_ok(*final(linearizer_context), *exp, witness_truth, w),
@fn directional_logic_witness @keep-arms
    Exp::And
    Exp::Or
@fn directional_logic_witness @entry
    let ghost c0 = *linearizer_context;
    let ghost e0 = *exp;
    proof { lemma_exp_fin_list(*exp); }
@fn directional_logic_witness @before "if !witness_truth"
    let ghost f0 = value;
@fn directional_logic_witness @return 1
    proof {
        let w = r__->Ok_0;
        assert forall|env: Env| #[trigger] lz_ok(*linearizer_context, env) implies (sem(w, env) matches Some(v) && (v == 0real || v == 1real)
            && (v == 1real ==> (sem(*exp, env) matches Some(x) ==> truthy(x) == witness_truth))) by {
            reveal(rmul_s);
            assert(sem(*exp, env) == Some(lc_eval(f0, env)));
        }
    }
@fn directional_logic_witness @loop 1
    invariant
        vx_v2@ == exps@, vx_n2 == exps@.len(), children@.len() == vx_i2, c0 == *old(linearizer_context),
        lz_inv(*linearizer_context), lz_ext(c0, *linearizer_context),
        forall|k: int| 0 <= k < exps@.len() ==> exp_fin(#[trigger] exps@[k]),
        forall|k: int| 0 <= k < vx_i2 ==> exp_fin(#[trigger] children@[k]) && wit_ok(*linearizer_context, exps@[k], witness_truth, children@[k]),
@fn directional_logic_witness @loop 1 @start
    let ghost c1 = *linearizer_context;
    let ghost ch1 = children;
@fn directional_logic_witness @loop 1 @end
    proof {
        assert forall|k: int| 0 <= k < vx_i2 + 1 implies exp_fin(#[trigger] children@[k]) && wit_ok(*linearizer_context, exps@[k], witness_truth, children@[k]) by {
            if k < vx_i2 { assert(children@[k] == ch1@[k]); lemma_wit_mono(c1, *linearizer_context, exps@[k], witness_truth, ch1@[k]); }
        }
    }
@fn directional_logic_witness @after "let witness_id" #1
    let ghost cA = *linearizer_context;
    let ghost ch = children;
@fn directional_logic_witness @after "let witness_name" #1
    let ghost cB = *linearizer_context;
    proof { lemma_lz_same(cA, cB); }
@fn directional_logic_witness @after "linearizer_context.declare_variable(vx_a1" 
    let ghost cC = *linearizer_context;
    proof {
        assert forall|k: int| 0 <= k < ch@.len() implies wit_ok(cC, #[trigger] exps@[k], witness_truth, ch@[k]) by {
            lemma_wit_mono(cA, cB, exps@[k], witness_truth, ch@[k]); lemma_wit_mono(cB, cC, exps@[k], witness_truth, ch@[k]);
        }
        assert forall|env: Env| #[trigger] lz_ok(cC, env) implies (env[witness_name@] == 0real || env[witness_name@] == 1real) by {}
    }
@fn directional_logic_witness @loop 2
    invariant
        vx_v3@ == ch@, vx_n3 == ch@.len(), ch@.len() == exps@.len(), c0 == *old(linearizer_context),
        lz_inv(*linearizer_context), lz_ext(c0, *linearizer_context), lz_ext(cC, *linearizer_context),
        forall|k: int| 0 <= k < ch@.len() ==> exp_fin(#[trigger] ch@[k]),
        forall|k: int, env: Env| 0 <= k < vx_i3 && #[trigger] lz_ok(*linearizer_context, env) ==> (sem(#[trigger] ch@[k], env) matches Some(cv) ==> env[witness_name@] <= cv),
@fn directional_logic_witness @loop 2 @start
    let ghost c3 = *linearizer_context;
@fn directional_logic_witness @loop 2 @end
    proof {
        assert forall|k: int, env: Env| 0 <= k < vx_i3 + 1 && #[trigger] lz_ok(*linearizer_context, env) implies (sem(#[trigger] ch@[k], env) matches Some(cv) ==> env[witness_name@] <= cv) by {
            if k < vx_i3 { lemma_lz_ext_mono(c3, *linearizer_context, env); }
        }
    }
@fn directional_logic_witness @after "linearizer_context.emit_constraint(vx_a6"
    proof {
        let cf = *linearizer_context;
        assert forall|k: int| 0 <= k < ch@.len() implies wit_ok(cf, #[trigger] exps@[k], !true, ch@[k]) by { lemma_wit_mono(cC, cf, exps@[k], witness_truth, ch@[k]); }
        assert forall|env: Env| #[trigger] lz_ok(cf, env) implies (env[witness_name@] == 0real || env[witness_name@] == 1real) by { lemma_lz_ext_mono(cC, cf, env); }
        lemma_wit_sum(cf, *exps, ch@, true, witness_name, vx_a7);
    }
@fn directional_logic_witness @after "let vx_a4"
    proof { lemma_exp_fin(vx_a4); }
@fn directional_logic_witness @after "let vx_a6"
    proof { lemma_exp_fin(vx_a6); }
@fn directional_logic_witness @tail 1
    proof {
        let cf = *linearizer_context;
        lemma_exp_fin(r__->Ok_0);
        if witness_truth {
            assert forall|k: int| 0 <= k < ch@.len() implies wit_ok(cf, #[trigger] exps@[k], true, ch@[k]) by { lemma_wit_mono(cC, cf, exps@[k], witness_truth, ch@[k]); }
            assert forall|env: Env| #[trigger] lz_ok(cf, env) implies (env[witness_name@] == 0real || env[witness_name@] == 1real) by { lemma_lz_ext_mono(cC, cf, env); }
            lemma_wit_each(cf, *exps, ch@, true, witness_name);
        }
    }
@fn directional_logic_witness @loop 3
    invariant
        vx_v10@ == exps@, vx_n10 == exps@.len(), children@.len() == vx_i10, c0 == *old(linearizer_context),
        lz_inv(*linearizer_context), lz_ext(c0, *linearizer_context),
        forall|k: int| 0 <= k < exps@.len() ==> exp_fin(#[trigger] exps@[k]),
        forall|k: int| 0 <= k < vx_i10 ==> exp_fin(#[trigger] children@[k]) && wit_ok(*linearizer_context, exps@[k], witness_truth, children@[k]),
@fn directional_logic_witness @loop 3 @start
    let ghost c1 = *linearizer_context;
    let ghost ch1 = children;
@fn directional_logic_witness @loop 3 @end
    proof {
        assert forall|k: int| 0 <= k < vx_i10 + 1 implies exp_fin(#[trigger] children@[k]) && wit_ok(*linearizer_context, exps@[k], witness_truth, children@[k]) by {
            if k < vx_i10 { assert(children@[k] == ch1@[k]); lemma_wit_mono(c1, *linearizer_context, exps@[k], witness_truth, ch1@[k]); }
        }
    }
@fn directional_logic_witness @after "let witness_id" #2
    let ghost cA = *linearizer_context;
    let ghost ch = children;
@fn directional_logic_witness @after "let witness_name" #2
    let ghost cB = *linearizer_context;
    proof { lemma_lz_same(cA, cB); }
@fn directional_logic_witness @after "linearizer_context.declare_variable(vx_a9"
    let ghost cC = *linearizer_context;
    proof {
        assert forall|k: int| 0 <= k < ch@.len() implies wit_ok(cC, #[trigger] exps@[k], witness_truth, ch@[k]) by {
            lemma_wit_mono(cA, cB, exps@[k], witness_truth, ch@[k]); lemma_wit_mono(cB, cC, exps@[k], witness_truth, ch@[k]);
        }
        assert forall|env: Env| #[trigger] lz_ok(cC, env) implies (env[witness_name@] == 0real || env[witness_name@] == 1real) by {}
    }
@fn directional_logic_witness @after "let vx_a11"
    proof { lemma_exp_fin(vx_a11); }
@fn directional_logic_witness @after "linearizer_context.emit_constraint(vx_a11"
    proof {
        let cf = *linearizer_context;
        assert forall|k: int| 0 <= k < ch@.len() implies wit_ok(cf, #[trigger] exps@[k], !false, ch@[k]) by { lemma_wit_mono(cC, cf, exps@[k], witness_truth, ch@[k]); }
        assert forall|env: Env| #[trigger] lz_ok(cf, env) implies (env[witness_name@] == 0real || env[witness_name@] == 1real) by { lemma_lz_ext_mono(cC, cf, env); }
        lemma_wit_sum(cf, *exps, ch@, false, witness_name, vx_a12);
    }
@fn directional_logic_witness @loop 4
    invariant
        vx_v14@ == ch@, vx_n14 == ch@.len(), ch@.len() == exps@.len(), c0 == *old(linearizer_context),
        lz_inv(*linearizer_context), lz_ext(c0, *linearizer_context), lz_ext(cC, *linearizer_context),
        forall|k: int| 0 <= k < ch@.len() ==> exp_fin(#[trigger] ch@[k]),
        forall|k: int, env: Env| 0 <= k < vx_i14 && #[trigger] lz_ok(*linearizer_context, env) ==> (sem(#[trigger] ch@[k], env) matches Some(cv) ==> env[witness_name@] <= cv),
@fn directional_logic_witness @loop 4 @start
    let ghost c3 = *linearizer_context;
@fn directional_logic_witness @loop 4 @end
    proof {
        assert forall|k: int, env: Env| 0 <= k < vx_i14 + 1 && #[trigger] lz_ok(*linearizer_context, env) implies (sem(#[trigger] ch@[k], env) matches Some(cv) ==> env[witness_name@] <= cv) by {
            if k < vx_i14 { lemma_lz_ext_mono(c3, *linearizer_context, env); }
        }
    }
@fn directional_logic_witness @after "let vx_a15"
    proof { lemma_exp_fin(vx_a15); }
@fn directional_logic_witness @tail 2
    proof {
        let cf = *linearizer_context;
        lemma_exp_fin(r__->Ok_0);
        if !witness_truth {
            assert forall|k: int| 0 <= k < ch@.len() implies wit_ok(cf, #[trigger] exps@[k], false, ch@[k]) by { lemma_wit_mono(cC, cf, exps@[k], witness_truth, ch@[k]); }
            assert forall|env: Env| #[trigger] lz_ok(cf, env) implies (env[witness_name@] == 0real || env[witness_name@] == 1real) by { lemma_lz_ext_mono(cC, cf, env); }
            lemma_wit_each(cf, *exps, ch@, false, witness_name);
        }
    }
