//@ C05 / C14 — the two-phase start: the phase-one tableau.  n structural columns, m rows, one artificial column per row.
@fn StandardLinearModel::a_matrix -> r
    ensures r@.len() == self.constraints@.len(), forall|i: int| 0 <= i < r@.len() ==> (#[trigger] r@[i])@ == self.constraints@[i].coefficients@,
@fn StandardLinearModel::a_matrix @lettype vx_out1
    Vec<Vec<F64>>
@fn StandardLinearModel::a_matrix @loop 1
    invariant vx_n1 == self.constraints@.len(), vx_out1@.len() == vx_i1, forall|i: int| 0 <= i < vx_i1 ==> (#[trigger] vx_out1@[i])@ == self.constraints@[i].coefficients@,
@fn StandardLinearModel::b_vec -> r
    ensures r@.len() == self.constraints@.len(), forall|i: int| 0 <= i < r@.len() ==> #[trigger] r@[i] == self.constraints@[i].rhs,
@fn StandardLinearModel::b_vec @lettype vx_out1
    Vec<F64>
@fn StandardLinearModel::b_vec @loop 1
    invariant vx_n1 == self.constraints@.len(), vx_out1@.len() == vx_i1, forall|i: int| 0 <= i < vx_i1 ==> #[trigger] vx_out1@[i] == self.constraints@[i].rhs,
@fn StandardLinearModel::variables -> r
    ensures r@ == self.variables@,
@fn StandardLinearModel::objective_offset -> r
    ensures r == self.objective_offset,
@fn Tableau::new -> r
    ensures r.c == c, r.a == a, r.b == b, r.in_basis == in_basis, r.current_value == current_value, r.value_offset == value_offset, r.variables == variables, r.flip_result == flip_result,
@fn phase_one_tableau -> r
    requires model.variables@.len() + model.constraints@.len() <= usize::MAX,
        forall|i: int| 0 <= i < model.constraints@.len() ==> (#[trigger] model.constraints@[i]).coefficients@.len() == model.variables@.len()
            && fin_seq(model.constraints@[i].coefficients@) && fv(model.constraints@[i].rhs) is Fin,
    ensures ({
        let n = model.variables@.len() as int;
        let m = model.constraints@.len() as int;
        &&& tab_wf(r) && r.a@.len() == m && r.c@.len() == n + m
        &&& forall|i: int| 0 <= i < m ==> #[trigger] r.in_basis@[i] == n + i
        &&& forall|i: int| 0 <= i < m ==> #[trigger] r.b@[i] == model.constraints@[i].rhs
        // row i = the source row followed by the unit vector e_i over the artificial columns
        &&& forall|i: int, j: int| 0 <= i < m && 0 <= j < n ==> #[trigger] r.a@[i]@[j] == model.constraints@[i].coefficients@[j]
        &&& forall|i: int, j: int| 0 <= i < m && n <= j < n + m ==> fv(#[trigger] r.a@[i]@[j]) == Ext::Fin(if j == n + i { 1real } else { 0real })
        // canonical objective row: (sum of the artificial entries) - (sum of the rows); value = -(sum of the right-hand sides)
        &&& forall|x: Seq<real>| x.len() == n + m ==> #[trigger] dot(rvs(r.c@), x) == art_sum(x, n, m) - rows_sum(r.a@, x, m)
        &&& rv(r.current_value) == -b_sum(r.b@, m)
        // hence: on the solution set of the extended system the objective measures the sum of the artificial variables
        &&& forall|x: Seq<real>| x.len() == n + m && (forall|i: int| 0 <= i < m ==> dot(rvs((#[trigger] r.a@[i])@), x) == rv(r.b@[i])) ==> #[trigger] obj(r.c@, r.current_value, x) == art_sum(x, n, m)
    }),
@fn phase_one_tableau @entry
    let ghost n = model.variables@.len() as int;
    let ghost m = model.constraints@.len() as int;
    let ghost rows = model.constraints@;
@fn phase_one_tableau @loop 1
    invariant number_of_variables == n, number_of_artificial_variables == m, n + m <= usize::MAX, c@.len() == n + m, basis@.len() == m,
        forall|j: int| 0 <= j < n + m ==> fv(#[trigger] c@[j]) == Ext::Fin(if n <= j < n + i { 1real } else { 0real }),
        forall|k: int| 0 <= k < i ==> #[trigger] basis@[k] == n + k,
@fn phase_one_tableau @after "let mut value"
    let ghost a0 = a@;
    proof {
        assert(rvs(c@) =~= art_vec(n, m));
    }
@fn phase_one_tableau @loop 2
    invariant number_of_variables == n, number_of_artificial_variables == m, n + m <= usize::MAX, vx_n1 == m, a@.len() == m, b@.len() == m, c@.len() == n + m, basis@.len() == m,
        rows == model.constraints@, n == model.variables@.len(), m == rows.len(),
        forall|i: int| 0 <= i < m ==> (#[trigger] rows[i]).coefficients@.len() == n && fin_seq(rows[i].coefficients@) && fv(rows[i].rhs) is Fin,
        forall|k: int| 0 <= k < m ==> #[trigger] basis@[k] == n + k,
        forall|i: int| 0 <= i < m ==> #[trigger] b@[i] == rows[i].rhs,
        forall|i: int| vx_i1 <= i < m ==> (#[trigger] a@[i])@ == rows[i].coefficients@,
        forall|i: int| 0 <= i < vx_i1 ==> (#[trigger] a@[i])@.len() == n + m && fin_seq(a@[i]@),
        forall|i: int, j: int| 0 <= i < vx_i1 && 0 <= j < n ==> #[trigger] a@[i]@[j] == rows[i].coefficients@[j],
        forall|i: int, j: int| 0 <= i < vx_i1 && n <= j < n + m ==> fv(#[trigger] a@[i]@[j]) == Ext::Fin(if j == n + i { 1real } else { 0real }),
        fin_seq(c@), fv(value) is Fin, rv(value) == -b_sum(b@, vx_i1 as int),
        forall|x: Seq<real>| x.len() == n + m ==> #[trigger] dot(rvs(c@), x) == dot(art_vec(n, m), x) - rows_sum(a@, x, vx_i1 as int),
        variables@.len() == n + vx_i1,
@fn phase_one_tableau @after "let mut constraint = vx_vec_take"
    let ghost a1 = a@;
    let ghost c1 = c@;
    proof { assert(constraint@ == rows[i as int].coefficients@); }
@fn phase_one_tableau @after "variables.push"
    let ghost row = constraint@;
    proof {
        assert(row.len() == n + m);
        assert forall|j: int| 0 <= j < n + m implies fv(#[trigger] row[j]) is Fin by { if j < n { assert(row[j] == rows[i as int].coefficients@[j]); assert(fv(rows[i as int].coefficients@[j]) is Fin); } }
    }
@fn phase_one_tableau @loop 3
    invariant vx_n2 == n + m, constraint@ == row, row.len() == n + m, fin_seq(row), c@.len() == n + m, c1.len() == n + m, fin_seq(c1),
        forall|j: int| 0 <= j < vx_i2 ==> fv(#[trigger] c@[j]) is Fin && rv(c@[j]) == rv(c1[j]) - rv(row[j]),
        forall|j: int| vx_i2 <= j < n + m ==> #[trigger] c@[j] == c1[j],
@fn phase_one_tableau @before "a.set"
    proof {
        assert(fin_seq(c@)) by { assert forall|j: int| 0 <= j < c@.len() implies fv(#[trigger] c@[j]) is Fin by {} }
        assert forall|x: Seq<real>| x.len() == n + m implies #[trigger] dot(rvs(c@), x) == dot(art_vec(n, m), x) - rows_sum(a1.update(i as int, constraint), x, i + 1) by {
            lemma_dot_comb(rvs(c1), rvs(row), 1real, x, rvs(c@));
            lemma_rows_sum_agree(a1, a1.update(i as int, constraint), x, i as int);
            assert(dot(rvs(c1), x) == dot(art_vec(n, m), x) - rows_sum(a1, x, i as int));
        }
        assert(fv(b@[i as int]) is Fin);
    }
@fn phase_one_tableau @tail 1
    proof {
        assert forall|x: Seq<real>| x.len() == n + m implies #[trigger] dot(rvs(r__.c@), x) == art_sum(x, n, m) - rows_sum(r__.a@, x, m) by { lemma_art_dot(x, n, m); }
        assert forall|x: Seq<real>| x.len() == n + m && (forall|i: int| 0 <= i < m ==> dot(rvs((#[trigger] r__.a@[i])@), x) == rv(r__.b@[i])) implies #[trigger] obj(r__.c@, r__.current_value, x) == art_sum(x, n, m) by {
            lemma_art_dot(x, n, m);
            lemma_rows_sum_b(r__.a@, r__.b@, x, m);
        }
        assert(fin_seq(r__.b@)) by { assert forall|i: int| 0 <= i < m implies fv(#[trigger] r__.b@[i]) is Fin by { assert(fv(rows[i].rhs) is Fin); } }
    }
