    // Executable form of C15 on the REAL MILP bridge, bounded corpus: for every setting of the time limit and the MIP gap a returned solution is
    // feasible; it is labelled Optimal only if its objective is within the requested gap of the true optimum; invalid options are rejected.
    use crate::solvers::{solve_milp_lp_problem_with, MilpOptions, SolutionStatus};
    fn feasible(lp: &LinearModel, s: &LpSolution<MILPValue>) -> Result<Vec<f64>, String> {
        let vars = lp.variables();
        let mut x = vec![];
        for v in vars {
            let hits: Vec<f64> = s.assignment().iter().filter(|a| &a.name == v).map(|a| { let t: f64 = a.value.into(); t }).collect();
            if hits.len() != 1 { return Err(format!("{} has {} values", v, hits.len())); }
            x.push(hits[0]);
        }
        for (v, xv) in vars.iter().zip(x.iter()) {
            let ok = match lp.domain().get(v).map(|d| *d.get_type()) {
                Some(VariableType::Boolean) => *xv == 0.0 || *xv == 1.0,
                Some(VariableType::IntegerRange(a, b)) => *xv >= a as f64 && *xv <= b as f64 && xv.fract() == 0.0,
                Some(VariableType::NonNegativeReal(a, b)) => *xv >= a.max(0.0) - 1e-6 && *xv <= b + 1e-6,
                Some(VariableType::Real(a, b)) => *xv >= a - 1e-6 && *xv <= b + 1e-6,
                None => false,
            };
            if !ok { return Err(format!("{} = {} outside its domain", v, xv)); }
        }
        for (j, c) in lp.constraints().iter().enumerate() {
            let lhs: f64 = c.coefficients().iter().zip(x.iter()).map(|(a, b)| a * b).sum();
            let tol = 1e-6 * (1.0 + c.rhs().abs());
            let ok = match c.constraint_type() { Comparison::LessOrEqual | Comparison::Less => lhs <= c.rhs() + tol, Comparison::GreaterOrEqual | Comparison::Greater => lhs >= c.rhs() - tol, Comparison::Equal => (lhs - c.rhs()).abs() <= tol };
            if !ok { return Err(format!("row {} violated: lhs {} rhs {} at {:?}", j, lhs, c.rhs(), x)); }
        }
        Ok(x)
    }
    #[test]
    fn search() {
        let (mut cases, mut fails) = (0u64, 0u32);
        let mut distinct: std::collections::HashSet<String> = std::collections::HashSet::new();
        // knapsack-like models with a side constraint; sizes 4..10, both directions
        let mut models: Vec<LinearModel> = vec![];
        for n in [4usize, 6, 8, 10] { for dir in [OptimizationType::Max, OptimizationType::Min] { for variant in 0..3 {
            let mut lp = LinearModel::new();
            for i in 0..n { lp.add_variable(&format!("x{}", i), if variant == 2 && i % 3 == 0 { VariableType::IntegerRange(0, 3) } else { VariableType::Boolean }); }
            lp.add_variable("r", VariableType::NonNegativeReal(0.0, 5.0));
            let w: Vec<f64> = (0..n).map(|i| (3 + (7 * i + 2 * variant) % 11) as f64).chain(std::iter::once(1.0)).collect();
            let v: Vec<f64> = (0..n).map(|i| (5 + (5 * i + variant) % 13) as f64).chain(std::iter::once(0.5)).collect();
            let cap = w.iter().sum::<f64>() * 0.45;
            match dir { OptimizationType::Max => { lp.add_constraint(w.clone(), Comparison::LessOrEqual, cap); } _ => { lp.add_constraint(w.clone(), Comparison::GreaterOrEqual, cap); } }
            let mut side = vec![0.0; n + 1]; side[0] = 1.0; side[1] = 1.0; side[n] = -1.0;
            lp.add_constraint(side, Comparison::LessOrEqual, 1.0);
            lp.set_objective(v, dir.clone());
            models.push(lp);
        } } }
        let gaps: [Option<f64>; 7] = [None, Some(0.0), Some(0.1), Some(0.5), Some(-0.1), Some(f64::NAN), Some(f64::INFINITY)];
        let limits: [Option<u64>; 4] = [None, Some(0), Some(1), Some(50_000)];   // microseconds
        for lp in &models {
            let tag = format!("{}", lp).replace('\n', " | ");
            distinct.insert(tag.clone());
            let reference = match solve_milp_lp_problem_with(lp, &MilpOptions { mip_gap: None, time_limit: None }) { Ok(s) => s.value(), Err(_) => continue };
            for gap in gaps { for limit in limits {
                cases += 1;
                let opts = MilpOptions { mip_gap: gap, time_limit: limit.map(std::time::Duration::from_micros) };
                let r = solve_milp_lp_problem_with(lp, &opts);
                let mut report = |clause: &str, detail: String| {
                    if fails < 40 { println!("WITNESS-FAIL {{\"fn\": \"solve_milp_lp_problem_with\", \"clause\": \"{}\", \"mip_gap\": \"{:?}\", \"time_limit_us\": \"{:?}\", \"model\": \"{}\", \"detail\": \"{}\"}}", clause, gap, limit, tag, detail.replace('"', "'")); }
                    fails += 1;
                };
                let invalid = matches!(gap, Some(g) if !(g.is_finite() && g >= 0.0));
                match r {
                    Ok(s) => {
                        if invalid { report("invalid option values are rejected with an error", format!("returned Ok({})", s.value())); continue; }
                        match feasible(lp, &s) {
                            Err(e) => report("a returned solution is feasible for the model", e),
                            Ok(x) => {
                                let o: f64 = lp.objective().iter().zip(x.iter()).map(|(a, b)| a * b).sum::<f64>() + lp.objective_offset();
                                if (o - s.value()).abs() > 1e-6 * (1.0 + o.abs()) { report("the reported value is the objective at the returned point", format!("{} vs {}", o, s.value())); }
                                if matches!(s.status(), SolutionStatus::Optimal) {
                                    let g = gap.unwrap_or(0.0);
                                    let allowed = g * s.value().abs().max(reference.abs()) + 1e-6 * (1.0 + reference.abs());
                                    if (s.value() - reference).abs() > allowed { report("a solution is labelled optimal only if its objective is within the requested gap of the true optimum", format!("labelled Optimal with value {}, true optimum {}", s.value(), reference)); }
                                }
                            }
                        }
                    }
                    Err(_) => {}
                }
            } }
        }
        println!("WITNESS-DONE cases={} distinct={}", cases, distinct.len());
    }
