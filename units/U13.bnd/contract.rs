//@ C13 — "bounded variables become rows": the rows added for the declared ranges.  x ranges over ALL real vectors long enough;
//@ the sign restriction of the variables that stay non-negative is the only hypothesis (it is what the standard form keeps implicit).
@fn DomainVariable::get_type -> r
    ensures *r == self.as_type,
@fn std_bound_rows
    requires domain.wf(),
        forall|i: int| 0 <= i < variables.len() ==> domain.has(#[trigger] variables@[i]@),
        forall|i: int| 0 <= i < variables.len() ==> real_kind(#[trigger] vtype(variables@, *domain, i)) && std_wf(vtype(variables@, *domain, i)),
    ensures
        final(constraints)@.len() >= old(constraints)@.len(),
        forall|j: int| 0 <= j < old(constraints)@.len() ==> final(constraints)@[j] == old(constraints)@[j],
        forall|j: int| old(constraints)@.len() <= j < final(constraints)@.len() ==>
            (#[trigger] final(constraints)@[j]).coefficients.len() == variables.len() && fin_seq(final(constraints)@[j].coefficients@) && finite(final(constraints)@[j].rhs)
            && (final(constraints)@[j].constraint_type is LessOrEqual || final(constraints)@[j].constraint_type is GreaterOrEqual),
        forall|x: Seq<real>| x.len() >= variables.len() && #[trigger] sign_ok(variables@, *domain, x) ==>
            (rows_hold_from(final(constraints)@, old(constraints)@.len() as int, x) <==> doms_upto(variables@, *domain, variables.len() as int, x)),
@fn std_bound_rows @entry
    let ghost c0 = constraints@;
    let ghost from = constraints@.len() as int;
@fn std_bound_rows @loop 1
    invariant
        vx_n2 == variables.len(), vx_i2 <= vx_n2, domain.wf(), from == c0.len(), c0 == old(constraints)@,
        forall|i: int| 0 <= i < variables.len() ==> domain.has(#[trigger] variables@[i]@),
        forall|i: int| 0 <= i < variables.len() ==> real_kind(#[trigger] vtype(variables@, *domain, i)) && std_wf(vtype(variables@, *domain, i)),
        constraints@.len() >= from,
        forall|j: int| 0 <= j < from ==> constraints@[j] == c0[j],
        forall|j: int| from <= j < constraints@.len() ==>
            (#[trigger] constraints@[j]).coefficients.len() == variables.len() && fin_seq(constraints@[j].coefficients@) && finite(constraints@[j].rhs)
            && (constraints@[j].constraint_type is LessOrEqual || constraints@[j].constraint_type is GreaterOrEqual),
        forall|x: Seq<real>| x.len() >= variables.len() && #[trigger] sign_ok(variables@, *domain, x) ==>
            (rows_hold_from(constraints@, from, x) <==> doms_upto(variables@, *domain, vx_i2 as int, x)),
    decreases vx_n2 - vx_i2,
@fn std_bound_rows @after "let domain_type"
    let ghost cs = constraints@;
    let ghost t = vtype(variables@, *domain, i as int);
    proof {
        assert(domain.has(variables@[i as int]@));
        assert(*domain_type == t);
        assert(real_kind(t) && std_wf(t));
        // one more variable: its range joins the conjunction
        assert forall|x: Seq<real>| doms_upto(variables@, *domain, i + 1, x) <==> (doms_upto(variables@, *domain, i as int, x) && in_domain(t, #[trigger] x[i as int])) by {
            if doms_upto(variables@, *domain, i as int, x) && in_domain(t, x[i as int]) {
                assert forall|k: int| 0 <= k < i + 1 implies in_domain(vtype(variables@, *domain, k), #[trigger] x[k]) by {}
            }
        }
    }
@fn std_bound_rows @after "coeffs[" #1
    let ghost cg = coeffs@;
    proof { assert forall|j: int| 0 <= j < cg.len() implies fv(#[trigger] cg[j]) is Fin by { if j != i { assert(fv(cg[j]) == Ext::Fin(0real)); } } }
@fn std_bound_rows @after "coeffs[" #2
    let ghost cg = coeffs@;
    proof { assert forall|j: int| 0 <= j < cg.len() implies fv(#[trigger] cg[j]) is Fin by { if j != i { assert(fv(cg[j]) == Ext::Fin(0real)); } } }
@fn std_bound_rows @after "if max" #1
    proof {
        let lo_p = !ext_eq(fv(min), Ext::NegInf);
        let hi_p = !ext_eq(fv(max), Ext::PosInf);
        assert forall|x: Seq<real>| x.len() >= variables.len() && #[trigger] sign_ok(variables@, *domain, x)
            implies (rows_hold_from(constraints@, from, x) <==> doms_upto(variables@, *domain, vx_i2 as int, x)) by {
            lemma_unit_row(cg, i as int, x);
            let s1 = if lo_p { cs.push(constraints@[cs.len() as int]) } else { cs };
            if lo_p { lemma_rows_push(cs, constraints@[cs.len() as int], from, x); }
            if hi_p { lemma_rows_push(s1, constraints@[s1.len() as int], from, x); assert(constraints@ =~= s1.push(constraints@[s1.len() as int])); } else { assert(constraints@ =~= s1); }
            assert(in_domain(t, x[i as int]) == in_domain(t, x[i as int]));
        }
    }
@fn std_bound_rows @after "if max" #2
    proof {
        let lo_p = !ext_eq(fv(min), Ext::Fin(0real));
        let hi_p = !ext_eq(fv(max), Ext::PosInf);
        assert forall|x: Seq<real>| x.len() >= variables.len() && #[trigger] sign_ok(variables@, *domain, x)
            implies (rows_hold_from(constraints@, from, x) <==> doms_upto(variables@, *domain, vx_i2 as int, x)) by {
            lemma_unit_row(cg, i as int, x);
            assert(x[i as int] >= 0real);
            let s1 = if lo_p { cs.push(constraints@[cs.len() as int]) } else { cs };
            if lo_p { lemma_rows_push(cs, constraints@[cs.len() as int], from, x); }
            if hi_p { lemma_rows_push(s1, constraints@[s1.len() as int], from, x); assert(constraints@ =~= s1.push(constraints@[s1.len() as int])); } else { assert(constraints@ =~= s1); }
            assert(in_domain(t, x[i as int]) == in_domain(t, x[i as int]));
        }
    }
