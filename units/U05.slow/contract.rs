//@ C05 — "expressed through the dedicated infeasible/unbounded error kinds".  The three stages are named by ghost
//@ functions (their outcomes are whatever the real callees return); the contract is about the MAPPING done here.
@fn LinearModel::into_standard_form @assumed -> r
    ensures r == std_of(self),
@fn StandardLinearModel::into_tableau @assumed -> r
    ensures r == tab_of(self),
@fn Tableau::solve @assumed -> r
    ensures r == solve_of(*old(self), limit),
@fn OptimalTableau::as_lp_solution @assumed -> r
    ensures true,
@fn solve_real_lp_problem_slow_simplex -> res
    ensures
        (std_of(*lp) matches Ok(st) && tab_of(st) matches Err(CanonicalTransformError::Infesible(_))) ==> res matches Err(SolverError::Infeasible),
        (std_of(*lp) matches Ok(st) && tab_of(st) matches Ok(tb) && solve_of(tb, limit) matches Err(SimplexError::Unbounded)) ==> res matches Err(SolverError::Unbounded),
        res matches Err(SolverError::Infeasible) ==> (std_of(*lp) matches Err(SolverError::Infeasible)) || (std_of(*lp) matches Ok(st) && tab_of(st) matches Err(CanonicalTransformError::Infesible(_))),
        res matches Err(SolverError::Unbounded) ==> (std_of(*lp) matches Err(SolverError::Unbounded)) || (std_of(*lp) matches Ok(st) && tab_of(st) matches Ok(tb) && solve_of(tb, limit) matches Err(SimplexError::Unbounded)),
        res is Ok ==> (std_of(*lp) matches Ok(st) && tab_of(st) matches Ok(tb) && solve_of(tb, limit) is Ok),
@raw
pub uninterp spec fn std_of(lp: LinearModel) -> Result<StandardLinearModel, SolverError>;
pub uninterp spec fn tab_of(st: StandardLinearModel) -> Result<Tableau, CanonicalTransformError>;
pub uninterp spec fn solve_of(tb: Tableau, limit: i64) -> Result<OptimalTableau, SimplexError>;
