    // Executable form of C16 on the REAL entry points, bounded corpus.  A model is described once (type M below) and expressed
    // twice: as source text (every operator application parenthesised, so that both front ends build the same tree) and through
    // the fluent builder (overloaded operators, helper functions, with / with_all, objective first or last).
    use crate::builder::{abs as b_abs, max as b_max, min as b_min, all as b_all, any as b_any};
    use crate::pipe::{CompilerPipe, LinearModelPipe, MILPSolverPipe, ModelPipe, PipeContext, PipeRunner, PipeableData, PreModelPipe, AutoSolverPipe};
    #[derive(Clone, Debug)]
    enum T { N(f64), V(usize), Add(Box<T>, Box<T>), Sub(Box<T>, Box<T>), Mul(Box<T>, Box<T>), Neg(Box<T>), Abs(Box<T>), Min(Vec<T>), Max(Vec<T>),
             And(Vec<T>), Or(Vec<T>), Not(Box<T>), Imp(Box<T>, Box<T>), Iff(Box<T>, Box<T>), Xor(Box<T>, Box<T>) }
    #[derive(Clone, Debug)]
    enum C { Cmp(T, Comparison, T), Logic(T) }
    #[derive(Clone, Debug)]
    struct M { vars: Vec<(String, VariableType)>, obj: Option<(OptimizationType, T)>, cons: Vec<C> }
    fn bx(t: T) -> Box<T> { Box::new(t) }
    // ----- independent oracle: the value of a description at an assignment -----
    fn val(t: &T, x: &[f64]) -> f64 {
        let tr = |v: f64| v != 0.0; let b = |c: bool| if c { 1.0 } else { 0.0 };
        match t {
            T::N(n) => *n, T::V(i) => x[*i],
            T::Add(a, c) => val(a, x) + val(c, x), T::Sub(a, c) => val(a, x) - val(c, x), T::Mul(a, c) => val(a, x) * val(c, x),
            T::Neg(a) => -val(a, x), T::Abs(a) => val(a, x).abs(),
            T::Min(v) => v.iter().map(|e| val(e, x)).fold(f64::INFINITY, f64::min), T::Max(v) => v.iter().map(|e| val(e, x)).fold(f64::NEG_INFINITY, f64::max),
            T::And(v) => b(v.iter().all(|e| tr(val(e, x)))), T::Or(v) => b(v.iter().any(|e| tr(val(e, x)))), T::Not(a) => b(!tr(val(a, x))),
            T::Imp(a, c) => b(!tr(val(a, x)) || tr(val(c, x))), T::Iff(a, c) => b(tr(val(a, x)) == tr(val(c, x))), T::Xor(a, c) => b(tr(val(a, x)) != tr(val(c, x))),
        }
    }
    fn holds(c: &C, x: &[f64]) -> bool {
        let e = 1e-6;
        match c {
            C::Logic(t) => val(t, x) != 0.0,
            C::Cmp(l, k, r) => { let (a, b) = (val(l, x), val(r, x)); match k { Comparison::LessOrEqual => a <= b + e, Comparison::GreaterOrEqual => a >= b - e, Comparison::Equal => (a - b).abs() <= e, Comparison::Less => a < b + e, Comparison::Greater => a > b - e } }
        }
    }
    // ----- door 1: source text -----
    fn num(n: f64) -> String { if n < 0.0 { format!("(-{})", -n) } else { format!("{}", n) } }
    fn txt(t: &T, names: &[String]) -> String {
        let l = |v: &Vec<T>| v.iter().map(|e| txt(e, names)).collect::<Vec<_>>().join(", ");
        match t {
            T::N(n) => num(*n), T::V(i) => names[*i].clone(),
            T::Add(a, c) => format!("({} + {})", txt(a, names), txt(c, names)), T::Sub(a, c) => format!("({} - {})", txt(a, names), txt(c, names)),
            T::Mul(a, c) => format!("({} * {})", txt(a, names), txt(c, names)), T::Neg(a) => format!("(-{})", txt(a, names)),
            T::Abs(a) => format!("abs{{ {} }}", txt(a, names)), T::Min(v) => format!("min{{ {} }}", l(v)), T::Max(v) => format!("max{{ {} }}", l(v)),
            T::And(v) => format!("({})", v.iter().map(|e| txt(e, names)).collect::<Vec<_>>().join(" and ")),
            T::Or(v) => format!("({})", v.iter().map(|e| txt(e, names)).collect::<Vec<_>>().join(" or ")),
            T::Not(a) => format!("(not {})", txt(a, names)), T::Imp(a, c) => format!("({} implies {})", txt(a, names), txt(c, names)),
            T::Iff(a, c) => format!("({} iff {})", txt(a, names), txt(c, names)), T::Xor(a, c) => format!("({} xor {})", txt(a, names), txt(c, names)),
        }
    }
    fn decl(t: &VariableType) -> String {
        match t { VariableType::Boolean => "Boolean".to_string(), VariableType::IntegerRange(a, b) => format!("IntegerRange({}, {})", a, b),
                  VariableType::NonNegativeReal(a, b) => format!("NonNegativeReal({}, {})", a, b), VariableType::Real(a, b) => format!("Real({}, {})", a, b) }
    }
    fn source(m: &M) -> String {
        let names: Vec<String> = m.vars.iter().map(|v| v.0.clone()).collect();
        let mut s = match &m.obj { Some((OptimizationType::Max, t)) => format!("max {}\n", txt(t, &names)), Some((OptimizationType::Min, t)) => format!("min {}\n", txt(t, &names)), _ => "solve\n".to_string() };
        s.push_str("s.t.\n");
        for c in &m.cons {
            match c { C::Logic(t) => s.push_str(&format!("    {}\n", txt(t, &names))),
                      C::Cmp(l, k, r) => s.push_str(&format!("    {} {} {}\n", txt(l, &names), k, txt(r, &names))) }
        }
        s.push_str("define\n");
        for (n, t) in &m.vars { s.push_str(&format!("    {} as {}\n", n, decl(t))); }
        s
    }
    // ----- door 2: the fluent builder (operators and helpers) -----
    fn bld(t: &T, h: &[Var]) -> Expr {
        match t {
            T::N(n) => Expr::from(*n), T::V(i) => Expr::from(h[*i]),
            T::Add(a, c) => match (&**a, &**c) { (T::V(i), T::V(j)) => h[*i] + h[*j], (T::V(i), T::N(n)) => h[*i] + *n, (T::N(n), T::V(j)) => *n + h[*j], (T::V(i), _) => h[*i] + bld(c, h), (_, T::V(j)) => bld(a, h) + h[*j], _ => bld(a, h) + bld(c, h) },
            T::Sub(a, c) => match (&**a, &**c) { (T::V(i), T::V(j)) => h[*i] - h[*j], (T::V(i), T::N(n)) => h[*i] - *n, (T::N(n), T::V(j)) => *n - h[*j], (T::V(i), _) => h[*i] - bld(c, h), (_, T::V(j)) => bld(a, h) - h[*j], _ => bld(a, h) - bld(c, h) },
            T::Mul(a, c) => match (&**a, &**c) { (T::N(n), T::V(j)) => *n * h[*j], (T::V(i), T::N(n)) => h[*i] * *n, (T::N(n), _) => *n * bld(c, h), (_, T::N(n)) => bld(a, h) * *n, _ => bld(a, h) * bld(c, h) },
            T::Neg(a) => match &**a { T::V(i) => -h[*i], _ => -bld(a, h) },
            T::Abs(a) => b_abs(bld(a, h)), T::Min(v) => b_min(v.iter().map(|e| bld(e, h)).collect::<Vec<_>>()), T::Max(v) => b_max(v.iter().map(|e| bld(e, h)).collect::<Vec<_>>()),
            T::And(v) => if v.len() == 2 { match (&v[0], &v[1]) { (T::V(i), T::V(j)) => h[*i] & h[*j], (T::V(i), _) => h[*i] & bld(&v[1], h), (_, T::V(j)) => bld(&v[0], h) & h[*j], _ => bld(&v[0], h) & bld(&v[1], h) } } else { b_all(v.iter().map(|e| bld(e, h)).collect::<Vec<_>>()) },
            T::Or(v) => if v.len() == 2 { match (&v[0], &v[1]) { (T::V(i), T::V(j)) => h[*i] | h[*j], (T::V(i), _) => h[*i] | bld(&v[1], h), (_, T::V(j)) => bld(&v[0], h) | h[*j], _ => bld(&v[0], h) | bld(&v[1], h) } } else { b_any(v.iter().map(|e| bld(e, h)).collect::<Vec<_>>()) },
            T::Not(a) => match &**a { T::V(i) => !h[*i], _ => !bld(a, h) },
            T::Imp(a, c) => match &**a { T::V(i) => h[*i].implies(bld(c, h)), _ => bld(a, h).implies(bld(c, h)) },
            T::Iff(a, c) => match &**a { T::V(i) => h[*i].iff(bld(c, h)), _ => bld(a, h).iff(bld(c, h)) },
            T::Xor(a, c) => match (&**a, &**c) { (T::V(i), T::V(j)) => h[*i] ^ h[*j], (T::V(i), _) => h[*i] ^ bld(c, h), (_, T::V(j)) => bld(a, h) ^ h[*j], _ => bld(a, h) ^ bld(c, h) },
        }
    }
    // order: 0 = objective first, constraints one by one; 1 = constraints (with_all) then objective; 2 = objective in the middle
    fn builder(m: &M, order: u8) -> (ModelBuilder, Vec<Var>) {
        let mut b = ModelBuilder::new();
        let h: Vec<Var> = m.vars.iter().map(|(n, t)| b.add_var(n.clone(), *t)).collect();
        let cons: Vec<BuilderConstraint> = m.cons.iter().map(|c| match c {
            C::Logic(t) => BuilderConstraint::new_logic_assertion(bld(t, &h), String::new()),
            C::Cmp(l, k, r) => BuilderConstraint::new(bld(l, &h), *k, bld(r, &h), String::new()) }).collect();
        let set_obj = |b: ModelBuilder| match &m.obj { Some((OptimizationType::Max, t)) => b.maximize(bld(t, &h)), Some((OptimizationType::Min, t)) => b.minimize(bld(t, &h)), Some(_) => b.satisfy(), None => b };
        let b = match order {
            0 => { let mut b = set_obj(b); for c in cons { b = b.with(c); } b }
            1 => set_obj(b.with_all(cons)),
            _ => { let k = cons.len() / 2; let mut it = cons.into_iter(); let first: Vec<_> = it.by_ref().take(k).collect(); let b = set_obj(b.with_all(first)); b.with_all(it) }
        };
        (b, h)
    }
    // ----- the corpus -----
    fn corpus() -> Vec<M> {
        use T::*;
        let v = |i| V(i); let n = |x: f64| N(x);
        let add = |a, b| Add(bx(a), bx(b)); let sub = |a, b| Sub(bx(a), bx(b)); let mul = |a, b| Mul(bx(a), bx(b));
        let (le, ge, eq) = (Comparison::LessOrEqual, Comparison::GreaterOrEqual, Comparison::Equal);
        let ints = |k: usize| -> Vec<(String, VariableType)> { (0..k).map(|i| (format!("x{}", i), VariableType::IntegerRange(0, 10))).collect() };
        let bools = |k: usize| -> Vec<(String, VariableType)> { (0..k).map(|i| (format!("p{}", i), VariableType::Boolean)).collect() };
        let reals = |k: usize| -> Vec<(String, VariableType)> { (0..k).map(|i| (format!("r{}", i), VariableType::Real(-8.0, 8.0))).collect() };
        let mut out = vec![];
        // linear integer models, objective kinds, unused variables
        for (k, used) in [(2usize, 2usize), (3, 3), (3, 2), (4, 2)] {
            let obj = (0..used).fold(n(0.0), |acc, i| add(acc, mul(n((i + 2) as f64), v(i))));
            let cons: Vec<C> = (0..used).map(|i| C::Cmp(v(i), le.clone(), n((3 + 2 * i) as f64))).chain(std::iter::once(C::Cmp((0..used).fold(n(0.0), |a, i| add(a, v(i))), le.clone(), n(9.0)))).collect();
            out.push(M { vars: ints(k), obj: Some((OptimizationType::Max, obj.clone())), cons: cons.clone() });
            out.push(M { vars: ints(k), obj: Some((OptimizationType::Min, sub(n(4.0), obj.clone()))), cons: cons.clone() });
            out.push(M { vars: ints(k), obj: None, cons: cons.clone() });
            out.push(M { vars: ints(k), obj: Some((OptimizationType::Satisfy, n(0.0))), cons });
        }
        // operand order, subtraction and negation
        for e in [sub(v(0), sub(v(1), v(2))), sub(sub(v(0), v(1)), v(2)), Neg(bx(add(v(0), v(1)))), sub(n(10.0), mul(n(2.0), v(0))), add(mul(v(0), n(3.0)), Neg(bx(v(1)))), mul(Neg(bx(n(2.0))), sub(v(1), v(0))), mul(sub(v(2), n(1.0)), n(0.5))] {
            out.push(M { vars: ints(3), obj: Some((OptimizationType::Max, e.clone())), cons: vec![C::Cmp(add(add(v(0), v(1)), v(2)), le.clone(), n(12.0)), C::Cmp(sub(v(0), v(1)), ge.clone(), n(-4.0)), C::Cmp(v(2), ge.clone(), n(1.0))] });
            out.push(M { vars: ints(3), obj: Some((OptimizationType::Min, add(v(0), add(v(1), v(2))))), cons: vec![C::Cmp(e.clone(), ge.clone(), n(2.0)), C::Cmp(v(0), le.clone(), n(7.0))] });
        }
        // abs / min / max
        for e in [Abs(bx(sub(v(0), v(1)))), Min(vec![v(0), sub(v(1), n(1.0))]), Max(vec![v(0), Neg(bx(v(1))), n(2.0)]), sub(mul(n(2.0), Abs(bx(v(0)))), Max(vec![v(1), v(0)])), Min(vec![v(0), v(1), n(3.5)])] {
            out.push(M { vars: reals(2), obj: Some((OptimizationType::Min, add(e.clone(), mul(n(0.25), v(1))))), cons: vec![C::Cmp(sub(v(0), v(1)), ge.clone(), n(1.5)), C::Cmp(add(v(0), v(1)), le.clone(), n(6.0)), C::Cmp(v(1), ge.clone(), n(-3.0))] });
            out.push(M { vars: reals(2), obj: Some((OptimizationType::Max, v(0))), cons: vec![C::Cmp(e.clone(), le.clone(), n(4.0)), C::Cmp(v(0), le.clone(), n(5.0)), C::Cmp(v(1), eq.clone(), n(1.0))] });
        }
        // logic
        let lg: Vec<T> = vec![And(vec![v(0), v(1)]), Or(vec![v(0), And(vec![v(1), v(2)])]), And(vec![Or(vec![v(0), v(1)]), v(2)]), Not(bx(v(0))), Not(bx(And(vec![v(0), v(1)]))), Imp(bx(v(0)), bx(v(1))),
            Imp(bx(Imp(bx(v(0)), bx(v(1)))), bx(v(2))), Imp(bx(v(0)), bx(Imp(bx(v(1)), bx(v(2))))), Iff(bx(v(0)), bx(Not(bx(v(1))))), Xor(bx(v(0)), bx(v(1))), Xor(bx(Xor(bx(v(0)), bx(v(1)))), bx(v(2))),
            And(vec![v(0), v(1), v(2)]), Or(vec![v(0), v(1), v(2)]), Iff(bx(Or(vec![v(0), v(1)])), bx(v(2))), Imp(bx(v(2)), bx(Not(bx(v(0)))))];
        for e in &lg {
            out.push(M { vars: bools(3), obj: Some((OptimizationType::Max, add(add(mul(n(5.0), v(0)), mul(n(8.0), v(1))), mul(n(12.0), v(2))))), cons: vec![C::Logic(e.clone()), C::Cmp(add(add(mul(n(2.0), v(0)), mul(n(3.0), v(1))), mul(n(5.0), v(2))), le.clone(), n(8.0))] });
            out.push(M { vars: bools(3), obj: Some((OptimizationType::Min, add(add(v(0), mul(n(2.0), v(1))), mul(n(3.0), v(2))))), cons: vec![C::Cmp(add(e.clone(), v(2)), ge.clone(), n(1.0)), C::Logic(Or(vec![v(0), v(1)]))] });
            out.push(M { vars: bools(3), obj: None, cons: vec![C::Logic(e.clone()), C::Logic(Not(bx(And(vec![v(0), v(1), v(2)]))))] });
        }
        // infeasible and unbounded verdicts
        out.push(M { vars: ints(2), obj: Some((OptimizationType::Max, add(v(0), v(1)))), cons: vec![C::Cmp(v(0), ge.clone(), n(4.0)), C::Cmp(v(0), le.clone(), n(3.0))] });
        out.push(M { vars: bools(2), obj: None, cons: vec![C::Logic(And(vec![v(0), v(1)])), C::Logic(Not(bx(v(0))))] });
        out.push(M { vars: vec![("u".to_string(), VariableType::NonNegativeReal(0.0, f64::INFINITY)), ("w".to_string(), VariableType::Real(f64::NEG_INFINITY, f64::INFINITY))], obj: Some((OptimizationType::Max, add(v(0), v(1)))), cons: vec![C::Cmp(sub(v(0), v(1)), le.clone(), n(3.0))] });
        // mixed kinds
        out.push(M { vars: vec![("a".to_string(), VariableType::Real(-10.0, 10.0)), ("k".to_string(), VariableType::IntegerRange(0, 5)), ("z".to_string(), VariableType::NonNegativeReal(0.0, 50.0)), ("flag".to_string(), VariableType::Boolean), ("spare".to_string(), VariableType::IntegerRange(2, 6))],
                     obj: Some((OptimizationType::Min, add(Abs(bx(sub(v(0), v(1)))), v(2)))), cons: vec![C::Cmp(v(2), ge.clone(), sub(v(0), n(2.0))), C::Cmp(v(2), ge.clone(), Neg(bx(v(0)))), C::Cmp(v(1), le.clone(), add(n(3.0), mul(n(2.0), v(3)))), C::Cmp(v(0), ge.clone(), n(4.5))] });
        out
    }
    fn decl_inf(t: &VariableType) -> bool { match t { VariableType::NonNegativeReal(_, b) => b.is_infinite(), VariableType::Real(a, b) => a.is_infinite() || b.is_infinite(), _ => false } }
    fn in_domain(t: &VariableType, x: f64) -> bool {
        let e = 1e-6;
        match t { VariableType::Boolean => (x - 0.0).abs() <= e || (x - 1.0).abs() <= e, VariableType::IntegerRange(a, b) => x >= *a as f64 - e && x <= *b as f64 + e && (x - x.round()).abs() <= e,
                  VariableType::NonNegativeReal(a, b) => x >= a.max(0.0) - e && x <= *b + e, VariableType::Real(a, b) => x >= *a - e && x <= *b + e }
    }
    fn verdict<T>(r: &Result<LpSolution<T>, String>) -> String where T: Clone + Copy + serde::Serialize + serde::de::DeserializeOwned + std::fmt::Display { match r { Ok(s) => format!("Ok({:.6})", s.value() + 0.0), Err(e) => format!("Err({})", e) } }
    #[test]
    fn search() {
        let (mut cases, mut fails) = (0u64, 0u32);
        let mut distinct: std::collections::HashSet<String> = std::collections::HashSet::new();
        let esc = |s: &str| s.replace('\\', "\\\\").replace('"', "'").replace('\n', "\\n").replace('\t', " ");
        for (mi, m) in corpus().iter().enumerate() {
            let mut src = source(m);
            // the text language writes unbounded domains without arguments
            if m.vars.iter().any(|v| decl_inf(&v.1)) { src = src.replace("NonNegativeReal(0, inf)", "NonNegativeReal").replace("Real(-inf, inf)", "Real"); }
            let mut report = |fn_: &str, clause: &str, detail: String| {
                if fails < 60 { println!("WITNESS-FAIL {{\"fn\": \"{}\", \"clause\": \"{}\", \"model\": {}, \"source\": \"{}\", \"detail\": \"{}\"}}", fn_, clause, mi, esc(&src), esc(&detail)); }
                fails += 1;
            };
            // door 1: text -> parser -> model -> linear model
            let lin_t = match RoocParser::new(src.clone()).parse_and_transform(vec![], &IndexMap::new()).and_then(|mm| Linearizer::linearize(mm).map_err(|e| e.to_string())) {
                Ok(l) => l, Err(e) => { report("RoocParser / Linearizer", "the corpus text compiles", e); continue; } };
            cases += 1;
            if distinct.insert(lin_t.to_string()) && distinct.len() % 20 == 1 { println!("WITNESS-SAMPLE {{\"source\": \"{}\", \"linear_model\": \"{}\"}}", esc(&src), esc(&lin_t.to_string())); }
            let all_used = { let s = src.split("define").next().unwrap_or("").to_string(); m.vars.iter().all(|v| s.contains(&v.0)) };
            let names: Vec<String> = m.vars.iter().map(|v| v.0.clone()).collect();
            let sol_t: Result<LpSolution<MILPValue>, String> = solve_milp_lp_problem(&lin_t).map_err(|e| e.to_string());
            let want = verdict(&sol_t);
            // checks a solution against the description: every declared variable that the door reports has a value in its domain,
            // the values satisfy every constraint of the description and give the reported objective value
            let check_solution = |who: &str, s: &LpSolution<MILPValue>, need_all: bool, report: &mut dyn FnMut(&str, &str, String)| {
                let mut x = vec![0.0f64; names.len()];
                for (i, nm) in names.iter().enumerate() {
                    match s.value_of(nm) {
                        Some(vv) => { let f: f64 = vv.into(); x[i] = f; if !in_domain(&m.vars[i].1, f) { report(who, "a declared variable resolves to a value inside its domain", format!("{} = {} not in {}", nm, f, decl(&m.vars[i].1))); } }
                        None => { if need_all { report(who, "a declared (even unused) builder variable resolves to a value", format!("{} has no value", nm)); } else { x[i] = match m.vars[i].1 { VariableType::IntegerRange(a, _) => a as f64, VariableType::Real(a, _) if a.is_finite() => a.max(0.0f64.min(a.abs())), _ => 0.0 }; } }
                    }
                }
                for (ci, c) in m.cons.iter().enumerate() { if !holds(c, &x) { report(who, "the solution satisfies every constraint of the model (language semantics)", format!("constraint #{} fails at {:?}", ci, x)); } }
                if let Some((k, t)) = &m.obj { if !matches!(k, OptimizationType::Satisfy) { let o = val(t, &x); if (o - s.value()).abs() > 1e-6 * (1.0 + o.abs()) { report(who, "the reported optimal value is the value of the objective at the solution", format!("objective at {:?} is {}, reported {}", x, o, s.value())); } } }
                x
            };
            if let Ok(s) = &sol_t { check_solution("RoocParser + Linearizer + solve_milp_lp_problem", s, false, &mut report); }
            // door 3: one-shot solver; door 4: staged pipes (MILP and auto presets)
            let one: Result<LpSolution<MILPValue>, String> = match RoocSolver::try_new(src.clone()) { Ok(s) => s.solve_using(solve_milp_lp_problem).map_err(|e| match e { RoocSolverError::Solver(e) => e.to_string(), o => format!("other: {}", o) }), Err(e) => Err(format!("compile: {}", e.to_string_from_source(&src))) };
            if verdict(&one) != want { report("RoocSolver::solve_using", "the one-shot entry point gives the same verdict and optimal value as the staged compilation", format!("staged: {} one-shot: {}", want, verdict(&one))); }
            for (pname, last) in [("MILPSolverPipe", Box::new(MILPSolverPipe::new()) as Box<dyn crate::pipe::Pipeable>), ("AutoSolverPipe", Box::new(AutoSolverPipe::new()) as Box<dyn crate::pipe::Pipeable>)] {
                let runner = PipeRunner::new(vec![Box::new(CompilerPipe::new()), Box::new(PreModelPipe::new()), Box::new(ModelPipe::new()), Box::new(LinearModelPipe::new()), last]);
                let fns = IndexMap::new();
                let got: Result<LpSolution<MILPValue>, String> = match runner.run(PipeableData::String(src.clone()), &PipeContext::new(vec![], &fns)) {
                    Ok(mut all) => {
                        // the staged linear model is the one the direct calls produce
                        if let Some(PipeableData::LinearModel(pl)) = all.iter().find(|d| matches!(d, PipeableData::LinearModel(_))) { if pl.to_string() != lin_t.to_string() { report("PipeRunner::run", "the staged pipes compile the same linear model as the direct calls", format!("direct: {} || pipes: {}", lin_t, pl)); } }
                        match all.pop() { Some(PipeableData::MILPSolution(s)) => Ok(s), Some(o) => Err(format!("unexpected final data {:?}", o.get_type())), None => Err("no data".to_string()) }
                    }
                    Err((e, _)) => Err(e.to_string()),
                };
                let gv = verdict(&got);
                // pipe errors wrap the solver error text: compare the verdict kind and the value
                let same = match (&got, &sol_t) { (Ok(a), Ok(b)) => (a.value() - b.value()).abs() <= 1e-6 * (1.0 + b.value().abs()), (Err(a), Err(b)) => a.contains(b.as_str()) || b.contains(a.as_str()), _ => false };
                if !same { report(&format!("PipeRunner::run / {}", pname), "the staged pipes give the same verdict and optimal value as the direct calls", format!("direct: {} pipes: {}", want, gv)); }
                if let Ok(s) = &got { check_solution(&format!("PipeRunner::run / {}", pname), s, false, &mut report); }
            }
            // door 2: the builder, in three call orders
            for order in 0u8..3 {
                let (b, h) = builder(m, order);
                let who = format!("ModelBuilder (call order {})", order);
                let lin_b = match b.clone().linearize() { Ok(l) => l, Err(e) => { report(&who, "the builder model linearizes when the text model does", e.to_string()); continue; } };
                // identical trees: identical rows, objective and right-hand sides; the domains agree on every variable the text keeps
                let (tb, tt) = (lin_b.to_string(), lin_t.to_string());
                let body = |s: &str| match s.find("\ndefine") { Some(i) => s[..i].to_string(), None => s.to_string() };
                if all_used { if tb != tt { report(&who, "builder and text compile identical trees to the same linear model, row for row", format!("text: {} || builder: {}", tt, tb)); } }
                else {
                    if lin_b.constraints().len() != lin_t.constraints().len() || lin_b.constraints().iter().zip(lin_t.constraints()).any(|(a, c)| row_by_name(&lin_b, a) != row_by_name(&lin_t, c)) || lin_b.objective_offset() != lin_t.objective_offset() || lin_b.optimization_type() != lin_t.optimization_type() {
                        report(&who, "builder and text compile identical trees to the same rows (unused variables aside)", format!("text: {} || builder: {} || rows {:?} vs {:?}, offsets {} vs {}", body(&tt), body(&tb), lin_t.constraints().iter().map(|c| row_by_name(&lin_t, c)).collect::<Vec<_>>(), lin_b.constraints().iter().map(|c| row_by_name(&lin_b, c)).collect::<Vec<_>>(), lin_t.objective_offset(), lin_b.objective_offset())); }
                    for nm in &names { if !lin_b.domain().contains_key(nm) { report(&who, "every declared builder variable survives linearization", format!("{} is missing from the linear model", nm)); } }
                }
                for (solver_name, res) in [("Microlp", b.clone().solve_with(Microlp::new()).map(|s| { let vals: Vec<Option<f64>> = h.iter().map(|x| s.numeric_value(*x)).collect(); let raw: Vec<Option<MILPValue>> = h.iter().map(|x| s.var_value(*x)).collect(); let evals: Vec<f64> = exprs(m).iter().map(|t| s.eval(&bld(t, &h))).collect(); let bogus = s.var_value(Var { index: h.len() + 3 }).is_some(); (s.solution().clone(), s.value(), vals, raw, evals, bogus) })),
                                           ("Auto", b.clone().solve_with(Auto).map(|s| { let vals: Vec<Option<f64>> = h.iter().map(|x| s.numeric_value(*x)).collect(); let raw: Vec<Option<MILPValue>> = h.iter().map(|x| s.var_value(*x)).collect(); let evals: Vec<f64> = exprs(m).iter().map(|t| s.eval(&bld(t, &h))).collect(); let bogus = s.var_value(Var { index: h.len() + 3 }).is_some(); (s.solution().clone(), s.value(), vals, raw, evals, bogus) }))] {
                    let whos = format!("{} / solve_with({})", who, solver_name);
                    match (res, &sol_t) {
                        (Ok((s, value, vals, raw, evals, bogus)), Ok(st)) => {
                            if (value - st.value()).abs() > 1e-6 * (1.0 + st.value().abs()) { report(&whos, "the builder gives the same optimal value as the text front end", format!("text: {} builder: {}", st.value(), value)); }
                            if value != s.value() { report(&whos, "BuilderSolution::value is the solver's objective value", format!("{} vs {}", value, s.value())); }
                            let x = check_solution(&whos, &s, true, &mut report);
                            for (i, nm) in names.iter().enumerate() {
                                let by_name: Option<f64> = s.value_of(nm).map(|q| q.into());
                                if vals[i] != by_name { report(&whos, "numeric_value(handle) is the value of the variable the handle was minted for", format!("handle of {}: {:?}, by name: {:?}", nm, vals[i], by_name)); }
                                if raw[i].map(|q| { let f: f64 = q.into(); f }) != by_name { report(&whos, "var_value(handle) is the value of the variable the handle was minted for", format!("handle of {}: {:?}, by name: {:?}", nm, raw[i], by_name)); }
                            }
                            if bogus { report(&whos, "a handle that does not belong to the model resolves to None", String::new()); }
                            for (t, got) in exprs(m).iter().zip(evals.iter()) { let w = val(t, &x); if (w - got).abs() > 1e-6 * (1.0 + w.abs()) { report(&whos, "eval(expression) is the value of the expression at the solution (language semantics)", format!("{:?} at {:?}: expected {}, eval gave {}", t, x, w, got)); } }
                        }
                        (Err(e), Err(et)) => { let es = match e { BuilderError::Solver(s) => s.to_string(), o => format!("other: {}", o) }; if &es != et { report(&whos, "the builder gives the same verdict as the text front end", format!("text: Err({}) builder: Err({})", et, es)); } }
                        (Ok((_, value, ..)), Err(et)) => report(&whos, "the builder gives the same verdict as the text front end", format!("text: Err({}) builder: Ok({})", et, value)),
                        (Err(e), Ok(st)) => report(&whos, "the builder gives the same verdict as the text front end", format!("text: Ok({}) builder: Err({})", st.value(), e)),
                    }
                }
            }
        }
        println!("WITNESS-DONE cases={} distinct={}", cases, distinct.len());
    }
    // a row as (variable name, coefficient) pairs in column order, without the columns that do not occur, its comparison and its right-hand side
    fn row_by_name(lm: &LinearModel, c: &LinearConstraint) -> String {
        let v: Vec<String> = lm.variables().iter().zip(c.coefficients()).filter(|(_, k)| **k != 0.0).map(|(n, k)| format!("{}*{}", k, n)).collect();
        format!("{} {} {}", v.join(" + "), c.constraint_type(), c.rhs())
    }
    // the expressions evaluated at the solution: the objective and both sides of every constraint
    fn exprs(m: &M) -> Vec<T> {
        let mut out = vec![];
        if let Some((_, t)) = &m.obj { out.push(t.clone()); }
        for c in &m.cons { match c { C::Logic(t) => out.push(t.clone()), C::Cmp(l, _, r) => { out.push(l.clone()); out.push(r.clone()); } } }
        out
    }
