//@ C13 — the last statement of the conversion.
@fn StandardLinearModel::new -> r
    requires fin_seq(objective@), objective@.len() <= variables@.len(),
        forall|i: int| 0 <= i < constraints@.len() ==> fin_seq((#[trigger] constraints@[i]).coefficients@) && constraints@[i].coefficients@.len() <= variables@.len(),
    ensures r.variables == variables, r.objective_offset == objective_offset, r.flip_objective == flip_objective,
        r.objective@.len() == variables@.len(), fin_seq(r.objective@), r.constraints@.len() == constraints@.len(),
        forall|x: Seq<real>| x.len() >= variables@.len() ==> #[trigger] pdot(r.objective@, x) == pdot(objective@, x),
        forall|i: int| 0 <= i < constraints@.len() ==> (#[trigger] r.constraints@[i]).coefficients@.len() == variables@.len() && fin_seq(r.constraints@[i].coefficients@) && r.constraints@[i].rhs == constraints@[i].rhs,
        forall|i: int, x: Seq<real>| 0 <= i < constraints@.len() && x.len() >= variables@.len() ==> #[trigger] pdot(r.constraints@[i].coefficients@, x) == pdot(constraints@[i].coefficients@, x),
@fn StandardLinearModel::new @entry
    let ghost o0 = objective@;
    let ghost c0 = constraints@;
    let ghost n = variables@.len();
@fn StandardLinearModel::new @loop 1
    invariant vx_n1 == c0.len(), constraints@.len() == c0.len(), n == variables@.len(), objective@ == o0, fin_seq(o0), o0.len() <= n,
        forall|i: int| 0 <= i < c0.len() ==> fin_seq((#[trigger] c0[i]).coefficients@) && c0[i].coefficients@.len() <= n,
        forall|i: int| vx_i1 <= i < c0.len() ==> constraints@[i] == c0[i],
        forall|i: int| 0 <= i < vx_i1 ==> (#[trigger] constraints@[i]).coefficients@.len() == n && fin_seq(constraints@[i].coefficients@) && constraints@[i].rhs == c0[i].rhs,
        forall|i: int, x: Seq<real>| 0 <= i < vx_i1 && x.len() >= n ==> #[trigger] pdot(constraints@[i].coefficients@, x) == pdot(c0[i].coefficients@, x),
@fn StandardLinearModel::new @after "let mut c = vx_vec_take"
    proof { assert(c == c0[vx_i1 as int]); }
@fn StandardLinearModel::new @after "objective.resize"
    proof {
        assert forall|j: int| 0 <= j < objective@.len() implies fv(#[trigger] objective@[j]) is Fin by { if j < o0.len() { assert(objective@[j] == o0[j]); assert(fv(o0[j]) is Fin); } }
        assert forall|x: Seq<real>| x.len() >= n implies #[trigger] pdot(objective@, x) == pdot(o0, x) by { lemma_pdot_zero_tail(o0, objective@, x); }
    }
