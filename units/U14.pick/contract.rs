//@ C05 / C14 — the direct start: which columns may form the starting basis.
@fn EqualityConstraint::coefficient -> r
    requires index < self.coefficients@.len(),
    ensures r == self.coefficients@[index as int],
@fn singleton_columns -> r
    requires model.constraints@.len() < 2147483647,
        forall|i: int| 0 <= i < model.constraints@.len() ==> (#[trigger] model.constraints@[i]).coefficients@.len() == model.variables@.len() && fin_seq(model.constraints@[i].coefficients@),
    ensures
        forall|k: int| 0 <= k < r@.len() ==> pick_ok(*model, #[trigger] r@[k]),
        forall|k: int, l: int| 0 <= k < l < r@.len() ==> r@[k].column < r@[l].column,
@fn singleton_columns @loop 1
    invariant vx_n1 == model.variables@.len(), model.constraints@.len() < 2147483647,
        forall|i: int| 0 <= i < model.constraints@.len() ==> (#[trigger] model.constraints@[i]).coefficients@.len() == model.variables@.len() && fin_seq(model.constraints@[i].coefficients@),
        forall|k: int| 0 <= k < usable_independent_vars@.len() ==> pick_ok(*model, #[trigger] usable_independent_vars@[k]) && usable_independent_vars@[k].column < column,
        forall|k: int, l: int| 0 <= k < l < usable_independent_vars@.len() ==> usable_independent_vars@[k].column < usable_independent_vars@[l].column,
@fn singleton_columns @loop 2
    invariant vx_n2 == model.constraints@.len(), vx_n2 < 2147483647, column < model.variables@.len(),
        forall|i: int| 0 <= i < model.constraints@.len() ==> (#[trigger] model.constraints@[i]).coefficients@.len() == model.variables@.len() && fin_seq(model.constraints@[i].coefficients@),
        0 <= independent_count <= vx_i2,
        independent_count == 0 ==> forall|i: int| 0 <= i < vx_i2 ==> !nz(*model, i, column as int),
        independent_count == 1 ==> independent_row < vx_i2 && nz(*model, independent_row as int, column as int) && independent_value == model.constraints@[independent_row as int].coefficients@[column as int]
            && forall|i: int| 0 <= i < vx_i2 && i != independent_row ==> !nz(*model, i, column as int),
@fn singleton_columns @after "let constraint"
    proof { assert(fin_seq(model.constraints@[vx_i2 as int].coefficients@)); assert(fv(model.constraints@[vx_i2 as int].coefficients@[column as int]) is Fin); }
@fn singleton_columns @after "usable_independent_vars.push"
    proof { assert(pick_ok(*model, usable_independent_vars@[usable_independent_vars@.len() - 1])); }
@raw
// entry (i, col) differs from zero beyond the tolerance
pub open spec fn nz(model: StandardLinearModel, i: int, col: int) -> bool { !t_eq(rv(model.constraints@[i].coefficients@[col]), 0real, EPS()) }
// a candidate for the starting basis: the only entry of its column beyond the tolerance, positive, recorded with its own row and value
pub open spec fn pick_ok(model: StandardLinearModel, v: IndependentVariable) -> bool {
    &&& v.row < model.constraints@.len() && v.column < model.variables@.len()
    &&& v.value == model.constraints@[v.row as int].coefficients@[v.column as int]
    &&& fv(v.value) is Fin && t_gt(rv(v.value), 0real, EPS())
    &&& forall|i: int| 0 <= i < model.constraints@.len() && i != v.row ==> !nz(model, i, v.column as int)
}
