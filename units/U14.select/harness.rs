    // Executable form of the contracts that U14.step ASSUMES for is_optimal / find_h / find_t.
    // On the grid every |a-b| is 0 or >= 1/4, so  t_lt(a,b,EPS) <=> a < b,  t_gt <=> a > b,  t_ge(a,b) <=> a >= b.
    fn dy() -> f64 {
        let k: i8 = kani::any();
        kani::assume(-16 <= k && k <= 16);
        (k as f64) / 4.0
    }
    #[kani::proof]
    #[kani::unwind(6)]
    fn is_optimal_3cols() {
        let c = vec![dy(), dy(), dy()];
        let t = Tableau::new(c.clone(), vec![], vec![], vec![], 0.0, 0.0, vec![], false);
        kani::cover!(true);
        let r = t.is_optimal();
        assert!(r == (c[0] >= 0.0 && c[1] >= 0.0 && c[2] >= 0.0));
    }
    #[kani::proof]
    #[kani::unwind(6)]
    fn find_h_3cols() {
        let c = vec![dy(), dy(), dy()];
        let basic: usize = kani::any();
        kani::assume(basic < 3);
        let bland: bool = kani::any();
        let t = Tableau::new(c.clone(), vec![vec![0.0, 0.0, 0.0]], vec![0.0], vec![basic], 0.0, 0.0, vec![], false);
        kani::cover!(true);
        match t.find_h(&[], bland) {
            Some(h) => {
                assert!(h < 3);
                assert!(h != basic);
                assert!(c[h] < 0.0);
            }
            None => {
                let mut j = 0;
                while j < 3 {
                    assert!(j == basic || !(c[j] < 0.0));
                    j += 1;
                }
            }
        }
    }
    fn dq() -> f64 {
        // coarser grid for the quick tier: k/2 for |k| <= 4
        let k: i8 = kani::any();
        kani::assume(-4 <= k && k <= 4);
        (k as f64) / 2.0
    }
    fn find_t_rows(n: usize, coarse: bool) {
        let mut a = Vec::new();
        let mut b = Vec::new();
        let mut basis = Vec::new();
        let mut k = 0;
        while k < n {
            a.push(vec![if coarse { dq() } else { dy() }]);
            b.push(if coarse { dq() } else { dy() });
            // the basic variable of each row is symbolic: the tie-break of the ratio test depends on the ORDER of these indices
            let bv: u8 = kani::any();
            kani::assume(1 <= bv && bv <= 6);
            basis.push(bv as usize);
            k += 1;
        }
        let mut i = 0;
        while i < n { let mut j = i + 1; while j < n { kani::assume(basis[i] != basis[j]); j += 1; } i += 1; }
        let t = Tableau::new(vec![-1.0], a.clone(), b.clone(), basis, 0.0, 0.0, vec![], false);
        kani::cover!(true);
        match t.find_t(0, &[]) {
            Some((row, ratio)) => {
                assert!(row < n);
                assert!(a[row][0] > 0.0);
                assert!(ratio == b[row] / a[row][0]);
                let mut k = 0;
                while k < n {
                    // !t_lt(b_k/a_k, ratio): no eligible row has a ratio below the chosen one by EPS or more
                    if a[k][0] > 0.0 {
                        assert!(!(b[k] / a[k][0] <= ratio - 0.00001));
                    }
                    k += 1;
                }
            }
            None => {
                let mut k = 0;
                while k < n {
                    assert!(!(a[k][0] > 0.0));
                    k += 1;
                }
            }
        }
    }
    #[kani::proof]
    #[kani::unwind(5)]
    fn find_t_2rows_coarse() { find_t_rows(2, true); }
    #[kani::proof]
    #[kani::unwind(6)]
    fn find_t_3rows_coarse() { find_t_rows(3, true); }
    #[kani::proof]
    #[kani::unwind(5)]
    fn find_t_2rows() { find_t_rows(2, false); }
    #[kani::proof]
    #[kani::unwind(6)]
    fn find_t_3rows() { find_t_rows(3, false); }
