    // Loop-free, full-domain harnesses (complete proofs).  Results are mem::forget-ed: see U18.arith.
    // error paths build their message with format!; float/int formatting is not what is checked here and is
    // very expensive for CBMC, so fmt::format is stubbed (Kani prints `- Stub: ... fmt::format`)
    fn stub_format(_args: core::fmt::Arguments<'_>) -> String { String::new() }
    #[kani::proof]
    #[kani::stub(std::fmt::format, stub_format)]
    fn integer_cast_of_integers() {
        let u: u64 = kani::any();
        let b: bool = kani::any();
        let i: i64 = kani::any();
        kani::cover!(true);
        let p = Primitive::PositiveInteger(u);
        let r = p.as_integer_cast();
        if let Ok(v) = &r { assert!((*v as i128) == (u as i128), "u64 -> i64 cast changed the value"); }
        core::mem::forget(r); core::mem::forget(p);
        let p = Primitive::Boolean(b);
        let r = p.as_integer_cast();
        assert!(matches!(&r, Ok(v) if *v == b as i64));
        core::mem::forget(r); core::mem::forget(p);
        let p = Primitive::Integer(i);
        let r = p.as_integer_cast();
        assert!(matches!(&r, Ok(v) if *v == i));
        core::mem::forget(r); core::mem::forget(p);
    }
    #[kani::proof]
    #[kani::stub(std::fmt::format, stub_format)]
    fn integer_cast_of_number() {
        let n: f64 = kani::any();
        kani::cover!(true);
        let p = Primitive::Number(n);
        let r = p.as_integer_cast();
        // a returned integer is the number (within the 1e-5 tolerance the cast itself uses for "integral")
        if let Ok(v) = &r {
            assert!(((*v as f64) - n).abs() < 0.001, "float -> i64 cast changed the value (saturation)");
            // exactness at the ends of the range: an integer obtained from a float is itself a float value (i64::MAX is not: 2^63 saturates to it)
            assert!(((*v as f64) as i128) == (*v as i128), "float -> i64 cast returned an integer the float cannot denote (saturation at 2^63)");
        }
        core::mem::forget(r); core::mem::forget(p);
    }
    #[kani::proof]
    #[kani::stub(std::fmt::format, stub_format)]
    fn usize_cast_of_integers() {
        let u: u64 = kani::any();
        let b: bool = kani::any();
        let i: i64 = kani::any();
        kani::cover!(true);
        let p = Primitive::PositiveInteger(u);
        let r = p.as_usize_cast();
        if let Ok(v) = &r { assert!((*v as u128) == (u as u128)); }
        core::mem::forget(r); core::mem::forget(p);
        let p = Primitive::Boolean(b);
        let r = p.as_usize_cast();
        assert!(matches!(&r, Ok(v) if *v == b as usize));
        core::mem::forget(r); core::mem::forget(p);
        let p = Primitive::Integer(i);
        let r = p.as_usize_cast();
        if let Ok(v) = &r { assert!(i >= 0 && (*v as i128) == (i as i128)); }
        core::mem::forget(r); core::mem::forget(p);
    }
    #[kani::proof]
    #[kani::stub(std::fmt::format, stub_format)]
    fn usize_cast_of_number() {
        let n: f64 = kani::any();
        kani::cover!(true);
        let p = Primitive::Number(n);
        let r = p.as_usize_cast();
        if let Ok(v) = &r {
            assert!(((*v as f64) - n).abs() < 0.001, "float -> usize cast changed the value (saturation)");
            assert!(((*v as f64) as i128) == (*v as i128), "float -> usize cast returned an integer the float cannot denote (saturation at 2^64)");
        }
        core::mem::forget(r); core::mem::forget(p);
    }
