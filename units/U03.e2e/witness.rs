    // Executable form of C03 on the REAL one-shot entry point, bounded corpus: model descriptions over small integer / Boolean domains are rendered as
    // source text, solved through RoocSolver::solve_using(auto_solver), and compared with a brute-force search over ALL assignments using an
    // independent evaluator of the description: a solution is returned exactly when a satisfying assignment exists, it satisfies every constraint,
    // its reported objective is the objective at the returned values, and no satisfying assignment is strictly better; otherwise the infeasible verdict.
    #[derive(Clone, Debug)]
    enum T { N(f64), V(usize), Add(Box<T>, Box<T>), Sub(Box<T>, Box<T>), Mul(Box<T>, Box<T>), Div(Box<T>, Box<T>), Neg(Box<T>), Abs(Box<T>), Min(Vec<T>), Max(Vec<T>),
             And(Vec<T>), Or(Vec<T>), Not(Box<T>), Imp(Box<T>, Box<T>), Iff(Box<T>, Box<T>), Xor(Box<T>, Box<T>) }
    #[derive(Clone, Debug)]
    enum C { Cmp(T, Comparison, T), Logic(T) }
    #[derive(Clone, Debug)]
    struct M { vars: Vec<(String, VariableType)>, obj: Option<(OptimizationType, T)>, cons: Vec<C> }
    fn bx(t: T) -> Box<T> { Box::new(t) }
    // ----- independent oracle: the value of a description at an assignment -----
    fn val(t: &T, x: &[f64]) -> f64 {
        let tr = |v: f64| v != 0.0; let b = |c: bool| if c { 1.0 } else { 0.0 };
        match t {
            T::N(n) => *n, T::V(i) => x[*i],
            T::Add(a, c) => val(a, x) + val(c, x), T::Sub(a, c) => val(a, x) - val(c, x), T::Mul(a, c) => val(a, x) * val(c, x), T::Div(a, c) => val(a, x) / val(c, x),
            T::Neg(a) => -val(a, x), T::Abs(a) => val(a, x).abs(),
            T::Min(v) => v.iter().map(|e| val(e, x)).fold(f64::INFINITY, f64::min), T::Max(v) => v.iter().map(|e| val(e, x)).fold(f64::NEG_INFINITY, f64::max),
            T::And(v) => b(v.iter().all(|e| tr(val(e, x)))), T::Or(v) => b(v.iter().any(|e| tr(val(e, x)))), T::Not(a) => b(!tr(val(a, x))),
            T::Imp(a, c) => b(!tr(val(a, x)) || tr(val(c, x))), T::Iff(a, c) => b(tr(val(a, x)) == tr(val(c, x))), T::Xor(a, c) => b(tr(val(a, x)) != tr(val(c, x))),
        }
    }
    fn holds(c: &C, x: &[f64]) -> bool {
        let e = 1e-6;
        match c {
            C::Logic(t) => val(t, x) != 0.0,
            C::Cmp(l, k, r) => { let (a, b) = (val(l, x), val(r, x)); match k { Comparison::LessOrEqual => a <= b + e, Comparison::GreaterOrEqual => a >= b - e, Comparison::Equal => (a - b).abs() <= e, Comparison::Less => a < b + e, Comparison::Greater => a > b - e } }
        }
    }
    // ----- door 1: source text -----
    fn num(n: f64) -> String { if n < 0.0 { format!("(-{})", -n) } else { format!("{}", n) } }
    fn txt(t: &T, names: &[String]) -> String {
        let l = |v: &Vec<T>| v.iter().map(|e| txt(e, names)).collect::<Vec<_>>().join(", ");
        match t {
            T::N(n) => num(*n), T::V(i) => names[*i].clone(),
            T::Add(a, c) => format!("({} + {})", txt(a, names), txt(c, names)), T::Sub(a, c) => format!("({} - {})", txt(a, names), txt(c, names)),
            T::Mul(a, c) => format!("({} * {})", txt(a, names), txt(c, names)), T::Div(a, c) => format!("({} / {})", txt(a, names), txt(c, names)), T::Neg(a) => format!("(-{})", txt(a, names)),
            T::Abs(a) => format!("abs{{ {} }}", txt(a, names)), T::Min(v) => format!("min{{ {} }}", l(v)), T::Max(v) => format!("max{{ {} }}", l(v)),
            T::And(v) => format!("({})", v.iter().map(|e| txt(e, names)).collect::<Vec<_>>().join(" and ")),
            T::Or(v) => format!("({})", v.iter().map(|e| txt(e, names)).collect::<Vec<_>>().join(" or ")),
            T::Not(a) => format!("(not {})", txt(a, names)), T::Imp(a, c) => format!("({} implies {})", txt(a, names), txt(c, names)),
            T::Iff(a, c) => format!("({} iff {})", txt(a, names), txt(c, names)), T::Xor(a, c) => format!("({} xor {})", txt(a, names), txt(c, names)),
        }
    }
    fn decl(t: &VariableType) -> String {
        match t { VariableType::Boolean => "Boolean".to_string(), VariableType::IntegerRange(a, b) => format!("IntegerRange({}, {})", a, b),
                  VariableType::NonNegativeReal(a, b) => format!("NonNegativeReal({}, {})", a, b), VariableType::Real(a, b) => format!("Real({}, {})", a, b) }
    }
    fn source(m: &M) -> String {
        let names: Vec<String> = m.vars.iter().map(|v| v.0.clone()).collect();
        let mut s = match &m.obj { Some((OptimizationType::Max, t)) => format!("max {}\n", txt(t, &names)), Some((OptimizationType::Min, t)) => format!("min {}\n", txt(t, &names)), _ => "solve\n".to_string() };
        s.push_str("s.t.\n");
        for c in &m.cons {
            match c { C::Logic(t) => s.push_str(&format!("    {}\n", txt(t, &names))),
                      C::Cmp(l, k, r) => s.push_str(&format!("    {} {} {}\n", txt(l, &names), k, txt(r, &names))) }
        }
        s.push_str("define\n");
        for (n, t) in &m.vars { s.push_str(&format!("    {} as {}\n", n, decl(t))); }
        s
    }
    struct Rng(u64);
    impl Rng { fn next(&mut self, n: usize) -> usize { self.0 = self.0.wrapping_mul(6364136223846793005).wrapping_add(1442695040888963407); ((self.0 >> 33) as usize) % n } }
    fn term(r: &mut Rng, nv: usize, depth: u32) -> T {
        let v = |r: &mut Rng| T::V(r.next(nv)); let n = |r: &mut Rng| T::N([1.0, 2.0, 3.0, 0.5][r.next(4)]);
        match if depth == 0 { r.next(3) } else { r.next(10) } {
            0 | 1 => v(r), 2 => T::Mul(bx(n(r)), bx(v(r))),
            3 => T::Add(bx(term(r, nv, depth - 1)), bx(term(r, nv, depth - 1))), 4 => T::Sub(bx(term(r, nv, depth - 1)), bx(term(r, nv, depth - 1))),
            5 => T::Abs(bx(T::Sub(bx(term(r, nv, depth - 1)), bx(n(r))))), 6 => T::Min(vec![term(r, nv, depth - 1), term(r, nv, depth - 1)]), 7 => T::Max(vec![term(r, nv, depth - 1), n(r)]),
            8 => T::Div(bx(term(r, nv, depth - 1)), bx(T::N([2.0, 4.0, 0.5][r.next(3)]))),
            _ => T::Neg(bx(term(r, nv, depth - 1))),
        }
    }
    fn logic(r: &mut Rng, bools: &[usize], depth: u32) -> T {
        let v = |r: &mut Rng| T::V(bools[r.next(bools.len())]);
        match if depth == 0 { 0 } else { r.next(8) } {
            0 | 1 => v(r), 2 => T::Not(bx(logic(r, bools, depth - 1))), 3 => T::And(vec![logic(r, bools, depth - 1), logic(r, bools, depth - 1)]), 4 => T::Or(vec![logic(r, bools, depth - 1), logic(r, bools, depth - 1)]),
            5 => T::Imp(bx(logic(r, bools, depth - 1)), bx(logic(r, bools, depth - 1))), 6 => T::Iff(bx(logic(r, bools, depth - 1)), bx(logic(r, bools, depth - 1))), _ => T::Xor(bx(logic(r, bools, depth - 1)), bx(logic(r, bools, depth - 1))),
        }
    }
    #[test]
    fn search() {
        let seed: u64 = std::env::var("VERIF_SEED").ok().and_then(|s| s.parse().ok()).unwrap_or(0);
        let mut r = Rng(0xD1B54A32D192ED03 ^ seed.wrapping_mul(7919));
        let (mut cases, mut fails, mut solved, mut infeasible) = (0u64, 0u32, 0u64, 0u64);
        let mut distinct: std::collections::HashSet<String> = std::collections::HashSet::new();
        let cmps = [Comparison::LessOrEqual, Comparison::GreaterOrEqual, Comparison::Equal];
        // pinned models (independent of the seed): inputs of repaired defects and their neighbours.  0f3a8ac: bound inference narrows a Boolean to one
        // value / an integer range to an interval without an integral point; the lowering must not rely on that unenforced range.
        let abs_le0 = |t: T| C::Cmp(T::Abs(bx(t)), Comparison::LessOrEqual, T::N(0.0));
        let pinned: Vec<(Vec<C>, T, OptimizationType)> = vec![
            (vec![abs_le0(T::Sub(bx(T::V(2)), bx(T::N(1.0))))], T::V(2), OptimizationType::Min),                                   // abs{p - 1} <= 0, min p
            (vec![abs_le0(T::Sub(bx(T::Mul(bx(T::N(2.0)), bx(T::V(0)))), bx(T::N(1.0))))], T::V(0), OptimizationType::Min),       // abs{2a - 1} <= 0: no integer
            (vec![abs_le0(T::Add(bx(T::Mul(bx(T::N(2.0)), bx(T::V(1)))), bx(T::N(1.0))))], T::V(1), OptimizationType::Max),       // abs{2b + 1} <= 0: no integer
            (vec![abs_le0(T::V(3))], T::Add(bx(T::V(3)), bx(T::V(0))), OptimizationType::Max),                                       // abs{q} <= 0, max q + a
            (vec![abs_le0(T::Sub(bx(T::Add(bx(T::V(2)), bx(T::V(3)))), bx(T::N(2.0))))], T::Add(bx(T::V(2)), bx(T::V(3))), OptimizationType::Min), // abs{p + q - 2} <= 0
            (vec![C::Cmp(T::Max(vec![T::Mul(bx(T::N(2.0)), bx(T::V(0))), T::N(1.0)]), Comparison::LessOrEqual, T::N(1.0)), abs_le0(T::Sub(bx(T::Mul(bx(T::N(2.0)), bx(T::V(0)))), bx(T::N(1.0))))], T::V(0), OptimizationType::Max),
        ];
        for round in 0..(220 + pinned.len()) {
            // two integers in small ranges and two Booleans
            let vars: Vec<(String, VariableType)> = vec![("a".to_string(), VariableType::IntegerRange(0, 3)), ("b".to_string(), VariableType::IntegerRange(-2, 2)), ("p".to_string(), VariableType::Boolean), ("q".to_string(), VariableType::Boolean)];
            let mut cons: Vec<C> = vec![];
            let (obj_t, dir);
            if round >= 220 {
                let (pc, po, pd) = &pinned[round - 220];
                cons = pc.clone(); obj_t = po.clone(); dir = pd.clone();
            } else {
            for _ in 0..(1 + r.next(3)) {
                if r.next(3) == 0 { cons.push(C::Logic(logic(&mut r, &[2, 3], 2))); }
                else { let k = [0.0, 1.0, 2.0, 3.0, -1.0][r.next(5)]; cons.push(C::Cmp(term(&mut r, 2, 2), cmps[r.next(3)].clone(), T::N(k))); }
            }
            if round % 5 == 0 { cons.push(C::Cmp(T::Add(bx(T::V(0)), bx(T::V(2))), Comparison::LessOrEqual, T::N(3.0))); }
            obj_t = T::Add(bx(term(&mut r, 2, 1)), bx(T::Mul(bx(T::N([1.0, 2.0, 3.0][r.next(3)])), bx(T::V(2 + r.next(2))))));
            dir = if r.next(2) == 0 { OptimizationType::Max } else { OptimizationType::Min };
            }
            let m = M { vars, obj: Some((dir.clone(), obj_t.clone())), cons };
            let src = source(&m);
            cases += 1;
            distinct.insert(src.clone());
            let esc = |s: &str| s.replace('\\', "\\\\").replace('"', "'").replace('\n', "\\n").replace('\t', " ");
            let mut report = |clause: &str, detail: String| {
                if fails < 40 { println!("WITNESS-FAIL {{\"fn\": \"RoocSolver::solve_using(auto_solver)\", \"clause\": \"{}\", \"source\": \"{}\", \"detail\": \"{}\"}}", clause, esc(&src), esc(&detail)); }
                fails += 1;
            };
            // brute force over all assignments
            let mut best: Option<(f64, Vec<f64>)> = None;
            for a in 0..=3 { for b in -2..=2 { for p in 0..=1 { for q in 0..=1 {
                let x = vec![a as f64, b as f64, p as f64, q as f64];
                if m.cons.iter().all(|c| holds(c, &x)) {
                    let o = val(&obj_t, &x);
                    let better = match &best { None => true, Some((bo, _)) => if matches!(dir, OptimizationType::Max) { o > *bo + 1e-9 } else { o < *bo - 1e-9 } };
                    if better { best = Some((o, x)); }
                }
            } } } }
            let got = match RoocSolver::try_new(src.clone()) { Ok(s) => s.solve_using(auto_solver), Err(e) => { report("the corpus text parses", e.to_string_from_source(&src)); continue; } };
            match (got, &best) {
                (Ok(s), Some((bo, _))) => {
                    solved += 1;
                    let x: Vec<f64> = m.vars.iter().map(|(n, t)| match s.value_of(n) { Some(v) => { let f: f64 = v.into(); f } None => match t { VariableType::IntegerRange(lo, _) => *lo as f64, _ => 0.0 } }).collect();
                    // a variable the compiler dropped (unused) takes any value: its lower bound is tried; used variables are reported
                    for (ci, c) in m.cons.iter().enumerate() { if !holds(c, &x) { report("the returned values satisfy every constraint of the text under the language's semantics", format!("constraint #{} fails at {:?}", ci, x)); } }
                    let o = val(&obj_t, &x);
                    if (o - s.value()).abs() > 1e-6 * (1.0 + o.abs()) { report("the reported objective equals the objective of the text at the returned values", format!("objective at {:?} is {}, reported {}", x, o, s.value())); }
                    if (s.value() - bo).abs() > 1e-6 * (1.0 + bo.abs()) { report("no satisfying assignment has a strictly better objective", format!("reported {}, brute-force optimum {}", s.value(), bo)); }
                }
                (Ok(s), None) => report("a solution is returned only when a satisfying assignment exists", format!("returned value {} but no assignment satisfies the text", s.value())),
                (Err(RoocSolverError::Solver(SolverError::Infeasible)), None) => { infeasible += 1; }
                (Err(e), None) => report("when no assignment satisfies the text the infeasible verdict is returned, never a compilation error", format!("{}", e)),
                (Err(e), Some((bo, x))) => report("a solution is returned when a satisfying assignment exists", format!("{} although {:?} satisfies the text with objective {}", e, x, bo)),
            }
        }
        // ---- second family: continuous variables (no enumeration possible): the returned point is checked against the description, and a grid of
        // candidate points gives a one-sided test of optimality and of the infeasible verdict ----
        let (mut csolved, mut cinf) = (0u64, 0u64);
        for round in 0..160 {
            let vars: Vec<(String, VariableType)> = vec![("a".to_string(), VariableType::Real(-3.0, 3.0)), ("b".to_string(), VariableType::NonNegativeReal(0.0, 4.0))];
            let mut cons: Vec<C> = vec![];
            for _ in 0..(1 + r.next(3)) { let k = [0.0, 1.0, 2.0, 3.0, -1.0, 0.5][r.next(6)]; cons.push(C::Cmp(term(&mut r, 2, 2), cmps[r.next(2)].clone(), T::N(k))); }
            let obj_t = T::Add(bx(T::Mul(bx(T::N([1.0, 2.0, -1.0][r.next(3)])), bx(T::V(0)))), bx(T::Mul(bx(T::N([1.0, -2.0, 0.5][r.next(3)])), bx(T::V(1)))));
            let obj_t = if round % 3 == 0 { T::Add(bx(obj_t), bx(term(&mut r, 2, 1))) } else { obj_t };
            let dir = if r.next(2) == 0 { OptimizationType::Max } else { OptimizationType::Min };
            let m = M { vars, obj: Some((dir.clone(), obj_t.clone())), cons };
            let src = source(&m);
            cases += 1;
            distinct.insert(src.clone());
            let esc = |s: &str| s.replace('\\', "\\\\").replace('"', "'").replace('\n', "\\n").replace('\t', " ");
            let mut report = |clause: &str, detail: String| {
                if fails < 40 { println!("WITNESS-FAIL {{\"fn\": \"RoocSolver::solve_using(auto_solver)\", \"clause\": \"{}\", \"source\": \"{}\", \"detail\": \"{}\"}}", clause, esc(&src), esc(&detail)); }
                fails += 1;
            };
            // candidate points: a grid with step 0.5; a candidate counts only if it satisfies every constraint with a margin (robustly feasible)
            let robust = |c: &C, x: &[f64]| match c { C::Cmp(l, k, rr) => { let (a, b) = (val(l, x), val(rr, x)); match k { Comparison::LessOrEqual => a <= b - 1e-4, Comparison::GreaterOrEqual => a >= b + 1e-4, _ => false } } _ => false };
            let mut best: Option<(f64, Vec<f64>)> = None;
            for ia in 0..=12 { for ib in 0..=8 {
                let x = vec![-3.0 + 0.5 * ia as f64, 0.5 * ib as f64];
                if m.cons.iter().all(|c| robust(c, &x)) {
                    let o = val(&obj_t, &x);
                    let better = match &best { None => true, Some((bo, _)) => if matches!(dir, OptimizationType::Max) { o > *bo } else { o < *bo } };
                    if better { best = Some((o, x)); }
                }
            } }
            let got = match RoocSolver::try_new(src.clone()) { Ok(s) => s.solve_using(auto_solver), Err(e) => { report("the corpus text parses", e.to_string_from_source(&src)); continue; } };
            match got {
                Ok(s) => {
                    csolved += 1;
                    let x: Vec<f64> = m.vars.iter().map(|(n, t)| match s.value_of(n) { Some(v) => { let f: f64 = v.into(); f } None => match t { VariableType::Real(lo, _) => *lo, _ => 0.0 } }).collect();
                    for (ci, c) in m.cons.iter().enumerate() { if !holds(c, &x) { report("the returned values satisfy every constraint of the text under the language's semantics", format!("constraint #{} fails at {:?}", ci, x)); } }
                    if x[0] < -3.0 - 1e-6 || x[0] > 3.0 + 1e-6 || x[1] < -1e-6 || x[1] > 4.0 + 1e-6 { report("the returned values lie in the declared domains", format!("{:?}", x)); }
                    let o = val(&obj_t, &x);
                    if (o - s.value()).abs() > 1e-6 * (1.0 + o.abs()) { report("the reported objective equals the objective of the text at the returned values", format!("objective at {:?} is {}, reported {}", x, o, s.value())); }
                    if let Some((bo, bx_)) = &best { let worse = if matches!(dir, OptimizationType::Max) { s.value() < bo - 1e-6 } else { s.value() > bo + 1e-6 }; if worse { report("no satisfying assignment has a strictly better objective", format!("reported {}, but {:?} satisfies the text with objective {}", s.value(), bx_, bo)); } }
                }
                Err(RoocSolverError::Solver(SolverError::Infeasible)) => { cinf += 1; if let Some((bo, bx_)) = &best { report("the infeasible verdict is returned only when no assignment satisfies the text", format!("{:?} satisfies the text (objective {})", bx_, bo)); } }
                Err(RoocSolverError::Solver(SolverError::Unbounded)) => report("bounded domains cannot give an unbounded verdict", String::new()),
                Err(e) => { if best.is_some() { report("a solution is returned when a satisfying assignment exists", format!("{}", e)); } }
            }
        }
        println!("WITNESS-SAMPLE {{\"continuous_solved\": {}, \"continuous_infeasible\": {}}}", csolved, cinf);
        if csolved < 40 { println!("WITNESS-FAIL {{\"fn\": \"corpus\", \"clause\": \"vacuity guard: at least 40 continuous models solved\", \"solved\": {}}}", csolved); }
        if solved < 60 || infeasible < 5 { println!("WITNESS-FAIL {{\"fn\": \"corpus\", \"clause\": \"vacuity guard: at least 60 solved and 5 infeasible models\", \"solved\": {}, \"infeasible\": {}}}", solved, infeasible); }
        println!("WITNESS-SAMPLE {{\"solved\": {}, \"infeasible\": {}}}", solved, infeasible);
        println!("WITNESS-DONE cases={} distinct={}", cases, distinct.len());
    }
