//@ C01/C08 — the two primitives every lowering arm uses to talk to the context.
//@ "auxiliary declaration rejects an existing name" (C08) is the Err clause of declare_variable.
@fn Constraint::new -> r
    ensures r.lhs == lhs, r.rhs == rhs, r.constraint_type == constraint_type, r.name == name, !r.is_logic_assertion,
@fn DomainVariable::new -> r
    ensures r.as_type == as_type, r.usage_count == 0,
@fn DomainVariable::increment_usage
    requires old(self).usage_count < usize::MAX,
    ensures final(self).as_type == old(self).as_type, final(self).usage_count == old(self).usage_count + 1,
@fn DomainVariable::get_type -> r
    ensures *r == self.as_type,
@fn DomainVariable::is_used -> r
    ensures r == (self.usage_count > 0),
@fn BoundsAnalyzer::insert_variable
    requires box_wf(*old(self)), vt_wf(*variable_type),
    ensures
        box_wf(*final(self)),
        final(self).tolerance == old(self).tolerance,
        final(self).variable_bounds.map().dom() == old(self).variable_bounds.map().dom().insert(name@),
        forall|k: Seq<char>| k != name@ && #[trigger] old(self).variable_bounds.has(k) ==> final(self).variable_bounds.map()[k] == old(self).variable_bounds.map()[k],
        forall|x: real| in_domain(*variable_type, x) ==> contains(final(self).variable_bounds.map()[name@], x),
@fn BoundsAnalyzer::insert_variable @entry
    let ghost nm = name@;
@fn BoundsAnalyzer::insert_variable @end
    proof {
        assert forall|k: Seq<char>| #[trigger] self.variable_bounds.has(k) implies wf(self.variable_bounds.map()[k]) by { if k != nm { assert(old(self).variable_bounds.has(k)); } }
    }
@fn Linearizer::add_constraint
    requires lz_inv(*old(self)), c_fin(constraint),
    ensures
        lz_inv(*final(self)),
        lz_ext(*old(self), *final(self)),
        final(self).domain == old(self).domain, final(self).bounds == old(self).bounds,
        forall|env: Env| #[trigger] lz_ok(*final(self), env) <==> lz_ok(*old(self), env) && c_holds_w(constraint, env),
@fn Linearizer::add_constraint @end
    proof {
        reveal(lz_inv); reveal(lz_ok); reveal(lz_ext);
        let a = *old(self); let b = *self;
        assert(b.constraints@ == seq![constraint] + a.constraints@);
        assert forall|c: Constraint| #[trigger] b.constraints@.contains(c) <==> (c == constraint || a.constraints@.contains(c)) by {
            if b.constraints@.contains(c) {
                let j = choose|j: int| 0 <= j < b.constraints@.len() && b.constraints@[j] == c;
                if j > 0 { assert(a.constraints@[j - 1] == c); }
            }
            if c == constraint { assert(b.constraints@[0] == c); }
            if a.constraints@.contains(c) {
                let j = choose|j: int| 0 <= j < a.constraints@.len() && a.constraints@[j] == c;
                assert(b.constraints@[j + 1] == c);
            }
        }
        assert(b.linear_constraints == a.linear_constraints);
        assert forall|env: Env| #[trigger] lz_ok(b, env) <==> lz_ok(a, env) && c_holds_w(constraint, env) by {
            if lz_ok(b, env) {
                assert(b.constraints@.contains(constraint));
                assert forall|c: Constraint| #[trigger] a.constraints@.contains(c) implies c_holds_w(c, env) by { assert(b.constraints@.contains(c)); }
            }
        }
    }
@fn Linearizer::declare_variable -> res
    requires lz_inv(*old(self)), vt_wf(as_type),
    ensures
        lz_inv(*final(self)),
        res is Err <==> old(self).domain.has(name@),
        res is Err ==> *final(self) == *old(self),
        res is Ok ==> {
            &&& lz_ext(*old(self), *final(self))
            &&& final(self).constraints == old(self).constraints
            &&& final(self).domain.has(name@) && final(self).domain.map()[name@].as_type == as_type && final(self).domain.map()[name@].usage_count > 0
            &&& forall|env: Env| #[trigger] lz_ok(*final(self), env) <==> lz_ok(*old(self), env) && in_domain(as_type, env[name@])
        },
@fn Linearizer::declare_variable @entry
    proof { reveal(lz_inv); reveal(lz_ok); reveal(lz_ext); }
@fn Linearizer::declare_variable @tail 1
    proof {
        let a = *old(self); let b = *self; let nm = name@;
        assert(b.domain.has(nm) && b.bounds.variable_bounds.has(nm));
        assert forall|k: Seq<char>| #[trigger] a.domain.has(k) implies b.domain.has(k) && b.domain.map()[k].as_type == a.domain.map()[k].as_type by { assert(k != nm); }
        assert forall|k: Seq<char>| #[trigger] a.bounds.variable_bounds.has(k) implies b.bounds.variable_bounds.has(k) && b.bounds.variable_bounds.map()[k] == a.bounds.variable_bounds.map()[k] by { assert(a.domain.has(k)); assert(k != nm); }
        assert forall|k: Seq<char>| #[trigger] b.domain.has(k) && k != nm implies a.domain.has(k) && b.domain.map()[k].as_type == a.domain.map()[k].as_type by {}
        assert forall|k: Seq<char>| #[trigger] b.bounds.variable_bounds.has(k) && k != nm implies a.bounds.variable_bounds.has(k) && b.bounds.variable_bounds.map()[k] == a.bounds.variable_bounds.map()[k] by {
            assert(a.bounds.variable_bounds.map().dom().contains(k)); assert(a.bounds.variable_bounds.has(k)); }
        assert forall|k: Seq<char>| #[trigger] b.domain.has(k) implies vt_wf(b.domain.map()[k].as_type) by { if k != nm { assert(a.domain.has(k)); } }
        assert forall|k: Seq<char>| #[trigger] b.domain.has(k) <==> #[trigger] b.bounds.variable_bounds.has(k) by {
            if k != nm { assert(a.domain.has(k) <==> a.bounds.variable_bounds.has(k)); assert(b.domain.has(k) <==> a.domain.has(k)); assert(b.bounds.variable_bounds.has(k) <==> a.bounds.variable_bounds.has(k)); } }
        assert(b.linear_constraints == a.linear_constraints);
        assert forall|env: Env| #[trigger] lz_ok(b, env) <==> lz_ok(a, env) && in_domain(as_type, env[nm]) by {
            if lz_ok(b, env) {
                assert(b.constraints@ == a.constraints@);
                assert(b.domain.has(nm));
                assert(in_domain(b.domain.map()[nm].as_type, env[nm]));
                assert forall|k: Seq<char>| #[trigger] a.domain.has(k) implies in_domain(a.domain.map()[k].as_type, env[k]) by { assert(b.domain.has(k)); }
                assert forall|k: Seq<char>| #[trigger] a.bounds.variable_bounds.has(k) implies contains(a.bounds.variable_bounds.map()[k], env[k]) by { assert(b.bounds.variable_bounds.has(k)); }
            }
            if lz_ok(a, env) && in_domain(as_type, env[nm]) {
                assert(b.domain.map()[nm].as_type == as_type);
                assert(contains(b.bounds.variable_bounds.map()[nm], env[nm]));
                assert(b.constraints@ == a.constraints@);
                assert forall|k: Seq<char>| #[trigger] b.domain.has(k) implies in_domain(b.domain.map()[k].as_type, env[k]) by { if k != nm { assert(a.domain.has(k)); } }
                assert forall|k: Seq<char>| #[trigger] b.bounds.variable_bounds.has(k) implies contains(b.bounds.variable_bounds.map()[k], env[k]) by { if k != nm { assert(a.bounds.variable_bounds.has(k)); } }
            }
        }
    }
@raw
impl InputSpan { #[verifier::external_body] pub fn default() -> (r: InputSpan) { unimplemented!() } }
