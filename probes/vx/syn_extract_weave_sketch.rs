// probe: extract items from a source file, apply R1/R10, weave fn contracts via markers
use std::collections::HashMap;
use syn::visit_mut::VisitMut;
use quote::quote;

struct Rules;
fn lit_name(tok: &str) -> String {
    let t = tok.trim_end_matches("f64").trim_end_matches("_");
    format!("lit_{}", t.replace('.', "_").replace('-', "m").replace('+', ""))
}
impl VisitMut for Rules {
    fn visit_type_mut(&mut self, t: &mut syn::Type) {
        syn::visit_mut::visit_type_mut(self, t);
        if let syn::Type::Path(p) = t {
            if p.path.is_ident("f64") { *t = syn::parse_quote!(F64); }
        }
    }
    fn visit_expr_mut(&mut self, e: &mut syn::Expr) {
        syn::visit_mut::visit_expr_mut(self, e);
        match e {
            // R1
            syn::Expr::Binary(b) => {
                use syn::BinOp::*;
                let op: Option<syn::BinOp> = match b.op {
                    SubAssign(_) => Some(syn::parse_quote!(-)), AddAssign(_) => Some(syn::parse_quote!(+)),
                    MulAssign(_) => Some(syn::parse_quote!(*)), DivAssign(_) => Some(syn::parse_quote!(/)), _ => None };
                if let Some(op) = op { let l = &b.left; let r = &b.right; *e = syn::parse_quote!(#l = #l #op (#r)); }
            }
            // R10 literals
            syn::Expr::Lit(l) => {
                if let syn::Lit::Float(f) = &l.lit {
                    let name = syn::Ident::new(&lit_name(&f.to_string()), proc_macro2::Span::call_site());
                    *e = syn::parse_quote!(F64::#name());
                }
            }
            // R10 constants
            syn::Expr::Path(p) => {
                let s = quote!(#p).to_string().replace(' ', "");
                if s == "f64::INFINITY" { *e = syn::parse_quote!(F64::c_infinity()); }
                if s == "f64::NEG_INFINITY" { *e = syn::parse_quote!(F64::c_neg_infinity()); }
            }
            _ => {}
        }
    }
}

fn main() {
    let args: Vec<String> = std::env::args().collect();
    let src = std::fs::read_to_string(&args[1]).unwrap();
    let contracts_txt = std::fs::read_to_string(&args[2]).unwrap();
    // contracts file: blocks "@fn NAME -> (r: T)\n<clauses>\n"
    let mut contracts: HashMap<String, (String, String)> = HashMap::new();
    for block in contracts_txt.split("@fn ").skip(1) {
        let (head, body) = block.split_once('\n').unwrap();
        let (name, ret) = match head.split_once("->") { Some((n, r)) => (n.trim().to_string(), r.trim().to_string()), None => (head.trim().to_string(), String::new()) };
        contracts.insert(name, (ret, body.to_string()));
    }
    let wanted: Vec<&str> = args[3].split(',').collect();
    let file: syn::File = syn::parse_file(&src).unwrap();
    let mut out = String::new();
    let mut emit_fn = |owner: Option<&str>, mut f: syn::ItemFn, out: &mut String| {
        let name = match owner { Some(o) => format!("{}::{}", o, f.sig.ident), None => f.sig.ident.to_string() };
        Rules.visit_item_fn_mut(&mut f);
        f.attrs.clear();
        f.vis = syn::Visibility::Inherited;
        // marker as first statement
        let marker: syn::Stmt = syn::parse_quote!(__VX_FN_MARK__;);
        f.block.stmts.insert(0, marker);
        let printed = prettyplease::unparse(&syn::File { shebang: None, attrs: vec![], items: vec![syn::Item::Fn(f)] });
        let (ret, clauses) = contracts.get(&name).cloned().unwrap_or_default();
        // replace "-> T {\n    __VX_FN_MARK__;" by "-> (r: T)\n clauses {"
        let idx = printed.find("__VX_FN_MARK__;").expect("marker");
        let head = &printed[..idx];
        let brace = head.rfind('{').unwrap();
        let mut sig = head[..brace].trim_end().to_string();
        if !ret.is_empty() {
            if let Some(a) = sig.rfind("->") { sig = format!("{}-> {}", &sig[..a], ret); } else { sig = format!("{} -> {}", sig, ret); }
        }
        let rest = &printed[idx + "__VX_FN_MARK__;".len()..];
        out.push_str(&format!("{}\n{}{{\n    broadcast use fl;{}", sig, clauses, rest));
    };
    for item in file.items {
        match item {
            syn::Item::Struct(mut s) if wanted.contains(&s.ident.to_string().as_str()) => {
                s.attrs.clear();
                Rules.visit_item_struct_mut(&mut s);
                s.vis = syn::parse_quote!(pub);
                for f in s.fields.iter_mut() { f.vis = syn::parse_quote!(pub); }
                out.push_str("#[derive(Clone, Copy)]\n");
                out.push_str(&prettyplease::unparse(&syn::File { shebang: None, attrs: vec![], items: vec![syn::Item::Struct(s)] }));
            }
            syn::Item::Impl(im) => {
                let ty = { let t = &im.self_ty; quote!(#t).to_string() };
                if im.trait_.is_some() || !wanted.contains(&ty.as_str()) { continue; }
                out.push_str(&format!("impl {} {{\n", ty));
                for it in im.items {
                    if let syn::ImplItem::Fn(m) = it {
                        let key = format!("{}::{}", ty, m.sig.ident);
                        if !contracts.contains_key(&key) { continue; }
                        let f = syn::ItemFn { attrs: vec![], vis: syn::Visibility::Inherited, sig: m.sig, block: Box::new(m.block) };
                        emit_fn(Some(&ty), f, &mut out);
                    }
                }
                out.push_str("}\n");
            }
            syn::Item::Fn(f) if contracts.contains_key(&f.sig.ident.to_string()) => emit_fn(None, f, &mut out),
            _ => {}
        }
    }
    println!("{}", out);
}
