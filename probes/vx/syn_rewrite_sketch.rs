use syn::visit_mut::VisitMut;
struct R;
impl VisitMut for R {
    fn visit_expr_mut(&mut self, e: &mut syn::Expr) {
        syn::visit_mut::visit_expr_mut(self, e);
        if let syn::Expr::Binary(b) = e {
            use syn::BinOp::*;
            let op: Option<syn::BinOp> = match b.op {
                SubAssign(_) => Some(syn::parse_quote!(-)),
                AddAssign(_) => Some(syn::parse_quote!(+)),
                MulAssign(_) => Some(syn::parse_quote!(*)),
                DivAssign(_) => Some(syn::parse_quote!(/)),
                _ => None };
            if let Some(op) = op {
                let l = &b.left; let r = &b.right;
                *e = syn::parse_quote!(#l = #l #op (#r));
            }
        }
    }
}
fn main() {
    let src = std::fs::read_to_string(std::env::args().nth(1).unwrap()).unwrap();
    let mut f: syn::File = syn::parse_file(&src).unwrap();
    R.visit_file_mut(&mut f);
    println!("{}", prettyplease::unparse(&f));
}
