use vstd::prelude::*;
use vstd::std_specs::ops::*;
verus! {
// ---- trusted finite F64 layer (probe version) ----
#[verifier::external_body]
#[derive(Clone, Copy)]
pub struct F64(f64);
pub uninterp spec fn rv(x: F64) -> real;
pub uninterp spec fn f_sub(a: F64, b: F64) -> F64;
pub uninterp spec fn f_mul(a: F64, b: F64) -> F64;
pub uninterp spec fn f_div(a: F64, b: F64) -> F64;
pub broadcast axiom fn ax_sub(a: F64, b: F64) ensures rv(#[trigger] f_sub(a, b)) == rv(a) - rv(b);
pub broadcast axiom fn ax_mul(a: F64, b: F64) ensures rv(#[trigger] f_mul(a, b)) == rv(a) * rv(b);
pub broadcast axiom fn ax_div(a: F64, b: F64) ensures rv(b) != 0real ==> rv(#[trigger] f_div(a, b)) == rv(a) / rv(b);
pub broadcast group fl { ax_sub, ax_mul, ax_div }
impl SubSpecImpl for F64 { open spec fn obeys_sub_spec() -> bool { true } open spec fn sub_req(self, o: F64) -> bool { true } open spec fn sub_spec(self, o: F64) -> F64 { f_sub(self, o) } }
impl MulSpecImpl for F64 { open spec fn obeys_mul_spec() -> bool { true } open spec fn mul_req(self, o: F64) -> bool { true } open spec fn mul_spec(self, o: F64) -> F64 { f_mul(self, o) } }
impl DivSpecImpl for F64 { open spec fn obeys_div_spec() -> bool { true } open spec fn div_req(self, o: F64) -> bool { true } open spec fn div_spec(self, o: F64) -> F64 { f_div(self, o) } }
impl core::ops::Sub for F64 { type Output = F64; #[verifier::external_body] fn sub(self, o: F64) -> (r: F64) { F64(self.0 - o.0) } }
impl core::ops::Mul for F64 { type Output = F64; #[verifier::external_body] fn mul(self, o: F64) -> (r: F64) { F64(self.0 * o.0) } }
impl core::ops::Div for F64 { type Output = F64; #[verifier::external_body] fn div(self, o: F64) -> (r: F64) { F64(self.0 / o.0) } }

// ---- ghost spec ----
pub open spec fn rvs(r: Seq<F64>) -> Seq<real> { r.map_values(|x: F64| rv(x)) }
pub open spec fn dot(r: Seq<real>, x: Seq<real>) -> real
    decreases r.len()
{
    if r.len() == 0 || x.len() != r.len() { 0real } else { dot(r.drop_last(), x.drop_last()) + r.last() * x.last() }
}
pub proof fn lemma_dot_comb(r: Seq<real>, t: Seq<real>, f: real, x: Seq<real>, n: Seq<real>)
    requires r.len() == t.len(), r.len() == x.len(), n.len() == r.len(),
        forall|j: int| 0 <= j < r.len() ==> n[j] == r[j] - f * t[j]
    ensures dot(n, x) == dot(r, x) - f * dot(t, x)
    decreases r.len()
{
    if r.len() == 0 {
    } else {
        lemma_dot_comb(r.drop_last(), t.drop_last(), f, x.drop_last(), n.drop_last());
        let b = dot(t.drop_last(), x.drop_last());
        assert(n.last() == r.last() - f * t.last());
        assert((r.last() - f * t.last()) * x.last() == r.last() * x.last() - f * (t.last() * x.last())) by (nonlinear_arith);
        assert(f * (b + t.last() * x.last()) == f * b + f * (t.last() * x.last())) by (nonlinear_arith);
    }
}
pub proof fn lemma_dot_scale(t: Seq<real>, p: real, x: Seq<real>, n: Seq<real>)
    requires t.len() == x.len(), n.len() == t.len(), p != 0real,
        forall|j: int| 0 <= j < t.len() ==> n[j] == t[j] / p
    ensures dot(n, x) == dot(t, x) / p
    decreases t.len()
{
    if t.len() == 0 {
        assert(0real / p == 0real) by (nonlinear_arith) requires p != 0real;
    } else {
        lemma_dot_scale(t.drop_last(), p, x.drop_last(), n.drop_last());
        let b = dot(t.drop_last(), x.drop_last());
        assert(n.last() == t.last() / p);
        assert((t.last() / p) * x.last() == (t.last() * x.last()) / p) by (nonlinear_arith) requires p != 0real;
        assert(b / p + (t.last() * x.last()) / p == (b + t.last() * x.last()) / p) by (nonlinear_arith) requires p != 0real;
    }
}
pub open spec fn row_upd(ak: Seq<F64>, bk: F64, a0k: Seq<F64>, b0k: F64, a0t: Seq<F64>, b0t: F64, h: int, p: real, n: int) -> bool {
    let f = rv(a0k[h]) / p;
    &&& rv(bk) == rv(b0k) - f * rv(b0t)
    &&& forall|j: int| 0 <= j < n ==> rv(#[trigger] ak[j]) == rv(a0k[j]) - f * rv(a0t[j])
}
pub open spec fn rect(a: Seq<Vec<F64>>, n: int) -> bool { forall|i: int| 0 <= i < a.len() ==> (#[trigger] a[i]).len() == n }
pub open spec fn sat(a: Seq<Vec<F64>>, b: Seq<F64>, x: Seq<real>) -> bool {
    forall|i: int| 0 <= i < a.len() ==> dot(rvs((#[trigger] a[i])@), x) == rv(b[i])
}

pub struct Tableau {
    pub flip_result: bool,
    pub c: Vec<F64>,
    pub a: Vec<Vec<F64>>,
    pub b: Vec<F64>,
    pub in_basis: Vec<usize>,
    pub current_value: F64,
    pub value_offset: F64,
}
impl Tableau {
    pub open spec fn wf(&self) -> bool {
        &&& self.b.len() == self.a.len()
        &&& self.in_basis.len() == self.a.len()
        &&& rect(self.a@, self.c.len() as int)
    }

    fn pivot(&mut self, t: usize, h: usize) -> (res: Result<(), ()>)
        requires
            old(self).wf(), t < old(self).a.len(), h < old(self).c.len(),
            rv(old(self).a[t as int][h as int]) != 0real,
        ensures
            final(self).wf(),
            final(self).a.len() == old(self).a.len(), final(self).c.len() == old(self).c.len(),
            final(self).in_basis@ == old(self).in_basis@.update(t as int, h),
            forall|x: Seq<real>| x.len() == old(self).c.len() ==>
                (#[trigger] sat(final(self).a@, final(self).b@, x) <==> sat(old(self).a@, old(self).b@, x)),
    {
        broadcast use fl;
        let ghost a0 = self.a@;
        let ghost b0 = self.b@;
        let ghost n = self.c.len() as int;
        let ghost m = self.a.len() as int;
        let in_basis = &mut self.in_basis;
        let a = &mut self.a;
        let b = &mut self.b;
        let c = &mut self.c;
        let pivot = a[t][h];
        let ghost p = rv(pivot);
        let ghost rt = rvs(a0[t as int]@);

        //normalize the pivot column
        let n_0 = a.len();
        for i in 0..n_0
            invariant
                n_0 == m, a.len() == m, b.len() == m, rect(a@, n), t < m, h < n, p == rv(pivot), p != 0real,
                a@[t as int] == a0[t as int], b@[t as int] == b0[t as int], rt == rvs(a0[t as int]@),
                a0.len() == m, b0.len() == m, rect(a0, n),
                forall|k: int| i <= k < m ==> #[trigger] a@[k] == a0[k],
                forall|k: int| i <= k < m ==> #[trigger] b@[k] == b0[k],
                forall|k: int| 0 <= k < i && k != t ==> row_upd(#[trigger] a@[k]@, b@[k], a0[k]@, b0[k], a0[t as int]@, b0[t as int], h as int, p, n),
        {
            broadcast use fl;
            if i != t {
                let factor = a[i][h] / pivot;
                let ghost f = rv(a0[i as int][h as int]) / p;
                assert(a@[i as int] == a0[i as int]);
                assert(factor == f_div(a@[i as int]@[h as int], pivot));
                assert(rv(pivot) != 0real);
                assert(rv(factor) == rv(a@[i as int]@[h as int]) / rv(pivot));
                assert(rv(factor) == f);
                let n_1 = a[i].len();
                for j in 0..n_1
                    invariant
                        n_1 == n,
                        a.len() == m, b.len() == m, rect(a@, n), t < m, h < n, i < m, i != t, rv(factor) == f,
                        a@[t as int] == a0[t as int], b@[t as int] == b0[t as int],
                        a0.len() == m, b0.len() == m, rect(a0, n),
                        b@[i as int] == b0[i as int],
                        forall|k: int| i < k < m ==> #[trigger] a@[k] == a0[k],
                        forall|k: int| i <= k < m ==> #[trigger] b@[k] == b0[k],
                        forall|k: int| 0 <= k < i && k != t ==> row_upd(#[trigger] a@[k]@, b@[k], a0[k]@, b0[k], a0[t as int]@, b0[t as int], h as int, p, n),
                        forall|jj: int| 0 <= jj < j ==> rv(#[trigger] a@[i as int][jj]) == rv(a0[i as int][jj]) - f * rv(a0[t as int][jj]),
                        forall|jj: int| j <= jj < n ==> a@[i as int][jj] == a0[i as int][jj],
                {
                    broadcast use fl;
                    let ghost a_prev = a@;
                    a[i][j] = a[i][j] - factor * a[t][j];
                    assert(forall|k: int| 0 <= k < m && k != i ==> #[trigger] a@[k] == a_prev[k]);
                    assert(a@[i as int]@ == a_prev[i as int]@.update(j as int, a@[i as int]@[j as int]));
                }
                b[i] = b[i] - factor * b[t];
            }
        }
        //normalize the objective function
        let factor = c[h] / pivot;
        let n_2 = c.len();
        for i in 0..n_2
            invariant n_2 == n, c.len() == n, h < n, b.len() == m, a.len() == m, rect(a@, n), t < m,
        {
            broadcast use fl;
            c[i] = c[i] - factor * a[t][i];
        }
        self.current_value = self.current_value - factor * b[t];
        let ghost a1 = a@;
        //normalize the pivot row
        let n_3 = a[t].len();
        for i in 0..n_3
            invariant
                n_3 == n, b.len() == m, in_basis.len() == m,
                a.len() == m, rect(a@, n), t < m, p == rv(pivot), p != 0real, a1.len() == m, rect(a1, n),
                forall|k: int| 0 <= k < m && k != t ==> #[trigger] a@[k] == a1[k],
                forall|jj: int| 0 <= jj < i ==> rv(#[trigger] a@[t as int][jj]) == rv(a1[t as int][jj]) / p,
                forall|jj: int| i <= jj < n ==> a@[t as int][jj] == a1[t as int][jj],
        {
            broadcast use fl;
            a[t][i] = a[t][i] / pivot;
        }
        //normalize the pivot's row value
        b[t] = b[t] / pivot;
        //update the basis
        in_basis[t] = h;
        proof {
            let a2 = a@; let b2 = b@;
            assert forall|x: Seq<real>| x.len() == n implies (#[trigger] sat(a2, b2, x) <==> sat(a0, b0, x)) by {
                let dt = dot(rt, x);
                // row t of the result
                lemma_dot_scale(rt, p, x, rvs(a2[t as int]@));
                assert(dot(rvs(a2[t as int]@), x) == dt / p);
                assert(rv(b2[t as int]) == rv(b0[t as int]) / p);
                assert forall|k: int| 0 <= k < m && k != t implies
                    dot(rvs(#[trigger] a2[k]@), x) == dot(rvs(a0[k]@), x) - (rv(a0[k][h as int]) / p) * dt by {
                    lemma_dot_comb(rvs(a0[k]@), rt, rv(a0[k][h as int]) / p, x, rvs(a2[k]@));
                }
                if sat(a0, b0, x) {
                    assert(dot(rvs(a0[t as int]@), x) == rv(b0[t as int]));
                    assert forall|k: int| 0 <= k < m implies dot(rvs(#[trigger] a2[k]@), x) == rv(b2[k]) by {
                        if k != t { assert(dot(rvs(a0[k]@), x) == rv(b0[k])); }
                    }
                }
                if sat(a2, b2, x) {
                    assert(dot(rvs(a2[t as int]@), x) == rv(b2[t as int]));
                    assert(dt == rv(b0[t as int])) by (nonlinear_arith) requires dt / p == rv(b0[t as int]) / p, p != 0real;
                    assert forall|k: int| 0 <= k < m implies dot(rvs(#[trigger] a0[k]@), x) == rv(b0[k]) by {
                        if k != t { assert(dot(rvs(a2[k]@), x) == rv(b2[k])); }
                    }
                }
            }
        }
        Ok(())
    }
}
} // verus!
fn main() {}
