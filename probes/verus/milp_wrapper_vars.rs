use vstd::prelude::*;
use vstd::std_specs::ops::*;
verus! {
// ================= trusted F64 layer (Ext version) =================
pub enum Ext { NaN, NegInf, Fin(real), PosInf }
#[verifier::external_body]
#[derive(Clone, Copy)]
pub struct F64(f64);
pub uninterp spec fn fv(x: F64) -> Ext;

pub open spec fn ext_neg(a: Ext) -> Ext {
    match a { Ext::NaN => Ext::NaN, Ext::PosInf => Ext::NegInf, Ext::NegInf => Ext::PosInf, Ext::Fin(x) => Ext::Fin(-x) }
}
pub open spec fn ext_add(a: Ext, b: Ext) -> Ext {
    match (a, b) {
        (Ext::NaN, _) | (_, Ext::NaN) => Ext::NaN,
        (Ext::PosInf, Ext::NegInf) | (Ext::NegInf, Ext::PosInf) => Ext::NaN,
        (Ext::PosInf, _) | (_, Ext::PosInf) => Ext::PosInf,
        (Ext::NegInf, _) | (_, Ext::NegInf) => Ext::NegInf,
        (Ext::Fin(x), Ext::Fin(y)) => Ext::Fin(x + y),
    }
}
pub open spec fn sgn(a: Ext) -> int {   // -1, 0, 1 ; NaN -> 2
    match a { Ext::NaN => 2, Ext::NegInf => -1, Ext::PosInf => 1, Ext::Fin(x) => if x > 0real { 1 } else if x < 0real { -1 } else { 0 } }
}
pub open spec fn ext_mul(a: Ext, b: Ext) -> Ext {
    match (a, b) {
        (Ext::NaN, _) | (_, Ext::NaN) => Ext::NaN,
        (Ext::Fin(x), Ext::Fin(y)) => Ext::Fin(x * y),
        _ => if sgn(a) == 0 || sgn(b) == 0 { Ext::NaN } else if sgn(a) == sgn(b) { Ext::PosInf } else { Ext::NegInf },
    }
}
pub open spec fn ext_div(a: Ext, b: Ext) -> Ext {
    match (a, b) {
        (Ext::NaN, _) | (_, Ext::NaN) => Ext::NaN,
        (Ext::Fin(x), Ext::Fin(y)) => if y != 0real { Ext::Fin(x / y) } else if x == 0real { Ext::NaN } else if x > 0real { Ext::PosInf } else { Ext::NegInf },   // sign of zero ignored
        (Ext::Fin(_), _) => Ext::Fin(0real),
        (_, Ext::Fin(y)) => if (sgn(a) == 1) == (y >= 0real) { Ext::PosInf } else { Ext::NegInf },
        _ => Ext::NaN,
    }
}
pub open spec fn ext_le(a: Ext, b: Ext) -> bool {
    match (a, b) {
        (Ext::NaN, _) | (_, Ext::NaN) => false,
        (Ext::NegInf, _) => true,
        (_, Ext::PosInf) => true,
        (Ext::Fin(x), Ext::Fin(y)) => x <= y,
        _ => false,
    }
}
pub open spec fn ext_lt(a: Ext, b: Ext) -> bool { ext_le(a, b) && !ext_le(b, a) }
pub open spec fn ext_eq(a: Ext, b: Ext) -> bool { ext_le(a, b) && ext_le(b, a) }
pub open spec fn ext_max(a: Ext, b: Ext) -> Ext { if a is NaN { b } else if b is NaN { a } else if ext_le(a, b) { b } else { a } }
pub open spec fn ext_min(a: Ext, b: Ext) -> Ext { if a is NaN { b } else if b is NaN { a } else if ext_le(a, b) { a } else { b } }

pub uninterp spec fn f_neg(a: F64) -> F64;
pub uninterp spec fn f_add(a: F64, b: F64) -> F64;
pub uninterp spec fn f_sub(a: F64, b: F64) -> F64;
pub uninterp spec fn f_mul(a: F64, b: F64) -> F64;
pub uninterp spec fn f_div(a: F64, b: F64) -> F64;
pub broadcast axiom fn ax_neg(a: F64) ensures fv(#[trigger] f_neg(a)) == ext_neg(fv(a));
pub broadcast axiom fn ax_add(a: F64, b: F64) ensures fv(#[trigger] f_add(a, b)) == ext_add(fv(a), fv(b));
pub broadcast axiom fn ax_sub(a: F64, b: F64) ensures fv(#[trigger] f_sub(a, b)) == ext_add(fv(a), ext_neg(fv(b)));
pub broadcast axiom fn ax_mul(a: F64, b: F64) ensures fv(#[trigger] f_mul(a, b)) == ext_mul(fv(a), fv(b));
pub broadcast axiom fn ax_div(a: F64, b: F64) ensures fv(#[trigger] f_div(a, b)) == ext_div(fv(a), fv(b));
pub broadcast group fl { ax_neg, ax_add, ax_sub, ax_mul, ax_div }
impl NegSpecImpl for F64 { open spec fn obeys_neg_spec() -> bool { true } open spec fn neg_req(self) -> bool { true } open spec fn neg_spec(self) -> F64 { f_neg(self) } }
impl AddSpecImpl for F64 { open spec fn obeys_add_spec() -> bool { true } open spec fn add_req(self, o: F64) -> bool { true } open spec fn add_spec(self, o: F64) -> F64 { f_add(self, o) } }
impl SubSpecImpl for F64 { open spec fn obeys_sub_spec() -> bool { true } open spec fn sub_req(self, o: F64) -> bool { true } open spec fn sub_spec(self, o: F64) -> F64 { f_sub(self, o) } }
impl MulSpecImpl for F64 { open spec fn obeys_mul_spec() -> bool { true } open spec fn mul_req(self, o: F64) -> bool { true } open spec fn mul_spec(self, o: F64) -> F64 { f_mul(self, o) } }
impl DivSpecImpl for F64 { open spec fn obeys_div_spec() -> bool { true } open spec fn div_req(self, o: F64) -> bool { true } open spec fn div_spec(self, o: F64) -> F64 { f_div(self, o) } }
impl core::ops::Neg for F64 { type Output = F64; #[verifier::external_body] fn neg(self) -> (r: F64) { F64(-self.0) } }
impl core::ops::Add for F64 { type Output = F64; #[verifier::external_body] fn add(self, o: F64) -> (r: F64) { F64(self.0 + o.0) } }
impl core::ops::Sub for F64 { type Output = F64; #[verifier::external_body] fn sub(self, o: F64) -> (r: F64) { F64(self.0 - o.0) } }
impl core::ops::Mul for F64 { type Output = F64; #[verifier::external_body] fn mul(self, o: F64) -> (r: F64) { F64(self.0 * o.0) } }
impl core::ops::Div for F64 { type Output = F64; #[verifier::external_body] fn div(self, o: F64) -> (r: F64) { F64(self.0 / o.0) } }
impl core::cmp::PartialEq for F64 { #[verifier::external_body] fn eq(&self, o: &F64) -> (r: bool) ensures r == ext_eq(fv(*self), fv(*o)) { self.0 == o.0 } }
impl core::cmp::PartialOrd for F64 {
    #[verifier::external_body] fn partial_cmp(&self, o: &F64) -> (r: Option<core::cmp::Ordering>) { self.0.partial_cmp(&o.0) }
    #[verifier::external_body] fn lt(&self, o: &F64) -> (r: bool) ensures r == ext_lt(fv(*self), fv(*o)) { self.0 < o.0 }
    #[verifier::external_body] fn le(&self, o: &F64) -> (r: bool) ensures r == ext_le(fv(*self), fv(*o)) { self.0 <= o.0 }
    #[verifier::external_body] fn gt(&self, o: &F64) -> (r: bool) ensures r == ext_lt(fv(*o), fv(*self)) { self.0 > o.0 }
    #[verifier::external_body] fn ge(&self, o: &F64) -> (r: bool) ensures r == ext_le(fv(*o), fv(*self)) { self.0 >= o.0 }
}
impl F64 {
    #[verifier::external_body] pub fn is_nan(self) -> (r: bool) ensures r == (fv(self) is NaN) { self.0.is_nan() }
    #[verifier::external_body] pub fn max(self, o: F64) -> (r: F64) ensures fv(r) == ext_max(fv(self), fv(o)) { F64(self.0.max(o.0)) }
    #[verifier::external_body] pub fn min(self, o: F64) -> (r: F64) ensures fv(r) == ext_min(fv(self), fv(o)) { F64(self.0.min(o.0)) }
    #[verifier::external_body] pub fn c_infinity() -> (r: F64) ensures fv(r) == Ext::PosInf { F64(f64::INFINITY) }
    #[verifier::external_body] pub fn c_neg_infinity() -> (r: F64) ensures fv(r) == Ext::NegInf { F64(f64::NEG_INFINITY) }
    #[verifier::external_body] pub fn lit_0_0() -> (r: F64) ensures fv(r) == Ext::Fin(0real) { F64(0.0) }
    #[verifier::external_body] pub fn lit_1_0() -> (r: F64) ensures fv(r) == Ext::Fin(1real) { F64(1.0) }
}


// ---------- crate datatypes (extracted) ----------
#[derive(Clone, Copy, PartialEq, Eq)]
pub enum Comparison { LessOrEqual, GreaterOrEqual, Equal, Less, Greater }
#[derive(Clone, PartialEq, Eq)]
pub enum OptimizationType { Min, Max, Satisfy }
#[derive(Clone, Copy)]
pub enum VariableType { Boolean, NonNegativeReal(F64, F64), Real(F64, F64), IntegerRange(i32, i32) }
pub struct LinearConstraint { pub name: String, pub coefficients: Vec<F64>, pub rhs: F64, pub constraint_type: Comparison }
impl LinearConstraint {
    pub fn coefficients(&self) -> (r: &Vec<F64>) ensures r == &self.coefficients { &self.coefficients }
    pub fn rhs(&self) -> (r: F64) ensures r == self.rhs { self.rhs }
    pub fn constraint_type(&self) -> (r: &Comparison) ensures *r == self.constraint_type { &self.constraint_type }
}
// ---------- microlp ghost model (TRUSTED) ----------
#[derive(Clone, Copy, PartialEq, Eq)] pub enum OptimizationDirection { Minimize, Maximize }
#[derive(Clone, Copy, PartialEq, Eq)] pub enum ComparisonOp { Eq, Le, Ge }
pub enum VKind { Cont, Int, Bin }
pub struct GVar { pub coef: F64, pub lo: Ext, pub hi: Ext, pub kind: VKind }
pub struct GRow { pub terms: Seq<(int, F64)>, pub op: ComparisonOp, pub rhs: F64 }
#[derive(Clone, Copy)]
pub struct Variable(pub usize);
#[verifier::external_body]
pub struct Problem { _p: () }
impl Problem {
    pub uninterp spec fn dir(&self) -> OptimizationDirection;
    pub uninterp spec fn vars(&self) -> Seq<GVar>;
    pub uninterp spec fn rows(&self) -> Seq<GRow>;
    #[verifier::external_body]
    pub fn new(d: OptimizationDirection) -> (r: Problem) ensures r.dir() == d, r.vars().len() == 0, r.rows().len() == 0 { unimplemented!() }
    #[verifier::external_body]
    pub fn add_var(&mut self, coef: F64, b: (F64, F64)) -> (v: Variable)
        ensures final(self).dir() == old(self).dir(), final(self).rows() == old(self).rows(),
            final(self).vars() == old(self).vars().push(GVar { coef, lo: fv(b.0), hi: fv(b.1), kind: VKind::Cont }), v.0 == old(self).vars().len()
    { unimplemented!() }
    #[verifier::external_body]
    pub fn add_binary_var(&mut self, coef: F64) -> (v: Variable)
        ensures final(self).dir() == old(self).dir(), final(self).rows() == old(self).rows(),
            final(self).vars() == old(self).vars().push(GVar { coef, lo: Ext::Fin(0real), hi: Ext::Fin(1real), kind: VKind::Bin }), v.0 == old(self).vars().len()
    { unimplemented!() }
    #[verifier::external_body]
    pub fn add_integer_var(&mut self, coef: F64, b: (i32, i32)) -> (v: Variable)
        ensures final(self).dir() == old(self).dir(), final(self).rows() == old(self).rows(),
            final(self).vars() == old(self).vars().push(GVar { coef, lo: Ext::Fin(b.0 as real), hi: Ext::Fin(b.1 as real), kind: VKind::Int }), v.0 == old(self).vars().len()
    { unimplemented!() }
    #[verifier::external_body]
    pub fn add_constraint(&mut self, terms: Vec<(Variable, F64)>, op: ComparisonOp, rhs: F64)
        ensures final(self).dir() == old(self).dir(), final(self).vars() == old(self).vars(),
            final(self).rows() == old(self).rows().push(GRow { terms: Seq::new(terms@.len(), |i: int| (terms@[i].0.0 as int, terms@[i].1)), op, rhs })
    { unimplemented!() }
}
// ---------- stub IndexMap (TRUSTED) ----------
#[verifier::external_body]
#[verifier::accept_recursive_types(V)]
pub struct IndexMapSV<V> { _p: core::marker::PhantomData<V> }
impl<V> IndexMapSV<V> {
    pub uninterp spec fn map(&self) -> Map<Seq<char>, V>;
    #[verifier::external_body]
    pub fn get(&self, k: &String) -> (r: Option<&V>) ensures r matches Some(v) ==> self.map().dom().contains(k@) && *v == self.map()[k@], r is None ==> !self.map().dom().contains(k@) { unimplemented!() }
}
pub struct DomainVariable { pub as_type: VariableType }
impl DomainVariable { pub fn get_type(&self) -> (r: &VariableType) ensures *r == self.as_type { &self.as_type } }
pub struct LinearModel {
    pub variables: Vec<String>, pub domain: IndexMapSV<DomainVariable>, pub objective_offset: F64,
    pub optimization_type: OptimizationType, pub objective: Vec<F64>, pub constraints: Vec<LinearConstraint>,
}
impl LinearModel {
    pub fn variables(&self) -> (r: &Vec<String>) ensures r == &self.variables { &self.variables }
    pub fn domain(&self) -> (r: &IndexMapSV<DomainVariable>) ensures r == &self.domain { &self.domain }
    pub fn objective(&self) -> (r: &Vec<F64>) ensures r == &self.objective { &self.objective }
    pub fn constraints(&self) -> (r: &Vec<LinearConstraint>) ensures r == &self.constraints { &self.constraints }
    pub fn optimization_type(&self) -> (r: &OptimizationType) ensures *r == self.optimization_type { &self.optimization_type }
}
pub enum SolverError { Other(String), UnavailableComparison { got: Comparison, expected: Vec<Comparison> } }
#[verifier::external_body] fn opaque_string() -> (r: String) { String::new() }

pub open spec fn wf_model(lp: &LinearModel) -> bool {
    &&& forall|i: int| 0 <= i < lp.variables@.len() ==> lp.domain.map().dom().contains(#[trigger] lp.variables@[i]@)
    &&& forall|j: int| 0 <= j < lp.constraints@.len() ==> (#[trigger] lp.constraints@[j]).coefficients@.len() == lp.variables@.len()
}
pub open spec fn var_matches(g: GVar, coef: F64, t: VariableType) -> bool {
    g.coef == coef && match t {
        VariableType::Boolean => g.kind is Bin && g.lo == Ext::Fin(0real) && g.hi == Ext::Fin(1real),
        VariableType::IntegerRange(a, b) => g.kind is Int && g.lo == Ext::Fin(a as real) && g.hi == Ext::Fin(b as real),
        VariableType::Real(a, b) | VariableType::NonNegativeReal(a, b) => g.kind is Cont && g.lo == fv(a) && g.hi == fv(b),
    }
}

// ---------- extracted: first half of solve_milp_lp_problem_with (110-178), rules R4 R6 R10 R11 ----------
pub fn build(lp: &LinearModel) -> (res: Result<(Problem, Vec<Variable>), SolverError>)
    requires wf_model(lp)
    ensures res matches Ok((p, vs)) ==> {
        &&& p.vars().len() == lp.variables@.len()
        &&& forall|i: int| 0 <= i < lp.variables@.len() ==> var_matches(#[trigger] p.vars()[i], lp.objective@[i], lp.domain.map()[lp.variables@[i]@].as_type)
        &&& (p.dir() == OptimizationDirection::Maximize <==> lp.optimization_type == OptimizationType::Max)
    }
{
    let variables = lp.variables();
    let domain = lp.domain();
    let objective = lp.objective();
    if objective.len() != variables.len() {
        return Err(SolverError::Other(opaque_string()));
    }
    let mut microlp_vars = Vec::with_capacity(variables.len());
    let opt_type = match lp.optimization_type() {
        OptimizationType::Max => OptimizationDirection::Maximize,
        OptimizationType::Min => OptimizationDirection::Minimize,
        OptimizationType::Satisfy => OptimizationDirection::Minimize,
    };
    let mut problem = Problem::new(opt_type);
    let n_0 = variables.len();
    for i in 0..n_0
        invariant
            n_0 == variables@.len(), objective@.len() == n_0, variables == &lp.variables, domain == &lp.domain, objective == &lp.objective, wf_model(lp),
            problem.dir() == opt_type, problem.rows().len() == 0,
            problem.vars().len() == i, microlp_vars@.len() == i,
            forall|k: int| 0 <= k < i ==> var_matches(#[trigger] problem.vars()[k], lp.objective@[k], lp.domain.map()[lp.variables@[k]@].as_type),
    {
        let var = &variables[i];
        let var_domain = domain.get(var).unwrap();
        let coeff = objective[i];
        let added_var = match var_domain.get_type() {
            VariableType::Real(min, max) => problem.add_var(coeff, (*min, *max)),
            VariableType::Boolean => problem.add_binary_var(coeff),
            VariableType::IntegerRange(min, max) => problem.add_integer_var(coeff, (*min, *max)),
            VariableType::NonNegativeReal(min, max) => problem.add_var(coeff, (*min, *max)),
        };
        microlp_vars.push(added_var);
    }
    Ok((problem, microlp_vars))
}
} // verus!
fn main() {}
