import subprocess
tests = [
 "v.iter().map(|x: &u64| -> (o: u64) { *x / 2 }).fold(0u64, |a: u64, b: u64| -> (o: u64) { if a > b { a } else { b } })",
 "{ let mut it = v.iter().map(|x: &u64| -> (o: u64) { *x / 2 }); match it.next() { Some(f) => f, None => 0 } }",
 "{ let mut s = 0u64; for (a, b) in v.iter().zip(w.iter()) { if *a < *b && s < 100 { s = s + 1; } } s }",
 "{ let mut s = 0u64; for a in v.iter().filter(|x: &&u64| -> (o: bool) { **x > 3 }) { if s < 100 { s = s + 1; } } s }",
 "{ if v.iter().any(|x: &u64| -> (o: bool) { *x > 3 }) { 1 } else { 0 } }",
 "v.iter().map(|x: &u64| -> (o: u64) { *x / 4 }).sum::<u64>()",
 "{ let o: Option<Vec<u64>> = v.iter().map(|x: &u64| -> (o: Option<u64>) { if *x > 3 { Some(*x) } else { None } }).collect::<Option<Vec<u64>>>(); match o { Some(_) => 1, None => 0 } }",
 "{ let mut s = 0u64; let mut q: std::collections::VecDeque<u64> = std::collections::VecDeque::new(); q.push_front(3); q.push_back(4); match q.pop_front() { Some(x) => x, None => 0 } }",
 "{ let mut c = v.clone(); c.resize(10, 0); c.truncate(2); c.len() as u64 }",
 "{ let mut c = v.clone(); c.retain(|x: &u64| -> (o: bool) { *x > 3 }); c.len() as u64 }",
 "{ let mut c = v.clone(); c.sort(); c.len() as u64 }",
 "{ if v.contains(&3) { 1 } else { 0 } }",
]
for t in tests:
    open('it.rs','w').write('use vstd::prelude::*;\nverus! {\nfn f(v: &Vec<u64>, w: &Vec<u64>) -> u64 { %s }\n}\nfn main() {}\n' % t)
    r = subprocess.run(['verus','it.rs','--triggers-mode','silent'],capture_output=True,text=True)
    lines=[l for l in (r.stdout+r.stderr).splitlines() if l.startswith('error') or 'verification results' in l]
    print('==',t[:75]); print('   ', ' | '.join(l[:150] for l in lines[:2]))
