use vstd::prelude::*;
use vstd::std_specs::ops::*;
verus! {
// ================= trusted F64 layer (Ext version) =================
pub enum Ext { NaN, NegInf, Fin(real), PosInf }
#[verifier::external_body]
#[derive(Clone, Copy)]
pub struct F64(f64);
pub uninterp spec fn fv(x: F64) -> Ext;

pub open spec fn ext_neg(a: Ext) -> Ext {
    match a { Ext::NaN => Ext::NaN, Ext::PosInf => Ext::NegInf, Ext::NegInf => Ext::PosInf, Ext::Fin(x) => Ext::Fin(-x) }
}
pub open spec fn ext_add(a: Ext, b: Ext) -> Ext {
    match (a, b) {
        (Ext::NaN, _) | (_, Ext::NaN) => Ext::NaN,
        (Ext::PosInf, Ext::NegInf) | (Ext::NegInf, Ext::PosInf) => Ext::NaN,
        (Ext::PosInf, _) | (_, Ext::PosInf) => Ext::PosInf,
        (Ext::NegInf, _) | (_, Ext::NegInf) => Ext::NegInf,
        (Ext::Fin(x), Ext::Fin(y)) => Ext::Fin(x + y),
    }
}
pub open spec fn sgn(a: Ext) -> int {   // -1, 0, 1 ; NaN -> 2
    match a { Ext::NaN => 2, Ext::NegInf => -1, Ext::PosInf => 1, Ext::Fin(x) => if x > 0real { 1 } else if x < 0real { -1 } else { 0 } }
}
pub open spec fn ext_mul(a: Ext, b: Ext) -> Ext {
    match (a, b) {
        (Ext::NaN, _) | (_, Ext::NaN) => Ext::NaN,
        (Ext::Fin(x), Ext::Fin(y)) => Ext::Fin(x * y),
        _ => if sgn(a) == 0 || sgn(b) == 0 { Ext::NaN } else if sgn(a) == sgn(b) { Ext::PosInf } else { Ext::NegInf },
    }
}
pub open spec fn ext_div(a: Ext, b: Ext) -> Ext {
    match (a, b) {
        (Ext::NaN, _) | (_, Ext::NaN) => Ext::NaN,
        (Ext::Fin(x), Ext::Fin(y)) => if y != 0real { Ext::Fin(x / y) } else if x == 0real { Ext::NaN } else if x > 0real { Ext::PosInf } else { Ext::NegInf },   // sign of zero ignored
        (Ext::Fin(_), _) => Ext::Fin(0real),
        (_, Ext::Fin(y)) => if (sgn(a) == 1) == (y >= 0real) { Ext::PosInf } else { Ext::NegInf },
        _ => Ext::NaN,
    }
}
pub open spec fn ext_le(a: Ext, b: Ext) -> bool {
    match (a, b) {
        (Ext::NaN, _) | (_, Ext::NaN) => false,
        (Ext::NegInf, _) => true,
        (_, Ext::PosInf) => true,
        (Ext::Fin(x), Ext::Fin(y)) => x <= y,
        _ => false,
    }
}
pub open spec fn ext_lt(a: Ext, b: Ext) -> bool { ext_le(a, b) && !ext_le(b, a) }
pub open spec fn ext_eq(a: Ext, b: Ext) -> bool { ext_le(a, b) && ext_le(b, a) }
pub open spec fn ext_max(a: Ext, b: Ext) -> Ext { if a is NaN { b } else if b is NaN { a } else if ext_le(a, b) { b } else { a } }
pub open spec fn ext_min(a: Ext, b: Ext) -> Ext { if a is NaN { b } else if b is NaN { a } else if ext_le(a, b) { a } else { b } }

pub uninterp spec fn f_neg(a: F64) -> F64;
pub uninterp spec fn f_add(a: F64, b: F64) -> F64;
pub uninterp spec fn f_sub(a: F64, b: F64) -> F64;
pub uninterp spec fn f_mul(a: F64, b: F64) -> F64;
pub uninterp spec fn f_div(a: F64, b: F64) -> F64;
pub broadcast axiom fn ax_neg(a: F64) ensures fv(#[trigger] f_neg(a)) == ext_neg(fv(a));
pub broadcast axiom fn ax_add(a: F64, b: F64) ensures fv(#[trigger] f_add(a, b)) == ext_add(fv(a), fv(b));
pub broadcast axiom fn ax_sub(a: F64, b: F64) ensures fv(#[trigger] f_sub(a, b)) == ext_add(fv(a), ext_neg(fv(b)));
pub broadcast axiom fn ax_mul(a: F64, b: F64) ensures fv(#[trigger] f_mul(a, b)) == ext_mul(fv(a), fv(b));
pub broadcast axiom fn ax_div(a: F64, b: F64) ensures fv(#[trigger] f_div(a, b)) == ext_div(fv(a), fv(b));
pub broadcast group fl { ax_neg, ax_add, ax_sub, ax_mul, ax_div }
impl NegSpecImpl for F64 { open spec fn obeys_neg_spec() -> bool { true } open spec fn neg_req(self) -> bool { true } open spec fn neg_spec(self) -> F64 { f_neg(self) } }
impl AddSpecImpl for F64 { open spec fn obeys_add_spec() -> bool { true } open spec fn add_req(self, o: F64) -> bool { true } open spec fn add_spec(self, o: F64) -> F64 { f_add(self, o) } }
impl SubSpecImpl for F64 { open spec fn obeys_sub_spec() -> bool { true } open spec fn sub_req(self, o: F64) -> bool { true } open spec fn sub_spec(self, o: F64) -> F64 { f_sub(self, o) } }
impl MulSpecImpl for F64 { open spec fn obeys_mul_spec() -> bool { true } open spec fn mul_req(self, o: F64) -> bool { true } open spec fn mul_spec(self, o: F64) -> F64 { f_mul(self, o) } }
impl DivSpecImpl for F64 { open spec fn obeys_div_spec() -> bool { true } open spec fn div_req(self, o: F64) -> bool { true } open spec fn div_spec(self, o: F64) -> F64 { f_div(self, o) } }
impl core::ops::Neg for F64 { type Output = F64; #[verifier::external_body] fn neg(self) -> (r: F64) { F64(-self.0) } }
impl core::ops::Add for F64 { type Output = F64; #[verifier::external_body] fn add(self, o: F64) -> (r: F64) { F64(self.0 + o.0) } }
impl core::ops::Sub for F64 { type Output = F64; #[verifier::external_body] fn sub(self, o: F64) -> (r: F64) { F64(self.0 - o.0) } }
impl core::ops::Mul for F64 { type Output = F64; #[verifier::external_body] fn mul(self, o: F64) -> (r: F64) { F64(self.0 * o.0) } }
impl core::ops::Div for F64 { type Output = F64; #[verifier::external_body] fn div(self, o: F64) -> (r: F64) { F64(self.0 / o.0) } }
impl core::cmp::PartialEq for F64 { #[verifier::external_body] fn eq(&self, o: &F64) -> (r: bool) ensures r == ext_eq(fv(*self), fv(*o)) { self.0 == o.0 } }
impl core::cmp::PartialOrd for F64 {
    #[verifier::external_body] fn partial_cmp(&self, o: &F64) -> (r: Option<core::cmp::Ordering>) { self.0.partial_cmp(&o.0) }
    #[verifier::external_body] fn lt(&self, o: &F64) -> (r: bool) ensures r == ext_lt(fv(*self), fv(*o)) { self.0 < o.0 }
    #[verifier::external_body] fn le(&self, o: &F64) -> (r: bool) ensures r == ext_le(fv(*self), fv(*o)) { self.0 <= o.0 }
    #[verifier::external_body] fn gt(&self, o: &F64) -> (r: bool) ensures r == ext_lt(fv(*o), fv(*self)) { self.0 > o.0 }
    #[verifier::external_body] fn ge(&self, o: &F64) -> (r: bool) ensures r == ext_le(fv(*o), fv(*self)) { self.0 >= o.0 }
}
impl F64 {
    #[verifier::external_body] pub fn is_nan(self) -> (r: bool) ensures r == (fv(self) is NaN) { self.0.is_nan() }
    #[verifier::external_body] pub fn max(self, o: F64) -> (r: F64) ensures fv(r) == ext_max(fv(self), fv(o)) { F64(self.0.max(o.0)) }
    #[verifier::external_body] pub fn min(self, o: F64) -> (r: F64) ensures fv(r) == ext_min(fv(self), fv(o)) { F64(self.0.min(o.0)) }
    #[verifier::external_body] pub fn c_infinity() -> (r: F64) ensures fv(r) == Ext::PosInf { F64(f64::INFINITY) }
    #[verifier::external_body] pub fn c_neg_infinity() -> (r: F64) ensures fv(r) == Ext::NegInf { F64(f64::NEG_INFINITY) }
    #[verifier::external_body] pub fn lit_0_0() -> (r: F64) ensures fv(r) == Ext::Fin(0real) { F64(0.0) }
    #[verifier::external_body] pub fn lit_1_0() -> (r: F64) ensures fv(r) == Ext::Fin(1real) { F64(1.0) }
}


impl F64 {
    #[verifier::external_body] pub fn abs(self) -> (r: F64) ensures fv(r) == (match fv(self) { Ext::NaN => Ext::NaN, Ext::NegInf => Ext::PosInf, Ext::PosInf => Ext::PosInf, Ext::Fin(x) => Ext::Fin(if x >= 0real { x } else { -x }) }) { F64(self.0.abs()) }
}
pub open spec fn finite(x: F64) -> bool { fv(x) is Fin }
pub open spec fn rv(x: F64) -> real { fv(x)->Fin_0 }

#[derive(Clone, Copy, PartialEq, Eq)]
pub enum BinOp { Add, Sub, Mul, Div, And, Or, Xor, Implies, Iff }
#[derive(Clone, Copy, PartialEq, Eq)]
pub enum UnOp { Neg, Not }
pub enum Exp {
    Number(F64),
    Variable(String),
    Abs(Box<Exp>),
    Not(Box<Exp>),
    BinOp(BinOp, Box<Exp>, Box<Exp>),
    UnOp(UnOp, Box<Exp>),
}
impl Clone for Exp { #[verifier::external_body] fn clone(&self) -> (r: Exp) ensures r == *self { unimplemented!() } }

pub type Env = Map<Seq<char>, real>;

pub open spec fn rmul(a: real, b: real) -> real { a * b }
pub open spec fn rdiv(a: real, b: real) -> real { a / b }
pub broadcast proof fn lemma_mul_ids(b: real)
    ensures #[trigger] rmul(0real, b) == 0real, #[trigger] rmul(b, 0real) == 0real, #[trigger] rmul(1real, b) == b, #[trigger] rmul(b, 1real) == b, #[trigger] rdiv(b, 1real) == b
{
    assert(0real * b == 0real) by (nonlinear_arith);
    assert(b * 0real == 0real) by (nonlinear_arith);
    assert(1real * b == b) by (nonlinear_arith);
    assert(b * 1real == b) by (nonlinear_arith);
    assert(b / 1real == b) by (nonlinear_arith);
}
pub open spec fn rabs(x: real) -> real { if x >= 0real { x } else { -x } }
pub open spec fn b2r(b: bool) -> real { if b { 1real } else { 0real } }
// all source numbers are finite (precondition of the unit); sem is partial because of division
pub open spec fn sem(e: Exp, env: Env) -> Option<real> decreases e {
    match e {
        Exp::Number(v) => Some(rv(v)),
        Exp::Variable(n) => Some(env[n@]),
        Exp::Abs(i) => match sem(*i, env) { Some(a) => Some(rabs(a)), None => None },
        Exp::Not(i) => match sem(*i, env) { Some(a) => Some(b2r(a == 0real)), None => None },
        Exp::UnOp(op, i) => match sem(*i, env) { Some(a) => Some(match op { UnOp::Neg => -a, UnOp::Not => b2r(a == 0real) }), None => None },
        Exp::BinOp(op, l, r) => match (sem(*l, env), sem(*r, env)) {
            (Some(a), Some(b)) => match op {
                BinOp::Add => Some(a + b), BinOp::Sub => Some(a - b), BinOp::Mul => Some(rmul(a, b)),
                BinOp::Div => if b == 0real { None } else { Some(rdiv(a, b)) },
                BinOp::And => Some(b2r(a != 0real && b != 0real)), BinOp::Or => Some(b2r(a != 0real || b != 0real)),
                BinOp::Xor => Some(b2r((a != 0real) != (b != 0real))), BinOp::Implies => Some(b2r(a == 0real || b != 0real)),
                BinOp::Iff => Some(b2r((a != 0real) == (b != 0real))),
            },
            _ => None,
        },
    }
}
pub open spec fn nums_finite(e: Exp) -> bool decreases e {
    match e {
        Exp::Number(v) => finite(v),
        Exp::Variable(_) => true,
        Exp::Abs(i) | Exp::Not(i) | Exp::UnOp(_, i) => nums_finite(*i),
        Exp::BinOp(_, l, r) => nums_finite(*l) && nums_finite(*r),
    }
}
pub open spec fn preserves(e: Exp, r: Exp) -> bool {
    forall|env: Env| #![trigger sem(e, env)] sem(e, env) is Some ==> sem(r, env) == sem(e, env)
}

impl Exp {
    pub fn to_box(self) -> (r: Box<Exp>) ensures *r == self { Box::new(self) }

    pub fn simplify(&self) -> (r: Exp)
        requires nums_finite(*self)
        ensures nums_finite(r), preserves(*self, r)
        decreases self
    {
        broadcast use fl;
        broadcast use lemma_mul_ids;
        match self {
            Exp::BinOp(op, lhs, rhs) => {
                let lhs = lhs.simplify();
                let rhs = rhs.simplify();
                match op {
                    BinOp::Add => match (lhs, rhs) {
                        (Exp::Number(lhs), Exp::Number(rhs)) => Exp::Number(lhs + rhs),
                        (Exp::Number(z), rhs) if z == F64::lit_0_0() => rhs,
                        (lhs, Exp::Number(z)) if z == F64::lit_0_0() => lhs,
                        (lhs, rhs) => Exp::BinOp(BinOp::Add, lhs.to_box(), rhs.to_box()),
                    },
                    BinOp::Sub => match (lhs, rhs) {
                        (Exp::Number(lhs), Exp::Number(rhs)) => Exp::Number(lhs - rhs),
                        (lhs, Exp::Number(z)) if z == F64::lit_0_0() => lhs,
                        (lhs, rhs) => Exp::BinOp(BinOp::Sub, lhs.to_box(), rhs.to_box()),
                    },
                    BinOp::Mul => match (lhs, rhs) {
                        (Exp::Number(lhs), Exp::Number(rhs)) => Exp::Number(lhs * rhs),
                        (Exp::Number(z), _) if z == F64::lit_0_0() => Exp::Number(F64::lit_0_0()),
                        (_, Exp::Number(z)) if z == F64::lit_0_0() => Exp::Number(F64::lit_0_0()),
                        (Exp::Number(o), rhs) if o == F64::lit_1_0() => rhs,
                        (lhs, Exp::Number(o)) if o == F64::lit_1_0() => lhs,
                        (lhs, rhs) => Exp::BinOp(BinOp::Mul, lhs.to_box(), rhs.to_box()),
                    },
                    BinOp::Div => match (lhs, rhs) {
                        (Exp::Number(lhs), Exp::Number(rhs)) => {
                            if rhs == F64::lit_0_0() {
                                Exp::BinOp(BinOp::Div, Exp::Number(lhs).to_box(), Exp::Number(rhs).to_box())
                            } else {
                                Exp::Number(lhs / rhs)
                            }
                        }
                        (lhs, Exp::Number(o)) if o == F64::lit_1_0() => lhs,
                        (lhs, rhs) => Exp::BinOp(BinOp::Div, lhs.to_box(), rhs.to_box()),
                    },
                    _ => Exp::BinOp(*op, lhs.to_box(), rhs.to_box()),
                }
            }
            Exp::UnOp(op, exp) => {
                let exp = exp.simplify();
                match op {
                    UnOp::Neg => match exp {
                        Exp::Number(value) => Exp::Number(-value),
                        _ => Exp::UnOp(UnOp::Neg, exp.to_box()),
                    },
                    UnOp::Not => Exp::UnOp(UnOp::Not, exp.to_box()),
                }
            }
            Exp::Abs(exp) => {
                let exp = exp.simplify();
                match exp {
                    Exp::Number(value) => Exp::Number(value.abs()),
                    exp => Exp::Abs(exp.to_box()),
                }
            }
            exp => exp.clone(),
        }
    }
}
} // verus!
fn main() {}
