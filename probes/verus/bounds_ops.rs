use vstd::prelude::*;
use vstd::std_specs::ops::*;
verus! {
// ================= trusted F64 layer (Ext version) =================
pub enum Ext { NaN, NegInf, Fin(real), PosInf }
#[verifier::external_body]
#[derive(Clone, Copy)]
pub struct F64(f64);
pub uninterp spec fn fv(x: F64) -> Ext;

pub open spec fn ext_neg(a: Ext) -> Ext {
    match a { Ext::NaN => Ext::NaN, Ext::PosInf => Ext::NegInf, Ext::NegInf => Ext::PosInf, Ext::Fin(x) => Ext::Fin(-x) }
}
pub open spec fn ext_add(a: Ext, b: Ext) -> Ext {
    match (a, b) {
        (Ext::NaN, _) | (_, Ext::NaN) => Ext::NaN,
        (Ext::PosInf, Ext::NegInf) | (Ext::NegInf, Ext::PosInf) => Ext::NaN,
        (Ext::PosInf, _) | (_, Ext::PosInf) => Ext::PosInf,
        (Ext::NegInf, _) | (_, Ext::NegInf) => Ext::NegInf,
        (Ext::Fin(x), Ext::Fin(y)) => Ext::Fin(x + y),
    }
}
pub open spec fn sgn(a: Ext) -> int {   // -1, 0, 1 ; NaN -> 2
    match a { Ext::NaN => 2, Ext::NegInf => -1, Ext::PosInf => 1, Ext::Fin(x) => if x > 0real { 1 } else if x < 0real { -1 } else { 0 } }
}
pub open spec fn ext_mul(a: Ext, b: Ext) -> Ext {
    match (a, b) {
        (Ext::NaN, _) | (_, Ext::NaN) => Ext::NaN,
        (Ext::Fin(x), Ext::Fin(y)) => Ext::Fin(x * y),
        _ => if sgn(a) == 0 || sgn(b) == 0 { Ext::NaN } else if sgn(a) == sgn(b) { Ext::PosInf } else { Ext::NegInf },
    }
}
pub open spec fn ext_div(a: Ext, b: Ext) -> Ext {
    match (a, b) {
        (Ext::NaN, _) | (_, Ext::NaN) => Ext::NaN,
        (Ext::Fin(x), Ext::Fin(y)) => if y != 0real { Ext::Fin(x / y) } else if x == 0real { Ext::NaN } else if x > 0real { Ext::PosInf } else { Ext::NegInf },   // sign of zero ignored
        (Ext::Fin(_), _) => Ext::Fin(0real),
        (_, Ext::Fin(y)) => if (sgn(a) == 1) == (y >= 0real) { Ext::PosInf } else { Ext::NegInf },
        _ => Ext::NaN,
    }
}
pub open spec fn ext_le(a: Ext, b: Ext) -> bool {
    match (a, b) {
        (Ext::NaN, _) | (_, Ext::NaN) => false,
        (Ext::NegInf, _) => true,
        (_, Ext::PosInf) => true,
        (Ext::Fin(x), Ext::Fin(y)) => x <= y,
        _ => false,
    }
}
pub open spec fn ext_lt(a: Ext, b: Ext) -> bool { ext_le(a, b) && !ext_le(b, a) }
pub open spec fn ext_eq(a: Ext, b: Ext) -> bool { ext_le(a, b) && ext_le(b, a) }
pub open spec fn ext_max(a: Ext, b: Ext) -> Ext { if a is NaN { b } else if b is NaN { a } else if ext_le(a, b) { b } else { a } }
pub open spec fn ext_min(a: Ext, b: Ext) -> Ext { if a is NaN { b } else if b is NaN { a } else if ext_le(a, b) { a } else { b } }

pub uninterp spec fn f_neg(a: F64) -> F64;
pub uninterp spec fn f_add(a: F64, b: F64) -> F64;
pub uninterp spec fn f_sub(a: F64, b: F64) -> F64;
pub uninterp spec fn f_mul(a: F64, b: F64) -> F64;
pub uninterp spec fn f_div(a: F64, b: F64) -> F64;
pub broadcast axiom fn ax_neg(a: F64) ensures fv(#[trigger] f_neg(a)) == ext_neg(fv(a));
pub broadcast axiom fn ax_add(a: F64, b: F64) ensures fv(#[trigger] f_add(a, b)) == ext_add(fv(a), fv(b));
pub broadcast axiom fn ax_sub(a: F64, b: F64) ensures fv(#[trigger] f_sub(a, b)) == ext_add(fv(a), ext_neg(fv(b)));
pub broadcast axiom fn ax_mul(a: F64, b: F64) ensures fv(#[trigger] f_mul(a, b)) == ext_mul(fv(a), fv(b));
pub broadcast axiom fn ax_div(a: F64, b: F64) ensures fv(#[trigger] f_div(a, b)) == ext_div(fv(a), fv(b));
pub broadcast group fl { ax_neg, ax_add, ax_sub, ax_mul, ax_div }
impl NegSpecImpl for F64 { open spec fn obeys_neg_spec() -> bool { true } open spec fn neg_req(self) -> bool { true } open spec fn neg_spec(self) -> F64 { f_neg(self) } }
impl AddSpecImpl for F64 { open spec fn obeys_add_spec() -> bool { true } open spec fn add_req(self, o: F64) -> bool { true } open spec fn add_spec(self, o: F64) -> F64 { f_add(self, o) } }
impl SubSpecImpl for F64 { open spec fn obeys_sub_spec() -> bool { true } open spec fn sub_req(self, o: F64) -> bool { true } open spec fn sub_spec(self, o: F64) -> F64 { f_sub(self, o) } }
impl MulSpecImpl for F64 { open spec fn obeys_mul_spec() -> bool { true } open spec fn mul_req(self, o: F64) -> bool { true } open spec fn mul_spec(self, o: F64) -> F64 { f_mul(self, o) } }
impl DivSpecImpl for F64 { open spec fn obeys_div_spec() -> bool { true } open spec fn div_req(self, o: F64) -> bool { true } open spec fn div_spec(self, o: F64) -> F64 { f_div(self, o) } }
impl core::ops::Neg for F64 { type Output = F64; #[verifier::external_body] fn neg(self) -> (r: F64) { F64(-self.0) } }
impl core::ops::Add for F64 { type Output = F64; #[verifier::external_body] fn add(self, o: F64) -> (r: F64) { F64(self.0 + o.0) } }
impl core::ops::Sub for F64 { type Output = F64; #[verifier::external_body] fn sub(self, o: F64) -> (r: F64) { F64(self.0 - o.0) } }
impl core::ops::Mul for F64 { type Output = F64; #[verifier::external_body] fn mul(self, o: F64) -> (r: F64) { F64(self.0 * o.0) } }
impl core::ops::Div for F64 { type Output = F64; #[verifier::external_body] fn div(self, o: F64) -> (r: F64) { F64(self.0 / o.0) } }
impl core::cmp::PartialEq for F64 { #[verifier::external_body] fn eq(&self, o: &F64) -> (r: bool) ensures r == ext_eq(fv(*self), fv(*o)) { self.0 == o.0 } }
impl core::cmp::PartialOrd for F64 {
    #[verifier::external_body] fn partial_cmp(&self, o: &F64) -> (r: Option<core::cmp::Ordering>) { self.0.partial_cmp(&o.0) }
    #[verifier::external_body] fn lt(&self, o: &F64) -> (r: bool) ensures r == ext_lt(fv(*self), fv(*o)) { self.0 < o.0 }
    #[verifier::external_body] fn le(&self, o: &F64) -> (r: bool) ensures r == ext_le(fv(*self), fv(*o)) { self.0 <= o.0 }
    #[verifier::external_body] fn gt(&self, o: &F64) -> (r: bool) ensures r == ext_lt(fv(*o), fv(*self)) { self.0 > o.0 }
    #[verifier::external_body] fn ge(&self, o: &F64) -> (r: bool) ensures r == ext_le(fv(*o), fv(*self)) { self.0 >= o.0 }
}
impl F64 {
    #[verifier::external_body] pub fn is_nan(self) -> (r: bool) ensures r == (fv(self) is NaN) { self.0.is_nan() }
    #[verifier::external_body] pub fn max(self, o: F64) -> (r: F64) ensures fv(r) == ext_max(fv(self), fv(o)) { F64(self.0.max(o.0)) }
    #[verifier::external_body] pub fn min(self, o: F64) -> (r: F64) ensures fv(r) == ext_min(fv(self), fv(o)) { F64(self.0.min(o.0)) }
    #[verifier::external_body] pub fn c_infinity() -> (r: F64) ensures fv(r) == Ext::PosInf { F64(f64::INFINITY) }
    #[verifier::external_body] pub fn c_neg_infinity() -> (r: F64) ensures fv(r) == Ext::NegInf { F64(f64::NEG_INFINITY) }
    #[verifier::external_body] pub fn lit_0_0() -> (r: F64) ensures fv(r) == Ext::Fin(0real) { F64(0.0) }
    #[verifier::external_body] pub fn lit_1_0() -> (r: F64) ensures fv(r) == Ext::Fin(1real) { F64(1.0) }
}

// ================= ghost spec =================
pub open spec fn contains(b: Bounds, x: real) -> bool { ext_le(fv(b.lower), Ext::Fin(x)) && ext_le(Ext::Fin(x), fv(b.upper)) }
pub open spec fn wf(b: Bounds) -> bool { !(fv(b.lower) is NaN) && !(fv(b.upper) is NaN) && !(fv(b.lower) is PosInf) && !(fv(b.upper) is NegInf) }
pub open spec fn finite(x: F64) -> bool { fv(x) is Fin }
pub open spec fn rv(x: F64) -> real { fv(x)->Fin_0 }

// ================= extracted code (bounds.rs 10-108, rules R10 only) =================
#[derive(Clone, Copy)]
pub struct Bounds { pub lower: F64, pub upper: F64 }
impl Bounds {
    pub fn new(lower: F64, upper: F64) -> (r: Self) ensures r.lower == lower, r.upper == upper { Self { lower, upper } }
    pub fn singleton(value: F64) -> (r: Self) ensures r.lower == value, r.upper == value { Self::new(value, value) }

    pub fn intersection(self, other: Self, tolerance: F64) -> (r: Option<Self>)
        requires wf(self), wf(other), finite(tolerance), rv(tolerance) >= 0real
        ensures
            r matches Some(b) ==> wf(b) && forall|x: real| contains(self, x) && contains(other, x) ==> contains(b, x),
            r is None ==> forall|x: real| !(contains(self, x) && contains(other, x)),
    {
        broadcast use fl;
        let lower = self.lower.max(other.lower);
        let upper = self.upper.min(other.upper);
        if lower <= upper {
            Some(Self::new(lower, upper))
        } else if lower - upper <= tolerance {
            Some(self)
        } else {
            None
        }
    }
    pub fn add(self, other: Self) -> (r: Self)
        requires wf(self), wf(other)
        ensures wf(r), forall|x: real, y: real| contains(self, x) && contains(other, y) ==> contains(r, x + y)
    {
        Self::new(lower_sum(self.lower, other.lower), upper_sum(self.upper, other.upper))
    }
    pub fn sub(self, other: Self) -> (r: Self)
        requires wf(self), wf(other)
        ensures wf(r), forall|x: real, y: real| contains(self, x) && contains(other, y) ==> contains(r, x - y)
    {
        self.add(other.neg())
    }
    pub fn neg(self) -> (r: Self)
        requires wf(self)
        ensures wf(r), forall|x: real| contains(self, x) ==> contains(r, -x)
    {
        broadcast use fl;
        Self::new(-self.upper, -self.lower)
    }
    pub fn scale(self, coefficient: F64) -> (r: Self)
        requires wf(self), finite(coefficient)
        ensures wf(r), forall|x: real| contains(self, x) ==> contains(r, x * rv(coefficient))
    {
        broadcast use fl;
        if coefficient == F64::lit_0_0() {
            proof { assert forall|x: real| contains(self, x) implies x * rv(coefficient) == 0real by { assert(x * 0real == 0real) by (nonlinear_arith); } }
            return Self::singleton(F64::lit_0_0());
        }
        if coefficient > F64::lit_0_0() {
            let r = Self::new(self.lower * coefficient, self.upper * coefficient);
            proof {
                let c = rv(coefficient);
                assert forall|x: real| contains(self, x) implies contains(r, x * c) by {
                    if fv(self.lower) is Fin { let l = rv(self.lower); assert(l <= x ==> l * c <= x * c) by (nonlinear_arith) requires c > 0real; }
                    if fv(self.upper) is Fin { let u = rv(self.upper); assert(x <= u ==> x * c <= u * c) by (nonlinear_arith) requires c > 0real; }
                }
            }
            r
        } else {
            let r = Self::new(self.upper * coefficient, self.lower * coefficient);
            proof {
                let c = rv(coefficient);
                assert forall|x: real| contains(self, x) implies contains(r, x * c) by {
                    if fv(self.lower) is Fin { let l = rv(self.lower); assert(l <= x ==> l * c >= x * c) by (nonlinear_arith) requires c < 0real; }
                    if fv(self.upper) is Fin { let u = rv(self.upper); assert(x <= u ==> x * c >= u * c) by (nonlinear_arith) requires c < 0real; }
                }
            }
            r
        }
    }
    pub fn abs(self) -> (r: Self)
        requires wf(self)
        ensures wf(r), forall|x: real| contains(self, x) ==> contains(r, if x >= 0real { x } else { -x })
    {
        broadcast use fl;
        if self.lower >= F64::lit_0_0() {
            self
        } else if self.upper <= F64::lit_0_0() {
            self.neg()
        } else {
            Self::new(F64::lit_0_0(), (-self.lower).max(self.upper))
        }
    }
}
fn lower_sum(lhs: F64, rhs: F64) -> (r: F64)
    ensures !(fv(r) is NaN), ext_add(fv(lhs), fv(rhs)) is NaN ==> fv(r) is NegInf, !(ext_add(fv(lhs), fv(rhs)) is NaN) ==> fv(r) == ext_add(fv(lhs), fv(rhs))
{
    broadcast use fl;
    let value = lhs + rhs;
    if value.is_nan() { F64::c_neg_infinity() } else { value }
}
fn upper_sum(lhs: F64, rhs: F64) -> (r: F64)
    ensures !(fv(r) is NaN), ext_add(fv(lhs), fv(rhs)) is NaN ==> fv(r) is PosInf, !(ext_add(fv(lhs), fv(rhs)) is NaN) ==> fv(r) == ext_add(fv(lhs), fv(rhs))
{
    broadcast use fl;
    let value = lhs + rhs;
    if value.is_nan() { F64::c_infinity() } else { value }
}
} // verus!
fn main() {}
