use vstd::prelude::*;
verus! {
pub enum Expr { N(u64), Min(Vec<Expr>), Neg(Box<Expr>) }
pub enum Exp { N(u64), Min(Vec<Exp>), Neg(Box<Exp>) }

pub open spec fn corr(e: Expr, r: Exp) -> bool decreases e {
    match (e, r) {
        (Expr::N(n), Exp::N(k)) => n == k,
        (Expr::Neg(b), Exp::Neg(c)) => corr(*b, *c),
        (Expr::Min(v), Exp::Min(w)) => v.len() == w.len() && forall|i: int| 0 <= i < v.len() ==> corr(#[trigger] v[i], w[i]),
        _ => false,
    }
}
fn to_exp(expr: &Expr) -> (r: Exp)
    ensures corr(*expr, r)
    decreases expr
{
    match expr {
        Expr::N(n) => Exp::N(*n),
        Expr::Neg(inner) => Exp::Neg(Box::new(to_exp(inner))),
        Expr::Min(inners) => Exp::Min(inners.iter().map(|e: &Expr| -> (o: Exp) requires exists|i: int| 0 <= i < inners@.len() && inners@[i] == *e ensures corr(*e, o) { to_exp(e) }).collect()),
    }
}
} // verus!
fn main() {}
