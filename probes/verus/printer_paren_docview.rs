use vstd::prelude::*;
verus! {
#[derive(Clone, Copy, PartialEq, Eq)]
pub enum BinOp { Add, Sub, Mul, Div, And, Or, Xor, Implies, Iff }
impl BinOp {
    pub fn precedence(&self) -> (r: u8)
        ensures r == spec_prec(*self)
    {
        match self {
            BinOp::Implies | BinOp::Iff => 1,
            BinOp::Or => 2,
            BinOp::Xor => 3,
            BinOp::And => 4,
            BinOp::Add | BinOp::Sub => 5,
            BinOp::Mul | BinOp::Div => 6,
        }
    }
}
// documented table (oracle)
pub open spec fn spec_prec(op: BinOp) -> u8 {
    match op { BinOp::Implies | BinOp::Iff => 1, BinOp::Or => 2, BinOp::Xor => 3, BinOp::And => 4, BinOp::Add | BinOp::Sub => 5, BinOp::Mul | BinOp::Div => 6 }
}
pub open spec fn right_assoc(op: BinOp) -> bool { op == BinOp::Implies }
pub open spec fn must_wrap(parent: BinOp, right_side: bool, child: BinOp) -> bool {
    spec_prec(child) < spec_prec(parent)
    || (spec_prec(child) == spec_prec(parent) && (if right_assoc(parent) { !right_side } else { right_side }))
}

// trusted abstraction of format!: the produced String remembers how it was built
pub enum Doc { Leaf, Fmt(Seq<char>, Seq<Doc>) }
pub uninterp spec fn doc(s: String) -> Doc;
#[verifier::external_body]
pub fn fmt3(lit: &'static str, a: String, b: String, c: String) -> (r: String)
    ensures doc(r) == Doc::Fmt(lit@, seq![doc(a), doc(b), doc(c)])
{ unimplemented!() }
#[verifier::external_body]
pub fn op_to_string(op: BinOp) -> (r: String) ensures doc(r) == Doc::Leaf { unimplemented!() }
#[verifier::external_body]
pub fn leaf_to_string(name: &String) -> (r: String) ensures doc(r) == Doc::Leaf { unimplemented!() }

pub enum PreExp { Variable(String), BinaryOperation(BinOp, Box<PreExp>, Box<PreExp>) }

pub open spec fn wrapped(d: Doc) -> bool {
    match d { Doc::Fmt(lit, _) => lit.len() > 0 && lit[0] == '(', Doc::Leaf => false }
}
pub open spec fn is_bin(e: PreExp) -> bool { e is BinaryOperation }
pub open spec fn top_op(e: PreExp) -> BinOp { e->BinaryOperation_0 }

impl PreExp {
    fn to_string_with_precedence(&self, previous_precedence: u8) -> (r: String)
        ensures is_bin(*self) ==> (wrapped(doc(r)) <==> spec_prec(top_op(*self)) < previous_precedence),
        decreases self
    {
        match self {
            Self::BinaryOperation(op, lhs, rhs) => {
                let lhs_str = lhs.to_string_with_precedence(op.precedence());
                let rhs_str = rhs.to_string_with_precedence(op.precedence());
                if op.precedence() < previous_precedence {
                    proof { reveal_strlit("({} {} {})"); }
                    fmt3("({} {} {})", lhs_str, op_to_string(*op), rhs_str)
                } else {
                    proof { reveal_strlit("{} {} {}"); }
                    fmt3("{} {} {}", lhs_str, op_to_string(*op), rhs_str)
                }
            }
            Self::Variable(n) => leaf_to_string(n),
        }
    }
    // the property, as a consequence checked at the call sites of Display
    fn display_bin(op: BinOp, lhs: &PreExp, rhs: &PreExp) -> (r: (String, String))
        ensures
            is_bin(*rhs) && must_wrap(op, true, top_op(*rhs)) ==> wrapped(doc(r.1)),
            is_bin(*lhs) && must_wrap(op, false, top_op(*lhs)) ==> wrapped(doc(r.0)),
    {
        let rhs_s = rhs.to_string_with_precedence(op.precedence());
        let lhs_s = lhs.to_string_with_precedence(op.precedence());
        (lhs_s, rhs_s)
    }
}
} // verus!
fn main() {}
