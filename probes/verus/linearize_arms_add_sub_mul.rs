use vstd::prelude::*;
use vstd::std_specs::ops::*;
verus! {
// ---- F64 layer (finite probe) ----
#[verifier::external_body]
#[derive(Clone, Copy)]
pub struct F64(f64);
pub uninterp spec fn rv(x: F64) -> real;
#[verifier::external_body] pub fn lit_0_0() -> (r: F64) ensures rv(r) == 0real { F64(0.0) }
impl core::cmp::PartialEq for F64 { #[verifier::external_body] fn eq(&self, o: &F64) -> (r: bool) ensures r == (rv(*self) == rv(*o)) { self.0 == o.0 } }
impl core::cmp::PartialOrd for F64 {
    #[verifier::external_body] fn partial_cmp(&self, o: &F64) -> (r: Option<core::cmp::Ordering>) { self.0.partial_cmp(&o.0) }
    #[verifier::external_body] fn lt(&self, o: &F64) -> (r: bool) ensures r == (rv(*self) < rv(*o)) { self.0 < o.0 }
}

#[derive(Clone, Copy, PartialEq, Eq)]
pub enum BinOp { Add, Sub, Mul, Div, And, Or, Xor, Implies, Iff }
pub enum Exp { Number(F64), Variable(String), BinOp(BinOp, Box<Exp>, Box<Exp>) }
impl Clone for Exp { #[verifier::external_body] fn clone(&self) -> (r: Exp) ensures r == *self { unimplemented!() } }

pub type Env = Map<Seq<char>, real>;
pub open spec fn sem(e: Exp, env: Env) -> Option<real> decreases e {
    match e {
        Exp::Number(v) => Some(rv(v)),
        Exp::Variable(n) => Some(env[n@]),
        Exp::BinOp(op, l, r) => match (sem(*l, env), sem(*r, env)) {
            (Some(a), Some(b)) => match op {
                BinOp::Add => Some(a + b), BinOp::Sub => Some(a - b), BinOp::Mul => Some(a * b),
                BinOp::Div => if b == 0real { None } else { Some(a / b) },
                _ => None,
            },
            _ => None,
        },
    }
}

#[derive(Clone, Copy, PartialEq, Eq)]
pub enum ValueRequirement { PreferLower, PreferHigher, Exact }
pub open spec fn relaxes(req: ValueRequirement, lin: real, tru: real) -> bool {
    match req { ValueRequirement::Exact => lin == tru, ValueRequirement::PreferLower => lin >= tru, ValueRequirement::PreferHigher => lin <= tru }
}
impl ValueRequirement {
    fn reversed(self) -> (r: Self)
        ensures forall|a: real, b: real| relaxes(r, a, b) <==> relaxes(self, -a, -b)
    {
        match self {
            ValueRequirement::PreferLower => ValueRequirement::PreferHigher,
            ValueRequirement::PreferHigher => ValueRequirement::PreferLower,
            ValueRequirement::Exact => ValueRequirement::Exact,
        }
    }
    fn through_scale(self, coefficient: F64) -> (r: Self)
        ensures rv(coefficient) != 0real ==> forall|a: real, b: real| relaxes(r, a, b) ==> relaxes(self, rv(coefficient) * a, rv(coefficient) * b)
    {
        let r = if coefficient < lit_0_0() {
            self.reversed()
        } else {
            self
        };
        proof {
            let c = rv(coefficient);
            assert forall|a: real, b: real| c != 0real && relaxes(r, a, b) implies relaxes(self, c * a, c * b) by {
                if c < 0real {
                    assert(relaxes(self, -a, -b));
                    assert(a <= b ==> c * a >= c * b) by (nonlinear_arith) requires c < 0real;
                    assert(a >= b ==> c * a <= c * b) by (nonlinear_arith) requires c < 0real;
                } else {
                    assert(a <= b ==> c * a <= c * b) by (nonlinear_arith) requires c > 0real;
                    assert(a >= b ==> c * a >= c * b) by (nonlinear_arith) requires c > 0real;
                }
            }
        }
        r
    }
}

// ---- contract-only view of the context and of LinearizationContext ----
pub struct Ctx { pub g: Ghost<int> }
pub uninterp spec fn ctx_ok(c: Ctx, env: Env) -> bool;   // box + all rows/aux domains handed to ctx so far hold in env
pub struct LinearizationContext { pub g: Ghost<int> }
pub uninterp spec fn lin_eval(l: LinearizationContext, env: Env) -> real;
impl LinearizationContext {
    #[verifier::external_body]
    pub fn from_rhs(rhs: F64) -> (r: Self) ensures forall|env: Env| lin_eval(r, env) == rv(rhs) { unimplemented!() }
    #[verifier::external_body]
    pub fn merge_add(&mut self, other: LinearizationContext) ensures forall|env: Env| lin_eval(*final(self), env) == lin_eval(*old(self), env) + lin_eval(other, env) { unimplemented!() }
    #[verifier::external_body]
    pub fn merge_sub(&mut self, other: LinearizationContext) ensures forall|env: Env| lin_eval(*final(self), env) == lin_eval(*old(self), env) - lin_eval(other, env) { unimplemented!() }
    #[verifier::external_body]
    pub fn mul_by(&mut self, multiplier: F64) ensures forall|env: Env| lin_eval(*final(self), env) == rv(multiplier) * lin_eval(*old(self), env) { unimplemented!() }
}
pub enum LinearizationError { NonLinearExpression(Box<Exp>), Other }

pub open spec fn lin_post(e: Exp, c0: Ctx, c1: Ctx, req: ValueRequirement, res: Result<LinearizationContext, LinearizationError>) -> bool {
    match res {
        Ok(lc) => (forall|env: Env| ctx_ok(c1, env) ==> ctx_ok(c0, env))
            && forall|env: Env| #![trigger ctx_ok(c1, env)] ctx_ok(c1, env) ==> match sem(e, env) { Some(v) => relaxes(req, lin_eval(lc, env), v), None => true },
        Err(_) => true,
    }
}
// contract-only declaration of the function being sliced (induction hypothesis)
#[verifier::external_body]
fn linearize(e: &Exp, linearizer_context: &mut Ctx, requirement: ValueRequirement) -> (res: Result<LinearizationContext, LinearizationError>)
    ensures lin_post(*e, *old(linearizer_context), *final(linearizer_context), requirement, res)
{ unimplemented!() }

// ---- arm slices (verbatim bodies of lines 83-122, `self` is the matched expression) ----
fn linearize__arm_add(slf: &Exp, lhs: &Box<Exp>, rhs: &Box<Exp>, linearizer_context: &mut Ctx, requirement: ValueRequirement) -> (res: Result<LinearizationContext, LinearizationError>)
    requires *slf == Exp::BinOp(BinOp::Add, *lhs, *rhs)
    ensures lin_post(*slf, *old(linearizer_context), *final(linearizer_context), requirement, res)
{
    let mut lhs = linearize(lhs, linearizer_context, requirement)?;
    let rhs = linearize(rhs, linearizer_context, requirement)?;
    lhs.merge_add(rhs);
    Ok(lhs)
}
fn linearize__arm_sub(slf: &Exp, lhs: &Box<Exp>, rhs: &Box<Exp>, linearizer_context: &mut Ctx, requirement: ValueRequirement) -> (res: Result<LinearizationContext, LinearizationError>)
    requires *slf == Exp::BinOp(BinOp::Sub, *lhs, *rhs)
    ensures lin_post(*slf, *old(linearizer_context), *final(linearizer_context), requirement, res)
{
    let mut lhs = linearize(lhs, linearizer_context, requirement)?;
    let rhs = linearize(rhs, linearizer_context, requirement.reversed())?;
    lhs.merge_sub(rhs);
    Ok(lhs)
}
fn linearize__arm_mul(slf: &Exp, lhs: &Box<Exp>, rhs: &Box<Exp>, linearizer_context: &mut Ctx, requirement: ValueRequirement) -> (res: Result<LinearizationContext, LinearizationError>)
    requires *slf == Exp::BinOp(BinOp::Mul, *lhs, *rhs)
    ensures lin_post(*slf, *old(linearizer_context), *final(linearizer_context), requirement, res)
{
    if let Exp::Number(coefficient) = &**lhs {
        // exact test: near-zero coefficients are still meaningful scales
        if *coefficient == lit_0_0() {
            return Ok(LinearizationContext::from_rhs(lit_0_0()));
        }
        let mut rhs = linearize(rhs, linearizer_context, requirement.through_scale(*coefficient))?;
        rhs.mul_by(*coefficient);
        Ok(rhs)
    } else if let Exp::Number(coefficient) = &**rhs {
        if *coefficient == lit_0_0() {
            return Ok(LinearizationContext::from_rhs(lit_0_0()));
        }
        let mut lhs = linearize(lhs, linearizer_context, requirement.through_scale(*coefficient))?;
        lhs.mul_by(*coefficient);
        Ok(lhs)
    } else {
        Err(LinearizationError::NonLinearExpression(Box::new(slf.clone())))
    }
}
} // verus!
fn main() {}
