use vstd::prelude::*;
use vstd::std_specs::ops::*;
verus! {
// ======== trusted F64 layer (finite part only for this probe) ========
#[verifier::external_body]
#[derive(Clone, Copy)]
pub struct F64(f64);
pub uninterp spec fn rv(x: F64) -> real;      // real value (finite floats)
pub uninterp spec fn f_neg(a: F64) -> F64;
pub uninterp spec fn f_mul(a: F64, b: F64) -> F64;
pub broadcast axiom fn ax_f_neg(a: F64) ensures rv(#[trigger] f_neg(a)) == -rv(a);
pub broadcast axiom fn ax_f_mul(a: F64, b: F64) ensures rv(#[trigger] f_mul(a, b)) == rv(a) * rv(b);
impl NegSpecImpl for F64 {
    open spec fn obeys_neg_spec() -> bool { true }
    open spec fn neg_req(self) -> bool { true }
    open spec fn neg_spec(self) -> F64 { f_neg(self) }
}
impl MulSpecImpl for F64 {
    open spec fn obeys_mul_spec() -> bool { true }
    open spec fn mul_req(self, o: F64) -> bool { true }
    open spec fn mul_spec(self, o: F64) -> F64 { f_mul(self, o) }
}
impl core::ops::Neg for F64 { type Output = F64; #[verifier::external_body] fn neg(self) -> (r: F64) { F64(-self.0) } }
impl core::ops::Mul for F64 { type Output = F64; #[verifier::external_body] fn mul(self, o: F64) -> (r: F64) { F64(self.0 * o.0) } }
#[verifier::external_body] pub fn lit_1_0() -> (r: F64) ensures rv(r) == 1real { F64(1.0) }
#[verifier::external_body] pub fn lit_2_0() -> (r: F64) ensures rv(r) == 2real { F64(2.0) }

// ======== datatypes copied from the crate ========
#[derive(Clone, Copy, PartialEq, Eq)]
pub enum BinOp { Add, Sub, Mul, Div, And, Or, Xor, Implies, Iff }
#[derive(Clone, Copy, PartialEq, Eq)]
pub enum UnOp { Neg, Not }
#[derive(Clone, Copy, PartialEq, Eq)]
pub enum Comparison { LessOrEqual, GreaterOrEqual, Equal, Less, Greater }
pub enum Exp {
    Number(F64),
    Variable(String),
    Abs(Box<Exp>),
    BinOp(BinOp, Box<Exp>, Box<Exp>),
    UnOp(UnOp, Box<Exp>),
}
impl Clone for Exp {
    #[verifier::external_body]
    fn clone(&self) -> (r: Exp) ensures r == *self { unimplemented!() }
}
pub struct Constraint { pub name: String, pub lhs: Exp, pub constraint_type: Comparison, pub rhs: Exp }

// ======== ghost semantics ========
pub type Env = Map<Seq<char>, real>;
pub open spec fn rabs(x: real) -> real { if x >= 0real { x } else { -x } }
pub open spec fn sem(e: Exp, env: Env) -> real
    decreases e
{
    match e {
        Exp::Number(v) => rv(v),
        Exp::Variable(n) => env[n@],
        Exp::Abs(i) => rabs(sem(*i, env)),
        Exp::BinOp(op, l, r) => match op {
            BinOp::Add => sem(*l, env) + sem(*r, env),
            BinOp::Sub => sem(*l, env) - sem(*r, env),
            BinOp::Mul => sem(*l, env) * sem(*r, env),
            _ => 0real,
        },
        Exp::UnOp(op, i) => match op { UnOp::Neg => -sem(*i, env), UnOp::Not => 0real },
    }
}
pub open spec fn holds(c: Constraint, env: Env) -> bool {
    match c.constraint_type {
        Comparison::LessOrEqual | Comparison::Less => sem(c.lhs, env) <= sem(c.rhs, env),
        Comparison::GreaterOrEqual | Comparison::Greater => sem(c.lhs, env) >= sem(c.rhs, env),
        Comparison::Equal => sem(c.lhs, env) == sem(c.rhs, env),
    }
}
pub open spec fn holds_all(cs: Seq<Constraint>, env: Env) -> bool { forall|i: int| 0 <= i < cs.len() ==> holds(#[trigger] cs[i], env) }

// ======== real helper functions (verbatim) with contracts ========
impl Exp {
    pub fn to_box(self) -> (r: Box<Exp>) ensures *r == self { Box::new(self) }
}
fn add_exp(lhs: Exp, rhs: Exp) -> (r: Exp) ensures r == Exp::BinOp(BinOp::Add, Box::new(lhs), Box::new(rhs)) {
    Exp::BinOp(BinOp::Add, lhs.to_box(), rhs.to_box())
}
fn sub_exp(lhs: Exp, rhs: Exp) -> (r: Exp) ensures r == Exp::BinOp(BinOp::Sub, Box::new(lhs), Box::new(rhs)) {
    Exp::BinOp(BinOp::Sub, lhs.to_box(), rhs.to_box())
}
fn mul_exp(lhs: Exp, rhs: Exp) -> (r: Exp) ensures r == Exp::BinOp(BinOp::Mul, Box::new(lhs), Box::new(rhs)) {
    Exp::BinOp(BinOp::Mul, lhs.to_box(), rhs.to_box())
}
impl Constraint {
    pub fn new(lhs: Exp, constraint_type: Comparison, rhs: Exp, name: String) -> (r: Self)
        ensures r.lhs == lhs, r.rhs == rhs, r.constraint_type == constraint_type
    { Self { name, lhs, constraint_type, rhs } }
}
// contract-only view of the context: the rows it has been handed, newest first
pub struct Ctx { pub added: Vec<Constraint> }
impl Ctx {
    #[verifier::external_body]
    pub fn add_constraint(&mut self, constraint: Constraint)
        ensures final(self).added@ == seq![constraint] + old(self).added@
    { self.added.insert(0, constraint) }
}
#[verifier::external_body]
fn string_new() -> (r: String) { String::new() }

// ======== slice of Exp::linearize, arm Exp::Abs, exact rows (lines 331-372, verbatim modulo rules) ========
fn abs_rows(linearizer_context: &mut Ctx, inner: Exp, var_name: String, positive_name: String, lower: F64, upper: F64)
    requires
        old(linearizer_context).added@.len() == 0,
        var_name@ != positive_name@,
    ensures
        forall|env: Env| #![trigger holds_all(final(linearizer_context).added@, env)]
            rv(lower) <= sem(inner, env) <= rv(upper) && (env[positive_name@] == 0real || env[positive_name@] == 1real)
            && holds_all(final(linearizer_context).added@, env)
            ==> env[var_name@] == rabs(sem(inner, env)),
{
    broadcast use ax_f_neg, ax_f_mul;
    linearizer_context.add_constraint(Constraint::new(
        Exp::Variable(var_name.clone()),
        Comparison::GreaterOrEqual,
        inner.clone(),
        string_new(),
    ));
    linearizer_context.add_constraint(Constraint::new(
        Exp::Variable(var_name.clone()),
        Comparison::GreaterOrEqual,
        Exp::UnOp(UnOp::Neg, inner.clone().to_box()),
        string_new(),
    ));
    linearizer_context.add_constraint(Constraint::new(
        Exp::Variable(var_name.clone()),
        Comparison::LessOrEqual,
        sub_exp(
            inner.clone(),
            mul_exp(
                Exp::Number(lit_2_0() * lower),
                sub_exp(Exp::Number(lit_1_0()), Exp::Variable(positive_name.clone())),
            ),
        ),
        string_new(),
    ));
    linearizer_context.add_constraint(Constraint::new(
        Exp::Variable(var_name.clone()),
        Comparison::LessOrEqual,
        add_exp(
            Exp::UnOp(UnOp::Neg, inner.to_box()),
            mul_exp(
                Exp::Number(lit_2_0() * upper),
                Exp::Variable(positive_name),
            ),
        ),
        string_new(),
    ));
    proof {
        let cs = linearizer_context.added@;
        assert(cs.len() == 4);
        assert forall|env: Env| rv(lower) <= sem(inner, env) <= rv(upper) && (env[positive_name@] == 0real || env[positive_name@] == 1real)
            && holds_all(cs, env) implies env[var_name@] == rabs(sem(inner, env)) by {
            assert(holds(cs[0], env)); assert(holds(cs[1], env)); assert(holds(cs[2], env)); assert(holds(cs[3], env));
            let v = sem(inner, env); let t = env[var_name@]; let p = env[positive_name@];
            assert(sem(cs[0].rhs, env) == (-v) + (2real * rv(upper)) * p) by { reveal_with_fuel(sem, 6); }
            assert(sem(cs[1].rhs, env) == v - (2real * rv(lower)) * (1real - p)) by { reveal_with_fuel(sem, 6); }
            assert(sem(cs[2].rhs, env) == -v) by { reveal_with_fuel(sem, 6); }
            assert(sem(cs[3].rhs, env) == v) by { reveal_with_fuel(sem, 6); }
            assert(sem(cs[0].lhs, env) == t && sem(cs[1].lhs, env) == t && sem(cs[2].lhs, env) == t && sem(cs[3].lhs, env) == t);
            if p == 0real {
                assert((2real * rv(upper)) * p == 0real) by (nonlinear_arith) requires p == 0real;
                assert((2real * rv(lower)) * (1real - p) == 2real * rv(lower)) by (nonlinear_arith) requires p == 0real;
            } else {
                assert((2real * rv(upper)) * p == 2real * rv(upper)) by (nonlinear_arith) requires p == 1real;
                assert((2real * rv(lower)) * (1real - p) == 0real) by (nonlinear_arith) requires p == 1real;
            }
        }
    }
}
} // verus!
fn main() {}
