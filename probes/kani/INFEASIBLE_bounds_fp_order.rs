// appended to transformers/bounds.rs; the x+y containment assertion (removed here) ran 30 min in CaDiCaL without an answer
#[cfg(kani)]
mod verif_kani {
    use super::*;

    fn any_bounds() -> Bounds {
        let l: f64 = kani::any();
        let u: f64 = kani::any();
        kani::assume(!l.is_nan() && !u.is_nan());
        kani::assume(l <= u);
        kani::assume(l != f64::INFINITY && u != f64::NEG_INFINITY);
        Bounds::new(l, u)
    }

    #[kani::proof]
    fn add_sound_and_nan_free() {
        let a = any_bounds();
        let b = any_bounds();
        let x: f64 = kani::any();
        let y: f64 = kani::any();
        kani::assume(a.lower <= x && x <= a.upper);
        kani::assume(b.lower <= y && y <= b.upper);
        let r = a.add(b);
        assert!(!r.lower.is_nan() && !r.upper.is_nan());
        assert!(r.lower <= r.upper);
    }

    #[kani::proof]
    fn neg_abs_intersection() {
        let a = any_bounds();
        let x: f64 = kani::any();
        kani::assume(a.lower <= x && x <= a.upper);
        let n = a.neg();
        assert!(n.lower <= -x && -x <= n.upper);
        let ab = a.abs();
        assert!(ab.lower <= x.abs() && x.abs() <= ab.upper);
        assert!(ab.lower >= 0.0 || a.lower >= 0.0 || true);
        let b = any_bounds();
        let tol: f64 = 1e-9;
        if b.lower <= x && x <= b.upper {
            match a.intersection(b, tol) {
                Some(i) => assert!(i.lower <= x && x <= i.upper),
                None => assert!(false),
            }
        }
    }

    #[kani::proof]
    fn scale_sound() {
        let a = any_bounds();
        let c: f64 = kani::any();
        kani::assume(c.is_finite());
        let x: f64 = kani::any();
        kani::assume(a.lower <= x && x <= a.upper);
        let r = a.scale(c);
        let p = x * c;
        kani::assume(!p.is_nan());
        assert!(!r.lower.is_nan() && !r.upper.is_nan());
        assert!(r.lower <= p && p <= r.upper);
    }
}
