// appended to packages/rooc/src/solvers/simplex/tableau.rs in a scratch copy; SUCCESSFUL in 300 s
#[cfg(kani)]
mod verif_kani_ratio {
    use super::*;
    fn dy() -> f64 {
        // dyadic grid: k/4 for k in [-16, 16]
        let k: i8 = kani::any();
        kani::assume(-16 <= k && k <= 16);
        (k as f64) / 4.0
    }
    #[kani::proof]
    #[kani::unwind(5)]
    fn find_t_min_ratio_3rows() {
        let a = vec![vec![dy()], vec![dy()], vec![dy()]];
        let b = vec![dy(), dy(), dy()];
        kani::assume(b[0] >= 0.0 && b[1] >= 0.0 && b[2] >= 0.0);
        let t = Tableau::new(vec![-1.0], a.clone(), b.clone(), vec![1, 2, 3], 0.0, 0.0, vec![], false);
        match t.find_t(0, &[]) {
            Some((row, ratio)) => {
                assert!(row < 3);
                assert!(a[row][0] > 0.0);
                assert!(ratio == b[row] / a[row][0]);
                let mut k = 0;
                while k < 3 {
                    if a[k][0] > 0.00001 { assert!(ratio <= b[k] / a[k][0] + 0.00001); }
                    k += 1;
                }
            }
            None => {
                let mut k = 0;
                while k < 3 { assert!(!(a[k][0] > 0.00002)); k += 1; }
            }
        }
    }
}
