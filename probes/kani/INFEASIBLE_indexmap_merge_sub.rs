// appended to transformers/linearizer.rs; did NOT finish in 4 min (hashbrown symex)
#[cfg(kani)]
mod verif_kani_ctx {
    use super::*;
    #[kani::proof]
    #[kani::unwind(6)]
    fn merge_sub_two_keys() {
        let a: i8 = kani::any(); let b: i8 = kani::any(); let c: i8 = kani::any();
        let mut l = LinearizationContext::from_var("x".to_string(), a as f64);
        l.add_var("y".to_string(), b as f64);
        let r = LinearizationContext::from_var("x".to_string(), c as f64);
        l.merge_sub(r);
        assert!(*l.vars().get("x").unwrap() == (a as f64) - (c as f64));
        assert!(*l.vars().get("y").unwrap() == b as f64);
        assert!(l.vars().len() == 2);
    }
}
