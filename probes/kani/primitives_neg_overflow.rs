// appended to packages/rooc/src/primitives/builtin_primitive_traits_impl.rs; FAILS (genuine): attempt to negate with overflow, 1.3 s
#[cfg(kani)]
mod verif_kani {
    use super::*;
    #[kani::proof]
    fn i64_neg_total() {
        let x: i64 = kani::any();
        let _ = x.apply_unary_op(UnOp::Neg);
    }
    #[kani::proof]
    fn u64_neg_total() {
        let x: u64 = kani::any();
        let _ = x.apply_unary_op(UnOp::Neg);
    }
}
