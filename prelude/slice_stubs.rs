// ----- TRUSTED: slice methods (used only by the units that extract remove_many; kept out of std_stubs.rs because the extra
// quantifier instances made an unrelated query (U16.expr/eval_expr) hit its resource limit) -----
// std: <[T]>::contains — some element equals x.  Stated with spec equality, which is what `==` means for the integer types it is used with here
// (usize index lists); NOT to be used for a type whose PartialEq is not structural (F64).
pub assume_specification<T: core::cmp::PartialEq>[ <[T]>::contains ](s: &[T], x: &T) -> (r: bool)
    ensures r == s@.contains(*x);
