// ----- TRUSTED: f64::partial_cmp (rule R62 routes `a.partial_cmp(b)` on floats here).  Kept out of f64_layer.rs: as an `ensures` of the
// trait method it pushed an unrelated query (U01.lgB / Exp::linearize) over its resource limit. -----
// IEEE partial order: unordered when either side is NaN
pub open spec fn ext_partial_cmp(a: Ext, b: Ext) -> Option<core::cmp::Ordering> {
    if a is NaN || b is NaN { None } else if ext_lt(a, b) { Some(core::cmp::Ordering::Less) } else if ext_eq(a, b) { Some(core::cmp::Ordering::Equal) } else { Some(core::cmp::Ordering::Greater) }
}
#[verifier::external_body] pub fn vx_f64_partial_cmp(a: &F64, b: &F64) -> (r: Option<core::cmp::Ordering>) ensures r == ext_partial_cmp(fv(*a), fv(*b)) { a.0.partial_cmp(&b.0) }
