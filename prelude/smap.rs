// ===================================================================================
// TRUSTED prelude: insertion-ordered string-keyed map/set (stands for indexmap::IndexMap<String, V> and
// IndexSet<String>, rule R13t).  Everything in this file is ASSUMED: it is the documented behaviour
// of the indexmap crate (insertion order kept, `insert` on an existing key keeps its position,
// `shift_remove` keeps the order of the rest).  Keys are compared by their characters.
// ===================================================================================
pub trait StrLike { spec fn chars(&self) -> Seq<char>; }
impl StrLike for String { open spec fn chars(&self) -> Seq<char> { self@ } }
impl StrLike for str { open spec fn chars(&self) -> Seq<char> { self@ } }

#[verifier::external_body]
#[verifier::accept_recursive_types(V)]
pub struct SMap<V> { _p: core::marker::PhantomData<V> }

impl<V> SMap<V> {
    // ghost view: keys in insertion order (no duplicates) and the key -> value map (domain = the keys)
    pub uninterp spec fn keys(&self) -> Seq<Seq<char>>;
    pub uninterp spec fn map(&self) -> Map<Seq<char>, V>;
    pub open spec fn wf(&self) -> bool {
        &&& self.keys().no_duplicates()
        &&& forall|k: Seq<char>| self.map().dom().contains(k) <==> self.keys().contains(k)
    }
    pub open spec fn has(&self, k: Seq<char>) -> bool { self.map().dom().contains(k) }

    #[verifier::external_body]
    pub fn new() -> (r: Self) ensures r.wf(), r.keys() == Seq::<Seq<char>>::empty(), r.map() == Map::<Seq<char>, V>::empty() { unimplemented!() }
    #[verifier::external_body]
    pub fn with_capacity(n: usize) -> (r: Self) ensures r.wf(), r.keys() == Seq::<Seq<char>>::empty(), r.map() == Map::<Seq<char>, V>::empty() { unimplemented!() }
    // clear: every entry is removed
    #[verifier::external_body]
    pub fn clear(&mut self) requires old(self).wf() ensures final(self).wf(), final(self).keys() == Seq::<Seq<char>>::empty(), final(self).map() == Map::<Seq<char>, V>::empty() { unimplemented!() }
    #[verifier::external_body]
    pub fn len(&self) -> (r: usize) requires self.wf() ensures r == self.keys().len() { unimplemented!() }
    #[verifier::external_body]
    pub fn is_empty(&self) -> (r: bool) requires self.wf() ensures r == (self.keys().len() == 0) { unimplemented!() }
    #[verifier::external_body]
    pub fn contains_key<Q: StrLike + ?Sized>(&self, k: &Q) -> (r: bool) requires self.wf() ensures r == self.has(k.chars()) { unimplemented!() }
    #[verifier::external_body]
    pub fn get<Q: StrLike + ?Sized>(&self, k: &Q) -> (r: Option<&V>) requires self.wf()
        ensures self.has(k.chars()) ==> r == Some(&self.map()[k.chars()]), !self.has(k.chars()) ==> r is None { unimplemented!() }
    // insert: a new key is appended; an existing key keeps its position and gets the new value
    #[verifier::external_body]
    pub fn insert(&mut self, k: String, v: V) -> (r: Option<V>) requires old(self).wf()
        ensures final(self).wf(), final(self).map() == old(self).map().insert(k@, v),
            old(self).has(k@) ==> final(self).keys() == old(self).keys() && r == Some(old(self).map()[k@]),
            !old(self).has(k@) ==> final(self).keys() == old(self).keys().push(k@) && r is None { unimplemented!() }
    // R17: `*m.get_mut(k).unwrap() = v` on a present key
    #[verifier::external_body]
    pub fn update_existing<Q: StrLike + ?Sized>(&mut self, k: &Q, v: V) requires old(self).wf(), old(self).has(k.chars())
        ensures final(self).wf(), final(self).keys() == old(self).keys(), final(self).map() == old(self).map().insert(k.chars(), v) { unimplemented!() }
    #[verifier::external_body]
    pub fn get_index(&self, i: usize) -> (r: Option<(&String, &V)>) requires self.wf()
        ensures i < self.keys().len() ==> (r matches Some(kv) && kv.0@ == self.keys()[i as int] && *kv.1 == self.map()[self.keys()[i as int]]),
            i >= self.keys().len() ==> r is None { unimplemented!() }
    // R13m: by-value copy of the value at a position (`for v in m.values_mut()` becomes value_at / body / set_index)
    #[verifier::external_body]
    pub fn value_at(&self, i: usize) -> (r: V) requires self.wf(), i < self.keys().len()
        ensures r == self.map()[self.keys()[i as int]] { unimplemented!() }
    // R13: positional update used by `for (_, v) in m.iter_mut()`
    #[verifier::external_body]
    pub fn set_index(&mut self, i: usize, v: V) requires old(self).wf(), i < old(self).keys().len()
        ensures final(self).wf(), final(self).keys() == old(self).keys(), final(self).map() == old(self).map().insert(old(self).keys()[i as int], v) { unimplemented!() }
    // R53: removal by position (order of the rest kept), used by the position-loop form of `retain`
    #[verifier::external_body]
    pub fn shift_remove_index(&mut self, i: usize) requires old(self).wf(), i < old(self).keys().len()
        ensures final(self).wf(), final(self).keys() == old(self).keys().remove(i as int), final(self).map() == old(self).map().remove(old(self).keys()[i as int]) { unimplemented!() }
    #[verifier::external_body]
    pub fn shift_remove<Q: StrLike + ?Sized>(&mut self, k: &Q) -> (r: Option<V>) requires old(self).wf()
        ensures final(self).wf(), final(self).map() == old(self).map().remove(k.chars()),
            final(self).keys() == keys_without(old(self).keys(), k.chars()) { unimplemented!() }
}
pub open spec fn smap_wf<V>(m: SMap<V>) -> bool { m.wf() }
// the key list after `shift_remove`: the same keys in the same order without k
pub open spec fn key_differs(k: Seq<char>) -> spec_fn(Seq<char>) -> bool { |x: Seq<char>| x != k }
pub open spec fn keys_without(keys: Seq<Seq<char>>, k: Seq<char>) -> Seq<Seq<char>> { keys.filter(key_differs(k)) }
// ============================ end of SMap stub ============================
