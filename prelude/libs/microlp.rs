// ===================================================================================
// TRUSTED prelude: ghost model of the `microlp` crate (DESIGN §3.3).  Everything here is ASSUMED: it is
// the behaviour microlp 0.5 DOCUMENTS (lib.rs: Problem::add_*, Solution::status / objective / var_value,
// Error).  C04 / C05 / C15 are proved RELATIVE to this contract.
// ===================================================================================
#[derive(Clone, Copy, PartialEq, Eq)] pub enum OptimizationDirection { Minimize, Maximize }
#[derive(Clone, Copy, PartialEq, Eq)] pub enum ComparisonOp { Eq, Le, Ge }
#[derive(Clone, Copy, PartialEq, Eq)] pub enum Status { Optimal, Feasible, Interrupted }
pub enum Error { Infeasible, Unbounded, InvalidOptions(String), InvalidOperation(String), InternalError(String) }
pub enum VKind { Cont, Int, Bin }
pub struct GVar { pub coef: F64, pub lo: Ext, pub hi: Ext, pub kind: VKind }
pub struct GRow { pub terms: Seq<(int, F64)>, pub op: ComparisonOp, pub rhs: F64 }
#[derive(Clone, Copy)]
pub struct Variable(pub usize);
#[verifier::external_body] #[derive(Clone, Copy)] pub struct Duration { _p: () }
pub struct SolveOptions { pub mip_gap: F64, pub time_limit: Option<Duration> }
impl SolveOptions {
    pub uninterp spec fn default_gap() -> F64;
    #[verifier::external_body]
    pub fn default() -> (r: SolveOptions) ensures r.mip_gap == Self::default_gap(), r.time_limit is None, fv(Self::default_gap()) is Fin, rv(Self::default_gap()) >= 0real { unimplemented!() }
}
#[verifier::external_body]
pub struct Problem { _p: () }
// value of a row's left-hand side at an assignment of the columns
pub open spec fn grow_lhs(terms: Seq<(int, F64)>, x: Seq<real>, n: int) -> real
    decreases n,
{
    if n <= 0 || n > terms.len() { 0real } else { grow_lhs(terms, x, n - 1) + rmul_s(rv(terms[n - 1].1), x[terms[n - 1].0]) }
}
pub open spec fn gvar_ok(g: GVar, v: real) -> bool {
    &&& ext_le(g.lo, Ext::Fin(v)) && ext_le(Ext::Fin(v), g.hi)
    &&& (g.kind is Cont || exists|k: int| v == #[trigger] i2r_m(k))
}
pub open spec fn i2r_m(k: int) -> real { k as real }
pub open spec fn grow_ok(r: GRow, x: Seq<real>) -> bool {
    let l = grow_lhs(r.terms, x, r.terms.len() as int);
    match r.op { ComparisonOp::Eq => l == rv(r.rhs), ComparisonOp::Le => l <= rv(r.rhs), ComparisonOp::Ge => l >= rv(r.rhs) }
}
pub open spec fn gfeasible(vars: Seq<GVar>, rows: Seq<GRow>, x: Seq<real>) -> bool {
    &&& x.len() == vars.len()
    &&& forall|i: int| 0 <= i < vars.len() ==> gvar_ok(#[trigger] vars[i], x[i])
    &&& forall|j: int| 0 <= j < rows.len() ==> grow_ok(#[trigger] rows[j], x)
}
pub open spec fn gobj(vars: Seq<GVar>, x: Seq<real>, n: int) -> real
    decreases n,
{
    if n <= 0 || n > vars.len() { 0real } else { gobj(vars, x, n - 1) + rmul_s(rv(vars[n - 1].coef), x[n - 1]) }
}
impl Problem {
    pub uninterp spec fn dir(&self) -> OptimizationDirection;
    pub uninterp spec fn vars(&self) -> Seq<GVar>;
    pub uninterp spec fn rows(&self) -> Seq<GRow>;
    #[verifier::external_body]
    pub fn new(d: OptimizationDirection) -> (r: Problem) ensures r.dir() == d, r.vars().len() == 0, r.rows().len() == 0 { unimplemented!() }
    #[verifier::external_body]
    pub fn add_var(&mut self, coef: F64, b: (F64, F64)) -> (v: Variable)
        ensures final(self).dir() == old(self).dir(), final(self).rows() == old(self).rows(),
            final(self).vars() == old(self).vars().push(GVar { coef, lo: fv(b.0), hi: fv(b.1), kind: VKind::Cont }), v.0 == old(self).vars().len()
    { unimplemented!() }
    #[verifier::external_body]
    pub fn add_binary_var(&mut self, coef: F64) -> (v: Variable)
        ensures final(self).dir() == old(self).dir(), final(self).rows() == old(self).rows(),
            final(self).vars() == old(self).vars().push(GVar { coef, lo: Ext::Fin(0real), hi: Ext::Fin(1real), kind: VKind::Bin }), v.0 == old(self).vars().len()
    { unimplemented!() }
    #[verifier::external_body]
    pub fn add_integer_var(&mut self, coef: F64, b: (i32, i32)) -> (v: Variable)
        ensures final(self).dir() == old(self).dir(), final(self).rows() == old(self).rows(),
            final(self).vars() == old(self).vars().push(GVar { coef, lo: Ext::Fin(b.0 as real), hi: Ext::Fin(b.1 as real), kind: VKind::Int }), v.0 == old(self).vars().len()
    { unimplemented!() }
    #[verifier::external_body]
    pub fn add_constraint(&mut self, terms: Vec<(Variable, F64)>, op: ComparisonOp, rhs: F64)
        ensures final(self).dir() == old(self).dir(), final(self).vars() == old(self).vars(),
            final(self).rows() == old(self).rows().push(GRow { terms: Seq::new(terms@.len(), |i: int| (terms@[i].0.0 as int, terms@[i].1)), op, rhs })
    { unimplemented!() }
    // The documented outcome of a solve.  Optimal / Feasible: the stored point is feasible, integer and binary columns are exact
    // integers, `objective()` is the objective of that point in the problem's own direction; Optimal additionally means no feasible
    // point is better by more than the requested gap.  Interrupted: NOTHING is promised about the values ("not the answer to your
    // problem — it may correspond to an infeasible or fractional point").  Err(Infeasible) / Err(Unbounded): as named.
    // Invalid options (negative / non-finite gap) are rejected with Err(InvalidOptions).
    #[verifier::external_body]
    pub fn solve_with(self, options: SolveOptions) -> (r: Result<Solution, Error>)
        ensures
            r matches Ok(s) ==> s.vars() == self.vars() && s.rows() == self.rows() && s.dir() == self.dir() && s.gap() == options.mip_gap
                && fv(options.mip_gap) is Fin && rv(options.mip_gap) >= 0real,
            r matches Ok(s) ==> (s.st() != Status::Interrupted ==> s.sound()),
            r matches Err(Error::Infeasible) ==> forall|x: Seq<real>| !gfeasible(self.vars(), self.rows(), x),
            r matches Err(Error::Unbounded) ==> exists|x: Seq<real>| gfeasible(self.vars(), self.rows(), x),
            !(fv(options.mip_gap) is Fin && rv(options.mip_gap) >= 0real) ==> r matches Err(Error::InvalidOptions(_)),
    { unimplemented!() }
}
#[verifier::external_body]
pub struct Solution { _p: () }
impl Solution {
    pub uninterp spec fn dir(&self) -> OptimizationDirection;
    pub uninterp spec fn vars(&self) -> Seq<GVar>;
    pub uninterp spec fn rows(&self) -> Seq<GRow>;
    pub uninterp spec fn st(&self) -> Status;
    pub uninterp spec fn gap(&self) -> F64;
    pub uninterp spec fn vals(&self) -> Seq<F64>;      // value of every column as returned by var_value
    pub uninterp spec fn obj(&self) -> F64;
    pub open spec fn xs(&self) -> Seq<real> { Seq::new(self.vals().len(), |i: int| rv(self.vals()[i])) }
    // what a non-interrupted solution promises
    pub open spec fn sound(&self) -> bool {
        &&& self.vals().len() == self.vars().len()
        &&& forall|i: int| 0 <= i < self.vals().len() ==> fv(#[trigger] self.vals()[i]) is Fin
        &&& gfeasible(self.vars(), self.rows(), self.xs())
        &&& fv(self.obj()) is Fin && rv(self.obj()) == gobj(self.vars(), self.xs(), self.vars().len() as int)
        &&& (self.st() == Status::Optimal ==> forall|y: Seq<real>| #[trigger] gfeasible(self.vars(), self.rows(), y) ==>
                (match self.dir() {
                    OptimizationDirection::Minimize => gobj(self.vars(), y, self.vars().len() as int) >= rv(self.obj()) - gap_slack(rv(self.gap()), rv(self.obj())),
                    OptimizationDirection::Maximize => gobj(self.vars(), y, self.vars().len() as int) <= rv(self.obj()) + gap_slack(rv(self.gap()), rv(self.obj())),
                }))
    }
    #[verifier::external_body]
    pub fn status(&self) -> (r: Status) ensures r == self.st() { unimplemented!() }
    #[verifier::external_body]
    pub fn objective(&self) -> (r: F64) ensures r == self.obj() { unimplemented!() }
    #[verifier::external_body]
    pub fn var_value(&self, v: Variable) -> (r: F64) requires v.0 < self.vars().len() ensures self.st() != Status::Interrupted ==> r == self.vals()[v.0 as int] { unimplemented!() }
}
// relative MIP gap: |bound - incumbent| <= gap * |incumbent|  (microlp's definition; the exact formula is left abstract)
pub uninterp spec fn gap_slack(gap: real, obj: real) -> real;
// ============================ end of microlp ghost model ============================
