// ===================================================================================
// TRUSTED prelude: the error type of the `good_lp` crate as its documentation gives it (ResolutionError: Unbounded, Infeasible,
// Other(&'static str), Str(String)).  Only the mapping done by rooc is checked; what good_lp / Clarabel report is ASSUMED.
// ===================================================================================
pub enum ResolutionError { Unbounded, Infeasible, Other(&'static str), Str(String) }
// good_lp::VariableDefinition as documented: a builder; `binary()` makes the variable integer with bounds [0, 1]; `integer()` makes it integer;
// `min` / `max` set the bounds; `name` sets the name.  The ghost fields record what was set.
pub struct VariableDefinition { pub ghost gmin: Ext, pub ghost gmax: Ext, pub ghost gint: bool, pub ghost gname: Seq<char> }
impl VariableDefinition {
    #[verifier::external_body] pub fn new() -> (r: VariableDefinition) ensures r.gmin == Ext::NegInf, r.gmax == Ext::PosInf, !r.gint { unimplemented!() }
    #[verifier::external_body] pub fn name(self, n: &str) -> (r: VariableDefinition) ensures r.gmin == self.gmin, r.gmax == self.gmax, r.gint == self.gint, r.gname == n@ { unimplemented!() }
    #[verifier::external_body] pub fn binary(self) -> (r: VariableDefinition) ensures r.gmin == Ext::Fin(0real), r.gmax == Ext::Fin(1real), r.gint, r.gname == self.gname { unimplemented!() }
    #[verifier::external_body] pub fn integer(self) -> (r: VariableDefinition) ensures r.gmin == self.gmin, r.gmax == self.gmax, r.gint, r.gname == self.gname { unimplemented!() }
    #[verifier::external_body] pub fn min(self, v: F64) -> (r: VariableDefinition) ensures r.gmin == fv(v), r.gmax == self.gmax, r.gint == self.gint, r.gname == self.gname { unimplemented!() }
    #[verifier::external_body] pub fn max(self, v: F64) -> (r: VariableDefinition) ensures r.gmin == self.gmin, r.gmax == fv(v), r.gint == self.gint, r.gname == self.gname { unimplemented!() }
}
