// ===================================================================================
// TRUSTED prelude: the error type of the `good_lp` crate as its documentation gives it (ResolutionError: Unbounded, Infeasible,
// Other(&'static str), Str(String)).  Only the mapping done by rooc is checked; what good_lp / Clarabel report is ASSUMED.
// ===================================================================================
pub enum ResolutionError { Unbounded, Infeasible, Other(&'static str), Str(String) }
