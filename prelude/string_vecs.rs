// ----- TRUSTED: Vec<String>::sort and Vec<String>::contains (rule R66).  `sort` rearranges the elements into non-decreasing order of the
// (uninterpreted) total order on strings: same length, same elements, duplicate-freeness kept.  `contains` compares characters. -----
pub uninterp spec fn str_le(a: Seq<char>, b: Seq<char>) -> bool;
pub open spec fn names_of(v: Seq<String>) -> Seq<Seq<char>> { v.map_values(|s: String| s@) }
pub open spec fn has_name(v: Seq<String>, k: Seq<char>) -> bool { exists|i: int| 0 <= i < v.len() && (#[trigger] v[i])@ == k }
pub open spec fn names_distinct(v: Seq<String>) -> bool { forall|i: int, j: int| 0 <= i < j < v.len() ==> v[i]@ != v[j]@ }
pub open spec fn names_sorted(v: Seq<String>) -> bool { forall|i: int, j: int| 0 <= i <= j < v.len() ==> str_le(v[i]@, v[j]@) }
#[verifier::external_body]
pub fn vx_sort_strings(v: &mut Vec<String>)
    ensures final(v)@.len() == old(v)@.len(), names_sorted(final(v)@),
        forall|k: Seq<char>| has_name(final(v)@, k) <==> has_name(old(v)@, k),
        names_distinct(old(v)@) ==> names_distinct(final(v)@),
{ v.sort() }
#[verifier::external_body]
pub fn vx_contains_string(v: &Vec<String>, x: &String) -> (r: bool)
    ensures r == has_name(v@, x@),
{ v.contains(x) }
