// ===================================================================================
// TRUSTED prelude: std stubs (DESIGN §3.3).  Everything in this file is ASSUMED.
// ===================================================================================
// R6: a formatted string whose text no proof may depend on
#[verifier::external_body] pub fn vx_opaque_string() -> (r: String) { String::new() }
// ============================ end of std stubs ============================
