// ===================================================================================
// TRUSTED prelude: std stubs (DESIGN §3.3).  Everything in this file is ASSUMED.
// ===================================================================================
// R6: a formatted string whose text no proof may depend on
#[verifier::external_body] pub fn vx_opaque_string() -> (r: String) { String::new() }
// R6 for a template that has a literal character outside its placeholders: the text is still abstracted, but it is not empty
#[verifier::external_body] pub fn vx_opaque_nonempty_string() -> (r: String) ensures r@.len() > 0 { String::from("_") }
// ============================ end of std stubs ============================
// R21: next value of an auxiliary-name counter (the value is abstracted: names are opaque strings, R6)
#[verifier::external_body] pub fn vx_counter_next(c: u32) -> (r: u32) { c.wrapping_add(1) }
// arm masking (DESIGN §3.1): an arm that is not part of the slice being verified ends in this diverging stub
#[verifier::external_body] pub fn vx_arm_not_in_slice() -> ! { unimplemented!() }
// R44: `panic!(..)`: a call that does not return (partial correctness; the message is dropped)
#[verifier::external_body] pub fn vx_panic() -> ! { unimplemented!() }
// R7: `vec![e; n]` — n copies of e
#[verifier::external_body] pub fn vx_vec_repeat<T: Clone>(e: T, n: usize) -> (r: Vec<T>) ensures r@.len() == n, forall|i: int| 0 <= i < n ==> #[trigger] r@[i] == e { vec![e; n] }
// R32: next value of a local counter whose machine overflow is not checked
#[verifier::external_body] pub fn vx_usize_next(c: usize) -> (r: usize) { c.wrapping_add(1) }
// std: Option<&T>::copied (the definition in core)
pub assume_specification<'a, T: Copy>[ Option::<&'a T>::copied ](o: Option<&'a T>) -> (r: Option<T>)
    ensures r == (match o { Some(x) => Some(*x), None => None::<T> });
// R26v: the element a consuming `for x in vec` loop moves out at position i
#[verifier::external_body] pub fn vx_vec_take<T>(v: &Vec<T>, i: usize) -> (r: T) requires i < v@.len() ensures r == v@[i as int] { unimplemented!() }
// R54: indexing that returns only when the index is in bounds (Rust's `v[i]` panics otherwise; nothing is claimed about a panicking run)
#[verifier::external_body] pub fn vx_index<T>(v: &Vec<T>, i: usize) -> (r: &T) ensures i < v@.len(), *r == v@[i as int] { &v[i] }
#[verifier::external_body] pub fn vx_index_s<T>(v: &[T], i: usize) -> (r: &T) ensures i < v@.len(), *r == v@[i as int] { &v[i] }
#[verifier::external_body] pub fn vx_index_set<T>(v: &mut Vec<T>, i: usize, x: T) ensures i < old(v)@.len(), final(v)@ == old(v)@.update(i as int, x) { v[i] = x; }
