// ===================================================================================
// TRUSTED prelude: the F64 layer (DESIGN §3.4).  Everything in this file is ASSUMED.
// `F64` stands for the machine type f64 (rule R10 renames it).  Its ghost value is an
// extended real; operators follow IEEE-754 on special values and are EXACT on finite
// values (no rounding, no overflow to infinity).  Sign of zero is ignored.
// ===================================================================================
pub enum Ext { NaN, NegInf, Fin(real), PosInf }
#[verifier::external_body]
#[derive(Clone, Copy)]
pub struct F64(f64);
pub uninterp spec fn fv(x: F64) -> Ext;

pub open spec fn ext_neg(a: Ext) -> Ext {
    match a { Ext::NaN => Ext::NaN, Ext::PosInf => Ext::NegInf, Ext::NegInf => Ext::PosInf, Ext::Fin(x) => Ext::Fin(-x) }
}
pub open spec fn ext_add(a: Ext, b: Ext) -> Ext {
    match (a, b) {
        (Ext::NaN, _) | (_, Ext::NaN) => Ext::NaN,
        (Ext::PosInf, Ext::NegInf) | (Ext::NegInf, Ext::PosInf) => Ext::NaN,
        (Ext::PosInf, _) | (_, Ext::PosInf) => Ext::PosInf,
        (Ext::NegInf, _) | (_, Ext::NegInf) => Ext::NegInf,
        (Ext::Fin(x), Ext::Fin(y)) => Ext::Fin(x + y),
    }
}
// Products and quotients of reals go through these OPAQUE wrappers: the solver sees uninterpreted functions unless a
// (small) lemma reveals them.  Raw nonlinear real terms make failing queries hang instead of failing, and make
// passing ones unstable.
#[verifier::opaque]
pub open spec fn rmul_s(c: real, a: real) -> real { c * a }
#[verifier::opaque]
pub open spec fn rdiv_s(a: real, d: real) -> real { a / d }
pub open spec fn sgn(a: Ext) -> int {   // -1, 0, 1 ; NaN -> 2
    match a { Ext::NaN => 2, Ext::NegInf => -1, Ext::PosInf => 1, Ext::Fin(x) => if x > 0real { 1 } else if x < 0real { -1 } else { 0 } }
}
pub open spec fn ext_mul(a: Ext, b: Ext) -> Ext {
    match (a, b) {
        (Ext::NaN, _) | (_, Ext::NaN) => Ext::NaN,
        (Ext::Fin(x), Ext::Fin(y)) => Ext::Fin(rmul_s(x, y)),
        _ => if sgn(a) == 0 || sgn(b) == 0 { Ext::NaN } else if sgn(a) == sgn(b) { Ext::PosInf } else { Ext::NegInf },
    }
}
pub open spec fn ext_div(a: Ext, b: Ext) -> Ext {
    match (a, b) {
        (Ext::NaN, _) | (_, Ext::NaN) => Ext::NaN,
        // x / 0: sign of zero ignored -> the result is +-inf with unknown sign; modelled by the sign of x (as for +0)
        (Ext::Fin(x), Ext::Fin(y)) => if y != 0real { Ext::Fin(rdiv_s(x, y)) } else if x == 0real { Ext::NaN } else if x > 0real { Ext::PosInf } else { Ext::NegInf },
        (Ext::Fin(_), _) => Ext::Fin(0real),
        (_, Ext::Fin(y)) => if (sgn(a) == 1) == (y >= 0real) { Ext::PosInf } else { Ext::NegInf },
        _ => Ext::NaN,
    }
}
pub open spec fn ext_le(a: Ext, b: Ext) -> bool {
    match (a, b) {
        (Ext::NaN, _) | (_, Ext::NaN) => false,
        (Ext::NegInf, _) => true,
        (_, Ext::PosInf) => true,
        (Ext::Fin(x), Ext::Fin(y)) => x <= y,
        _ => false,
    }
}
pub open spec fn ext_lt(a: Ext, b: Ext) -> bool { ext_le(a, b) && !ext_le(b, a) }
pub open spec fn ext_eq(a: Ext, b: Ext) -> bool { ext_le(a, b) && ext_le(b, a) }
pub open spec fn ext_max(a: Ext, b: Ext) -> Ext { if a is NaN { b } else if b is NaN { a } else if ext_le(a, b) { b } else { a } }
pub open spec fn ext_min(a: Ext, b: Ext) -> Ext { if a is NaN { b } else if b is NaN { a } else if ext_le(a, b) { a } else { b } }
pub open spec fn ext_abs(a: Ext) -> Ext {
    match a { Ext::NaN => Ext::NaN, Ext::PosInf => Ext::PosInf, Ext::NegInf => Ext::PosInf, Ext::Fin(x) => Ext::Fin(if x >= 0real { x } else { -x }) }
}
pub uninterp spec fn rfloor(x: real) -> int;
pub uninterp spec fn rceil(x: real) -> int;
pub broadcast axiom fn ax_rfloor(x: real) ensures ((#[trigger] rfloor(x)) as real) <= x, x < ((rfloor(x) + 1) as real);
pub broadcast axiom fn ax_rceil(x: real) ensures ((((#[trigger] rceil(x)) - 1)) as real) < x, x <= (rceil(x) as real);

pub uninterp spec fn rpow(x: real, n: int) -> real;
pub broadcast axiom fn ax_rpow_pos(x: real, n: int) ensures x > 0real ==> #[trigger] rpow(x, n) > 0real;
pub broadcast axiom fn ax_rpow_10_m5() ensures #[trigger] rpow(10real, -5) == 1real / 100000real;
pub uninterp spec fn f_neg(a: F64) -> F64;
pub uninterp spec fn f_add(a: F64, b: F64) -> F64;
pub uninterp spec fn f_sub(a: F64, b: F64) -> F64;
pub uninterp spec fn f_mul(a: F64, b: F64) -> F64;
pub uninterp spec fn f_div(a: F64, b: F64) -> F64;
pub broadcast axiom fn ax_neg(a: F64) ensures fv(#[trigger] f_neg(a)) == ext_neg(fv(a));
pub broadcast axiom fn ax_add(a: F64, b: F64) ensures fv(#[trigger] f_add(a, b)) == ext_add(fv(a), fv(b));
pub broadcast axiom fn ax_sub(a: F64, b: F64) ensures fv(#[trigger] f_sub(a, b)) == ext_add(fv(a), ext_neg(fv(b)));
pub broadcast axiom fn ax_mul(a: F64, b: F64) ensures fv(#[trigger] f_mul(a, b)) == ext_mul(fv(a), fv(b));
pub broadcast axiom fn ax_div(a: F64, b: F64) ensures fv(#[trigger] f_div(a, b)) == ext_div(fv(a), fv(b));
pub broadcast group fl { ax_neg, ax_add, ax_sub, ax_mul, ax_div, ax_rfloor, ax_rceil, ax_rpow_pos, ax_rpow_10_m5 }
impl NegSpecImpl for F64 { open spec fn obeys_neg_spec() -> bool { true } open spec fn neg_req(self) -> bool { true } open spec fn neg_spec(self) -> F64 { f_neg(self) } }
impl AddSpecImpl for F64 { open spec fn obeys_add_spec() -> bool { true } open spec fn add_req(self, o: F64) -> bool { true } open spec fn add_spec(self, o: F64) -> F64 { f_add(self, o) } }
impl SubSpecImpl for F64 { open spec fn obeys_sub_spec() -> bool { true } open spec fn sub_req(self, o: F64) -> bool { true } open spec fn sub_spec(self, o: F64) -> F64 { f_sub(self, o) } }
impl MulSpecImpl for F64 { open spec fn obeys_mul_spec() -> bool { true } open spec fn mul_req(self, o: F64) -> bool { true } open spec fn mul_spec(self, o: F64) -> F64 { f_mul(self, o) } }
impl DivSpecImpl for F64 { open spec fn obeys_div_spec() -> bool { true } open spec fn div_req(self, o: F64) -> bool { true } open spec fn div_spec(self, o: F64) -> F64 { f_div(self, o) } }
impl core::ops::Neg for F64 { type Output = F64; #[verifier::external_body] fn neg(self) -> (r: F64) { F64(-self.0) } }
impl core::ops::Add for F64 { type Output = F64; #[verifier::external_body] fn add(self, o: F64) -> (r: F64) { F64(self.0 + o.0) } }
impl core::ops::Sub for F64 { type Output = F64; #[verifier::external_body] fn sub(self, o: F64) -> (r: F64) { F64(self.0 - o.0) } }
impl core::ops::Mul for F64 { type Output = F64; #[verifier::external_body] fn mul(self, o: F64) -> (r: F64) { F64(self.0 * o.0) } }
impl core::ops::Div for F64 { type Output = F64; #[verifier::external_body] fn div(self, o: F64) -> (r: F64) { F64(self.0 / o.0) } }
// operators on references (`c * -1.0` with c: &f64, `1.0 / divisor` with divisor: &f64, ...): same meaning as on values
impl<'a> AddSpecImpl<F64> for &'a F64 { open spec fn obeys_add_spec() -> bool { true } open spec fn add_req(self, o: F64) -> bool { true } open spec fn add_spec(self, o: F64) -> F64 { f_add(*self, o) } }
impl<'a> core::ops::Add<F64> for &'a F64 { type Output = F64; #[verifier::external_body] fn add(self, o: F64) -> (r: F64) { F64(self.0 + o.0) } }
impl<'a> AddSpecImpl<&'a F64> for F64 { open spec fn obeys_add_spec() -> bool { true } open spec fn add_req(self, o: &'a F64) -> bool { true } open spec fn add_spec(self, o: &'a F64) -> F64 { f_add(self, *o) } }
impl<'a> core::ops::Add<&'a F64> for F64 { type Output = F64; #[verifier::external_body] fn add(self, o: &'a F64) -> (r: F64) { F64(self.0 + o.0) } }
impl<'a> AddSpecImpl<&'a F64> for &'a F64 { open spec fn obeys_add_spec() -> bool { true } open spec fn add_req(self, o: &'a F64) -> bool { true } open spec fn add_spec(self, o: &'a F64) -> F64 { f_add(*self, *o) } }
impl<'a> core::ops::Add<&'a F64> for &'a F64 { type Output = F64; #[verifier::external_body] fn add(self, o: &'a F64) -> (r: F64) { F64(self.0 + o.0) } }
impl<'a> SubSpecImpl<F64> for &'a F64 { open spec fn obeys_sub_spec() -> bool { true } open spec fn sub_req(self, o: F64) -> bool { true } open spec fn sub_spec(self, o: F64) -> F64 { f_sub(*self, o) } }
impl<'a> core::ops::Sub<F64> for &'a F64 { type Output = F64; #[verifier::external_body] fn sub(self, o: F64) -> (r: F64) { F64(self.0 - o.0) } }
impl<'a> SubSpecImpl<&'a F64> for F64 { open spec fn obeys_sub_spec() -> bool { true } open spec fn sub_req(self, o: &'a F64) -> bool { true } open spec fn sub_spec(self, o: &'a F64) -> F64 { f_sub(self, *o) } }
impl<'a> core::ops::Sub<&'a F64> for F64 { type Output = F64; #[verifier::external_body] fn sub(self, o: &'a F64) -> (r: F64) { F64(self.0 - o.0) } }
impl<'a> SubSpecImpl<&'a F64> for &'a F64 { open spec fn obeys_sub_spec() -> bool { true } open spec fn sub_req(self, o: &'a F64) -> bool { true } open spec fn sub_spec(self, o: &'a F64) -> F64 { f_sub(*self, *o) } }
impl<'a> core::ops::Sub<&'a F64> for &'a F64 { type Output = F64; #[verifier::external_body] fn sub(self, o: &'a F64) -> (r: F64) { F64(self.0 - o.0) } }
impl<'a> MulSpecImpl<F64> for &'a F64 { open spec fn obeys_mul_spec() -> bool { true } open spec fn mul_req(self, o: F64) -> bool { true } open spec fn mul_spec(self, o: F64) -> F64 { f_mul(*self, o) } }
impl<'a> core::ops::Mul<F64> for &'a F64 { type Output = F64; #[verifier::external_body] fn mul(self, o: F64) -> (r: F64) { F64(self.0 * o.0) } }
impl<'a> MulSpecImpl<&'a F64> for F64 { open spec fn obeys_mul_spec() -> bool { true } open spec fn mul_req(self, o: &'a F64) -> bool { true } open spec fn mul_spec(self, o: &'a F64) -> F64 { f_mul(self, *o) } }
impl<'a> core::ops::Mul<&'a F64> for F64 { type Output = F64; #[verifier::external_body] fn mul(self, o: &'a F64) -> (r: F64) { F64(self.0 * o.0) } }
impl<'a> MulSpecImpl<&'a F64> for &'a F64 { open spec fn obeys_mul_spec() -> bool { true } open spec fn mul_req(self, o: &'a F64) -> bool { true } open spec fn mul_spec(self, o: &'a F64) -> F64 { f_mul(*self, *o) } }
impl<'a> core::ops::Mul<&'a F64> for &'a F64 { type Output = F64; #[verifier::external_body] fn mul(self, o: &'a F64) -> (r: F64) { F64(self.0 * o.0) } }
impl<'a> DivSpecImpl<F64> for &'a F64 { open spec fn obeys_div_spec() -> bool { true } open spec fn div_req(self, o: F64) -> bool { true } open spec fn div_spec(self, o: F64) -> F64 { f_div(*self, o) } }
impl<'a> core::ops::Div<F64> for &'a F64 { type Output = F64; #[verifier::external_body] fn div(self, o: F64) -> (r: F64) { F64(self.0 / o.0) } }
impl<'a> DivSpecImpl<&'a F64> for F64 { open spec fn obeys_div_spec() -> bool { true } open spec fn div_req(self, o: &'a F64) -> bool { true } open spec fn div_spec(self, o: &'a F64) -> F64 { f_div(self, *o) } }
impl<'a> core::ops::Div<&'a F64> for F64 { type Output = F64; #[verifier::external_body] fn div(self, o: &'a F64) -> (r: F64) { F64(self.0 / o.0) } }
impl<'a> DivSpecImpl<&'a F64> for &'a F64 { open spec fn obeys_div_spec() -> bool { true } open spec fn div_req(self, o: &'a F64) -> bool { true } open spec fn div_spec(self, o: &'a F64) -> F64 { f_div(*self, *o) } }
impl<'a> core::ops::Div<&'a F64> for &'a F64 { type Output = F64; #[verifier::external_body] fn div(self, o: &'a F64) -> (r: F64) { F64(self.0 / o.0) } }
impl<'a> NegSpecImpl for &'a F64 { open spec fn obeys_neg_spec() -> bool { true } open spec fn neg_req(self) -> bool { true } open spec fn neg_spec(self) -> F64 { f_neg(*self) } }
impl<'a> core::ops::Neg for &'a F64 { type Output = F64; #[verifier::external_body] fn neg(self) -> (r: F64) { F64(-self.0) } }
impl core::cmp::PartialEq for F64 { #[verifier::external_body] fn eq(&self, o: &F64) -> (r: bool) ensures r == ext_eq(fv(*self), fv(*o)) { self.0 == o.0 } }
impl core::cmp::PartialOrd for F64 {
    #[verifier::external_body] fn partial_cmp(&self, o: &F64) -> (r: Option<core::cmp::Ordering>) { self.0.partial_cmp(&o.0) }
    #[verifier::external_body] fn lt(&self, o: &F64) -> (r: bool) ensures r == ext_lt(fv(*self), fv(*o)) { self.0 < o.0 }
    #[verifier::external_body] fn le(&self, o: &F64) -> (r: bool) ensures r == ext_le(fv(*self), fv(*o)) { self.0 <= o.0 }
    #[verifier::external_body] fn gt(&self, o: &F64) -> (r: bool) ensures r == ext_lt(fv(*o), fv(*self)) { self.0 > o.0 }
    #[verifier::external_body] fn ge(&self, o: &F64) -> (r: bool) ensures r == ext_le(fv(*o), fv(*self)) { self.0 >= o.0 }
}
impl F64 {
    #[verifier::external_body] pub fn is_nan(self) -> (r: bool) ensures r == (fv(self) is NaN) { self.0.is_nan() }
    #[verifier::external_body] pub fn is_finite(self) -> (r: bool) ensures r == (fv(self) is Fin) { self.0.is_finite() }
    #[verifier::external_body] pub fn is_infinite(self) -> (r: bool) ensures r == (fv(self) is PosInf || fv(self) is NegInf) { self.0.is_infinite() }
    #[verifier::external_body] pub fn max(self, o: F64) -> (r: F64) ensures fv(r) == ext_max(fv(self), fv(o)) { F64(self.0.max(o.0)) }
    #[verifier::external_body] pub fn min(self, o: F64) -> (r: F64) ensures fv(r) == ext_min(fv(self), fv(o)) { F64(self.0.min(o.0)) }
    #[verifier::external_body] pub fn abs(self) -> (r: F64) ensures fv(r) == ext_abs(fv(self)) { F64(self.0.abs()) }
    #[verifier::external_body] pub fn floor(self) -> (r: F64) ensures fv(self) is Fin ==> fv(r) == Ext::Fin(rfloor(fv(self)->Fin_0) as real), !(fv(self) is Fin) ==> fv(r) == fv(self) { F64(self.0.floor()) }
    #[verifier::external_body] pub fn ceil(self) -> (r: F64) ensures fv(self) is Fin ==> fv(r) == Ext::Fin(rceil(fv(self)->Fin_0) as real), !(fv(self) is Fin) ==> fv(r) == fv(self) { F64(self.0.ceil()) }
    // powi: real power; only the table entries below are known to the solver (no overflow/underflow modelled)
    #[verifier::external_body] pub fn powi(self, n: i32) -> (r: F64) ensures fv(self) is Fin && rv(self) != 0real ==> fv(r) == Ext::Fin(rpow(rv(self), n as int)) { F64(self.0.powi(n)) }
    #[verifier::external_body] pub fn c_infinity() -> (r: F64) ensures fv(r) == Ext::PosInf { F64(f64::INFINITY) }
    #[verifier::external_body] pub fn c_neg_infinity() -> (r: F64) ensures fv(r) == Ext::NegInf { F64(f64::NEG_INFINITY) }
    #[verifier::external_body] pub fn c_nan() -> (r: F64) ensures fv(r) == Ext::NaN { F64(f64::NAN) }
    // saturating float -> int cast (`x as i32`): exact on in-range integral values, NaN -> 0, saturates otherwise
    #[verifier::external_body] pub fn to_i32(x: F64) -> (r: i32)
        ensures fv(x) is Fin && -2147483648real <= rv(x) <= 2147483647real && rv(x) == (rfloor(rv(x)) as real) ==> r as int == rfloor(rv(x)),
            // saturation (Rust reference, `as` casts from float to int since 1.45): below the range or -inf -> i32::MIN, above or +inf -> i32::MAX, NaN -> 0
            (fv(x) is NegInf || (fv(x) is Fin && rv(x) < -2147483648real)) ==> r == i32::MIN,
            (fv(x) is PosInf || (fv(x) is Fin && rv(x) > 2147483647real)) ==> r == i32::MAX,
            fv(x) is NaN ==> r == 0,
    { x.0 as i32 }
}
pub trait VxToF64: Sized { spec fn as_real(self) -> real; fn vx_conv(self) -> (r: F64) ensures fv(r) == Ext::Fin(self.as_real()); }
impl VxToF64 for i32 { open spec fn as_real(self) -> real { self as int as real } #[verifier::external_body] fn vx_conv(self) -> (r: F64) { F64(self as f64) } }
impl VxToF64 for i64 { open spec fn as_real(self) -> real { self as int as real } #[verifier::external_body] fn vx_conv(self) -> (r: F64) { F64(self as f64) } }
impl VxToF64 for u32 { open spec fn as_real(self) -> real { self as int as real } #[verifier::external_body] fn vx_conv(self) -> (r: F64) { F64(self as f64) } }
impl VxToF64 for u64 { open spec fn as_real(self) -> real { self as int as real } #[verifier::external_body] fn vx_conv(self) -> (r: F64) { F64(self as f64) } }
impl VxToF64 for usize { open spec fn as_real(self) -> real { self as int as real } #[verifier::external_body] fn vx_conv(self) -> (r: F64) { F64(self as f64) } }
pub fn vx_to_f64<T: VxToF64>(x: T) -> (r: F64) ensures fv(r) == Ext::Fin(x.as_real()) { x.vx_conv() }

pub open spec fn finite(x: F64) -> bool { fv(x) is Fin }
pub open spec fn rv(x: F64) -> real { fv(x)->Fin_0 }
// ============================ end of trusted F64 layer ============================
// targeted instances of the operator axioms (proved from the broadcast axioms above): for functions where
// broadcasting the whole group is too expensive for the solver
pub proof fn lemma_f_neg(a: F64) ensures fv(f_neg(a)) == ext_neg(fv(a)) { broadcast use ax_neg; }
pub proof fn lemma_f_mul_by(b: F64) ensures forall|a: F64| fv(#[trigger] f_mul(a, b)) == ext_mul(fv(a), fv(b)) { broadcast use ax_mul; }
pub proof fn lemma_f_mul_of(a: F64) ensures forall|b: F64| fv(#[trigger] f_mul(a, b)) == ext_mul(fv(a), fv(b)) { broadcast use ax_mul; }
// units whose specs talk about raw products (tableau row operations) open the wrappers again
pub broadcast proof fn lemma_rmul_def(c: real, a: real) ensures #[trigger] rmul_s(c, a) == c * a { reveal(rmul_s); }
pub broadcast proof fn lemma_rdiv_def(a: real, d: real) ensures #[trigger] rdiv_s(a, d) == a / d { reveal(rdiv_s); }
pub broadcast group arith_open { lemma_rmul_def, lemma_rdiv_def }
