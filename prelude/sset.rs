// ===================================================================================
// TRUSTED prelude: IndexSet<String> (DESIGN §3.3).  Everything in this file is ASSUMED.
// Only membership is modelled (the insertion order of an IndexSet is not used by the code under contract).
// ===================================================================================
#[verifier::external_body]
pub struct SSet { _p: u8 }
impl SSet {
    pub uninterp spec fn set(&self) -> Set<Seq<char>>;
    pub open spec fn has(&self, k: Seq<char>) -> bool { self.set().contains(k) }
    #[verifier::external_body]
    pub fn new() -> (r: Self) ensures r.set() == Set::<Seq<char>>::empty() { unimplemented!() }
    /// IndexSet::insert: true iff the value was not present before
    #[verifier::external_body]
    pub fn insert(&mut self, k: String) -> (r: bool)
        ensures final(self).set() == old(self).set().insert(k@), r == !old(self).set().contains(k@) { unimplemented!() }
    // R55: the elements as a vector (some order, every element once); `extend` adds the elements of another set
    #[verifier::external_body]
    pub fn vx_into_vec(self) -> (r: Vec<String>) ensures forall|k: Seq<char>| self.set().contains(k) <==> exists|j: int| 0 <= j < r@.len() && #[trigger] r@[j]@ == k { unimplemented!() }
    #[verifier::external_body]
    pub fn extend(&mut self, other: SSet) ensures final(self).set() == old(self).set().union(other.set()) { unimplemented!() }
    #[verifier::external_body]
    pub fn contains(&self, k: &String) -> (r: bool) ensures r == self.set().contains(k@) { unimplemented!() }
}
// ============================ end of SSet ============================
