#!/bin/bash
# developer aid: re-run every claimed quick check on the unchanged tree so that the committed evidence files come from clean runs
cd /verif
git -C /repo diff --quiet || { echo "/repo has uncommitted changes: not refreshing"; exit 1; }
for p in $(python3 -c "import json; print(' '.join(c['property_id'] for c in json.load(open('MANIFEST.json'))['checks']))"); do ./check $p 2>&1 | tail -1 | cut -c1-170; done
