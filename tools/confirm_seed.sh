#!/bin/bash
# confirm a seeded change in its scratch worktree: (1) existing suite passes with the change, (2) demo fails with it, (3) demo passes without it
P=$1; W=/tmp/seed/$P; cd $W/packages/rooc || exit 2
export CARGO_TARGET_DIR=$W/target
echo "== $P: suite with change (excluding the demo)"
cargo test --offline --no-fail-fast 2>&1 | grep -E "^test result|Running|FAILED|failed" | awk '/Running/{cur=$0} /test result/{if (cur ~ /seeded_demo/) {d=$0} else {p+=$4; f+=$6}} END {print "existing: passed",p,"failed",f; print "demo:", d}'
echo "== $P: demo without change"
git -C $W diff -- packages/rooc/src > $W/own.patch; git -C $W apply -R $W/own.patch
cargo test --offline --test seeded_demo 2>&1 | grep -E "^test result" | head -2
git -C $W apply $W/own.patch
git -C $W status --short | head -3
