//! vx — mechanical extractor / rewriter / weaver (DESIGN §3.1, §3.2).
//!
//! `vx <spec.json>` reads the named `/repo` sources with syn, pulls the named items,
//! applies the enabled rewrite rules on the AST, pretty-prints with prettyplease and
//! weaves the contract text at structurally found positions.  Exit codes: 0 ok,
//! 2 "extraction lost" (missing item, selector that matches nothing, parse error).
//! It never decides a property; it only produces the text the verifier sees, plus a
//! report of what it dropped / rewrote / assumed.

use proc_macro2::Span;
use quote::{quote, ToTokens};
use serde_json::{json, Value};
use std::collections::{BTreeMap, BTreeSet, HashMap};
use syn::visit::Visit;
use syn::visit_mut::VisitMut;

mod rules;
mod weave;

pub fn lost(msg: &str) -> ! {
    eprintln!("vx: EXTRACTION-LOST: {}", msg);
    std::process::exit(2);
}

pub fn norm(s: &str) -> String {
    s.chars().filter(|c| !c.is_whitespace()).collect()
}

#[derive(Default, Debug, Clone)]
pub struct Block {
    pub selector: String, // text after the fn name on the header line
    pub body: String,
    pub used: bool,
}

#[derive(Default)]
pub struct Contracts {
    pub by_fn: BTreeMap<String, Vec<Block>>,
    pub raw: Vec<String>,
}

fn parse_contracts(txt: &str) -> Contracts {
    let mut c = Contracts::default();
    let mut cur: Option<(String, Block)> = None;
    let mut raw: Option<String> = None;
    let flush = |cur: &mut Option<(String, Block)>, raw: &mut Option<String>, c: &mut Contracts| {
        if let Some((n, b)) = cur.take() {
            c.by_fn.entry(n).or_default().push(b);
        }
        if let Some(r) = raw.take() {
            c.raw.push(r);
        }
    };
    for line in txt.lines() {
        if let Some(rest) = line.strip_prefix("@fn ") {
            flush(&mut cur, &mut raw, &mut c);
            let rest = rest.trim();
            let (name, sel) = match rest.find(|ch: char| ch.is_whitespace()) {
                Some(i) => (rest[..i].to_string(), rest[i..].trim().to_string()),
                None => (rest.to_string(), String::new()),
            };
            cur = Some((name, Block { selector: sel, body: String::new(), used: false }));
        } else if line.trim_end() == "@raw" {
            flush(&mut cur, &mut raw, &mut c);
            raw = Some(String::new());
        } else if line.starts_with("//@") {
            // comment line in a contract file
        } else if let Some((_, b)) = cur.as_mut() {
            b.body.push_str(line);
            b.body.push('\n');
        } else if let Some(r) = raw.as_mut() {
            r.push_str(line);
            r.push('\n');
        }
    }
    flush(&mut cur, &mut raw, &mut c);
    c
}

pub struct Ctx {
    pub rules: BTreeSet<String>,
    pub rule_uses: BTreeMap<String, usize>,
    pub literals: BTreeSet<String>,
    pub const_fns: BTreeSet<String>, // idents of consts turned into fns (R20)
    pub broadcast: Vec<String>,
    pub canary: bool,
    pub opts: Value,
    pub counter: usize,
}

impl Ctx {
    pub fn fresh(&mut self) -> usize {
        self.counter += 1;
        self.counter
    }
    pub fn used(&mut self, r: &str) {
        *self.rule_uses.entry(r.to_string()).or_insert(0) += 1;
    }
    pub fn on(&self, r: &str) -> bool {
        self.rules.contains(r)
    }
}

pub fn unparse_items(items: Vec<syn::Item>) -> String {
    prettyplease::unparse(&syn::File { shebang: None, attrs: vec![], items })
}

fn derives_of(attrs: &[syn::Attribute]) -> Vec<String> {
    let mut out = vec![];
    for a in attrs {
        if a.path().is_ident("derive") {
            let _ = a.parse_nested_meta(|m| {
                if let Some(i) = m.path.segments.last() {
                    out.push(i.ident.to_string());
                }
                Ok(())
            });
        }
    }
    out
}

fn type_name(t: &syn::Type) -> String {
    norm(&t.to_token_stream().to_string())
}

fn main() {
    let args: Vec<String> = std::env::args().collect();
    if args.len() < 2 {
        eprintln!("usage: vx <spec.json>");
        std::process::exit(2);
    }
    let spec: Value = serde_json::from_str(&std::fs::read_to_string(&args[1]).unwrap_or_else(|e| lost(&format!("spec: {e}"))))
        .unwrap_or_else(|e| lost(&format!("spec json: {e}")));
    let repo = spec["repo"].as_str().unwrap_or("/repo").to_string();
    let contract_txt = match spec["contract"].as_str() {
        Some(p) => std::fs::read_to_string(p).unwrap_or_else(|e| lost(&format!("contract {p}: {e}"))),
        None => String::new(),
    };
    let mut contracts = parse_contracts(&contract_txt);
    let mut ctx = Ctx {
        rules: spec["rules"].as_array().map(|a| a.iter().filter_map(|v| v.as_str().map(String::from)).collect()).unwrap_or_default(),
        rule_uses: BTreeMap::new(),
        literals: BTreeSet::new(),
        const_fns: BTreeSet::new(),
        broadcast: spec["broadcast"].as_array().map(|a| a.iter().filter_map(|v| v.as_str().map(String::from)).collect()).unwrap_or_default(),
        canary: spec["canary"].as_bool().unwrap_or(false),
        opts: spec["opts"].clone(),
        counter: 0,
    };

    let mut out = String::new();
    let mut report_fns: Vec<Value> = vec![];
    let mut assumed: Vec<String> = vec![];
    let mut dropped: Vec<String> = vec![];
    let mut found_items: Vec<String> = vec![];

    // first pass: collect const names that become functions (R20) over all sources
    let mut parsed: Vec<(String, Vec<String>, syn::File)> = vec![];
    for s in spec["sources"].as_array().unwrap_or_else(|| lost("spec.sources missing")) {
        let path = s["path"].as_str().unwrap_or_else(|| lost("source.path"));
        let items: Vec<String> = s["items"].as_array().map(|a| a.iter().filter_map(|v| v.as_str().map(String::from)).collect()).unwrap_or_default();
        let full = format!("{}/{}", repo, path);
        let src = std::fs::read_to_string(&full).unwrap_or_else(|e| lost(&format!("{full}: {e}")));
        let file = syn::parse_file(&src).unwrap_or_else(|e| lost(&format!("{full}: parse error {e}")));
        for it in &items {
            if let Some(n) = it.strip_prefix("const ") {
                ctx.const_fns.insert(n.trim().to_string());
            }
            if let Some(n) = it.strip_prefix("implconst ") {
                // "implconst Bounds::UNBOUNDED"
                if let Some((_, c)) = n.rsplit_once("::") {
                    ctx.const_fns.insert(c.trim().to_string());
                }
            }
        }
        parsed.push((path.to_string(), items, file));
    }

    for (path, items, file) in parsed {
        let wanted: BTreeSet<String> = items.iter().cloned().collect();
        let mut seen: BTreeSet<String> = BTreeSet::new();
        out.push_str(&format!("// ===== extracted from {} =====\n", path));
        // modules: allow "mod a::fn x" ? keep simple: top-level and items in nested inline mods are not searched
        // group impl methods by self type, in source order
        for item in file.items {
            match item {
                syn::Item::Struct(s) => {
                    let key = format!("struct {}", s.ident);
                    if !wanted.contains(&key) { continue; }
                    seen.insert(key.clone());
                    out.push_str(&emit_struct(s, &mut ctx, &mut assumed, &mut dropped));
                }
                syn::Item::Enum(e) => {
                    let key = format!("enum {}", e.ident);
                    if !wanted.contains(&key) { continue; }
                    seen.insert(key.clone());
                    out.push_str(&emit_enum(e, &mut ctx, &mut assumed, &mut dropped));
                }
                syn::Item::Macro(m) if tokens_norm(&m.mac.path).ends_with("enum_with_variants_to_string") => {
                    // `pub enum NAME derives[..] with_wasm { A, B, }` — the macro expands to exactly this enum (+ string helpers, dropped)
                    let toks: Vec<proc_macro2::TokenTree> = m.mac.tokens.clone().into_iter().collect();
                    let mut name = None;
                    let mut derives: Vec<String> = vec![];
                    let mut variants: Vec<String> = vec![];
                    let mut i = 0;
                    while i < toks.len() {
                        match &toks[i] {
                            proc_macro2::TokenTree::Ident(id) if id == "enum" => {
                                if let Some(proc_macro2::TokenTree::Ident(n)) = toks.get(i + 1) { name = Some(n.to_string()); }
                            }
                            proc_macro2::TokenTree::Ident(id) if id == "derives" => {
                                if let Some(proc_macro2::TokenTree::Group(g)) = toks.get(i + 1) {
                                    for t in g.stream() { if let proc_macro2::TokenTree::Ident(d) = t { derives.push(d.to_string()); } }
                                }
                            }
                            proc_macro2::TokenTree::Group(g) if g.delimiter() == proc_macro2::Delimiter::Brace => {
                                for t in g.stream() { if let proc_macro2::TokenTree::Ident(v) = t { variants.push(v.to_string()); } }
                            }
                            _ => {}
                        }
                        i += 1;
                    }
                    let Some(name) = name else { continue };
                    let key = format!("enum {}", name);
                    if !wanted.contains(&key) { continue; }
                    seen.insert(key.clone());
                    let id = syn::Ident::new(&name, Span::call_site());
                    let vs: Vec<syn::Ident> = variants.iter().map(|v| syn::Ident::new(v, Span::call_site())).collect();
                    let mut e: syn::ItemEnum = syn::parse_quote!(pub enum #id { #(#vs),* });
                    let ds: Vec<syn::Ident> = derives.iter().map(|v| syn::Ident::new(v, Span::call_site())).collect();
                    e.attrs.push(syn::parse_quote!(#[derive(#(#ds),*)]));
                    dropped.push(format!("enum {}: taken from enum_with_variants_to_string! (string helper methods dropped)", name));
                    out.push_str(&emit_enum(e, &mut ctx, &mut assumed, &mut dropped));
                }
                syn::Item::Const(c) => {
                    let key = format!("const {}", c.ident);
                    if !wanted.contains(&key) { continue; }
                    seen.insert(key.clone());
                    let name = c.ident.to_string();
                    let f = const_to_fn(&c.ident, &c.ty, &c.expr);
                    ctx.used("R20");
                    out.push_str(&weave::emit_fn(None, &name, f, &mut contracts, &mut ctx, &mut report_fns, &mut assumed));
                }
                syn::Item::Type(t) => {
                    let key = format!("type {}", t.ident);
                    if !wanted.contains(&key) { continue; }
                    seen.insert(key.clone());
                    let mut t = t;
                    t.attrs.clear();
                    t.vis = syn::parse_quote!(pub);
                    rules::Rules { ctx: &mut ctx }.visit_item_type_mut(&mut t);
                    out.push_str(&unparse_items(vec![syn::Item::Type(t)]));
                }
                syn::Item::Fn(f) => {
                    let key = format!("fn {}", f.sig.ident);
                    if !wanted.contains(&key) { continue; }
                    seen.insert(key.clone());
                    let name = f.sig.ident.to_string();
                    let mut f = f;
                    if let Some(n) = ctx.opts["rename_fns"].as_object().and_then(|m| m.get(&name)).and_then(|v| v.as_str()) {
                        f.sig.ident = syn::Ident::new(n, f.sig.ident.span());
                        ctx.used("R33");
                    }
                    out.push_str(&weave::emit_fn(None, &name, f, &mut contracts, &mut ctx, &mut report_fns, &mut assumed));
                }
                syn::Item::Impl(mut im) => {
                    let ty = type_name(&im.self_ty);
                    rules::Rules { ctx: &mut ctx }.visit_generics_mut(&mut im.generics);
                    let gens = { let g = &im.generics; quote!(#g).to_string() };
                    let ty_key = ty.split('<').next().unwrap_or(&ty).to_string();
                    let trait_name = im.trait_.as_ref().map(|(_, p, _)| p.segments.last().map(|s| s.ident.to_string()).unwrap_or_default());
                    let mut body = String::new();
                    for it in im.items {
                        match it {
                            syn::ImplItem::Fn(m) => {
                                let key = match &trait_name {
                                    Some(t) => format!("impl {} for {}::{}", t, ty_key, m.sig.ident),
                                    None => format!("impl {}::{}", ty_key, m.sig.ident),
                                };
                                if !wanted.contains(&key) { continue; }
                                seen.insert(key.clone());
                                let name = match &trait_name {
                                    Some(t) => format!("<{} for {}>::{}", t, ty_key, m.sig.ident),
                                    None => format!("{}::{}", ty_key, m.sig.ident),
                                };
                                let f = syn::ItemFn { attrs: vec![], vis: syn::Visibility::Inherited, sig: m.sig, block: Box::new(m.block) };
                                body.push_str(&weave::emit_fn(Some(&ty), &name, f, &mut contracts, &mut ctx, &mut report_fns, &mut assumed));
                            }
                            syn::ImplItem::Const(c) => {
                                let key = format!("implconst {}::{}", ty_key, c.ident);
                                if !wanted.contains(&key) { continue; }
                                seen.insert(key.clone());
                                let name = format!("{}::{}", ty_key, c.ident);
                                let f = const_to_fn(&c.ident, &c.ty, &c.expr);
                                ctx.used("R20");
                                body.push_str(&weave::emit_fn(Some(&ty), &name, f, &mut contracts, &mut ctx, &mut report_fns, &mut assumed));
                            }
                            _ => {}
                        }
                    }
                    if !body.is_empty() {
                        match &trait_name {
                            Some(t) if !ctx.opts["inherent_trait_impls"].as_bool().unwrap_or(true) => out.push_str(&format!("impl{} {} for {} {{\n{}}}\n", gens, t, ty, body)),
                            Some(t) => {
                                // trait impls are emitted as inherent impls with a prefixed name is NOT done; keep inherent
                                out.push_str(&format!("// impl {} for {} (emitted as inherent methods)\nimpl{} {} {{\n{}}}\n", t, ty, gens, ty, body));
                            }
                            None => out.push_str(&format!("impl{} {} {{\n{}}}\n", gens, ty, body)),
                        }
                    }
                }
                _ => {}
            }
        }
        for w in &wanted {
            if !seen.contains(w) {
                lost(&format!("item `{}` not found in {}", w, path));
            }
        }
        found_items.extend(seen.into_iter().map(|s| format!("{}: {}", path, s)));
    }

    // tiling guard: the listed slice ranges, in order, and the explicitly listed other statements cover every top-level statement of the function
    if let Some(tilings) = spec["tiling"].as_array() {
        for t in tilings {
            let path = t["path"].as_str().unwrap_or_else(|| lost("tiling.path"));
            let fname = t["fn"].as_str().unwrap_or_else(|| lost("tiling.fn"));
            let full = format!("{}/{}", repo, path);
            let src = std::fs::read_to_string(&full).unwrap_or_else(|e| lost(&format!("{full}: {e}")));
            let file = syn::parse_file(&src).unwrap_or_else(|e| lost(&format!("{full}: parse error {e}")));
            let mut body: Option<syn::Block> = None;
            for item in file.items.iter() {
                match item {
                    syn::Item::Fn(f) if f.sig.ident == fname => body = Some((*f.block).clone()),
                    syn::Item::Impl(im) => {
                        let ty = type_name(&im.self_ty);
                        let ty_key = ty.split('<').next().unwrap_or(&ty).to_string();
                        for it in im.items.iter() {
                            if let syn::ImplItem::Fn(m) = it {
                                if format!("{}::{}", ty_key, m.sig.ident) == fname { body = Some(m.block.clone()); }
                            }
                        }
                    }
                    _ => {}
                }
            }
            let body = body.unwrap_or_else(|| lost(&format!("tiling: function {} not found in {}", fname, path)));
            let parts: Vec<(String, String, String)> = t["parts"].as_array().map(|a| a.iter().map(|p| (norm(p["from"].as_str().unwrap_or("")), norm(p["to"].as_str().unwrap_or("")), p["unit"].as_str().unwrap_or("").to_string())).collect()).unwrap_or_default();
            let other: Vec<String> = t["other"].as_array().map(|a| a.iter().filter_map(|v| v.as_str().map(norm)).collect()).unwrap_or_default();
            let mut next_part = 0usize;
            let mut i = 0usize;
            while i < body.stmts.len() {
                let txt = tokens_norm(&body.stmts[i]);
                if next_part < parts.len() && txt.starts_with(&parts[next_part].0) {
                    // skip to the end statement of this slice
                    let mut j = i;
                    while j < body.stmts.len() && !tokens_norm(&body.stmts[j]).starts_with(&parts[next_part].1) { j += 1; }
                    if j >= body.stmts.len() { lost(&format!("tiling of {}: end of the slice of {} not found", fname, parts[next_part].2)); }
                    i = j + 1;
                    next_part += 1;
                } else if other.iter().any(|o| txt.starts_with(o)) {
                    i += 1;
                } else {
                    lost(&format!("tiling of {}: statement `{}` is covered by no slice and not listed", fname, &txt[..txt.len().min(70)]));
                }
            }
            if next_part < parts.len() { lost(&format!("tiling of {}: the slice of {} was not reached in order", fname, parts[next_part].2)); }
        }
    }

    // statement slices (DESIGN §3.1 expression slicing): a contiguous run of statements of a large function, lifted verbatim into a
    // function of its free variables (parameter list supplied by the unit); everything around it is dropped and said so
    if let Some(slices) = spec["slices"].as_array() {
        for sl in slices {
            let path = sl["path"].as_str().unwrap_or_else(|| lost("slice.path"));
            let fname = sl["fn"].as_str().unwrap_or_else(|| lost("slice.fn"));
            let from = norm(sl["from"].as_str().unwrap_or_else(|| lost("slice.from")));
            let to = norm(sl["to"].as_str().unwrap_or_else(|| lost("slice.to")));
            let name = sl["name"].as_str().unwrap_or_else(|| lost("slice.name"));
            let params = sl["params"].as_str().unwrap_or("");
            let ret = sl["ret"].as_str().unwrap_or("");
            let tail = sl["tail"].as_str().unwrap_or("");
            let full = format!("{}/{}", repo, path);
            let src = std::fs::read_to_string(&full).unwrap_or_else(|e| lost(&format!("{full}: {e}")));
            let file = syn::parse_file(&src).unwrap_or_else(|e| lost(&format!("{full}: parse error {e}")));
            // locate the function body
            let mut body: Option<syn::Block> = None;
            for item in file.items.iter() {
                match item {
                    syn::Item::Fn(f) if f.sig.ident == fname => body = Some((*f.block).clone()),
                    syn::Item::Impl(im) => {
                        let ty = type_name(&im.self_ty);
                        let ty_key = ty.split('<').next().unwrap_or(&ty).to_string();
                        for it in im.items.iter() {
                            if let syn::ImplItem::Fn(m) = it {
                                if format!("{}::{}", ty_key, m.sig.ident) == fname { body = Some(m.block.clone()); }
                            }
                        }
                    }
                    _ => {}
                }
            }
            let mut body = body.unwrap_or_else(|| lost(&format!("slice: function {} not found in {}", fname, path)));
            // `within`: descend into nested blocks first.  Each element names a statement of the current block by its prefix and the
            // ordinal of the block directly nested in it (then-branch, else-branch, match-arm bodies, loop body: in source order)
            if let Some(withins) = sl["within"].as_array() {
                for w in withins {
                    let pfx = norm(w["stmt"].as_str().unwrap_or_else(|| lost("slice.within.stmt")));
                    let k = w["block"].as_u64().unwrap_or(0) as usize;
                    let st = body.stmts.iter().find(|st| tokens_norm(*st).starts_with(&pfx)).cloned()
                        .unwrap_or_else(|| lost(&format!("slice {}: within-statement `{}` not found in {}", name, pfx, fname)));
                    struct Blocks { found: Vec<syn::Block>, depth: usize }
                    impl<'ast> syn::visit::Visit<'ast> for Blocks {
                        fn visit_block(&mut self, b: &'ast syn::Block) {
                            // only the blocks directly nested in the statement (not blocks inside those blocks)
                            if self.depth == 0 { self.found.push(b.clone()); }
                            self.depth += 1;
                            syn::visit::visit_block(self, b);
                            self.depth -= 1;
                        }
                        fn visit_arm(&mut self, a: &'ast syn::Arm) {
                            // an arm whose body is a bare expression counts as a block of one tail expression
                            if self.depth == 0 {
                                if let syn::Expr::Block(eb) = &*a.body { self.found.push(eb.block.clone()); }
                                else { let e = &a.body; self.found.push(syn::parse_quote!({ #e })); }
                            }
                            self.depth += 1;
                            syn::visit::visit_arm(self, a);
                            self.depth -= 1;
                        }
                        fn visit_expr_closure(&mut self, _: &'ast syn::ExprClosure) {}
                    }
                    let mut bl = Blocks { found: vec![], depth: 0 };
                    syn::visit::Visit::visit_stmt(&mut bl, &st);
                    body = bl.found.get(k).cloned().unwrap_or_else(|| lost(&format!("slice {}: statement `{}` has only {} nested blocks", name, pfx, bl.found.len())));
                }
            }
            let idx_of = |pfx: &str, start: usize| -> Option<usize> {
                body.stmts.iter().enumerate().skip(start).find(|(_, st)| tokens_norm(*st).starts_with(pfx)).map(|(i, _)| i)
            };
            let a = idx_of(&from, 0).unwrap_or_else(|| lost(&format!("slice {}: start statement `{}` not found in {}", name, from, fname)));
            let b = idx_of(&to, a).unwrap_or_else(|| lost(&format!("slice {}: end statement `{}` not found in {}", name, to, fname)));
            let stmts: Vec<syn::Stmt> = body.stmts[a..=b].to_vec();
            let sig_txt = format!("fn {}({}) {} {{ }}", name, params, if ret.is_empty() { String::new() } else { format!("-> {}", ret) });
            let mut f: syn::ItemFn = syn::parse_str(&sig_txt).unwrap_or_else(|e| lost(&format!("slice {}: bad signature `{}`: {}", name, sig_txt, e)));
            f.block.stmts = stmts;
            // a slice of a METHOD becomes a free function: `self` is renamed to the parameter named in `self_as`
            if let Some(sa) = sl["self_as"].as_str() {
                fn rename(ts: proc_macro2::TokenStream, to: &str) -> proc_macro2::TokenStream {
                    ts.into_iter().map(|tt| match tt {
                        proc_macro2::TokenTree::Ident(i) if i == "self" => proc_macro2::TokenTree::Ident(proc_macro2::Ident::new(to, i.span())),
                        proc_macro2::TokenTree::Group(g) => { let mut ng = proc_macro2::Group::new(g.delimiter(), rename(g.stream(), to)); ng.set_span(g.span()); proc_macro2::TokenTree::Group(ng) }
                        other => other,
                    }).collect()
                }
                let blk = f.block.clone();
                let ts = rename(quote::ToTokens::to_token_stream(&blk), sa);
                f.block = Box::new(syn::parse2(ts).unwrap_or_else(|e| lost(&format!("slice {}: self_as renaming failed: {}", name, e))));
            }
            if !tail.is_empty() {
                let te: syn::Expr = syn::parse_str(tail).unwrap_or_else(|e| lost(&format!("slice {}: bad tail: {}", name, e)));
                f.block.stmts.push(syn::Stmt::Expr(te, None));
            }
            dropped.push(format!("slice {}: statements {}..={} of {} ({}); the rest of that function is NOT in this unit", name, a, b, fname, path));
            found_items.push(format!("{}: slice {} of {}", path, name, fname));
            out.push_str(&weave::emit_fn(None, name, f, &mut contracts, &mut ctx, &mut report_fns, &mut assumed));
        }
    }

    // unused contract blocks => selector matches nothing => exit 2
    for (name, blocks) in &contracts.by_fn {
        for b in blocks {
            if !b.used {
                lost(&format!("contract block `@fn {} {}` matched nothing", name, b.selector));
            }
        }
    }

    // generated literal functions (R10)
    let lits = rules::emit_literals(&ctx.literals);
    let mut text = String::new();
    text.push_str(&lits);
    text.push_str(&out);
    for r in &contracts.raw {
        text.push_str("// ===== unit-specific ghost code (@raw) =====\n");
        text.push_str(r);
    }

    // line table for functions
    let mut line_tab: Vec<Value> = vec![];
    {
        let mut cur: Option<(String, usize)> = None;
        for (i, l) in text.lines().enumerate() {
            if let Some(n) = l.trim().strip_prefix("// vx:fn-begin ") {
                cur = Some((n.to_string(), i + 1));
            } else if l.trim().starts_with("// vx:fn-end") {
                if let Some((n, s)) = cur.take() {
                    line_tab.push(json!({"fn": n, "start": s, "end": i + 1}));
                }
            }
        }
    }

    let out_path = spec["out"].as_str().unwrap_or_else(|| lost("spec.out"));
    std::fs::write(out_path, &text).unwrap_or_else(|e| lost(&format!("write {out_path}: {e}")));
    let report = json!({
        "items": found_items,
        "functions": report_fns,
        "assumed": assumed,
        "dropped": dropped,
        "rule_uses": ctx.rule_uses,
        "literals": ctx.literals,
        "lines": line_tab,
    });
    if let Some(p) = spec["report"].as_str() {
        std::fs::write(p, serde_json::to_string_pretty(&report).unwrap()).unwrap();
    }
    let _ = HashMap::<u8, u8>::new();
    let _ = Span::call_site();
}

fn const_to_fn(ident: &syn::Ident, ty: &syn::Type, expr: &syn::Expr) -> syn::ItemFn {
    syn::parse_quote! {
        fn #ident() -> #ty { #expr }
    }
}

fn emit_struct(mut s: syn::ItemStruct, ctx: &mut Ctx, assumed: &mut Vec<String>, dropped: &mut Vec<String>) -> String {
    let derives = derives_of(&s.attrs);
    dropped.push(format!("struct {}: attributes/derives {:?} dropped (R3)", s.ident, derives));
    s.attrs.clear();
    rules::Rules { ctx }.visit_item_struct_mut(&mut s);
    s.vis = syn::parse_quote!(pub);
    for f in s.fields.iter_mut() {
        f.vis = syn::parse_quote!(pub);
        f.attrs.clear();
    }
    let name = s.ident.to_string();
    let generic = !s.generics.params.is_empty();
    rules::Rules { ctx }.visit_generics_mut(&mut s.generics);
    let mut o = String::new();
    o.push_str(&derive_text(&name, &derives, ctx, assumed));
    o.push_str(&unparse_items(vec![syn::Item::Struct(s)]));
    if !generic { o.push_str(&clone_impl_text(&name, &derives, ctx, assumed)); }
    o
}

fn emit_enum(mut e: syn::ItemEnum, ctx: &mut Ctx, assumed: &mut Vec<String>, dropped: &mut Vec<String>) -> String {
    let derives = derives_of(&e.attrs);
    dropped.push(format!("enum {}: attributes/derives {:?} dropped (R3)", e.ident, derives));
    e.attrs.clear();
    for v in e.variants.iter_mut() {
        v.attrs.clear();
        for f in v.fields.iter_mut() {
            f.attrs.clear();
        }
    }
    rules::Rules { ctx }.visit_item_enum_mut(&mut e);
    e.vis = syn::parse_quote!(pub);
    let name = e.ident.to_string();
    let mut o = String::new();
    o.push_str(&derive_text(&name, &derives, ctx, assumed));
    o.push_str(&unparse_items(vec![syn::Item::Enum(e)]));
    o.push_str(&clone_impl_text(&name, &derives, ctx, assumed));
    o
}

fn copy_like(name: &str, derives: &[String], ctx: &Ctx) -> bool {
    let no_copy = ctx.opts["no_derive"].as_array().map(|a| a.iter().any(|v| v.as_str() == Some(name))).unwrap_or(false);
    !no_copy && derives.iter().any(|d| d == "Copy")
}

fn derive_text(name: &str, derives: &[String], ctx: &mut Ctx, _assumed: &mut Vec<String>) -> String {
    if copy_like(name, derives, ctx) {
        "#[derive(Clone, Copy)]\n".to_string()
    } else {
        String::new()
    }
}

fn clone_impl_text(name: &str, derives: &[String], ctx: &mut Ctx, assumed: &mut Vec<String>) -> String {
    let mut o = String::new();
    if !copy_like(name, derives, ctx) && derives.iter().any(|d| d == "Clone") {
        ctx.used("R3");
        assumed.push(format!("R3: derived Clone of {} is structural (external_body, ensures r == *self)", name));
        o.push_str(&format!(
            "impl Clone for {n} {{ #[verifier::external_body] fn clone(&self) -> (r: Self) ensures r == *self {{ unimplemented!() }} }}\n",
            n = name
        ));
    }
    if derives.iter().any(|d| d == "PartialEq") && ctx.opts["eq_impls"].as_array().map(|a| a.iter().any(|v| v.as_str() == Some(name))).unwrap_or(false) {
        ctx.used("R3");
        assumed.push(format!("R3: derived PartialEq of {} is structural equality (external_body, ensures r == (*self == *other))", name));
        o.push_str(&format!(
            "impl PartialEq for {n} {{ #[verifier::external_body] fn eq(&self, other: &Self) -> (r: bool) ensures r == (*self == *other) {{ unimplemented!() }} }}\n",
            n = name
        ));
    }
    o
}

// count loops etc. — helper visitors used by weave
pub struct LoopCounter(pub usize);
impl<'ast> Visit<'ast> for LoopCounter {
    fn visit_expr_for_loop(&mut self, i: &'ast syn::ExprForLoop) {
        self.0 += 1;
        syn::visit::visit_expr_for_loop(self, i);
    }
    fn visit_expr_while(&mut self, i: &'ast syn::ExprWhile) {
        self.0 += 1;
        syn::visit::visit_expr_while(self, i);
    }
    fn visit_expr_loop(&mut self, i: &'ast syn::ExprLoop) {
        self.0 += 1;
        syn::visit::visit_expr_loop(self, i);
    }
}

pub fn tokens_norm<T: ToTokens>(t: &T) -> String {
    norm(&quote!(#t).to_string())
}
