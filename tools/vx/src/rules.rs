//! Rewrite rules of DESIGN §3.2 that act on the AST (R1, R2, R4, R8, R10, R11, R20).
use crate::{norm, Ctx};
use quote::{quote, ToTokens};
use std::collections::BTreeSet;
use syn::visit_mut::VisitMut;

pub struct Rules<'a> {
    pub ctx: &'a mut Ctx,
}

struct DerefReplacer {
    ident: String,
    rep: syn::Expr,
    n: usize,
}
impl VisitMut for DerefReplacer {
    fn visit_expr_mut(&mut self, e: &mut syn::Expr) {
        if let syn::Expr::Unary(u) = e {
            if matches!(u.op, syn::UnOp::Deref(_)) {
                if let syn::Expr::Path(p) = &*u.expr {
                    if p.path.is_ident(&self.ident) {
                        *e = self.rep.clone();
                        self.n += 1;
                        return;
                    }
                }
            }
        }
        syn::visit_mut::visit_expr_mut(self, e);
    }
}


/// is the receiver expression listed in opts.r13_maps (an insertion-ordered map modelled by SMap)?
fn is_r13_map(ctx: &crate::Ctx, recv: &syn::Expr) -> bool {
    let rtxt = norm(&recv.to_token_stream().to_string());
    ctx.opts["r13_maps"].as_array().map(|a| a.iter().any(|v| v.as_str().map(|t| { let ex = match t.rsplit_once(':') { Some((x, m)) if m == "ref" || m == "val" || m == "mut" => x, _ => t }; norm(ex) == rtxt }).unwrap_or(false))).unwrap_or(false)
}
/// does the block contain a `continue` that belongs to the loop it is the body of?
fn has_own_continue(b: &syn::Block) -> bool {
    struct V { found: bool }
    impl<'ast> syn::visit::Visit<'ast> for V {
        fn visit_expr_continue(&mut self, _: &'ast syn::ExprContinue) { self.found = true; }
        fn visit_expr_for_loop(&mut self, _: &'ast syn::ExprForLoop) {}
        fn visit_expr_while(&mut self, _: &'ast syn::ExprWhile) {}
        fn visit_expr_loop(&mut self, _: &'ast syn::ExprLoop) {}
        fn visit_expr_closure(&mut self, _: &'ast syn::ExprClosure) {}
    }
    let mut v = V { found: false };
    syn::visit::Visit::visit_block(&mut v, b);
    v.found
}
/// a closure body that is inlined into the enclosing function must not `return` (it would leave the function instead of the closure)
fn closure_body_returns(e: &syn::Expr) -> bool {
    struct V { found: bool }
    impl<'ast> syn::visit::Visit<'ast> for V {
        fn visit_expr_return(&mut self, _: &'ast syn::ExprReturn) { self.found = true; }
        fn visit_expr_closure(&mut self, _: &'ast syn::ExprClosure) {}
    }
    let mut v = V { found: false };
    syn::visit::Visit::visit_expr(&mut v, e);
    v.found
}
/// replaces every use of the plain identifier `ident` (as an expression) by `rep`
struct PathReplacer {
    ident: String,
    rep: syn::Expr,
}
impl VisitMut for PathReplacer {
    fn visit_expr_mut(&mut self, e: &mut syn::Expr) {
        if let syn::Expr::Path(p) = e {
            if p.qself.is_none() && p.path.is_ident(&self.ident) {
                *e = self.rep.clone();
                return;
            }
        }
        syn::visit_mut::visit_expr_mut(self, e);
    }
}
struct AssignReplacer {
    ident: String,
    recv: syn::Expr,
    idx: syn::Ident,
    n: usize,
}
impl VisitMut for AssignReplacer {
    fn visit_expr_mut(&mut self, e: &mut syn::Expr) {
        syn::visit_mut::visit_expr_mut(self, e);
        let mut rep: Option<syn::Expr> = None;
        if let syn::Expr::Assign(a) = e {
            if let syn::Expr::Unary(u) = &*a.left {
                if matches!(u.op, syn::UnOp::Deref(_)) {
                    if let syn::Expr::Path(p) = &*u.expr {
                        if p.path.is_ident(&self.ident) {
                            let recv = &self.recv;
                            let idx = &self.idx;
                            let rhs = &a.right;
                            rep = Some(syn::parse_quote!(#recv.set_index(#idx, #rhs)));
                        }
                    }
                }
            }
        }
        if let syn::Expr::Binary(b) = e {
            // compound assignment `*v op= E` (when R1 is off)
            use syn::BinOp::*;
            let op: Option<syn::BinOp> = match b.op {
                SubAssign(_) => Some(syn::parse_quote!(-)), AddAssign(_) => Some(syn::parse_quote!(+)),
                MulAssign(_) => Some(syn::parse_quote!(*)), DivAssign(_) => Some(syn::parse_quote!(/)), _ => None };
            if let Some(op) = op {
                if let syn::Expr::Unary(u) = &*b.left {
                    if matches!(u.op, syn::UnOp::Deref(_)) {
                        if let syn::Expr::Path(p) = &*u.expr {
                            if p.path.is_ident(&self.ident) {
                                let recv = &self.recv;
                                let idx = &self.idx;
                                let rhs = &b.right;
                                rep = Some(syn::parse_quote!(#recv.set_index(#idx, (*#recv.get_index(#idx).unwrap().1) #op (#rhs))));
                            }
                        }
                    }
                }
            }
        }
        if let Some(r) = rep {
            *e = r;
            self.n += 1;
        }
    }
}
fn mentions(b: &syn::Block, ident: &str) -> bool {
    let s = b.to_token_stream().to_string();
    s.split(|c: char| !(c.is_alphanumeric() || c == '_')).any(|w| w == ident)
}

pub fn lit_name(tok: &str) -> String {
    let t = tok.trim_end_matches("f64").trim_end_matches('_').replace('_', "");
    format!("lit_{}", t.replace('.', "_").replace('-', "m").replace('+', ""))
}

/// exact decimal value of a float literal token as (numerator, denominator) digit strings
fn lit_value(tok: &str) -> (String, String) {
    let t = tok.trim_start_matches('-').trim_end_matches("f64").trim_end_matches('_').replace('_', "");
    let (mant, exp) = match t.find(|c| c == 'e' || c == 'E') {
        Some(i) => (t[..i].to_string(), t[i + 1..].parse::<i64>().unwrap_or(0)),
        None => (t.clone(), 0),
    };
    let (ip, fp) = match mant.split_once('.') {
        Some((a, b)) => (a.to_string(), b.to_string()),
        None => (mant.clone(), String::new()),
    };
    let mut digits = format!("{}{}", ip, fp);
    let mut e = exp - fp.len() as i64;
    let trimmed = digits.trim_start_matches('0').to_string();
    digits = if trimmed.is_empty() { "0".to_string() } else { trimmed };
    let mut den = "1".to_string();
    if digits != "0" {
        while e > 0 {
            digits.push('0');
            e -= 1;
        }
        while e < 0 {
            den.push('0');
            e += 1;
        }
    }
    // reduce trailing zeros common to both
    while digits.len() > 1 && den.len() > 1 && digits.ends_with('0') && den.ends_with('0') {
        digits.pop();
        den.pop();
    }
    (digits, den)
}

pub fn emit_literals(lits: &BTreeSet<String>) -> String {
    if lits.is_empty() {
        return String::new();
    }
    let mut o = String::from("// ===== float literals of the extracted code (R10): exact decimal value, rounding ignored =====\nimpl F64 {\n");
    for tok in lits {
        let (n, d) = lit_value(tok);
        let val = if d == "1" { format!("{}real", n) } else { format!("{}real / {}real", n, d) };
        let val = if tok.starts_with('-') { format!("-({})", val) } else { val };
        let clean = tok.trim_end_matches("f64").trim_end_matches('_');
        o.push_str(&format!(
            "    #[verifier::external_body] pub fn {}() -> (r: F64) ensures fv(r) == Ext::Fin({}) {{ F64({}f64) }}\n",
            lit_name(tok),
            val,
            if clean.contains('.') || clean.contains('e') || clean.contains('E') { clean.to_string() } else { format!("{}.0", clean) }
        ));
    }
    o.push_str("}\n");
    o
}

fn is_len_call(e: &syn::Expr) -> bool {
    matches!(e, syn::Expr::MethodCall(m) if m.method == "len" && m.args.is_empty())
}

impl<'a> Rules<'a> {
    fn rewrite_zip_map_sum(&mut self, e: &syn::Expr) -> Option<syn::Expr> {
        let syn::Expr::MethodCall(sm) = e else { return None };
        if sm.method != "sum" || !sm.args.is_empty() { return None; }
        let tf = sm.turbofish.as_ref()?;
        if norm(&tf.args.to_token_stream().to_string()) != "f64" { return None; }
        let syn::Expr::MethodCall(map) = &*sm.receiver else { return None };
        if map.method != "map" || map.args.len() != 1 { return None; }
        let syn::Expr::Closure(cl) = &map.args[0] else { return None };
        if cl.inputs.len() != 1 { return None; }
        let syn::Pat::Tuple(tp) = &cl.inputs[0] else { return None };
        if tp.elems.len() != 2 { return None; }
        let syn::Expr::MethodCall(z) = &*map.receiver else { return None };
        if z.method != "zip" || z.args.len() != 1 { return None; }
        let syn::Expr::MethodCall(it) = &*z.receiver else { return None };
        if it.method != "iter" || !it.args.is_empty() { return None; }
        let a = (*it.receiver).clone();
        let b = match &z.args[0] {
            syn::Expr::MethodCall(bi) if bi.method == "iter" && bi.args.is_empty() => (*bi.receiver).clone(),
            syn::Expr::Reference(r) => (*r.expr).clone(),
            other @ (syn::Expr::Path(_) | syn::Expr::Field(_)) => other.clone(),
            _ => return None,
        };
        let k = self.ctx.fresh();
        let nn = syn::Ident::new(&format!("vx_n{}", k), proc_macro2::Span::call_site());
        let ii = syn::Ident::new(&format!("vx_i{}", k), proc_macro2::Span::call_site());
        let ss = syn::Ident::new(&format!("vx_s{}", k), proc_macro2::Span::call_site());
        let (p0, p1) = (&tp.elems[0], &tp.elems[1]);
        let body = &cl.body;
        Some(syn::parse_quote!({
            let mut #ss: f64 = 0.0;
            let #nn = if #a.len() < #b.len() { #a.len() } else { #b.len() };
            for #ii in 0..#nn {
                let #p0 = &#a[#ii];
                let #p1 = &#b[#ii];
                #ss = #ss + (#body);
            }
            #ss
        }))
    }
    fn rewrite_map_collect(&mut self, e: &syn::Expr) -> Option<syn::Expr> {
        let syn::Expr::MethodCall(col) = e else { return None };
        if col.method != "collect" { return None; }
        let syn::Expr::MethodCall(map) = &*col.receiver else { return None };
        if map.method != "map" || map.args.len() != 1 { return None; }
        // `.map(path::to::f)` is `.map(|vx_x| path::to::f(vx_x))` (a function item used as the mapping)
        let fn_closure: syn::ExprClosure;
        let cl: &syn::ExprClosure = match &map.args[0] {
            syn::Expr::Closure(cl) => cl,
            syn::Expr::Path(p) if p.path.segments.len() >= 2 => {
                let syn::Expr::Closure(c) = syn::parse_quote!(|vx_x| #p(vx_x)) else { return None };
                fn_closure = c;
                &fn_closure
            }
            _ => return None,
        };
        if cl.inputs.len() != 1 { return None; }
        // receiver: A.iter()  or  A.iter().zip(B)
        let (a_recv, b_recv): (syn::Expr, Option<syn::Expr>) = match &*map.receiver {
            syn::Expr::MethodCall(z) if z.method == "zip" && z.args.len() == 1 => {
                let syn::Expr::MethodCall(it) = &*z.receiver else { return None };
                if it.method != "iter" { return None; }
                let b = match &z.args[0] {
                    syn::Expr::MethodCall(bi) if bi.method == "iter" && bi.args.is_empty() => (*bi.receiver).clone(),
                    syn::Expr::Reference(r) => (*r.expr).clone(),
                    other @ (syn::Expr::Path(_) | syn::Expr::Field(_)) => other.clone(),
                    _ => return None,
                };
                ((*it.receiver).clone(), Some(b))
            }
            syn::Expr::MethodCall(it) if it.method == "iter" && it.args.is_empty() => ((*it.receiver).clone(), None),
            // `A.into_iter().map(|x| F).collect()` over a Vec: the elements are moved out in order (trusted vx_vec_take)
            syn::Expr::MethodCall(it) if it.method == "into_iter" && it.args.is_empty() && !is_r13_map(self.ctx, &it.receiver) => {
                let a = (*it.receiver).clone();
                let k = self.ctx.fresh();
                let nn = syn::Ident::new(&format!("vx_n{}", k), proc_macro2::Span::call_site());
                let ii = syn::Ident::new(&format!("vx_i{}", k), proc_macro2::Span::call_site());
                let out = syn::Ident::new(&format!("vx_out{}", k), proc_macro2::Span::call_site());
                let src = syn::Ident::new(&format!("vx_src{}", k), proc_macro2::Span::call_site());
                let body = &cl.body;
                let pat = match &cl.inputs[0] { syn::Pat::Type(pt) => (*pt.pat).clone(), p => p.clone() };
                return Some(syn::parse_quote!({
                    let mut #out = Vec::new();
                    let #src = #a;
                    let #nn = #src.len();
                    for #ii in 0..#nn {
                        let #pat = vx_vec_take(&#src, #ii);
                        #out.push(#body);
                    }
                    #out
                }));
            }
            _ => return None,
        };
        let k = self.ctx.fresh();
        let nn = syn::Ident::new(&format!("vx_n{}", k), proc_macro2::Span::call_site());
        let ii = syn::Ident::new(&format!("vx_i{}", k), proc_macro2::Span::call_site());
        let out = syn::Ident::new(&format!("vx_out{}", k), proc_macro2::Span::call_site());
        let body = &cl.body;
        let pat = &cl.inputs[0];
        let pat = match pat { syn::Pat::Type(pt) => (*pt.pat).clone(), p => p.clone() };
        let binds: Vec<syn::Stmt> = match (&b_recv, &pat) {
            (Some(b), syn::Pat::Tuple(tp)) if tp.elems.len() == 2 => {
                let p0 = &tp.elems[0];
                let p1 = &tp.elems[1];
                vec![syn::parse_quote!(let #p0 = &#a_recv[#ii];), syn::parse_quote!(let #p1 = &#b[#ii];)]
            }
            (None, p) if is_r13_map(self.ctx, &a_recv) => vec![syn::parse_quote!(let #p = #a_recv.get_index(#ii).unwrap();)],
            (None, p) => vec![syn::parse_quote!(let #p = &#a_recv[#ii];)],
            _ => return None,
        };
        let len_stmt: syn::Stmt = match &b_recv {
            Some(b) => syn::parse_quote!(let #nn = if #a_recv.len() < #b.len() { #a_recv.len() } else { #b.len() };),
            None => syn::parse_quote!(let #nn = #a_recv.len();),
        };
        Some(syn::parse_quote!({
            let mut #out = Vec::new();
            #len_stmt
            for #ii in 0..#nn {
                #(#binds)*
                #out.push(#body);
            }
            #out
        }))
    }
}

impl<'a> VisitMut for Rules<'a> {
    fn visit_field_value_mut(&mut self, fv: &mut syn::FieldValue) {
        // R22m: a struct field listed in opts.map_fields initialised with `M.iter().map(|(k, v)| (K, V)).collect()` over a listed map ->
        // a new insertion-ordered map filled by inserting (K, V) for the entries of M in order (FromIterator for IndexMap)
        if self.ctx.on("R22") {
            let fname = match &fv.member { syn::Member::Named(i) => i.to_string(), _ => String::new() };
            let listed = self.ctx.opts["map_fields"].as_array().map(|a| a.iter().any(|v| v.as_str() == Some(&fname))).unwrap_or(false);
            if listed {
                if let syn::Expr::MethodCall(col) = &fv.expr {
                    if col.method == "collect" {
                        if let syn::Expr::MethodCall(map) = &*col.receiver {
                            if map.method == "map" && map.args.len() == 1 {
                                if let (syn::Expr::Closure(cl), syn::Expr::MethodCall(it)) = (&map.args[0], &*map.receiver) {
                                    if it.method == "iter" && it.args.is_empty() && cl.inputs.len() == 1 && is_r13_map(self.ctx, &it.receiver) {
                                        // the closure body may be the tuple itself or a block holding only the tuple
                                        let body_expr: &syn::Expr = match &*cl.body { syn::Expr::Block(bl) if bl.block.stmts.len() == 1 => match &bl.block.stmts[0] { syn::Stmt::Expr(inner, None) => inner, _ => &*cl.body }, other => other };
                                        if let (syn::Pat::Tuple(tp), syn::Expr::Tuple(body)) = (&cl.inputs[0], body_expr) {
                                            if tp.elems.len() == 2 && body.elems.len() == 2 {
                                                let src = &it.receiver;
                                                let (kp, vp) = (&tp.elems[0], &tp.elems[1]);
                                                let (ke, ve) = (&body.elems[0], &body.elems[1]);
                                                let k = self.ctx.fresh();
                                                let mm = syn::Ident::new(&format!("vx_m{}", k), proc_macro2::Span::call_site());
                                                let nn = syn::Ident::new(&format!("vx_n{}", k), proc_macro2::Span::call_site());
                                                let ii = syn::Ident::new(&format!("vx_i{}", k), proc_macro2::Span::call_site());
                                                let kv = syn::Ident::new(&format!("vx_kv{}", k), proc_macro2::Span::call_site());
                                                fv.expr = syn::parse_quote!({
                                                    let mut #mm = SMap::new();
                                                    let #nn = #src.len();
                                                    for #ii in 0..#nn {
                                                        let #kv = #src.get_index(#ii).unwrap();
                                                        let #kp = #kv.0;
                                                        let #vp = #kv.1;
                                                        #mm.insert(#ke, #ve);
                                                    }
                                                    #mm
                                                });
                                                self.ctx.used("R22");
                                            }
                                        }
                                    }
                                }
                            }
                        }
                    }
                }
            }
        }
        syn::visit_mut::visit_field_value_mut(self, fv);
    }
    fn visit_local_mut(&mut self, l: &mut syn::Local) {
        // R22 with a declared target type: `let v: Vec<T> = A.iter().map(..).collect();` keeps the annotation on the accumulator
        if self.ctx.on("R22") {
            if let (syn::Pat::Type(pt), Some(init)) = (&l.pat, &mut l.init) {
                let ty = (*pt.ty).clone();
                if ty.to_token_stream().to_string().starts_with("Vec") {
                    if let Some(mut new) = self.rewrite_map_collect(&init.expr) {
                        if let syn::Expr::Block(b) = &mut new {
                            if let Some(syn::Stmt::Local(first)) = b.block.stmts.first_mut() {
                                let fp = first.pat.clone();
                                first.pat = syn::Pat::Type(syn::PatType { attrs: vec![], pat: Box::new(fp), colon_token: Default::default(), ty: Box::new(ty) });
                            }
                        }
                        *init.expr = new;
                        self.ctx.used("R22");
                    }
                }
            }
        }
        syn::visit_mut::visit_local_mut(self, l);
    }
    fn visit_type_mut(&mut self, t: &mut syn::Type) {
        syn::visit_mut::visit_type_mut(self, t);
        if self.ctx.on("R13") {
            // R13t: IndexMap<String, V> -> SMap<V> (trusted stub with a ghost view)
            if let syn::Type::Path(p) = t {
                if let Some(last) = p.path.segments.last() {
                    if last.ident == "IndexSet" {
                        if let syn::PathArguments::AngleBracketed(ab) = &last.arguments {
                            let args: Vec<&syn::GenericArgument> = ab.args.iter().collect();
                            if args.len() == 1 && norm(&args[0].to_token_stream().to_string()) == "String" {
                                *t = syn::parse_quote!(SSet);
                                self.ctx.used("R13");
                                return;
                            }
                        }
                    }
                    if last.ident == "IndexMap" {
                        if let syn::PathArguments::AngleBracketed(ab) = &last.arguments {
                            let args: Vec<&syn::GenericArgument> = ab.args.iter().collect();
                            if args.len() == 2 && norm(&args[0].to_token_stream().to_string()) == "String" {
                                let v = args[1].clone();
                                *t = syn::parse_quote!(SMap<#v>);
                                self.ctx.used("R13");
                                return;
                            }
                        }
                    }
                }
            }
        }
        if self.ctx.on("R10") {
            if let syn::Type::Path(p) = t {
                if p.qself.is_none() && p.path.is_ident("f64") {
                    *t = syn::parse_quote!(F64);
                    self.ctx.used("R10");
                }
            }
        }
    }

    fn visit_path_mut(&mut self, p: &mut syn::Path) {
        syn::visit_mut::visit_path_mut(self, p);
        // R33: a free function whose name clashes with a ghost name is renamed (opts.rename_fns = {old = "new"}), definition and calls
        if p.segments.len() == 1 && p.leading_colon.is_none() {
            if let Some(m) = self.ctx.opts["rename_fns"].as_object() {
                let id = p.segments[0].ident.to_string();
                if let Some(n) = m.get(&id).and_then(|v| v.as_str()) {
                    p.segments[0].ident = syn::Ident::new(n, p.segments[0].ident.span());
                    self.ctx.used("R33");
                }
            }
        }
        // flat single-file output: module qualifiers `crate::a::b::T` / `super::T` are dropped
        if let Some(first) = p.segments.first() {
            let f = first.ident.to_string();
            if (f == "crate" || f == "super") && p.segments.len() > 1 {
                let segs: Vec<syn::PathSegment> = p.segments.iter().cloned().collect();
                let mut start = 1;
                while start + 1 < segs.len() {
                    let n = segs[start].ident.to_string();
                    if n.chars().next().map(|c| c.is_lowercase()).unwrap_or(false) && n != "self" { start += 1; } else { break; }
                }
                let mut np = syn::punctuated::Punctuated::new();
                for sgm in segs.into_iter().skip(start) { np.push(sgm); }
                p.segments = np;
                p.leading_colon = None;
                self.ctx.used("R0");
            }
        }
    }

    fn visit_arm_mut(&mut self, a: &mut syn::Arm) {
        // R40 (cont.): a match arm whose body is a bare `continue` / `break` becomes a block `{ continue; }` so that a proof hint can be
        // attached in front of it
        if self.ctx.on("R40") {
            if matches!(&*a.body, syn::Expr::Continue(_) | syn::Expr::Break(_)) {
                let b = (*a.body).clone();
                a.body = Box::new(syn::parse_quote!({ #b; }));
                self.ctx.used("R40");
            }
        }
        // R18 on a match arm whose body is a bare call of a listed free function: the body becomes a block so that the arguments can be named
        if self.ctx.on("R18") {
            let inner: Option<&syn::ExprCall> = match &*a.body { syn::Expr::Call(c) => Some(c), syn::Expr::Try(t) => match &*t.expr { syn::Expr::Call(c) => Some(c), _ => None }, _ => None };
            if let Some(c) = inner {
                let fname = match &*c.func { syn::Expr::Path(p) => p.path.segments.last().map(|s| s.ident.to_string()), _ => None };
                let listed = fname.map(|n| self.ctx.opts["anf_calls"].as_array().map(|l| l.iter().any(|v| v.as_str() == Some(&n))).unwrap_or(false)).unwrap_or(false);
                if listed {
                    let body = (*a.body).clone();
                    a.body = Box::new(syn::parse_quote!({ #body }));
                }
            }
        }
        syn::visit_mut::visit_arm_mut(self, a);
    }

    fn visit_block_mut(&mut self, b: &mut syn::Block) {
        if self.ctx.on("R53") {
            // R53: `M.retain(|_, V| { S; COND });` on a listed map, where S updates `*V` -> position loop: the value is copied out (value_at), S and COND
            // run on the copy, the entry is written back (set_index) when COND holds and removed in place (shift_remove_index) otherwise
            // (documented meaning of IndexMap::retain: entries visited in order, order of the kept ones preserved)
            let mut out: Vec<syn::Stmt> = Vec::with_capacity(b.stmts.len());
            for st in b.stmts.drain(..) {
                let mut rep: Option<Vec<syn::Stmt>> = None;
                if let syn::Stmt::Expr(syn::Expr::MethodCall(rt), Some(_)) = &st {
                    if rt.method == "retain" && rt.args.len() == 1 && is_r13_map(self.ctx, &rt.receiver) {
                        if let syn::Expr::Closure(cl) = &rt.args[0] {
                            if cl.inputs.len() == 2 {
                                if let (syn::Pat::Ident(vid), syn::Expr::Block(body)) = (&cl.inputs[1], &*cl.body) {
                                    let n = body.block.stmts.len();
                                    if n >= 1 {
                                        if let syn::Stmt::Expr(cond, None) = &body.block.stmts[n - 1] {
                                            let k = self.ctx.fresh();
                                            let ii = syn::Ident::new(&format!("vx_i{}", k), proc_macro2::Span::call_site());
                                            let vv = syn::Ident::new(&format!("vx_v{}", k), proc_macro2::Span::call_site());
                                            let m = &rt.receiver;
                                            let cur: syn::Expr = syn::parse_quote!(#vv);
                                            let mut blk = syn::Block { brace_token: Default::default(), stmts: body.block.stmts[..n - 1].to_vec() };
                                            let mut dr = DerefReplacer { ident: vid.ident.to_string(), rep: cur.clone(), n: 0 };
                                            dr.visit_block_mut(&mut blk);
                                            let mut cond = cond.clone();
                                            dr.visit_expr_mut(&mut cond);
                                            let stmts = &blk.stmts;
                                            rep = Some(vec![
                                                syn::parse_quote!(let mut #ii: usize = 0;),
                                                syn::Stmt::Expr(syn::parse_quote!(while #ii < #m.len() {
                                                    let mut #vv = #m.value_at(#ii);
                                                    #(#stmts)*
                                                    if #cond { #m.set_index(#ii, #vv); #ii = #ii + 1; } else { #m.shift_remove_index(#ii); }
                                                }), None),
                                            ]);
                                            self.ctx.used("R53");
                                        }
                                    }
                                }
                            }
                        }
                    }
                }
                match rep { Some(v) => out.extend(v), None => out.push(st) }
            }
            b.stmts = out;
        }
        if self.ctx.on("R13") {
            // R13e: `M.entry(K).or_insert(V);` (statement, result unused) on a listed map -> `let k = K; if !M.contains_key(&k) { M.insert(k, V); }`
            // (the documented meaning of Entry::or_insert: the value is inserted only when the key is absent)
            let mut out: Vec<syn::Stmt> = Vec::with_capacity(b.stmts.len());
            for st in b.stmts.drain(..) {
                let mut done = false;
                // `M.entry(K).or_insert_with(|| V);` is the same with V evaluated only when the key is absent
                if let syn::Stmt::Expr(syn::Expr::MethodCall(oi), Some(_)) = &st {
                    if oi.method == "or_insert_with" && oi.args.len() == 1 {
                        if let (syn::Expr::MethodCall(en), syn::Expr::Closure(cl)) = (&*oi.receiver, &oi.args[0]) {
                            if en.method == "entry" && en.args.len() == 1 && is_r13_map(self.ctx, &en.receiver) && cl.inputs.is_empty() {
                                let k = self.ctx.fresh();
                                let kk = syn::Ident::new(&format!("vx_k{}", k), proc_macro2::Span::call_site());
                                let (m, key, val) = (&en.receiver, &en.args[0], &cl.body);
                                out.push(syn::parse_quote!(let #kk = #key;));
                                out.push(syn::Stmt::Expr(syn::parse_quote!(if !#m.contains_key(&#kk) { #m.insert(#kk, #val); }), None));
                                self.ctx.used("R13");
                                done = true;
                            }
                        }
                    }
                }
                if done { continue; }
                if let syn::Stmt::Expr(syn::Expr::MethodCall(oi), Some(_)) = &st {
                    if oi.method == "or_insert" && oi.args.len() == 1 {
                        if let syn::Expr::MethodCall(en) = &*oi.receiver {
                            if en.method == "entry" && en.args.len() == 1 && is_r13_map(self.ctx, &en.receiver) {
                                let k = self.ctx.fresh();
                                let kk = syn::Ident::new(&format!("vx_k{}", k), proc_macro2::Span::call_site());
                                let (m, key, val) = (&en.receiver, &en.args[0], &oi.args[0]);
                                out.push(syn::parse_quote!(let #kk = #key;));
                                out.push(syn::Stmt::Expr(syn::parse_quote!(if !#m.contains_key(&#kk) { #m.insert(#kk, #val); }), None));
                                self.ctx.used("R13");
                                done = true;
                            }
                        }
                    }
                }
                if !done { out.push(st); }
            }
            b.stmts = out;
        }
        if self.ctx.on("R50") {
            // R50: `let Some(P) = A.iter().map(|x| F).collect::<Option<Vec<_>>>() else { ELSE };` (collect into an Option: elements in order,
            // None at the first None) -> push loop; at the first None the (diverging) ELSE block runs, otherwise P is the vector of payloads
            let mut out: Vec<syn::Stmt> = Vec::with_capacity(b.stmts.len());
            for st in b.stmts.drain(..) {
                let mut rep: Option<Vec<syn::Stmt>> = None;
                if let syn::Stmt::Local(l) = &st {
                    if let (syn::Pat::TupleStruct(ts), Some(init)) = (&l.pat, &l.init) {
                        if ts.path.is_ident("Some") && ts.elems.len() == 1 {
                            if let (Some((_, els)), syn::Expr::MethodCall(col)) = (&init.diverge, &*init.expr) {
                                let tf_ok = col.turbofish.as_ref().map(|t| norm(&t.args.to_token_stream().to_string()).starts_with("Option<Vec<")).unwrap_or(false);
                                if col.method == "collect" && tf_ok {
                                    if let syn::Expr::MethodCall(map) = &*col.receiver {
                                        if map.method == "map" && map.args.len() == 1 {
                                            if let (syn::Expr::Closure(cl), syn::Expr::MethodCall(it)) = (&map.args[0], &*map.receiver) {
                                                if it.method == "iter" && it.args.is_empty() && cl.inputs.len() == 1 {
                                                    let a = &it.receiver;
                                                    let pat = match &cl.inputs[0] { syn::Pat::Type(pt) => (*pt.pat).clone(), p => p.clone() };
                                                    let body = &cl.body;
                                                    let k = self.ctx.fresh();
                                                    let oc = syn::Ident::new(&format!("vx_oc{}", k), proc_macro2::Span::call_site());
                                                    let nn = syn::Ident::new(&format!("vx_n{}", k), proc_macro2::Span::call_site());
                                                    let ii = syn::Ident::new(&format!("vx_i{}", k), proc_macro2::Span::call_site());
                                                    let target = &ts.elems[0];
                                                    rep = Some(vec![
                                                        syn::parse_quote!(let mut #oc = Vec::new();),
                                                        syn::parse_quote!(let #nn = #a.len();),
                                                        syn::Stmt::Expr(syn::parse_quote!(for #ii in 0..#nn {
                                                            let #pat = &#a[#ii];
                                                            match #body { Some(vx_oc_v) => { #oc.push(vx_oc_v); } None => #els }
                                                        }), None),
                                                        syn::parse_quote!(let #target = #oc;),
                                                    ]);
                                                    self.ctx.used("R50");
                                                }
                                            }
                                        }
                                    }
                                }
                            }
                        }
                    }
                }
                if rep.is_none() {
                    // R50b: `let X = A.iter().map(|p| BODY).collect::<Option<Vec<T>>>();` (no let-else) -> while loop without break that stops at the
                    // first None; X is Some(payloads) or None
                    if let syn::Stmt::Local(l) = &st {
                        if let (syn::Pat::Ident(xid), Some(init)) = (&l.pat, &l.init) {
                            if init.diverge.is_none() {
                                if let syn::Expr::MethodCall(col) = &*init.expr {
                                    let tf = col.turbofish.as_ref().map(|t| norm(&t.args.to_token_stream().to_string())).unwrap_or_default();
                                    if col.method == "collect" && tf.starts_with("Option<Vec<") {
                                        if let syn::Expr::MethodCall(map) = &*col.receiver {
                                            if map.method == "map" && map.args.len() == 1 {
                                                if let (syn::Expr::Closure(cl), syn::Expr::MethodCall(it)) = (&map.args[0], &*map.receiver) {
                                                    if it.method == "iter" && it.args.is_empty() && cl.inputs.len() == 1 {
                                                        let a = &it.receiver;
                                                        let pat = match &cl.inputs[0] { syn::Pat::Type(pt) => (*pt.pat).clone(), p => p.clone() };
                                                        let body = &cl.body;
                                                        let k = self.ctx.fresh();
                                                        let oc = syn::Ident::new(&format!("vx_oc{}", k), proc_macro2::Span::call_site());
                                                        let ok = syn::Ident::new(&format!("vx_ok{}", k), proc_macro2::Span::call_site());
                                                        let nn = syn::Ident::new(&format!("vx_n{}", k), proc_macro2::Span::call_site());
                                                        let ii = syn::Ident::new(&format!("vx_i{}", k), proc_macro2::Span::call_site());
                                                        let inner_ty: syn::Type = syn::parse_str(&tf["Option<".len()..tf.len() - 1]).unwrap_or_else(|_| syn::parse_quote!(Vec<_>));
                                                        let target = &xid.ident;
                                                        rep = Some(vec![
                                                            syn::parse_quote!(let mut #oc: #inner_ty = Vec::new();),
                                                            syn::parse_quote!(let mut #ok = true;),
                                                            syn::parse_quote!(let #nn = #a.len();),
                                                            syn::parse_quote!(let mut #ii: usize = 0;),
                                                            syn::Stmt::Expr(syn::parse_quote!(while #ii < #nn && #ok {
                                                                let #pat = &#a[#ii];
                                                                match #body { Some(vx_oc_v) => { #oc.push(vx_oc_v); } None => { #ok = false; } }
                                                                #ii = #ii + 1;
                                                            }), None),
                                                            syn::parse_quote!(let #target = if #ok { Some(#oc) } else { None };),
                                                        ]);
                                                        self.ctx.used("R50");
                                                    }
                                                }
                                            }
                                        }
                                    }
                                }
                            }
                        }
                    }
                }
                match rep { Some(v) => out.extend(v), None => out.push(st) }
            }
            b.stmts = out;
        }
        if self.ctx.on("R48") {
            // R48c: `let [mut] X [: T] = A.into_iter().map(|c| BODY).collect::<Result<_, _>>()?;` (collect into a Result: elements in order, stop at
            // the first Err, which the `?` then returns) -> push loop over the consumed vector with BODY inlined: its `?` leaves the FUNCTION
            // with the error collect + `?` would have returned; afterwards X is the vector of payloads
            let mut out: Vec<syn::Stmt> = Vec::with_capacity(b.stmts.len());
            for st in b.stmts.drain(..) {
                let mut rep: Option<Vec<syn::Stmt>> = None;
                if let syn::Stmt::Local(l) = &st {
                    let (xpat, xty): (syn::Pat, Option<syn::Type>) = match &l.pat { syn::Pat::Type(pt) => ((*pt.pat).clone(), Some((*pt.ty).clone())), p => (p.clone(), None) };
                    if let (syn::Pat::Ident(_), Some(init)) = (&xpat, &l.init) {
                        if let (None, syn::Expr::Try(tr)) = (&init.diverge, &*init.expr) {
                            if let syn::Expr::MethodCall(col) = &*tr.expr {
                                let tf = col.turbofish.as_ref().map(|t| norm(&t.args.to_token_stream().to_string())).unwrap_or_default();
                                if col.method == "collect" && tf.starts_with("Result<") {
                                    if let syn::Expr::MethodCall(map) = &*col.receiver {
                                        if map.method == "map" && map.args.len() == 1 {
                                            if let (syn::Expr::Closure(cl), syn::Expr::MethodCall(it)) = (&map.args[0], &*map.receiver) {
                                                if it.method == "into_iter" && it.args.is_empty() && cl.inputs.len() == 1 {
                                                    if closure_body_returns(&cl.body) { crate::lost("R48c: the closure body contains `return`; inlining it would change its meaning"); }
                                                    let a = &it.receiver;
                                                    let pat = match &cl.inputs[0] { syn::Pat::Type(pt) => (*pt.pat).clone(), p => p.clone() };
                                                    let body = &cl.body;
                                                    let k = self.ctx.fresh();
                                                    let oc = syn::Ident::new(&format!("vx_rc{}", k), proc_macro2::Span::call_site());
                                                    let nn = syn::Ident::new(&format!("vx_n{}", k), proc_macro2::Span::call_site());
                                                    let ii = syn::Ident::new(&format!("vx_i{}", k), proc_macro2::Span::call_site());
                                                    let vty: syn::Type = xty.clone().unwrap_or_else(|| syn::parse_quote!(Vec<_>));
                                                    rep = Some(vec![
                                                        syn::parse_quote!(let mut #oc: #vty = Vec::new();),
                                                        syn::parse_quote!(let #nn = #a.len();),
                                                        syn::Stmt::Expr(syn::parse_quote!(for #ii in 0..#nn {
                                                            let #pat = vx_vec_take(&#a, #ii);
                                                            let vx_rc_item = match #body { Ok(vx_rc_v) => vx_rc_v, Err(vx_rc_e) => return Err(vx_rc_e) };
                                                            #oc.push(vx_rc_item);
                                                        }), None),
                                                        syn::parse_quote!(let #xpat = #oc;),
                                                    ]);
                                                    self.ctx.used("R48");
                                                }
                                            }
                                        }
                                    }
                                }
                            }
                        }
                    }
                }
                match rep { Some(v) => out.extend(v), None => out.push(st) }
            }
            b.stmts = out;
        }
        if self.ctx.on("R61") {
            // R61a: `let X = A.iter().enumerate().filter(..);` (a lazy adaptor: nothing runs until it is consumed) is substituted into the later
            // expressions that consume X, provided X is not declared `mut`
            let mut i = 0;
            while i < b.stmts.len() {
                let mut subst: Option<(String, syn::Expr)> = None;
                if let syn::Stmt::Local(l) = &b.stmts[i] {
                    if let (syn::Pat::Ident(pid), Some(init)) = (&l.pat, &l.init) {
                        if pid.mutability.is_none() && init.diverge.is_none() {
                            if let syn::Expr::MethodCall(fl) = &*init.expr {
                                if fl.method == "filter" {
                                    if let syn::Expr::MethodCall(en) = &*fl.receiver {
                                        if en.method == "enumerate" { subst = Some((pid.ident.to_string(), (*init.expr).clone())); }
                                    }
                                }
                            }
                        }
                    }
                }
                if let Some((name, ex)) = subst {
                    b.stmts.remove(i);
                    let mut pr = PathReplacer { ident: name, rep: ex };
                    for st in b.stmts.iter_mut().skip(i) { pr.visit_stmt_mut(st); }
                    self.ctx.used("R61");
                } else {
                    i += 1;
                }
            }
        }
        if self.ctx.on("R67") {
            // R67: `let X: IndexSet<String> = A.iter().filter(|p| C).map(|q| E).collect();` -> insertion loop into a new set: for every element in
            // order, if C holds for (a reference to) it, E is inserted (std definitions of filter / map; FromIterator for IndexSet inserts in order)
            let mut out: Vec<syn::Stmt> = Vec::with_capacity(b.stmts.len());
            for st in b.stmts.drain(..) {
                let mut rep: Option<Vec<syn::Stmt>> = None;
                if let syn::Stmt::Local(l) = &st {
                    if let (syn::Pat::Type(pt), Some(init)) = (&l.pat, &l.init) {
                        let tytxt = norm(&pt.ty.to_token_stream().to_string());
                        if tytxt == "IndexSet<String>" && init.diverge.is_none() {
                            if let syn::Expr::MethodCall(col) = &*init.expr {
                                if col.method == "collect" && col.args.is_empty() {
                                    if let syn::Expr::MethodCall(mp) = &*col.receiver {
                                        if mp.method == "map" && mp.args.len() == 1 {
                                            if let (syn::Expr::Closure(mc), syn::Expr::MethodCall(fl)) = (&mp.args[0], &*mp.receiver) {
                                                if fl.method == "filter" && fl.args.len() == 1 && mc.inputs.len() == 1 {
                                                    if let (syn::Expr::Closure(fc), syn::Expr::MethodCall(it)) = (&fl.args[0], &*fl.receiver) {
                                                        if it.method == "iter" && it.args.is_empty() && fc.inputs.len() == 1 {
                                                            let a = &it.receiver;
                                                            let fpat = match &fc.inputs[0] { syn::Pat::Type(p) => (*p.pat).clone(), p => p.clone() };
                                                            let mpat = match &mc.inputs[0] { syn::Pat::Type(p) => (*p.pat).clone(), p => p.clone() };
                                                            let (fbody, mbody) = (&fc.body, &mc.body);
                                                            let xpat = &pt.pat;
                                                            let xty = &pt.ty;
                                                            let k = self.ctx.fresh();
                                                            let nn = syn::Ident::new(&format!("vx_n{}", k), proc_macro2::Span::call_site());
                                                            let ii = syn::Ident::new(&format!("vx_i{}", k), proc_macro2::Span::call_site());
                                                            let ss = syn::Ident::new(&format!("vx_set{}", k), proc_macro2::Span::call_site());
                                                            let kp = syn::Ident::new(&format!("vx_keep{}", k), proc_macro2::Span::call_site());
                                                            rep = Some(vec![
                                                                syn::parse_quote!(let mut #ss: #xty = IndexSet::new();),
                                                                syn::parse_quote!(let #nn = #a.len();),
                                                                syn::Stmt::Expr(syn::parse_quote!(for #ii in 0..#nn {
                                                                    let #kp = { let #fpat = &&#a[#ii]; #fbody };
                                                                    if #kp {
                                                                        let #mpat = &#a[#ii];
                                                                        #ss.insert(#mbody);
                                                                    }
                                                                }), None),
                                                                syn::parse_quote!(let #xpat: #xty = #ss;),
                                                            ]);
                                                            self.ctx.used("R67");
                                                        }
                                                    }
                                                }
                                            }
                                        }
                                    }
                                }
                            }
                        }
                    }
                }
                match rep { Some(v) => out.extend(v), None => out.push(st) }
            }
            b.stmts = out;
        }
        if self.ctx.on("R63") {
            // R63: `let X: IndexMap<String, T> = A.iter().enumerate().map(|(i, p)| (K, V)).collect();` -> insertion loop into a new map, in order
            // (FromIterator for IndexMap: `insert` per item, a repeated key keeps its first position and takes the last value)
            let mut out: Vec<syn::Stmt> = Vec::with_capacity(b.stmts.len());
            for st in b.stmts.drain(..) {
                let mut rep: Option<Vec<syn::Stmt>> = None;
                if let syn::Stmt::Local(l) = &st {
                    if let (syn::Pat::Type(pt), Some(init)) = (&l.pat, &l.init) {
                        let tytxt = norm(&pt.ty.to_token_stream().to_string());
                        if tytxt.starts_with("IndexMap<String,") && init.diverge.is_none() {
                            if let syn::Expr::MethodCall(col) = &*init.expr {
                                if col.method == "collect" && col.args.is_empty() {
                                    if let syn::Expr::MethodCall(mp) = &*col.receiver {
                                        if mp.method == "map" && mp.args.len() == 1 {
                                            if let (syn::Expr::Closure(cl), syn::Expr::MethodCall(en)) = (&mp.args[0], &*mp.receiver) {
                                                if en.method == "enumerate" && en.args.is_empty() && cl.inputs.len() == 1 {
                                                    if let (syn::Expr::MethodCall(it), syn::Pat::Tuple(tp), syn::Expr::Tuple(kv)) = (&*en.receiver, match &cl.inputs[0] { syn::Pat::Type(p) => &*p.pat, p => p }, &*cl.body) {
                                                        if it.method == "iter" && it.args.is_empty() && tp.elems.len() == 2 && kv.elems.len() == 2 {
                                                            let a = &it.receiver;
                                                            let (ip, pp) = (&tp.elems[0], &tp.elems[1]);
                                                            let (kk, vv) = (&kv.elems[0], &kv.elems[1]);
                                                            let xpat = &pt.pat;
                                                            let xty = &pt.ty;
                                                            let k = self.ctx.fresh();
                                                            let nn = syn::Ident::new(&format!("vx_n{}", k), proc_macro2::Span::call_site());
                                                            let ii = syn::Ident::new(&format!("vx_i{}", k), proc_macro2::Span::call_site());
                                                            let mm = syn::Ident::new(&format!("vx_m{}", k), proc_macro2::Span::call_site());
                                                            rep = Some(vec![
                                                                syn::parse_quote!(let mut #mm: #xty = IndexMap::new();),
                                                                syn::parse_quote!(let #nn = #a.len();),
                                                                syn::Stmt::Expr(syn::parse_quote!(for #ii in 0..#nn {
                                                                    let #ip = #ii;
                                                                    let #pp = &#a[#ii];
                                                                    #mm.insert(#kk, #vv);
                                                                }), None),
                                                                syn::parse_quote!(let #xpat: #xty = #mm;),
                                                            ]);
                                                            self.ctx.used("R63");
                                                        }
                                                    }
                                                }
                                            }
                                        }
                                    }
                                }
                            }
                        }
                    }
                }
                match rep { Some(v) => out.extend(v), None => out.push(st) }
            }
            b.stmts = out;
        }
        if self.ctx.on("R57") {
            // R57: statement `V.retain(|P| BODY);` on a vector listed in opts.retain_vecs (a `&mut Vec` parameter) -> position loop: the closure runs
            // once per element in index order, the elements it accepts are kept in order (documented contract of Vec::retain); state captured by
            // the closure (a counter) is updated by the inlined BODY exactly as the closure would
            let mut out: Vec<syn::Stmt> = Vec::with_capacity(b.stmts.len());
            for st in b.stmts.drain(..) {
                let mut rep: Option<Vec<syn::Stmt>> = None;
                if let syn::Stmt::Expr(syn::Expr::MethodCall(rt), Some(_)) = &st {
                    if rt.method == "retain" && rt.args.len() == 1 {
                        let rtxt = norm(&rt.receiver.to_token_stream().to_string());
                        let listed = self.ctx.opts["retain_vecs"].as_array().map(|a| a.iter().any(|v| v.as_str().map(norm).as_deref() == Some(&rtxt))).unwrap_or(false);
                        if let (true, syn::Expr::Closure(cl)) = (listed, &rt.args[0]) {
                            if cl.inputs.len() == 1 {
                                if closure_body_returns(&cl.body) { crate::lost("R57: the closure body contains `return`; inlining it would change its meaning"); }
                                let v = &rt.receiver;
                                let body = &cl.body;
                                let k = self.ctx.fresh();
                                let nn = syn::Ident::new(&format!("vx_n{}", k), proc_macro2::Span::call_site());
                                let ii = syn::Ident::new(&format!("vx_i{}", k), proc_macro2::Span::call_site());
                                let ee = syn::Ident::new(&format!("vx_e{}", k), proc_macro2::Span::call_site());
                                let kp = syn::Ident::new(&format!("vx_keep{}", k), proc_macro2::Span::call_site());
                                let oo = syn::Ident::new(&format!("vx_rt{}", k), proc_macro2::Span::call_site());
                                let bind: Option<syn::Stmt> = match match &cl.inputs[0] { syn::Pat::Type(pt) => (*pt.pat).clone(), p => p.clone() } {
                                    syn::Pat::Wild(_) => None,
                                    p => Some(syn::parse_quote!(let #p = &#ee;)),
                                };
                                let bind_it = bind.into_iter();
                                rep = Some(vec![
                                    syn::parse_quote!(let #nn = #v.len();),
                                    syn::parse_quote!(let mut #oo = Vec::new();),
                                    syn::Stmt::Expr(syn::parse_quote!(for #ii in 0..#nn {
                                        let #ee = vx_vec_take(&*#v, #ii);
                                        #(#bind_it)*
                                        let #kp = #body;
                                        if #kp { #oo.push(#ee); }
                                    }), None),
                                    syn::parse_quote!(*#v = #oo;),
                                ]);
                                self.ctx.used("R57");
                            }
                        }
                    }
                }
                match rep { Some(v) => out.extend(v), None => out.push(st) }
            }
            b.stmts = out;
        }
        if self.ctx.on("R56") {
            // R56: statement `A.iter_mut().for_each(|c| E);` -> index loop: the element is taken out, E runs on it, it is written back at the
            // same position (std definition of for_each over iter_mut: every element once, in order)
            let mut out: Vec<syn::Stmt> = Vec::with_capacity(b.stmts.len());
            for st in b.stmts.drain(..) {
                let mut rep: Option<Vec<syn::Stmt>> = None;
                if let syn::Stmt::Expr(syn::Expr::MethodCall(fe), Some(_)) = &st {
                    if fe.method == "for_each" && fe.args.len() == 1 {
                        if let (syn::Expr::Closure(cl), syn::Expr::MethodCall(it)) = (&fe.args[0], &*fe.receiver) {
                            if it.method == "iter_mut" && it.args.is_empty() && cl.inputs.len() == 1 {
                                if let syn::Pat::Ident(pid) = match &cl.inputs[0] { syn::Pat::Type(pt) => (*pt.pat).clone(), p => p.clone() } {
                                    if closure_body_returns(&cl.body) { crate::lost("R56: the closure body contains `return`; inlining it would change its meaning"); }
                                    let a = &it.receiver;
                                    let c = &pid.ident;
                                    let body = &cl.body;
                                    let k = self.ctx.fresh();
                                    let nn = syn::Ident::new(&format!("vx_n{}", k), proc_macro2::Span::call_site());
                                    let ii = syn::Ident::new(&format!("vx_i{}", k), proc_macro2::Span::call_site());
                                    rep = Some(vec![
                                        syn::parse_quote!(let #nn = #a.len();),
                                        syn::Stmt::Expr(syn::parse_quote!(for #ii in 0..#nn {
                                            let mut #c = vx_vec_take(&#a, #ii);
                                            #body;
                                            #a.set(#ii, #c);
                                        }), None),
                                    ]);
                                    self.ctx.used("R56");
                                }
                            }
                        }
                    }
                }
                match rep { Some(v) => out.extend(v), None => out.push(st) }
            }
            b.stmts = out;
        }
        if self.ctx.on("R44") {
            // R44: `panic!(..)` -> vx_panic() (a call that does not return; the message is dropped).  Partial correctness:
            // contracts say nothing about a call that panics, exactly as Rust's own semantics of `-> !`.
            for st in b.stmts.iter_mut() {
                if let syn::Stmt::Macro(sm) = st {
                    if sm.mac.path.is_ident("panic") {
                        *st = syn::parse_quote!(vx_panic(););
                        self.ctx.used("R44");
                    }
                }
            }
        }
        if self.ctx.on("R34") {
            // R34 (lazy iterator chain, by the std definitions of Iterator::map / next / fold):
            //   let mut IT = A.iter().map(|p| F);
            //   let Some(X) = IT.next() else { ELSE };
            //   IT.fold(INIT, |acc, nxt| BODY)                      (tail expression of the block)
            // ->  index loop over A: X is F at element 0 (ELSE when A is empty), the accumulator starts at INIT and is
            //     updated with BODY for elements 1.. in order
            let n = b.stmts.len();
            if n >= 3 {
                let i = n - 3;
                let parts = (|| -> Option<(syn::Ident, syn::Expr, syn::Pat, syn::Expr, syn::Pat, syn::Block, syn::Expr, syn::Pat, syn::Pat, syn::Expr)> {
                    let syn::Stmt::Local(l1) = &b.stmts[i] else { return None };
                    let syn::Pat::Ident(itid) = &l1.pat else { return None };
                    let init1 = l1.init.as_ref()?;
                    if init1.diverge.is_some() { return None; }
                    let syn::Expr::MethodCall(map) = &*init1.expr else { return None };
                    if map.method != "map" || map.args.len() != 1 { return None; }
                    let syn::Expr::Closure(cl) = &map.args[0] else { return None };
                    if cl.inputs.len() != 1 { return None; }
                    let syn::Expr::MethodCall(it) = &*map.receiver else { return None };
                    if it.method != "iter" || !it.args.is_empty() { return None; }
                    let a = (*it.receiver).clone();
                    let p = match &cl.inputs[0] { syn::Pat::Type(pt) => (*pt.pat).clone(), q => q.clone() };
                    let f = (*cl.body).clone();
                    let syn::Stmt::Local(l2) = &b.stmts[i + 1] else { return None };
                    let init2 = l2.init.as_ref()?;
                    let (_, els) = init2.diverge.as_ref()?;
                    let syn::Expr::Block(elsb) = &**els else { return None };
                    let syn::Expr::MethodCall(nx) = &*init2.expr else { return None };
                    if nx.method != "next" || norm(&nx.receiver.to_token_stream().to_string()) != itid.ident.to_string() { return None; }
                    let syn::Pat::TupleStruct(ts) = &l2.pat else { return None };
                    if !ts.path.is_ident("Some") || ts.elems.len() != 1 { return None; }
                    let x = ts.elems[0].clone();
                    let syn::Stmt::Expr(syn::Expr::MethodCall(fd), None) = &b.stmts[i + 2] else { return None };
                    if fd.method != "fold" || fd.args.len() != 2 || norm(&fd.receiver.to_token_stream().to_string()) != itid.ident.to_string() { return None; }
                    let syn::Expr::Closure(fc) = &fd.args[1] else { return None };
                    if fc.inputs.len() != 2 { return None; }
                    let strip = |q: &syn::Pat| match q { syn::Pat::Type(pt) => (*pt.pat).clone(), q => q.clone() };
                    Some((itid.ident.clone(), a, p, f, x, elsb.block.clone(), fd.args[0].clone(), strip(&fc.inputs[0]), strip(&fc.inputs[1]), (*fc.body).clone()))
                })();
                if let Some((_it, a, p, f, x, els, init, acc, nxt, body)) = parts {
                    let k = self.ctx.fresh();
                    let vv = syn::Ident::new(&format!("vx_v{}", k), proc_macro2::Span::call_site());
                    let nn = syn::Ident::new(&format!("vx_n{}", k), proc_macro2::Span::call_site());
                    let ii = syn::Ident::new(&format!("vx_i{}", k), proc_macro2::Span::call_site());
                    let ac = syn::Ident::new(&format!("vx_acc{}", k), proc_macro2::Span::call_site());
                    let new: Vec<syn::Stmt> = vec![
                        syn::parse_quote!(let #vv = #a;),
                        syn::parse_quote!(let #nn = #vv.len();),
                        syn::Stmt::Expr(syn::parse_quote!(if #nn == 0 #els), Some(Default::default())),
                        syn::parse_quote!(let #x = { let #p = &#vv[0]; #f };),
                        syn::parse_quote!(let mut #ac = #init;),
                        syn::Stmt::Expr(syn::parse_quote!(for #ii in 1..#nn {
                            let #nxt = { let #p = &#vv[#ii]; #f };
                            let #acc = #ac;
                            #ac = #body;
                        }), Some(Default::default())),
                        syn::Stmt::Expr(syn::parse_quote!(#ac), None),
                    ];
                    b.stmts.truncate(i);
                    b.stmts.extend(new);
                    self.ctx.used("R34");
                }
            }
        }
        if self.ctx.on("R34") {
            // R34b (same chain over owned clones, default for the empty case, folding with a function item):
            //   let mut IT = A.iter().cloned();
            //   let X = IT.next().unwrap_or(D);
            //   IT.fold(X, F)                                        (tail expression of the block)
            // -> X is a clone of element 0 (D when A is empty); the accumulator starts at X and becomes F(acc, clone of element i) for i = 1..
            let n = b.stmts.len();
            if n >= 3 {
                let i = n - 3;
                let parts = (|| -> Option<(syn::Expr, syn::Pat, syn::Expr, syn::Expr, syn::Expr)> {
                    let syn::Stmt::Local(l1) = &b.stmts[i] else { return None };
                    let syn::Pat::Ident(itid) = &l1.pat else { return None };
                    let init1 = l1.init.as_ref()?;
                    let syn::Expr::MethodCall(cl) = &*init1.expr else { return None };
                    if cl.method != "cloned" || !cl.args.is_empty() { return None; }
                    let syn::Expr::MethodCall(it) = &*cl.receiver else { return None };
                    if it.method != "iter" || !it.args.is_empty() { return None; }
                    let a = (*it.receiver).clone();
                    let syn::Stmt::Local(l2) = &b.stmts[i + 1] else { return None };
                    let init2 = l2.init.as_ref()?;
                    if init2.diverge.is_some() { return None; }
                    let syn::Expr::MethodCall(uo) = &*init2.expr else { return None };
                    if uo.method != "unwrap_or" || uo.args.len() != 1 { return None; }
                    let syn::Expr::MethodCall(nx) = &*uo.receiver else { return None };
                    if nx.method != "next" || norm(&nx.receiver.to_token_stream().to_string()) != itid.ident.to_string() { return None; }
                    let x = l2.pat.clone();
                    let d = uo.args[0].clone();
                    let syn::Stmt::Expr(syn::Expr::MethodCall(fd), None) = &b.stmts[i + 2] else { return None };
                    if fd.method != "fold" || fd.args.len() != 2 || norm(&fd.receiver.to_token_stream().to_string()) != itid.ident.to_string() { return None; }
                    if !matches!(&fd.args[1], syn::Expr::Path(_)) { return None; }
                    Some((a, x, d, fd.args[0].clone(), fd.args[1].clone()))
                })();
                if let Some((a, x, d, init, f)) = parts {
                    let k = self.ctx.fresh();
                    let nn = syn::Ident::new(&format!("vx_n{}", k), proc_macro2::Span::call_site());
                    let ii = syn::Ident::new(&format!("vx_i{}", k), proc_macro2::Span::call_site());
                    let ac = syn::Ident::new(&format!("vx_acc{}", k), proc_macro2::Span::call_site());
                    let new: Vec<syn::Stmt> = vec![
                        syn::parse_quote!(let #nn = #a.len();),
                        syn::parse_quote!(let #x = if #nn == 0 { #d } else { #a[0].clone() };),
                        syn::parse_quote!(let mut #ac = #init;),
                        syn::Stmt::Expr(syn::parse_quote!(for #ii in 1..#nn {
                            #ac = #f(#ac, #a[#ii].clone());
                        }), Some(Default::default())),
                        syn::Stmt::Expr(syn::parse_quote!(#ac), None),
                    ];
                    b.stmts.truncate(i);
                    b.stmts.extend(new);
                    self.ctx.used("R34");
                }
            }
        }
        if self.ctx.on("R18") {
            // R18 (A-normal form): `X.m(ARG);` for the methods listed in opts.anf_calls -> `let vx_a<k> = ARG; X.m(vx_a<k>);`
            // so that a proof can name the argument (argument evaluation order is unchanged)
            let mut i = 0;
            while i < b.stmts.len() {
                let mut hoist: Vec<(syn::Ident, syn::Expr)> = vec![];
                let target: Option<&mut syn::ExprMethodCall> = match &mut b.stmts[i] {
                    syn::Stmt::Expr(syn::Expr::MethodCall(mc), _) => Some(mc),
                    syn::Stmt::Expr(syn::Expr::Try(t), _) => match &mut *t.expr { syn::Expr::MethodCall(mc) => Some(mc), _ => None },
                    _ => None,
                };
                let mut method_done = false;
                if let Some(mc) = target {
                    method_done = true;
                    let listed = self.ctx.opts["anf_calls"].as_array().map(|a| a.iter().any(|v| v.as_str() == Some(&mc.method.to_string()))).unwrap_or(false);
                    if listed {
                        for a in mc.args.iter_mut() {
                            if matches!(a, syn::Expr::Path(_)) { continue; }
                            let k = self.ctx.fresh();
                            let id = syn::Ident::new(&format!("vx_a{}", k), proc_macro2::Span::call_site());
                            let arg = a.clone();
                            *a = syn::parse_quote!(#id);
                            hoist.push((id, arg));
                        }
                    }
                }
                if !method_done {
                    // the same for calls of listed FREE functions: `f(ARGS)`, `f(ARGS)?`, with or without `;`, or as the initialiser of a `let`
                    fn call_of(e: &mut syn::Expr) -> Option<&mut syn::ExprCall> {
                        match e { syn::Expr::Call(c) => Some(c), syn::Expr::Try(t) => match &mut *t.expr { syn::Expr::Call(c) => Some(c), _ => None }, _ => None }
                    }
                    let call: Option<&mut syn::ExprCall> = match &mut b.stmts[i] {
                        syn::Stmt::Expr(e, _) => call_of(e),
                        syn::Stmt::Local(l) => match &mut l.init { Some(init) if init.diverge.is_none() => call_of(&mut init.expr), _ => None },
                        _ => None,
                    };
                    if let Some(c) = call {
                        let fname = match &*c.func { syn::Expr::Path(p) => p.path.segments.last().map(|s| s.ident.to_string()), _ => None };
                        let listed = fname.map(|n| self.ctx.opts["anf_calls"].as_array().map(|a| a.iter().any(|v| v.as_str() == Some(&n))).unwrap_or(false)).unwrap_or(false);
                        if listed {
                            for a in c.args.iter_mut() {
                                if matches!(a, syn::Expr::Path(_)) { continue; }
                                let k = self.ctx.fresh();
                                let id = syn::Ident::new(&format!("vx_a{}", k), proc_macro2::Span::call_site());
                                let arg = a.clone();
                                *a = syn::parse_quote!(#id);
                                hoist.push((id, arg));
                            }
                        }
                    }
                }
                let nh = hoist.len();
                for (j, (id, arg)) in hoist.into_iter().enumerate() {
                    b.stmts.insert(i + j, syn::parse_quote!(let #id = #arg;));
                    self.ctx.used("R18");
                }
                i += nh;
                i += 1;
            }
        }
        if self.ctx.on("R17") {
            // R17: `let v = M.get_mut(K).unwrap(); *v op= E;`  ->  `let vx_old = *M.get(K).unwrap(); M.update_existing(K, vx_old op (E));`
            let mut i = 0;
            while i + 1 < b.stmts.len() {
                let mut found: Option<(syn::Ident, syn::Expr, syn::Expr)> = None;
                if let syn::Stmt::Local(l) = &b.stmts[i] {
                    if let (syn::Pat::Ident(pi), Some(init)) = (&l.pat, &l.init) {
                        if let syn::Expr::MethodCall(un) = &*init.expr {
                            if un.method == "unwrap" {
                                if let syn::Expr::MethodCall(gm) = &*un.receiver {
                                    if gm.method == "get_mut" && gm.args.len() == 1 {
                                        found = Some((pi.ident.clone(), (*gm.receiver).clone(), gm.args[0].clone()));
                                    }
                                }
                            }
                        }
                    }
                }
                if let Some((v, recv, key)) = found {
                    let mut rep: Option<syn::Stmt> = None;
                    if let syn::Stmt::Expr(syn::Expr::Binary(bin), Some(_)) = &b.stmts[i + 1] {
                        use syn::BinOp::*;
                        let op: Option<syn::BinOp> = match bin.op {
                            SubAssign(_) => Some(syn::parse_quote!(-)), AddAssign(_) => Some(syn::parse_quote!(+)),
                            MulAssign(_) => Some(syn::parse_quote!(*)), DivAssign(_) => Some(syn::parse_quote!(/)), _ => None };
                        if let (Some(op), syn::Expr::Unary(u)) = (op, &*bin.left) {
                            if let syn::Expr::Path(p) = &*u.expr {
                                if matches!(u.op, syn::UnOp::Deref(_)) && p.path.is_ident(&v) {
                                    let rhs = &bin.right;
                                    rep = Some(syn::parse_quote!({ let vx_old = *#recv.get(#key).unwrap(); #recv.update_existing(#key, vx_old #op (#rhs)); }));
                                }
                            }
                        }
                    }
                    if let syn::Stmt::Expr(syn::Expr::Assign(asg), Some(_)) = &b.stmts[i + 1] {
                        if let syn::Expr::Unary(u) = &*asg.left {
                            if let syn::Expr::Path(p) = &*u.expr {
                                if matches!(u.op, syn::UnOp::Deref(_)) && p.path.is_ident(&v) {
                                    let rhs = &asg.right;
                                    rep = Some(syn::parse_quote!({ #recv.update_existing(#key, #rhs); }));
                                }
                            }
                        }
                    }
                    if let Some(r) = rep {
                        b.stmts[i] = r;
                        b.stmts.remove(i + 1);
                        self.ctx.used("R17");
                    }
                }
                i += 1;
            }
        }
        syn::visit_mut::visit_block_mut(self, b);
    }

    fn visit_expr_match_mut(&mut self, m: &mut syn::ExprMatch) {
        if self.ctx.on("R2") {
            // R2: a float literal pattern `K` -> binding `v` + guard `v == K` (float patterns match with ==); an or-pattern with
            // such an alternative is split into consecutive arms with the same body (arm order kept)
            fn has_float_lit(p: &syn::Pat) -> bool {
                struct F(bool);
                impl<'ast> syn::visit::Visit<'ast> for F {
                    fn visit_expr_lit(&mut self, l: &'ast syn::ExprLit) {
                        if matches!(l.lit, syn::Lit::Float(_)) { self.0 = true; }
                    }
                    fn visit_pat(&mut self, p: &'ast syn::Pat) {
                        if let syn::Pat::Path(pp) = p { if is_f64_const_path(&pp.path) { self.0 = true; } }
                        syn::visit::visit_pat(self, p);
                    }
                }
                let mut f = F(false);
                syn::visit::Visit::visit_pat(&mut f, p);
                f.0
            }
            let mut arms: Vec<syn::Arm> = vec![];
            for arm in m.arms.drain(..) {
                match &arm.pat {
                    syn::Pat::Or(o) if o.cases.iter().any(has_float_lit) => {
                        for c in o.cases.iter() {
                            let mut a = arm.clone();
                            a.pat = c.clone();
                            arms.push(a);
                        }
                    }
                    _ => arms.push(arm),
                }
            }
            for arm in arms.iter_mut() {
                if has_float_lit(&arm.pat) {
                    struct Rep<'b> { guards: Vec<syn::Expr>, k: &'b mut usize }
                    impl<'b> VisitMut for Rep<'b> {
                        fn visit_pat_mut(&mut self, p: &mut syn::Pat) {
                            if let syn::Pat::Lit(l) = p {
                                if let syn::Lit::Float(_) = &l.lit {
                                    *self.k += 1;
                                    let id = syn::Ident::new(&format!("vx_f{}", *self.k), proc_macro2::Span::call_site());
                                    let lit = l.lit.clone();
                                    self.guards.push(syn::parse_quote!(#id == #lit));
                                    *p = syn::parse_quote!(#id);
                                    return;
                                }
                            }
                            if let syn::Pat::Path(pp) = p {
                                if is_f64_const_path(&pp.path) {
                                    *self.k += 1;
                                    let id = syn::Ident::new(&format!("vx_f{}", *self.k), proc_macro2::Span::call_site());
                                    let path = pp.path.clone();
                                    self.guards.push(syn::parse_quote!(#id == #path));
                                    *p = syn::parse_quote!(#id);
                                    return;
                                }
                            }
                            syn::visit_mut::visit_pat_mut(self, p);
                        }
                    }
                    let mut k = self.ctx.counter;
                    let mut r = Rep { guards: vec![], k: &mut k };
                    r.visit_pat_mut(&mut arm.pat);
                    let guards = r.guards;
                    self.ctx.counter = k;
                    let mut cond: Option<syn::Expr> = None;
                    for g in guards { cond = Some(match cond { None => g, Some(c) => syn::parse_quote!(#c && #g) }); }
                    if let Some(c) = cond {
                        arm.guard = Some(match arm.guard.take() {
                            Some((i, g)) => (i, Box::new(syn::parse_quote!(#c && (#g)))),
                            None => (Default::default(), Box::new(c)),
                        });
                    }
                    self.ctx.used("R2");
                }
            }
            m.arms = arms;
        }
        syn::visit_mut::visit_expr_match_mut(self, m);
    }

    fn visit_generics_mut(&mut self, g: &mut syn::Generics) {
        // R23: trait bounds other than Copy / Clone / Sized are dropped (serde, Display, ... have no meaning for the verifier)
        if self.ctx.on("R23") {
            let keep = |b: &syn::TypeParamBound| match b {
                syn::TypeParamBound::Trait(t) => t.path.segments.last().map(|s| { let n = s.ident.to_string(); n == "Copy" || n == "Clone" || n == "Sized" }).unwrap_or(false),
                _ => true,
            };
            for p in g.params.iter_mut() {
                if let syn::GenericParam::Type(tp) = p {
                    let kept: Vec<syn::TypeParamBound> = tp.bounds.iter().filter(|b| keep(b)).cloned().collect();
                    if kept.len() != tp.bounds.len() { self.ctx.used("R23"); }
                    tp.bounds = kept.into_iter().collect();
                    if tp.bounds.is_empty() { tp.colon_token = None; }
                }
            }
            g.where_clause = None;
        }
        syn::visit_mut::visit_generics_mut(self, g);
    }

    fn visit_pat_mut(&mut self, p: &mut syn::Pat) {
        syn::visit_mut::visit_pat_mut(self, p);
    }

    fn visit_expr_mut(&mut self, e: &mut syn::Expr) {
        // R35: let chain `if let P = E && C { B } [else X]`  ->  `if let P = E { if C { B } [else X] } [else X]` (the definition of a let chain with one binding)
        if self.ctx.on("R35") {
            if let syn::Expr::If(ei) = e {
                if let syn::Expr::Binary(b) = &*ei.cond {
                    if matches!(b.op, syn::BinOp::And(_)) {
                        if let syn::Expr::Let(l) = &*b.left {
                            let pat = (*l.pat).clone();
                            let scrut = (*l.expr).clone();
                            let guard = (*b.right).clone();
                            let then = ei.then_branch.clone();
                            // (nested ifs rather than a match guard: the verifier loses track of `&mut self` across an exec guard)
                            *e = match &ei.else_branch {
                                Some((_, x)) => { let x = (**x).clone(); syn::parse_quote!(if let #pat = #scrut { if #guard #then else #x } else #x) }
                                None => syn::parse_quote!(if let #pat = #scrut { if #guard #then }),
                            };
                            self.ctx.used("R35");
                        }
                    }
                }
            }
        }
        // R29: `matches!(E, P [if G])` -> `match E { P [if G] => true, _ => false }` (the macro's definition), so that the
        // other rules see the pattern and the guard
        if self.ctx.on("R29") || self.ctx.on("R10") {
            if let syn::Expr::Macro(m) = e {
                if m.mac.path.is_ident("matches") {
                    struct MatchesArgs { e: syn::Expr, p: syn::Pat, g: Option<syn::Expr> }
                    impl syn::parse::Parse for MatchesArgs {
                        fn parse(input: syn::parse::ParseStream) -> syn::Result<Self> {
                            let e: syn::Expr = input.parse()?;
                            let _: syn::Token![,] = input.parse()?;
                            let p = syn::Pat::parse_multi_with_leading_vert(input)?;
                            let g = if input.peek(syn::Token![if]) { let _: syn::Token![if] = input.parse()?; Some(input.parse()?) } else { None };
                            let _ = input.parse::<Option<syn::Token![,]>>();
                            Ok(MatchesArgs { e, p, g })
                        }
                    }
                    if let Ok(a) = syn::parse2::<MatchesArgs>(m.mac.tokens.clone()) {
                        let (ex, p) = (a.e, a.p);
                        let new: syn::Expr = match a.g {
                            Some(g) => syn::parse_quote!(match #ex { #p if #g => true, _ => false }),
                            None => syn::parse_quote!(match #ex { #p => true, _ => false }),
                        };
                        *e = new;
                        self.ctx.used("R29");
                        syn::visit_mut::visit_expr_mut(self, e);
                        return;
                    }
                }
            }
        }
        // vec! macros: the token stream is opaque to the other rules, so it is re-parsed.  `vec![e; n]` becomes the trusted
        // wrapper vx_vec_repeat(e, n) (R7: std meaning); `vec![a, b, ..]` keeps its form with the rules applied to the elements
        if let syn::Expr::Macro(m) = e {
            if m.mac.path.is_ident("vec") && !m.mac.tokens.is_empty() {
                struct Rep { e: syn::Expr, n: syn::Expr }
                impl syn::parse::Parse for Rep {
                    fn parse(input: syn::parse::ParseStream) -> syn::Result<Self> {
                        let e: syn::Expr = input.parse()?;
                        let _: syn::Token![;] = input.parse()?;
                        let n: syn::Expr = input.parse()?;
                        Ok(Rep { e, n })
                    }
                }
                if let Ok(r) = syn::parse2::<Rep>(m.mac.tokens.clone()) {
                    let (el, n) = (r.e, r.n);
                    *e = syn::parse_quote!(vx_vec_repeat(#el, #n));
                    self.ctx.used("R7");
                    syn::visit_mut::visit_expr_mut(self, e);
                    return;
                }
                let parser = syn::punctuated::Punctuated::<syn::Expr, syn::Token![,]>::parse_terminated;
                if let Ok(list) = syn::parse::Parser::parse2(parser, m.mac.tokens.clone()) {
                    let mut items: Vec<syn::Expr> = list.into_iter().collect();
                    for it in items.iter_mut() { self.visit_expr_mut(it); }
                    m.mac.tokens = quote!(#(#items),*);
                    return;
                }
            }
        }
        // R28: `E.map_err(|e| BODY)?`  ->  `match E { Ok(v) => v, Err(e) => return Err(BODY) }`
        // (the function's error type is the closure's result type, so `?` converts with the identity From)
        if self.ctx.on("R28") {
            if let syn::Expr::Try(t) = e {
                if let syn::Expr::MethodCall(mc) = &*t.expr {
                    if mc.method == "map_err" && mc.args.len() == 1 {
                        if let syn::Expr::Closure(cl) = &mc.args[0] {
                            if cl.inputs.len() == 1 {
                                let recv = &mc.receiver;
                                let pat = match &cl.inputs[0] { syn::Pat::Type(pt) => (*pt.pat).clone(), p => p.clone() };
                                let body = &cl.body;
                                let new: syn::Expr = syn::parse_quote!(match #recv { Ok(vx_ok) => vx_ok, Err(#pat) => return Err(#body) });
                                *e = new;
                                self.ctx.used("R28");
                                syn::visit_mut::visit_expr_mut(self, e);
                                return;
                            }
                        }
                    }
                }
            }
        }
        // R40: `while let P = E { B }` -> `loop { let P = E else { break; }; B }` (the definition of while-let; the scrutinee is evaluated
        // once per iteration at the top of the body, where a proof can see its postcondition)
        if self.ctx.on("R40") {
            if let syn::Expr::While(w) = e {
                if let syn::Expr::Let(l) = &*w.cond {
                    let pat = (*l.pat).clone();
                    let scrut = (*l.expr).clone();
                    let stmts = &w.body.stmts;
                    let label = w.label.clone();
                    *e = syn::parse_quote!(#label loop {
                        let #pat = #scrut else { break; };
                        #(#stmts)*
                    });
                    self.ctx.used("R40");
                }
            }
        }
        // R37: `A.iter().all(|p| BODY)` -> index loop with early exit (std definition of Iterator::all)
        if self.ctx.on("R13") {
            // R13f: `IndexMap::from([(K1, V1), (K2, V2), ..])` -> a new map with the pairs inserted in order (the documented meaning of From<[(K, V); N]>)
            if let syn::Expr::Call(c) = e {
                let is_from = match &*c.func { syn::Expr::Path(p) => norm(&p.to_token_stream().to_string()) == "IndexMap::from", _ => false };
                if is_from && c.args.len() == 1 {
                    if let syn::Expr::Array(arr) = &c.args[0] {
                        let pairs: Vec<(syn::Expr, syn::Expr)> = arr.elems.iter().filter_map(|el| match el { syn::Expr::Tuple(t) if t.elems.len() == 2 => Some((t.elems[0].clone(), t.elems[1].clone())), _ => None }).collect();
                        if pairs.len() == arr.elems.len() {
                            let k = self.ctx.fresh();
                            let mm = syn::Ident::new(&format!("vx_m{}", k), proc_macro2::Span::call_site());
                            let ks: Vec<&syn::Expr> = pairs.iter().map(|p| &p.0).collect();
                            let vs: Vec<&syn::Expr> = pairs.iter().map(|p| &p.1).collect();
                            *e = syn::parse_quote!({ let mut #mm = SMap::new(); #( #mm.insert(#ks, #vs); )* #mm });
                            self.ctx.used("R13");
                            syn::visit_mut::visit_expr_mut(self, e);
                            return;
                        }
                    }
                }
            }
        }
        if self.ctx.on("R54") {
            // R54: indexing a Vec / slice listed in opts.checked_index: `A[i]` -> `*vx_index(&A, i)`, `A[i] = v` -> `vx_index_set(&mut A, i, v)`.
            // The stubs return only when the index is in bounds (Rust's indexing panics otherwise): no in-bounds proof is asked, and
            // nothing is claimed about a run that would panic.
            let listed = |ex: &syn::Expr, ctx: &crate::Ctx| -> bool { let t = norm(&ex.to_token_stream().to_string()); ctx.opts["checked_index"].as_array().map(|a| a.iter().any(|v| v.as_str().map(norm).as_deref() == Some(&t))).unwrap_or(false) };
            if let syn::Expr::Assign(asg) = e {
                if let syn::Expr::Index(ix) = &*asg.left {
                    if listed(&ix.expr, self.ctx) {
                        let (a, i, v) = (&ix.expr, &ix.index, &asg.right);
                        *e = syn::parse_quote!(vx_index_set(&mut #a, #i, #v));
                        self.ctx.used("R54");
                        syn::visit_mut::visit_expr_mut(self, e);
                        return;
                    }
                }
            }
            if let syn::Expr::Index(ix) = e {
                if listed(&ix.expr, self.ctx) {
                    let (a, i) = (&ix.expr, &ix.index);
                    *e = syn::parse_quote!((*vx_index(&#a, #i)));
                    self.ctx.used("R54");
                    syn::visit_mut::visit_expr_mut(self, e);
                    return;
                }
            }
        }
        if self.ctx.on("R52") {
            // R52: `A.iter().all(|p| B)` / `.any(|p| B)` -> while loop WITHOUT break: `while i < n && flag { if !(B) { flag = false; } i += 1; }`
            // (std definition: in order, stops after the first deciding element); the exit condition is then known to the verifier
            if let syn::Expr::MethodCall(mc) = e {
                let is_all = mc.method == "all";
                if (is_all || mc.method == "any") && mc.args.len() == 1 {
                    if let (syn::Expr::MethodCall(it), syn::Expr::Closure(cl)) = (&*mc.receiver, &mc.args[0]) {
                        if it.method == "iter" && it.args.is_empty() && cl.inputs.len() == 1 {
                            let a = (*it.receiver).clone();
                            let p = match &cl.inputs[0] { syn::Pat::Type(pt) => (*pt.pat).clone(), q => q.clone() };
                            let body = (*cl.body).clone();
                            let k = self.ctx.fresh();
                            let nn = syn::Ident::new(&format!("vx_n{}", k), proc_macro2::Span::call_site());
                            let ii = syn::Ident::new(&format!("vx_i{}", k), proc_macro2::Span::call_site());
                            let rr = syn::Ident::new(&format!("vx_go{}", k), proc_macro2::Span::call_site());
                            // vx_go: "undecided so far" (all: every element so far was true; any: every element so far was false)
                            let new: syn::Expr = if is_all {
                                syn::parse_quote!({
                                    let mut #rr = true;
                                    let #nn = #a.len();
                                    let mut #ii: usize = 0;
                                    while #ii < #nn && #rr {
                                        let #p = &#a[#ii];
                                        if !(#body) { #rr = false; }
                                        #ii = #ii + 1;
                                    }
                                    #rr
                                })
                            } else {
                                syn::parse_quote!({
                                    let mut #rr = true;
                                    let #nn = #a.len();
                                    let mut #ii: usize = 0;
                                    while #ii < #nn && #rr {
                                        let #p = &#a[#ii];
                                        if #body { #rr = false; }
                                        #ii = #ii + 1;
                                    }
                                    !#rr
                                })
                            };
                            *e = new;
                            self.ctx.used("R52");
                            syn::visit_mut::visit_expr_mut(self, e);
                            return;
                        }
                    }
                }
            }
        }
        if self.ctx.on("R37") {
            // R37b: `A.iter().any(|p| B)` -> loop with early exit (std definition of Iterator::any: in order, stops at the first true)
            if let syn::Expr::MethodCall(any) = e {
                if any.method == "any" && any.args.len() == 1 {
                    if let (syn::Expr::MethodCall(it), syn::Expr::Closure(cl)) = (&*any.receiver, &any.args[0]) {
                        if it.method == "iter" && it.args.is_empty() && cl.inputs.len() == 1 {
                            let a = (*it.receiver).clone();
                            let p = match &cl.inputs[0] { syn::Pat::Type(pt) => (*pt.pat).clone(), q => q.clone() };
                            let body = (*cl.body).clone();
                            let k = self.ctx.fresh();
                            let nn = syn::Ident::new(&format!("vx_n{}", k), proc_macro2::Span::call_site());
                            let ii = syn::Ident::new(&format!("vx_i{}", k), proc_macro2::Span::call_site());
                            let rr = syn::Ident::new(&format!("vx_any{}", k), proc_macro2::Span::call_site());
                            *e = syn::parse_quote!({
                                let mut #rr = false;
                                let #nn = #a.len();
                                for #ii in 0..#nn {
                                    let #p = &#a[#ii];
                                    if #body { #rr = true; break; }
                                }
                                #rr
                            });
                            self.ctx.used("R37");
                            syn::visit_mut::visit_expr_mut(self, e);
                            return;
                        }
                    }
                }
            }
        }
        if self.ctx.on("R51") {
            // R51: `A.iter().map(|p| F).fold(INIT, f64::min | f64::max)` -> accumulator loop `acc = acc.min(F)` (std definitions of map / fold;
            // `f64::min(a, b)` is `a.min(b)`)
            if let syn::Expr::MethodCall(fd) = e {
                if fd.method == "fold" && fd.args.len() == 2 {
                    let which = match &fd.args[1] { syn::Expr::Path(p) => { let t = norm(&p.to_token_stream().to_string()); if t == "f64::min" { Some("min") } else if t == "f64::max" { Some("max") } else { None } }, _ => None };
                    if let (Some(w), syn::Expr::MethodCall(cl)) = (which, &*fd.receiver) {
                        // `A.iter().cloned().fold(INIT, f64::min | f64::max)`: the same with the element itself as the folded value
                        if cl.method == "cloned" && cl.args.is_empty() {
                            if let syn::Expr::MethodCall(it) = &*cl.receiver {
                                if it.method == "iter" && it.args.is_empty() {
                                    let a = (*it.receiver).clone();
                                    let init = fd.args[0].clone();
                                    let k = self.ctx.fresh();
                                    let nn = syn::Ident::new(&format!("vx_n{}", k), proc_macro2::Span::call_site());
                                    let ii = syn::Ident::new(&format!("vx_i{}", k), proc_macro2::Span::call_site());
                                    let acc = syn::Ident::new(&format!("vx_acc{}", k), proc_macro2::Span::call_site());
                                    let m = syn::Ident::new(w, proc_macro2::Span::call_site());
                                    *e = syn::parse_quote!({
                                        let mut #acc: f64 = #init;
                                        let #nn = #a.len();
                                        for #ii in 0..#nn {
                                            #acc = #acc.#m(#a[#ii]);
                                        }
                                        #acc
                                    });
                                    self.ctx.used("R51");
                                    syn::visit_mut::visit_expr_mut(self, e);
                                    return;
                                }
                            }
                        }
                    }
                    if let (Some(w), syn::Expr::MethodCall(map)) = (which, &*fd.receiver) {
                        if map.method == "map" && map.args.len() == 1 {
                            if let (syn::Expr::Closure(cl), syn::Expr::MethodCall(it)) = (&map.args[0], &*map.receiver) {
                                if it.method == "iter" && it.args.is_empty() && cl.inputs.len() == 1 {
                                    let a = (*it.receiver).clone();
                                    let p = match &cl.inputs[0] { syn::Pat::Type(pt) => (*pt.pat).clone(), q => q.clone() };
                                    let body = (*cl.body).clone();
                                    let init = fd.args[0].clone();
                                    let k = self.ctx.fresh();
                                    let nn = syn::Ident::new(&format!("vx_n{}", k), proc_macro2::Span::call_site());
                                    let ii = syn::Ident::new(&format!("vx_i{}", k), proc_macro2::Span::call_site());
                                    let acc = syn::Ident::new(&format!("vx_acc{}", k), proc_macro2::Span::call_site());
                                    let m = syn::Ident::new(w, proc_macro2::Span::call_site());
                                    *e = syn::parse_quote!({
                                        let mut #acc: f64 = #init;
                                        let #nn = #a.len();
                                        for #ii in 0..#nn {
                                            let #p = &#a[#ii];
                                            #acc = #acc.#m(#body);
                                        }
                                        #acc
                                    });
                                    self.ctx.used("R51");
                                    syn::visit_mut::visit_expr_mut(self, e);
                                    return;
                                }
                            }
                        }
                    }
                }
            }
        }
        if self.ctx.on("R37") {
            if let syn::Expr::MethodCall(all) = e {
                if all.method == "all" && all.args.len() == 1 {
                    if let (syn::Expr::MethodCall(it), syn::Expr::Closure(cl)) = (&*all.receiver, &all.args[0]) {
                        if it.method == "iter" && it.args.is_empty() && cl.inputs.len() == 1 {
                            let a = (*it.receiver).clone();
                            let p = match &cl.inputs[0] { syn::Pat::Type(pt) => (*pt.pat).clone(), q => q.clone() };
                            let body = (*cl.body).clone();
                            let k = self.ctx.fresh();
                            let nn = syn::Ident::new(&format!("vx_n{}", k), proc_macro2::Span::call_site());
                            let ii = syn::Ident::new(&format!("vx_i{}", k), proc_macro2::Span::call_site());
                            let rr = syn::Ident::new(&format!("vx_all{}", k), proc_macro2::Span::call_site());
                            *e = syn::parse_quote!({
                                let mut #rr = true;
                                let #nn = #a.len();
                                for #ii in 0..#nn {
                                    let #p = &#a[#ii];
                                    if !(#body) { #rr = false; break; }
                                }
                                #rr
                            });
                            self.ctx.used("R37");
                            syn::visit_mut::visit_expr_mut(self, e);
                            return;
                        }
                    }
                }
            }
        }
        // R22: `A.iter()[.zip(B)].map(|pat| BODY).collect()`  ->  index loop pushing BODY into a fresh Vec
        if self.ctx.on("R47") {
            // R47: `X.get(K).map(|v| F)` -> `match X.get(K) { Some(v) => Some(F), None => None }` (definition of Option::map; applied only to the
            // Option returned by a `get` / `first` / `last` call, so that the verifier sees F instead of an uninterpreted closure result)
            if let syn::Expr::MethodCall(mp) = e {
                if mp.method == "map" && mp.args.len() == 1 {
                    // the same for the Option returned by a free function listed in opts.option_fns
                    if let (syn::Expr::Closure(cl), syn::Expr::Call(g)) = (&mp.args[0], &*mp.receiver) {
                        let fname = match &*g.func { syn::Expr::Path(p) => p.path.segments.last().map(|s| s.ident.to_string()), _ => None };
                        let listed = fname.map(|n| self.ctx.opts["option_fns"].as_array().map(|l| l.iter().any(|v| v.as_str() == Some(&n))).unwrap_or(false)).unwrap_or(false);
                        if listed && cl.inputs.len() == 1 {
                            let pat = match &cl.inputs[0] { syn::Pat::Type(pt) => (*pt.pat).clone(), p => p.clone() };
                            let body = &cl.body;
                            let recv = &mp.receiver;
                            let new: syn::Expr = syn::parse_quote!(match #recv { Some(#pat) => Some(#body), None => None });
                            *e = new;
                            self.ctx.used("R47");
                            syn::visit_mut::visit_expr_mut(self, e);
                            return;
                        }
                    }
                    if let (syn::Expr::Closure(cl), syn::Expr::MethodCall(g)) = (&mp.args[0], &*mp.receiver) {
                        if cl.inputs.len() == 1 && (g.method == "get" || g.method == "first" || g.method == "last") {
                            let pat = match &cl.inputs[0] { syn::Pat::Type(pt) => (*pt.pat).clone(), p => p.clone() };
                            let body = &cl.body;
                            let recv = &mp.receiver;
                            let new: syn::Expr = syn::parse_quote!(match #recv { Some(#pat) => Some(#body), None => None });
                            *e = new;
                            self.ctx.used("R47");
                            syn::visit_mut::visit_expr_mut(self, e);
                            return;
                        }
                    }
                }
            }
        }
        if self.ctx.on("R46") {
            // R46: `A.iter().zip(B).map(|(a, b)| F).sum::<f64>()` -> index loop over the shorter of the two adding F to an accumulator that
            // starts at 0.0 (std definitions of zip / map / Sum for f64; the sign of an empty sum's zero is not modelled)
            if let Some(new) = self.rewrite_zip_map_sum(e) {
                *e = new;
                self.ctx.used("R46");
                syn::visit_mut::visit_expr_mut(self, e);
                return;
            }
        }
        if self.ctx.on("R62") {
            // R62: `a.partial_cmp(b)` on floats -> the trusted stub vx_f64_partial_cmp(a, b) (prelude/f64_cmp.rs: the IEEE partial order)
            if let syn::Expr::MethodCall(mc) = e {
                if mc.method == "partial_cmp" && mc.args.len() == 1 {
                    let (a, b) = ((*mc.receiver).clone(), mc.args[0].clone());
                    *e = syn::parse_quote!(vx_f64_partial_cmp(#a, #b));
                    self.ctx.used("R62");
                    syn::visit_mut::visit_expr_mut(self, e);
                    return;
                }
            }
        }
        if self.ctx.on("R61") {
            // R61: a filtered enumeration consumed by `min` / `min_by` (std definitions: both fold over the items in order and replace the current
            // choice only when it compares Greater than the new item; `filter` sees references to the items):
            //   `A.iter().enumerate().filter(|(i, c)| C).map(|(j, _)| j).min()`                      -> smallest accepted index
            //   `A.iter().enumerate().filter(|(i, c)| C).min_by(|(_, c1), (_, c2)| CMP).map(|(j, _)| j)` -> index of the first minimum under CMP
            fn enum_filter(e: &syn::Expr) -> Option<(syn::Expr, syn::Pat, syn::Pat, syn::Expr)> {
                let syn::Expr::MethodCall(fl) = e else { return None };
                if fl.method != "filter" || fl.args.len() != 1 { return None; }
                let syn::Expr::Closure(fc) = &fl.args[0] else { return None };
                let syn::Expr::MethodCall(en) = &*fl.receiver else { return None };
                if en.method != "enumerate" || !en.args.is_empty() || fc.inputs.len() != 1 { return None; }
                let syn::Expr::MethodCall(it) = &*en.receiver else { return None };
                if it.method != "iter" || !it.args.is_empty() { return None; }
                let fpat = match &fc.inputs[0] { syn::Pat::Type(pt) => (*pt.pat).clone(), p => p.clone() };
                let syn::Pat::Tuple(ft) = &fpat else { return None };
                if ft.elems.len() != 2 { return None; }
                Some(((*it.receiver).clone(), ft.elems[0].clone(), ft.elems[1].clone(), (*fc.body).clone()))
            }
            fn index_projection(e: &syn::Expr) -> bool {
                // |(j, _)| j
                let syn::Expr::Closure(c) = e else { return false };
                if c.inputs.len() != 1 { return false; }
                let p = match &c.inputs[0] { syn::Pat::Type(pt) => (*pt.pat).clone(), p => p.clone() };
                let syn::Pat::Tuple(t) = &p else { return false };
                if t.elems.len() != 2 || !matches!(t.elems[1], syn::Pat::Wild(_)) { return false; }
                let (syn::Pat::Ident(pi), syn::Expr::Path(bp)) = (&t.elems[0], &*c.body) else { return false };
                bp.path.is_ident(&pi.ident)
            }
            let mut rep: Option<syn::Expr> = None;
            if let syn::Expr::MethodCall(top) = &*e {
                // form 1: X.map(|(j, _)| j).min()
                if top.method == "min" && top.args.is_empty() {
                    if let syn::Expr::MethodCall(mp) = &*top.receiver {
                        if mp.method == "map" && mp.args.len() == 1 && index_projection(&mp.args[0]) {
                            if let Some((a, f0, f1, cond)) = enum_filter(&mp.receiver) {
                                let k = self.ctx.fresh();
                                let nn = syn::Ident::new(&format!("vx_n{}", k), proc_macro2::Span::call_site());
                                let ii = syn::Ident::new(&format!("vx_i{}", k), proc_macro2::Span::call_site());
                                let bb = syn::Ident::new(&format!("vx_best{}", k), proc_macro2::Span::call_site());
                                let kp = syn::Ident::new(&format!("vx_keep{}", k), proc_macro2::Span::call_site());
                                rep = Some(syn::parse_quote!({
                                    let mut #bb: Option<usize> = None;
                                    let #nn = #a.len();
                                    for #ii in 0..#nn {
                                        let #kp = { let #f0 = &#ii; let #f1 = &&#a[#ii]; #cond };
                                        if #kp {
                                            #bb = match #bb { None => Some(#ii), Some(vx_b) => if vx_b > #ii { Some(#ii) } else { Some(vx_b) } };
                                        }
                                    }
                                    #bb
                                }));
                            }
                        }
                    }
                }
                // form 2: X.min_by(|(_, c1), (_, c2)| CMP).map(|(j, _)| j)
                if top.method == "map" && top.args.len() == 1 && index_projection(&top.args[0]) {
                    if let syn::Expr::MethodCall(mb) = &*top.receiver {
                        if mb.method == "min_by" && mb.args.len() == 1 {
                            if let (Some((a, f0, f1, cond)), syn::Expr::Closure(cc)) = (enum_filter(&mb.receiver), &mb.args[0]) {
                                if cc.inputs.len() == 2 {
                                    let second = |p: &syn::Pat| -> Option<syn::Pat> {
                                        let p = match p { syn::Pat::Type(pt) => (*pt.pat).clone(), p => p.clone() };
                                        if let syn::Pat::Tuple(t) = &p { if t.elems.len() == 2 && matches!(t.elems[0], syn::Pat::Wild(_)) { return Some(t.elems[1].clone()); } }
                                        None
                                    };
                                    if let (Some(c1), Some(c2)) = (second(&cc.inputs[0]), second(&cc.inputs[1])) {
                                        let cmp = (*cc.body).clone();
                                        let k = self.ctx.fresh();
                                        let nn = syn::Ident::new(&format!("vx_n{}", k), proc_macro2::Span::call_site());
                                        let ii = syn::Ident::new(&format!("vx_i{}", k), proc_macro2::Span::call_site());
                                        let bb = syn::Ident::new(&format!("vx_best{}", k), proc_macro2::Span::call_site());
                                        let kp = syn::Ident::new(&format!("vx_keep{}", k), proc_macro2::Span::call_site());
                                        rep = Some(syn::parse_quote!({
                                            let mut #bb: Option<usize> = None;
                                            let #nn = #a.len();
                                            for #ii in 0..#nn {
                                                let #kp = { let #f0 = &#ii; let #f1 = &&#a[#ii]; #cond };
                                                if #kp {
                                                    #bb = match #bb {
                                                        None => Some(#ii),
                                                        Some(vx_b) => {
                                                            let #c1 = &#a[vx_b];
                                                            let #c2 = &#a[#ii];
                                                            match #cmp { core::cmp::Ordering::Greater => Some(#ii), _ => Some(vx_b) }
                                                        }
                                                    };
                                                }
                                            }
                                            #bb
                                        }));
                                    }
                                }
                            }
                        }
                    }
                }
            }
            if let Some(new) = rep {
                *e = new;
                self.ctx.used("R61");
                syn::visit_mut::visit_expr_mut(self, e);
                return;
            }
        }
        if self.ctx.on("R65") {
            // R65: over a listed map M (std definitions of filter / map / collect; entries in insertion order):
            //   `M.iter().filter(|(k, v)| C).map(|(k2, v2)| E).collect()`                      -> Vec of E for the accepted entries
            //   `M.into_iter().filter(|(k, v)| C).collect::<IndexMap<String, T>>()`            -> new map with the accepted entries, in order
            if let syn::Expr::MethodCall(col) = e {
                if col.method == "collect" && col.args.is_empty() {
                    let tf = col.turbofish.as_ref().map(|t| norm(&t.args.to_token_stream().to_string())).unwrap_or_default();
                    // form 1
                    if let syn::Expr::MethodCall(mp) = &*col.receiver {
                        if mp.method == "map" && mp.args.len() == 1 {
                            if let (syn::Expr::Closure(mc), syn::Expr::MethodCall(fl)) = (&mp.args[0], &*mp.receiver) {
                                if fl.method == "filter" && fl.args.len() == 1 && mc.inputs.len() == 1 {
                                    if let (syn::Expr::Closure(fc), syn::Expr::MethodCall(it)) = (&fl.args[0], &*fl.receiver) {
                                        if it.method == "iter" && it.args.is_empty() && is_r13_map(self.ctx, &it.receiver) && fc.inputs.len() == 1 {
                                            let fpat = match &fc.inputs[0] { syn::Pat::Type(pt) => (*pt.pat).clone(), p => p.clone() };
                                            let mpat = match &mc.inputs[0] { syn::Pat::Type(pt) => (*pt.pat).clone(), p => p.clone() };
                                            let m = (*it.receiver).clone();
                                            let (fbody, mbody) = ((*fc.body).clone(), (*mc.body).clone());
                                            let k = self.ctx.fresh();
                                            let nn = syn::Ident::new(&format!("vx_n{}", k), proc_macro2::Span::call_site());
                                            let ii = syn::Ident::new(&format!("vx_i{}", k), proc_macro2::Span::call_site());
                                            let oo = syn::Ident::new(&format!("vx_out{}", k), proc_macro2::Span::call_site());
                                            let kp = syn::Ident::new(&format!("vx_keep{}", k), proc_macro2::Span::call_site());
                                            let en = syn::Ident::new(&format!("vx_en{}", k), proc_macro2::Span::call_site());
                                            *e = syn::parse_quote!({
                                                let mut #oo = Vec::new();
                                                let #nn = #m.len();
                                                for #ii in 0..#nn {
                                                    let #en = #m.get_index(#ii).unwrap();
                                                    let #kp = { let #fpat = &#en; #fbody };
                                                    if #kp {
                                                        let #mpat = #en;
                                                        #oo.push(#mbody);
                                                    }
                                                }
                                                #oo
                                            });
                                            self.ctx.used("R65");
                                            syn::visit_mut::visit_expr_mut(self, e);
                                            return;
                                        }
                                    }
                                }
                            }
                        }
                    }
                    // form 2
                    if tf.starts_with("IndexMap<String,") {
                        if let syn::Expr::MethodCall(fl) = &*col.receiver {
                            if fl.method == "filter" && fl.args.len() == 1 {
                                if let (syn::Expr::Closure(fc), syn::Expr::MethodCall(it)) = (&fl.args[0], &*fl.receiver) {
                                    if it.method == "into_iter" && it.args.is_empty() && is_r13_map(self.ctx, &it.receiver) && fc.inputs.len() == 1 {
                                        let fpat = match &fc.inputs[0] { syn::Pat::Type(pt) => (*pt.pat).clone(), p => p.clone() };
                                        let m = (*it.receiver).clone();
                                        let fbody = (*fc.body).clone();
                                        let mty: syn::Type = syn::parse_str(&tf).unwrap_or_else(|_| syn::parse_quote!(IndexMap<String, _>));
                                        let k = self.ctx.fresh();
                                        let nn = syn::Ident::new(&format!("vx_n{}", k), proc_macro2::Span::call_site());
                                        let ii = syn::Ident::new(&format!("vx_i{}", k), proc_macro2::Span::call_site());
                                        let oo = syn::Ident::new(&format!("vx_m{}", k), proc_macro2::Span::call_site());
                                        let ss = syn::Ident::new(&format!("vx_src{}", k), proc_macro2::Span::call_site());
                                        let kp = syn::Ident::new(&format!("vx_keep{}", k), proc_macro2::Span::call_site());
                                        let en = syn::Ident::new(&format!("vx_en{}", k), proc_macro2::Span::call_site());
                                        *e = syn::parse_quote!({
                                            let mut #oo: #mty = IndexMap::new();
                                            let #ss = #m;
                                            let #nn = #ss.len();
                                            for #ii in 0..#nn {
                                                let #en = #ss.get_index(#ii).unwrap();
                                                let #kp = { let #fpat = &#en; #fbody };
                                                if #kp { #oo.insert(#en.0.clone(), #en.1.clone()); }
                                            }
                                            #oo
                                        });
                                        self.ctx.used("R65");
                                        syn::visit_mut::visit_expr_mut(self, e);
                                        return;
                                    }
                                }
                            }
                        }
                    }
                }
            }
        }
        if self.ctx.on("R66") {
            // R66: on a Vec<String> listed in opts.string_vecs: `V.sort()` -> trusted vx_sort_strings(&mut V) (a permutation in a total order);
            // `V.contains(x)` -> trusted vx_contains_string(&V, x) (some element has the same characters)
            if let syn::Expr::MethodCall(mc) = e {
                let rtxt = norm(&mc.receiver.to_token_stream().to_string());
                let listed = self.ctx.opts["string_vecs"].as_array().map(|a| a.iter().any(|v| v.as_str().map(norm).as_deref() == Some(&rtxt))).unwrap_or(false);
                if listed && mc.method == "sort" && mc.args.is_empty() {
                    let v = (*mc.receiver).clone();
                    *e = syn::parse_quote!(vx_sort_strings(&mut #v));
                    self.ctx.used("R66");
                    return;
                }
                if listed && mc.method == "contains" && mc.args.len() == 1 {
                    let (v, x) = ((*mc.receiver).clone(), mc.args[0].clone());
                    *e = syn::parse_quote!(vx_contains_string(&#v, #x));
                    self.ctx.used("R66");
                    syn::visit_mut::visit_expr_mut(self, e);
                    return;
                }
            }
        }
        if self.ctx.on("R64") {
            // R64: `A.into_iter().flatten().collect()` over a Vec<Option<T>> -> loop that moves the elements out in order and pushes the payload of
            // every `Some` (std: Option is an iterator over zero or one item; flatten concatenates in order)
            if let syn::Expr::MethodCall(col) = e {
                if col.method == "collect" && col.args.is_empty() {
                    if let syn::Expr::MethodCall(fl) = &*col.receiver {
                        if fl.method == "flatten" && fl.args.is_empty() {
                            if let syn::Expr::MethodCall(it) = &*fl.receiver {
                                if it.method == "into_iter" && it.args.is_empty() {
                                    let a = (*it.receiver).clone();
                                    let k = self.ctx.fresh();
                                    let nn = syn::Ident::new(&format!("vx_n{}", k), proc_macro2::Span::call_site());
                                    let ii = syn::Ident::new(&format!("vx_i{}", k), proc_macro2::Span::call_site());
                                    let oo = syn::Ident::new(&format!("vx_out{}", k), proc_macro2::Span::call_site());
                                    let ss = syn::Ident::new(&format!("vx_src{}", k), proc_macro2::Span::call_site());
                                    *e = syn::parse_quote!({
                                        let mut #oo = Vec::new();
                                        let #ss = #a;
                                        let #nn = #ss.len();
                                        for #ii in 0..#nn {
                                            match vx_vec_take(&#ss, #ii) { Some(vx_fl_v) => { #oo.push(vx_fl_v); } None => {} }
                                        }
                                        #oo
                                    });
                                    self.ctx.used("R64");
                                    syn::visit_mut::visit_expr_mut(self, e);
                                    return;
                                }
                            }
                        }
                    }
                }
            }
        }
        if self.ctx.on("R60") {
            // R60: `A.iter().enumerate().filter(|(i, a)| C).map(|(j, b)| E).collect()` -> index loop: for every position in order, if C holds for
            // (&k, &&A[k]) the value E for (k, &A[k]) is pushed (std definitions of enumerate / filter / map / collect; filter sees references to the items)
            if let syn::Expr::MethodCall(col) = e {
                if col.method == "collect" && col.args.is_empty() {
                    if let syn::Expr::MethodCall(map) = &*col.receiver {
                        if map.method == "map" && map.args.len() == 1 {
                            if let (syn::Expr::Closure(mc), syn::Expr::MethodCall(fl)) = (&map.args[0], &*map.receiver) {
                                if fl.method == "filter" && fl.args.len() == 1 && mc.inputs.len() == 1 {
                                    if let (syn::Expr::Closure(fc), syn::Expr::MethodCall(en)) = (&fl.args[0], &*fl.receiver) {
                                        if en.method == "enumerate" && en.args.is_empty() && fc.inputs.len() == 1 {
                                            if let syn::Expr::MethodCall(it) = &*en.receiver {
                                                let fpat = match &fc.inputs[0] { syn::Pat::Type(pt) => (*pt.pat).clone(), p => p.clone() };
                                                let mpat = match &mc.inputs[0] { syn::Pat::Type(pt) => (*pt.pat).clone(), p => p.clone() };
                                                if let (true, syn::Pat::Tuple(ft), syn::Pat::Tuple(mt)) = (it.method == "iter" && it.args.is_empty(), &fpat, &mpat) {
                                                    if ft.elems.len() == 2 && mt.elems.len() == 2 {
                                                        let a = (*it.receiver).clone();
                                                        let (f0, f1) = (ft.elems[0].clone(), ft.elems[1].clone());
                                                        let (m0, m1) = (mt.elems[0].clone(), mt.elems[1].clone());
                                                        let (fbody, mbody) = ((*fc.body).clone(), (*mc.body).clone());
                                                        let k = self.ctx.fresh();
                                                        let nn = syn::Ident::new(&format!("vx_n{}", k), proc_macro2::Span::call_site());
                                                        let ii = syn::Ident::new(&format!("vx_i{}", k), proc_macro2::Span::call_site());
                                                        let oo = syn::Ident::new(&format!("vx_fc{}", k), proc_macro2::Span::call_site());
                                                        let kp = syn::Ident::new(&format!("vx_keep{}", k), proc_macro2::Span::call_site());
                                                        *e = syn::parse_quote!({
                                                            let mut #oo = Vec::new();
                                                            let #nn = #a.len();
                                                            for #ii in 0..#nn {
                                                                let #kp = { let #f0 = &#ii; let #f1 = &&#a[#ii]; #fbody };
                                                                if #kp {
                                                                    let #m0 = #ii;
                                                                    let #m1 = &#a[#ii];
                                                                    #oo.push(#mbody);
                                                                }
                                                            }
                                                            #oo
                                                        });
                                                        self.ctx.used("R60");
                                                        syn::visit_mut::visit_expr_mut(self, e);
                                                        return;
                                                    }
                                                }
                                            }
                                        }
                                    }
                                }
                            }
                        }
                    }
                }
            }
        }
        if self.ctx.on("R59") {
            // R59b: `M.iter().filter_map(|(k, v)| BODY).collect::<Vec<T>>()` over a listed map -> position loop over its entries in order that
            // pushes the payload of every `Some` BODY yields (std definitions of filter_map / collect)
            if let syn::Expr::MethodCall(col) = e {
                let tf = col.turbofish.as_ref().map(|t| norm(&t.args.to_token_stream().to_string())).unwrap_or_default();
                if col.method == "collect" && col.args.is_empty() && tf.starts_with("Vec<") {
                    if let syn::Expr::MethodCall(fm) = &*col.receiver {
                        if fm.method == "filter_map" && fm.args.len() == 1 {
                            if let (syn::Expr::Closure(cl), syn::Expr::MethodCall(it)) = (&fm.args[0], &*fm.receiver) {
                                if it.method == "iter" && it.args.is_empty() && is_r13_map(self.ctx, &it.receiver) && cl.inputs.len() == 1 {
                                    let pat = match &cl.inputs[0] { syn::Pat::Type(pt) => (*pt.pat).clone(), p => p.clone() };
                                    let m = (*it.receiver).clone();
                                    let body = (*cl.body).clone();
                                    let vty: syn::Type = syn::parse_str(&tf).unwrap_or_else(|_| syn::parse_quote!(Vec<_>));
                                    let k = self.ctx.fresh();
                                    let nn = syn::Ident::new(&format!("vx_n{}", k), proc_macro2::Span::call_site());
                                    let ii = syn::Ident::new(&format!("vx_i{}", k), proc_macro2::Span::call_site());
                                    let oo = syn::Ident::new(&format!("vx_fm{}", k), proc_macro2::Span::call_site());
                                    let decl: syn::Stmt = if tf == "Vec<_>" { syn::parse_quote!(let mut #oo = Vec::new();) } else { syn::parse_quote!(let mut #oo: #vty = Vec::new();) };
                                    *e = syn::parse_quote!({
                                        #decl
                                        let #nn = #m.len();
                                        for #ii in 0..#nn {
                                            let #pat = #m.get_index(#ii).unwrap();
                                            match #body { Some(vx_fm_v) => { #oo.push(vx_fm_v); } None => {} }
                                        }
                                        #oo
                                    });
                                    self.ctx.used("R59");
                                    syn::visit_mut::visit_expr_mut(self, e);
                                    return;
                                }
                            }
                        }
                    }
                }
            }
        }
        if self.ctx.on("R59") {
            // R59: `A.iter().enumerate().filter_map(|(i, v)| BODY).collect::<Vec<T>>()` -> index loop that pushes the payload of every `Some` BODY
            // yields, in order (std definitions of enumerate / filter_map / collect)
            if let syn::Expr::MethodCall(col) = e {
                let tf = col.turbofish.as_ref().map(|t| norm(&t.args.to_token_stream().to_string())).unwrap_or_default();
                if col.method == "collect" && col.args.is_empty() && tf.starts_with("Vec<") {
                    if let syn::Expr::MethodCall(fm) = &*col.receiver {
                        if fm.method == "filter_map" && fm.args.len() == 1 {
                            if let (syn::Expr::Closure(cl), syn::Expr::MethodCall(en)) = (&fm.args[0], &*fm.receiver) {
                                if en.method == "enumerate" && en.args.is_empty() && cl.inputs.len() == 1 {
                                    if let (syn::Expr::MethodCall(it), syn::Pat::Tuple(tp)) = (&*en.receiver, match &cl.inputs[0] { syn::Pat::Type(pt) => &*pt.pat, p => p }) {
                                        if it.method == "iter" && it.args.is_empty() && tp.elems.len() == 2 {
                                            let a = (*it.receiver).clone();
                                            let (ip, vp) = (tp.elems[0].clone(), tp.elems[1].clone());
                                            let body = (*cl.body).clone();
                                            let vty: syn::Type = syn::parse_str(&tf).unwrap_or_else(|_| syn::parse_quote!(Vec<_>));
                                            let k = self.ctx.fresh();
                                            let nn = syn::Ident::new(&format!("vx_n{}", k), proc_macro2::Span::call_site());
                                            let ii = syn::Ident::new(&format!("vx_i{}", k), proc_macro2::Span::call_site());
                                            let oo = syn::Ident::new(&format!("vx_fm{}", k), proc_macro2::Span::call_site());
                                            *e = syn::parse_quote!({
                                                let mut #oo: #vty = Vec::new();
                                                let #nn = #a.len();
                                                for #ii in 0..#nn {
                                                    let #ip = #ii;
                                                    let #vp = &#a[#ii];
                                                    match #body { Some(vx_fm_v) => { #oo.push(vx_fm_v); } None => {} }
                                                }
                                                #oo
                                            });
                                            self.ctx.used("R59");
                                            syn::visit_mut::visit_expr_mut(self, e);
                                            return;
                                        }
                                    }
                                }
                            }
                        }
                    }
                }
            }
        }
        if self.ctx.on("R22") {
            if let Some(new) = self.rewrite_map_collect(e) {
                *e = new;
                self.ctx.used("R22");
                syn::visit_mut::visit_expr_mut(self, e);
                return;
            }
        }
        // R11 / R4 act on loops before descending
        if let syn::Expr::ForLoop(fl) = e {
            if self.ctx.on("R13") {
                // R13: iteration over an insertion-ordered map listed in opts.r13_maps -> index loop over get_index / set_index
                let (recv, mode): (Option<syn::Expr>, &str) = match &*fl.expr {
                    syn::Expr::MethodCall(m) if m.method == "iter_mut" && m.args.is_empty() => (Some((*m.receiver).clone()), "mut"),
                    syn::Expr::MethodCall(m) if m.method == "iter" && m.args.is_empty() => (Some((*m.receiver).clone()), "ref"),
                    syn::Expr::Reference(r) if r.mutability.is_none() => (Some((*r.expr).clone()), "ref"),
                    other => (Some(other.clone()), "val"),
                };
                // R13n: `for (k, v) in M` over a `&mut` map listed with mode `mutv`: the value is copied out, the body runs on the copy (method calls on
                // `v`), and the copy is written back at the same position at the end of the body and in front of every `continue` of this loop
                if let syn::Pat::Tuple(tp) = &*fl.pat {
                    let rtxt = norm(&fl.expr.to_token_stream().to_string());
                    let is_mutv = self.ctx.opts["r13_maps"].as_array().map(|a| a.iter().any(|v| v.as_str().map(|t| norm(t) == format!("{}:mutv", rtxt)).unwrap_or(false))).unwrap_or(false);
                    if is_mutv && tp.elems.len() == 2 {
                        if let (syn::Pat::Ident(kid), syn::Pat::Ident(vid)) = (&tp.elems[0], &tp.elems[1]) {
                            let recv = (*fl.expr).clone();
                            let k = self.ctx.fresh();
                            let nn = syn::Ident::new(&format!("vx_n{}", k), proc_macro2::Span::call_site());
                            let ii = syn::Ident::new(&format!("vx_i{}", k), proc_macro2::Span::call_site());
                            let cc = syn::Ident::new(&format!("vx_c{}", k), proc_macro2::Span::call_site());
                            let vv = syn::Ident::new(&format!("vx_v{}", k), proc_macro2::Span::call_site());
                            let kk = syn::Ident::new(&format!("vx_k{}", k), proc_macro2::Span::call_site());
                            let mut body = fl.body.clone();
                            let cur: syn::Expr = syn::parse_quote!(#vv);
                            let mut dr = DerefReplacer { ident: vid.ident.to_string(), rep: cur.clone(), n: 0 };
                            dr.visit_block_mut(&mut body);
                            let mut pr = PathReplacer { ident: vid.ident.to_string(), rep: cur };
                            pr.visit_block_mut(&mut body);
                            // write back in front of every `continue` that belongs to this loop
                            struct ContinueFix { recv: syn::Expr, cc: syn::Ident, vv: syn::Ident }
                            impl VisitMut for ContinueFix {
                                fn visit_expr_mut(&mut self, e: &mut syn::Expr) {
                                    match e {
                                        syn::Expr::ForLoop(_) | syn::Expr::While(_) | syn::Expr::Loop(_) | syn::Expr::Closure(_) => {}
                                        syn::Expr::Continue(_) => { let (r, c, v) = (&self.recv, &self.cc, &self.vv); *e = syn::parse_quote!({ #r.set_index(#c, #v); continue; }); }
                                        _ => syn::visit_mut::visit_expr_mut(self, e),
                                    }
                                }
                            }
                            ContinueFix { recv: recv.clone(), cc: cc.clone(), vv: vv.clone() }.visit_block_mut(&mut body);
                            let kpat = &kid.ident;
                            let stmts = &body.stmts;
                            let label = fl.label.clone();
                            let new: syn::Expr = syn::parse_quote!({
                                let #nn = #recv.len();
                                let mut #ii: usize = 0;
                                #label while #ii < #nn {
                                    let #cc = #ii;
                                    #ii = #ii + 1;
                                    let #kk = #recv.get_index(#cc).unwrap().0.clone();
                                    let #kpat = &#kk;
                                    let mut #vv = #recv.value_at(#cc);
                                    #(#stmts)*
                                    #recv.set_index(#cc, #vv);
                                }
                            });
                            *e = new;
                            self.ctx.used("R13");
                            syn::visit_mut::visit_expr_mut(self, e);
                            return;
                        }
                    }
                }
                // R13m: `for v in M.values_mut() { .. v.method(..) / *v .. }` on a listed map -> index loop that copies the value out
                // (value_at), runs the body on the copy and writes it back at the same position (set_index)
                if let (syn::Expr::MethodCall(m), syn::Pat::Ident(vid)) = (&*fl.expr, &*fl.pat) {
                    if m.method == "values_mut" && m.args.is_empty() && is_r13_map(self.ctx, &m.receiver) && !has_own_continue(&fl.body) {
                        let recv = (*m.receiver).clone();
                        let k = self.ctx.fresh();
                        let nn = syn::Ident::new(&format!("vx_n{}", k), proc_macro2::Span::call_site());
                        let ii = syn::Ident::new(&format!("vx_i{}", k), proc_macro2::Span::call_site());
                        let vv = syn::Ident::new(&format!("vx_v{}", k), proc_macro2::Span::call_site());
                        let mut body = fl.body.clone();
                        let cur: syn::Expr = syn::parse_quote!(#vv);
                        let mut dr = DerefReplacer { ident: vid.ident.to_string(), rep: cur.clone(), n: 0 };
                        dr.visit_block_mut(&mut body);
                        let mut pr = PathReplacer { ident: vid.ident.to_string(), rep: cur };
                        pr.visit_block_mut(&mut body);
                        let stmts = &body.stmts;
                        let label = fl.label.clone();
                        let new: syn::Expr = syn::parse_quote!({
                            let #nn = #recv.len();
                            #label for #ii in 0..#nn {
                                let mut #vv = #recv.value_at(#ii);
                                #(#stmts)*
                                #recv.set_index(#ii, #vv);
                            }
                        });
                        *e = new;
                        self.ctx.used("R13");
                        syn::visit_mut::visit_expr_mut(self, e);
                        return;
                    }
                }
                if let (Some(recv), syn::Pat::Tuple(tp)) = (recv, &*fl.pat) {
                    let rtxt = norm(&recv.to_token_stream().to_string());
                    // entries: "<receiver expr>" or "<receiver expr>:ref|val|mut" (explicit mode when the syntax does not show it)
                    let mut listed = false;
                    let mut mode = mode;
                    if let Some(a) = self.ctx.opts["r13_maps"].as_array() {
                        for v in a {
                            if let Some(t) = v.as_str() {
                                let (ex, md) = match t.rsplit_once(':') { Some((x, m)) if m == "ref" || m == "val" || m == "mut" => (x, Some(m)), _ => (t, None) };
                                if norm(ex) == rtxt {
                                    listed = true;
                                    if let Some(m) = md { mode = if m == "ref" { "ref" } else if m == "val" { "val" } else { "mut" }; }
                                }
                            }
                        }
                    }
                    if listed && tp.elems.len() == 2 {
                        let k = self.ctx.fresh();
                        let nn = syn::Ident::new(&format!("vx_n{}", k), proc_macro2::Span::call_site());
                        let ii = syn::Ident::new(&format!("vx_i{}", k), proc_macro2::Span::call_site());
                        let kv = syn::Ident::new(&format!("vx_kv{}", k), proc_macro2::Span::call_site());
                        let kpat = tp.elems[0].clone();
                        let vpat = tp.elems[1].clone();
                        let mut body = fl.body.clone();
                        let label = fl.label.clone();
                        let mut pre: Vec<syn::Stmt> = vec![];
                        let is_wild = |p: &syn::Pat| matches!(p, syn::Pat::Wild(_));
                        match mode {
                            "mut" => {
                                // `*v = E`  ->  recv.set_index(i, E')   and other `*v` -> current value
                                if let syn::Pat::Ident(vid) = &vpat {
                                    let cur: syn::Expr = syn::parse_quote!((*#recv.get_index(#ii).unwrap().1));
                                    let mut ar = AssignReplacer { ident: vid.ident.to_string(), recv: recv.clone(), idx: ii.clone(), n: 0 };
                                    ar.visit_block_mut(&mut body);
                                    let mut dr = DerefReplacer { ident: vid.ident.to_string(), rep: cur, n: 0 };
                                    dr.visit_block_mut(&mut body);
                                    if mentions(&body, &vid.ident.to_string()) {
                                        crate::lost(&format!("R13: `{}` of an iter_mut() map loop is used other than as `*{}`", vid.ident, vid.ident));
                                    }
                                } else if !is_wild(&vpat) {
                                    crate::lost("R13: iter_mut() map loop needs a simple value binding");
                                }
                                if !is_wild(&kpat) {
                                    pre.push(syn::parse_quote!(let #kpat = #recv.get_index(#ii).unwrap().0;));
                                }
                            }
                            "ref" => {
                                pre.push(syn::parse_quote!(let #kv = #recv.get_index(#ii).unwrap();));
                                if !is_wild(&kpat) { pre.push(syn::parse_quote!(let #kpat = #kv.0;)); }
                                if !is_wild(&vpat) { pre.push(syn::parse_quote!(let #vpat = #kv.1;)); }
                            }
                            _ => {
                                pre.push(syn::parse_quote!(let #kv = #recv.get_index(#ii).unwrap();));
                                if !is_wild(&kpat) { pre.push(syn::parse_quote!(let #kpat = #kv.0.clone();)); }
                                if !is_wild(&vpat) { pre.push(syn::parse_quote!(let #vpat = *#kv.1;)); }
                            }
                        }
                        let stmts = &body.stmts;
                        let new: syn::Expr = syn::parse_quote!({
                            let #nn = #recv.len();
                            #label for #ii in 0..#nn {
                                #(#pre)*
                                #(#stmts)*
                            }
                        });
                        *e = new;
                        self.ctx.used("R13");
                        syn::visit_mut::visit_expr_mut(self, e);
                        return;
                    }
                }
            }
            if self.ctx.on("R38") {
                // R38: `for ((a, b), c) in A.iter().zip(B.iter()).zip(C.iter())` -> index loop over the shortest of the three (std definition of zip)
                if let (syn::Expr::MethodCall(z2), syn::Pat::Tuple(tp)) = (&*fl.expr, &*fl.pat) {
                    if z2.method == "zip" && z2.args.len() == 1 && tp.elems.len() == 2 {
                        if let (syn::Expr::MethodCall(z1), syn::Pat::Tuple(tp1)) = (&*z2.receiver, &tp.elems[0]) {
                            if z1.method == "zip" && z1.args.len() == 1 && tp1.elems.len() == 2 {
                                let it = |e: &syn::Expr| -> Option<syn::Expr> { match e { syn::Expr::MethodCall(m) if m.method == "iter" && m.args.is_empty() => Some((*m.receiver).clone()), _ => None } };
                                if let (Some(a), Some(b), Some(c)) = (it(&z1.receiver), it(&z1.args[0]), it(&z2.args[0])) {
                                    let k = self.ctx.fresh();
                                    let nn = syn::Ident::new(&format!("vx_n{}", k), proc_macro2::Span::call_site());
                                    let ii = syn::Ident::new(&format!("vx_i{}", k), proc_macro2::Span::call_site());
                                    let (pa, pb, pc) = (tp1.elems[0].clone(), tp1.elems[1].clone(), tp.elems[1].clone());
                                    let stmts = &fl.body.stmts;
                                    let label = fl.label.clone();
                                    let new: syn::Expr = syn::parse_quote!({
                                        let #nn = { let vx_la = #a.len(); let vx_lb = #b.len(); let vx_lc = #c.len(); let vx_m = if vx_la < vx_lb { vx_la } else { vx_lb }; if vx_m < vx_lc { vx_m } else { vx_lc } };
                                        #label for #ii in 0..#nn {
                                            let #pa = &#a[#ii];
                                            let #pb = &#b[#ii];
                                            let #pc = &#c[#ii];
                                            #(#stmts)*
                                        }
                                    });
                                    *e = new;
                                    self.ctx.used("R38");
                                    syn::visit_mut::visit_expr_mut(self, e);
                                    return;
                                }
                            }
                        }
                    }
                }
            }
            if self.ctx.on("R26") {
                // R26v: `for x in V` consuming a Vec listed in opts.vec_loops_by_value -> index loop, `x` is the element moved out (trusted vx_vec_take)
                let rtxt = norm(&fl.expr.to_token_stream().to_string());
                let listed = self.ctx.opts["vec_loops_by_value"].as_array().map(|a| a.iter().any(|v| v.as_str().map(norm).as_deref() == Some(&rtxt))).unwrap_or(false);
                if listed {
                    let k = self.ctx.fresh();
                    let nn = syn::Ident::new(&format!("vx_n{}", k), proc_macro2::Span::call_site());
                    let ii = syn::Ident::new(&format!("vx_i{}", k), proc_macro2::Span::call_site());
                    let vv = syn::Ident::new(&format!("vx_v{}", k), proc_macro2::Span::call_site());
                    // `for x in V.into_iter()` is `for x in V`
                    let recv: syn::Expr = match &*fl.expr {
                        syn::Expr::MethodCall(it) if it.method == "into_iter" && it.args.is_empty() => (*it.receiver).clone(),
                        other => other.clone(),
                    };
                    let pat = fl.pat.clone();
                    let stmts = &fl.body.stmts;
                    let label = fl.label.clone();
                    let new: syn::Expr = syn::parse_quote!({
                        let #vv = #recv;
                        let #nn = #vv.len();
                        #label for #ii in 0..#nn {
                            let #pat = vx_vec_take(&#vv, #ii);
                            #(#stmts)*
                        }
                    });
                    *e = new;
                    self.ctx.used("R26");
                    syn::visit_mut::visit_expr_mut(self, e);
                    return;
                }
            }
            if self.ctx.on("R42") {
                // R42: `for i in (A..B).rev() { body }` -> while loop counting down (std definition of Rev over a range)
                if let (syn::Expr::MethodCall(rv), syn::Pat::Ident(pid)) = (&*fl.expr, &*fl.pat) {
                    if rv.method == "rev" && rv.args.is_empty() {
                        let inner = match &*rv.receiver { syn::Expr::Paren(p) => (*p.expr).clone(), other => other.clone() };
                        if let syn::Expr::Range(r) = &inner {
                            if let (Some(start), Some(end), syn::RangeLimits::HalfOpen(_)) = (&r.start, &r.end, &r.limits) {
                                let k = self.ctx.fresh();
                                let jj = syn::Ident::new(&format!("vx_j{}", k), proc_macro2::Span::call_site());
                                let lo = syn::Ident::new(&format!("vx_lo{}", k), proc_macro2::Span::call_site());
                                let id = pid.ident.clone();
                                let stmts = &fl.body.stmts;
                                let label = fl.label.clone();
                                let new: syn::Expr = syn::parse_quote!({
                                    let #lo: usize = #start;
                                    let mut #jj: usize = #end;
                                    #label while #jj > #lo {
                                        #jj = #jj - 1;
                                        let #id = #jj;
                                        #(#stmts)*
                                    }
                                });
                                *e = new;
                                self.ctx.used("R42");
                                syn::visit_mut::visit_expr_mut(self, e);
                                return;
                            }
                        }
                    }
                }
            }
            if self.ctx.on("R36") {
                // R36: `for i in A..B { ... continue ... }` -> while loop whose index is advanced at the top of the body (the verifier's
                // for-loops do not take `continue`); the bounds are evaluated once, as for a range
                if let (syn::Expr::Range(r), syn::Pat::Ident(pid)) = (&*fl.expr, &*fl.pat) {
                    if let (Some(start), Some(end), syn::RangeLimits::HalfOpen(_)) = (&r.start, &r.end, &r.limits) {
                        if has_own_continue(&fl.body) {
                            let k = self.ctx.fresh();
                            let nn = syn::Ident::new(&format!("vx_n{}", k), proc_macro2::Span::call_site());
                            let ii = syn::Ident::new(&format!("vx_i{}", k), proc_macro2::Span::call_site());
                            let id = pid.ident.clone();
                            let stmts = &fl.body.stmts;
                            let label = fl.label.clone();
                            let new: syn::Expr = syn::parse_quote!({
                                let mut #ii: usize = #start;
                                let #nn: usize = #end;
                                #label while #ii < #nn {
                                    let #id = #ii;
                                    #ii = #ii + 1;
                                    #(#stmts)*
                                }
                            });
                            *e = new;
                            self.ctx.used("R36");
                            syn::visit_mut::visit_expr_mut(self, e);
                            return;
                        }
                    }
                }
            }
            if self.ctx.on("R55") {
                // R55: `for x in S` consuming a set listed in opts.sset_loops: the set is first turned into a vector of its elements
                // (trusted stub vx_into_vec: some order, every element once), then the vector loop rule applies
                let rtxt = norm(&fl.expr.to_token_stream().to_string());
                let listed = self.ctx.opts["sset_loops"].as_array().map(|a| a.iter().any(|v| v.as_str().map(norm).as_deref() == Some(&rtxt))).unwrap_or(false);
                if listed {
                    let k = self.ctx.fresh();
                    let nn = syn::Ident::new(&format!("vx_n{}", k), proc_macro2::Span::call_site());
                    let ii = syn::Ident::new(&format!("vx_i{}", k), proc_macro2::Span::call_site());
                    let vv = syn::Ident::new(&format!("vx_v{}", k), proc_macro2::Span::call_site());
                    let recv = (*fl.expr).clone();
                    let pat = fl.pat.clone();
                    let stmts = &fl.body.stmts;
                    let label = fl.label.clone();
                    let new: syn::Expr = syn::parse_quote!({
                        let #vv = #recv.vx_into_vec();
                        let #nn = #vv.len();
                        #label for #ii in 0..#nn {
                            let #pat = vx_vec_take(&#vv, #ii);
                            #(#stmts)*
                        }
                    });
                    *e = new;
                    self.ctx.used("R55");
                    syn::visit_mut::visit_expr_mut(self, e);
                    return;
                }
            }
            if self.ctx.on("R26") {
                // R26: `for x in V` over a (reference to a) Vec listed in opts.vec_loops -> index loop `let x = &V[i]`
                let rtxt = norm(&fl.expr.to_token_stream().to_string());
                let listed = self.ctx.opts["vec_loops"].as_array().map(|a| a.iter().any(|v| v.as_str().map(norm).as_deref() == Some(&rtxt))).unwrap_or(false);
                if listed {
                    let k = self.ctx.fresh();
                    let nn = syn::Ident::new(&format!("vx_n{}", k), proc_macro2::Span::call_site());
                    let ii = syn::Ident::new(&format!("vx_i{}", k), proc_macro2::Span::call_site());
                    let vv = syn::Ident::new(&format!("vx_v{}", k), proc_macro2::Span::call_site());
                    // `for x in V.iter()` is `for x in &V`
                    let recv: syn::Expr = match &*fl.expr {
                        syn::Expr::MethodCall(it) if it.method == "iter" && it.args.is_empty() => { let inner = &it.receiver; syn::parse_quote!(&#inner) }
                        other => other.clone(),
                    };
                    let pat = fl.pat.clone();
                    let stmts = &fl.body.stmts;
                    let label = fl.label.clone();
                    let new: syn::Expr = syn::parse_quote!({
                        let #vv = #recv;
                        let #nn = #vv.len();
                        #label for #ii in 0..#nn {
                            let #pat = &#vv[#ii];
                            #(#stmts)*
                        }
                    });
                    *e = new;
                    self.ctx.used("R26");
                    syn::visit_mut::visit_expr_mut(self, e);
                    return;
                }
            }
            if self.ctx.on("R56") {
                // R56b: `for c in A.iter_mut() { B }` (B without `continue`) -> index loop: the element is taken out, B runs on it, it is written back
                if let (syn::Expr::MethodCall(it), syn::Pat::Ident(pid)) = (&*fl.expr, &*fl.pat) {
                    if it.method == "iter_mut" && it.args.is_empty() && !has_own_continue(&fl.body) {
                        let a = (*it.receiver).clone();
                        let c = pid.ident.clone();
                        let stmts = &fl.body.stmts;
                        let k = self.ctx.fresh();
                        let nn = syn::Ident::new(&format!("vx_n{}", k), proc_macro2::Span::call_site());
                        let ii = syn::Ident::new(&format!("vx_i{}", k), proc_macro2::Span::call_site());
                        let new: syn::Expr = syn::parse_quote!({
                            let #nn = #a.len();
                            for #ii in 0..#nn {
                                let mut #c = vx_vec_take(&#a, #ii);
                                #(#stmts)*
                                #a.set(#ii, #c);
                            }
                        });
                        *e = new;
                        self.ctx.used("R56");
                        syn::visit_mut::visit_expr_mut(self, e);
                        return;
                    }
                }
            }
            if self.ctx.on("R31") {
                // R31: `for x in &mut V { B }` over a Vec place -> index loop; `x` becomes the place `V[i]`.  The index is advanced
                // at the top of the body so that `continue` keeps its meaning.
                if let (syn::Expr::Reference(r), syn::Pat::Ident(xid)) = (&*fl.expr, &*fl.pat) {
                    if r.mutability.is_some() {
                        let recv = (*r.expr).clone();
                        let k = self.ctx.fresh();
                        let nn = syn::Ident::new(&format!("vx_n{}", k), proc_macro2::Span::call_site());
                        let ii = syn::Ident::new(&format!("vx_i{}", k), proc_macro2::Span::call_site());
                        let cc = syn::Ident::new(&format!("vx_c{}", k), proc_macro2::Span::call_site());
                        let mut body = fl.body.clone();
                        let mut pr = PathReplacer { ident: xid.ident.to_string(), rep: syn::parse_quote!(#recv[#cc]) };
                        pr.visit_block_mut(&mut body);
                        let stmts = &body.stmts;
                        let label = fl.label.clone();
                        let new: syn::Expr = syn::parse_quote!({
                            let #nn = #recv.len();
                            let mut #ii = 0usize;
                            #label while #ii < #nn {
                                let #cc = #ii;
                                #ii = #ii + 1;
                                #(#stmts)*
                            }
                        });
                        *e = new;
                        self.ctx.used("R31");
                        syn::visit_mut::visit_expr_mut(self, e);
                        return;
                    }
                }
            }
            if self.ctx.on("R4") {
                // for (i, x) in E.iter().enumerate() { B }
                if let syn::Expr::MethodCall(en) = &*fl.expr {
                    if en.method == "enumerate" {
                        if let syn::Expr::MethodCall(it) = &*en.receiver {
                            if it.method == "iter_mut" {
                                if let syn::Pat::Tuple(tp) = &*fl.pat {
                                    if tp.elems.len() == 2 {
                                        if let syn::Pat::Ident(xid) = &tp.elems[1] {
                                            let ipat = tp.elems[0].clone();
                                            let recv = (*it.receiver).clone();
                                            let mut body = fl.body.clone();
                                            let k = self.ctx.fresh();
                                            let nn = syn::Ident::new(&format!("vx_n{}", k), proc_macro2::Span::call_site());
                                            let ii = syn::Ident::new(&format!("vx_i{}", k), proc_macro2::Span::call_site());
                                            let mut dr = DerefReplacer { ident: xid.ident.to_string(), rep: syn::parse_quote!(#recv[#ii]), n: 0 };
                                            dr.visit_block_mut(&mut body);
                                            if mentions(&body, &xid.ident.to_string()) {
                                                // R4t: the element is used as a whole (method calls, indexing): take it out, run the unchanged body on the owned
                                                // element, write it back (only without `continue`, which would skip the write-back)
                                                if !self.ctx.on("R56") || has_own_continue(&fl.body) {
                                                    crate::lost(&format!("R4: `{}` of an iter_mut().enumerate() loop is used other than as `*{}`", xid.ident, xid.ident));
                                                }
                                                let x = xid.ident.clone();
                                                let ostmts = &fl.body.stmts;
                                                let label = fl.label.clone();
                                                let new: syn::Expr = syn::parse_quote!({
                                                    let #nn = #recv.len();
                                                    #label for #ii in 0..#nn {
                                                        let #ipat = #ii;
                                                        let mut #x = vx_vec_take(&#recv, #ii);
                                                        #(#ostmts)*
                                                        #recv.set(#ii, #x);
                                                    }
                                                });
                                                *e = new;
                                                self.ctx.used("R4");
                                                self.ctx.used("R56");
                                                syn::visit_mut::visit_expr_mut(self, e);
                                                return;
                                            }
                                            let stmts = &body.stmts;
                                            let label = fl.label.clone();
                                            let new: syn::Expr = syn::parse_quote!({
                                                let #nn = #recv.len();
                                                #label for #ii in 0..#nn {
                                                    let #ipat = #ii;
                                                    #(#stmts)*
                                                }
                                            });
                                            *e = new;
                                            self.ctx.used("R4");
                                            syn::visit_mut::visit_expr_mut(self, e);
                                            return;
                                        }
                                    }
                                }
                            }
                            if it.method == "iter" {
                                if let syn::Pat::Tuple(tp) = &*fl.pat {
                                    if tp.elems.len() == 2 {
                                        let ipat = tp.elems[0].clone();
                                        let xpat = tp.elems[1].clone();
                                        let recv = (*it.receiver).clone();
                                        let body = fl.body.clone();
                                        let stmts = &body.stmts;
                                        let label = fl.label.clone();
                                        let k = self.ctx.fresh();
                                        let nn = syn::Ident::new(&format!("vx_n{}", k), proc_macro2::Span::call_site());
                                        let ii = syn::Ident::new(&format!("vx_i{}", k), proc_macro2::Span::call_site());
                                        let new: syn::Expr = if is_r13_map(self.ctx, &recv) { syn::parse_quote!({
                                            let #nn = #recv.len();
                                            #label for #ii in 0..#nn {
                                                let #ipat = #ii;
                                                let #xpat = #recv.get_index(#ii).unwrap();
                                                #(#stmts)*
                                            }
                                        }) } else if let syn::Pat::Reference(rp) = &xpat {
                                            // `for (i, &x) in A.iter().enumerate()`: the element is copied out (the verifier has no reference patterns)
                                            let inner = (*rp.pat).clone();
                                            syn::parse_quote!({
                                                let #nn = #recv.len();
                                                #label for #ii in 0..#nn {
                                                    let #ipat = #ii;
                                                    let #inner = #recv[#ii];
                                                    #(#stmts)*
                                                }
                                            })
                                        } else { syn::parse_quote!({
                                            let #nn = #recv.len();
                                            #label for #ii in 0..#nn {
                                                let #ipat = #ii;
                                                let #xpat = &#recv[#ii];
                                                #(#stmts)*
                                            }
                                        }) };
                                        *e = new;
                                        self.ctx.used("R4");
                                        syn::visit_mut::visit_expr_mut(self, e);
                                        return;
                                    }
                                }
                            }
                        }
                    }
                }
            }
            if self.ctx.on("R11") {
                if let syn::Expr::Range(r) = &*fl.expr {
                    if let Some(end) = &r.end {
                        if is_len_call(end) {
                            let start = r.start.clone();
                            let limits = r.limits.clone();
                            let endc = (**end).clone();
                            let pat = fl.pat.clone();
                            let body = fl.body.clone();
                            let label = fl.label.clone();
                            let k = self.ctx.fresh();
                            let nn = syn::Ident::new(&format!("vx_n{}", k), proc_macro2::Span::call_site());
                            let new: syn::Expr = syn::parse_quote!({
                                let #nn = #endc;
                                #label for #pat in #start #limits #nn #body
                            });
                            *e = new;
                            self.ctx.used("R11");
                            syn::visit_mut::visit_expr_mut(self, e);
                            return;
                        }
                    }
                }
            }
        }
        // R10: a negated float literal `-k` is the literal constant -k (exact in IEEE arithmetic)
        if self.ctx.on("R10") {
            if let syn::Expr::Unary(u) = e {
                if matches!(u.op, syn::UnOp::Neg(_)) {
                    if let syn::Expr::Lit(l) = &*u.expr {
                        let tok = match &l.lit {
                            syn::Lit::Float(f) => Some(f.to_string()),
                            syn::Lit::Int(i) if i.suffix() == "f64" => Some(i.base10_digits().to_string()),
                            _ => None,
                        };
                        if let Some(tok) = tok {
                            let ntok = format!("-{}", tok);
                            let name = syn::Ident::new(&lit_name(&ntok), proc_macro2::Span::call_site());
                            self.ctx.literals.insert(ntok);
                            *e = syn::parse_quote!(F64::#name());
                            self.ctx.used("R10");
                            return;
                        }
                    }
                }
            }
        }
        syn::visit_mut::visit_expr_mut(self, e);
        // R21 (abstraction): `<place>.<counter> += 1` for the auxiliary-name counters listed in opts.counter_fields
        // -> `<place>.<counter> = vx_counter_next(<place>.<counter>)` (no postcondition: 2^32 auxiliaries are assumed not to be reached)
        // R32 (abstraction): `<local> += 1` for the local counters listed in opts.local_counters -> `<local> = vx_usize_next(<local>)`
        // (no postcondition: the machine overflow of such a counter is NOT checked)
        if self.ctx.on("R32") {
            if let syn::Expr::Binary(b) = e {
                if matches!(b.op, syn::BinOp::AddAssign(_)) {
                    if let syn::Expr::Path(p) = &*b.left {
                        let listed = self.ctx.opts["local_counters"].as_array().map(|a| a.iter().any(|v| v.as_str().map(|t| p.path.is_ident(t)).unwrap_or(false))).unwrap_or(false);
                        if listed && norm(&b.right.to_token_stream().to_string()) == "1" {
                            let l = (*b.left).clone();
                            *e = syn::parse_quote!(#l = vx_usize_next(#l));
                            self.ctx.used("R32");
                        }
                    }
                }
            }
        }
        if self.ctx.on("R21") {
            if let syn::Expr::Binary(b) = e {
                if matches!(b.op, syn::BinOp::AddAssign(_)) {
                    if let syn::Expr::Field(f) = &*b.left {
                        if let syn::Member::Named(id) = &f.member {
                            let listed = self.ctx.opts["counter_fields"].as_array().map(|a| a.iter().any(|v| v.as_str() == Some(&id.to_string()))).unwrap_or(false);
                            if listed {
                                let l = &b.left;
                                *e = syn::parse_quote!(#l = vx_counter_next(#l));
                                self.ctx.used("R21");
                                return;
                            }
                        }
                    }
                }
            }
        }
        // R30: `P |= E` / `P &= E` on booleans (not in the verifier's subset) -> `{ let t = E; P = P || t; }` / `&&`
        // (E is still evaluated exactly once, before the update)
        if self.ctx.on("R30") {
            if let syn::Expr::Binary(b) = e {
                let op: Option<syn::BinOp> = match b.op {
                    syn::BinOp::BitOrAssign(_) => Some(syn::parse_quote!(||)),
                    syn::BinOp::BitAndAssign(_) => Some(syn::parse_quote!(&&)),
                    _ => None,
                };
                if let Some(op) = op {
                    let l = &b.left;
                    let r = &b.right;
                    *e = syn::parse_quote!({ let vx_b = #r; #l = #l #op vx_b; });
                    self.ctx.used("R30");
                    return;
                }
            }
        }
        match e {
            syn::Expr::Binary(b) if self.ctx.on("R1") => {
                use syn::BinOp::*;
                let op: Option<syn::BinOp> = match b.op {
                    SubAssign(_) => Some(syn::parse_quote!(-)),
                    AddAssign(_) => Some(syn::parse_quote!(+)),
                    MulAssign(_) => Some(syn::parse_quote!(*)),
                    DivAssign(_) => Some(syn::parse_quote!(/)),
                    _ => None,
                };
                if let Some(op) = op {
                    let l = &b.left;
                    let r = &b.right;
                    *e = syn::parse_quote!(#l = #l #op (#r));
                    self.ctx.used("R1");
                }
            }
            syn::Expr::Lit(l) if self.ctx.on("R10") && matches!(&l.lit, syn::Lit::Int(i) if i.suffix() == "f64") => {
                if let syn::Lit::Int(i) = &l.lit {
                    let tok = i.base10_digits().to_string();
                    let name = syn::Ident::new(&lit_name(&tok), proc_macro2::Span::call_site());
                    self.ctx.literals.insert(tok);
                    *e = syn::parse_quote!(F64::#name());
                    self.ctx.used("R10");
                }
            }
            syn::Expr::Lit(l) if self.ctx.on("R10") => {
                if let syn::Lit::Float(f) = &l.lit {
                    let tok = f.to_string();
                    let name = syn::Ident::new(&lit_name(&tok), proc_macro2::Span::call_site());
                    self.ctx.literals.insert(tok);
                    *e = syn::parse_quote!(F64::#name());
                    self.ctx.used("R10");
                }
            }
            syn::Expr::Cast(c) if self.ctx.on("R10") => {
                let ty = norm(&c.ty.to_token_stream().to_string());
                if ty == "F64" || ty == "f64" {
                    let inner = &c.expr;
                    *e = syn::parse_quote!(vx_to_f64(#inner));
                    self.ctx.used("R10");
                } else if {
                    // a float -> integer cast: the operand is listed (opts.float_casts), mentions a float literal, or mentions a
                    // variable declared to be a float (opts.float_vars)
                    let me = norm(&quote!(#c).to_string());
                    let inner_txt = c.expr.to_token_stream().to_string();
                    let listed = self.ctx.opts["float_casts"].as_array().map(|l| l.iter().any(|v| v.as_str().map(norm).as_deref() == Some(&me))).unwrap_or(false);
                    let int_target = matches!(ty.as_str(), "i32" | "i64" | "u32" | "u64" | "usize" | "isize");
                    let has_lit = inner_txt.contains("F64 ::") || inner_txt.contains("F64::");
                    let has_var = self.ctx.opts["float_vars"].as_array().map(|l| l.iter().any(|v| v.as_str().map(|n| inner_txt.split(|ch: char| !(ch.is_alphanumeric() || ch == '_')).any(|w| w == n)).unwrap_or(false))).unwrap_or(false);
                    int_target && (listed || has_lit || has_var)
                } {
                    {
                        let inner = &c.expr;
                        let f = syn::Ident::new(&format!("to_{}", ty), proc_macro2::Span::call_site());
                        *e = syn::parse_quote!(F64::#f(#inner));
                        self.ctx.used("R10");
                    }
                }
            }
            syn::Expr::MethodCall(mc) if self.ctx.on("R6") && mc.method == "to_string" && mc.args.is_empty()
                && self.ctx.opts["opaque_to_string"].as_array().map(|a| a.iter().any(|v| v.as_str().map(norm).as_deref() == Some(&norm(&mc.to_token_stream().to_string())))).unwrap_or(false) => {
                // R6: rendering a value through Display is abstracted like format!
                *e = syn::parse_quote!(vx_opaque_string());
                self.ctx.used("R6");
            }
            syn::Expr::Macro(m) if self.ctx.on("R6") && m.mac.path.is_ident("format") => {
                // R6: the text of a formatted string is abstracted away (no postcondition), except that a template with at
                // least one literal character outside its placeholders yields a NON-EMPTY string
                let mut nonempty = false;
                if let Some(proc_macro2::TokenTree::Literal(l)) = m.mac.tokens.clone().into_iter().next() {
                    if let Ok(syn::Lit::Str(ls)) = syn::parse_str::<syn::Lit>(&l.to_string()) {
                        let t = ls.value().replace("{{", "\u{1}").replace("}}", "\u{1}");
                        let mut depth = 0;
                        for ch in t.chars() {
                            match ch { '{' => depth += 1, '}' => depth -= 1, _ if depth == 0 => nonempty = true, _ => {} }
                        }
                    }
                }
                *e = if nonempty { syn::parse_quote!(vx_opaque_nonempty_string()) } else { syn::parse_quote!(vx_opaque_string()) };
                self.ctx.used("R6");
            }
            syn::Expr::Path(p) => {
                let s = norm(&quote!(#p).to_string());
                if self.ctx.on("R10") {
                    let rep: Option<syn::Expr> = match s.as_str() {
                        "f64::INFINITY" | "F64::INFINITY" => Some(syn::parse_quote!(F64::c_infinity())),
                        "f64::NEG_INFINITY" | "F64::NEG_INFINITY" => Some(syn::parse_quote!(F64::c_neg_infinity())),
                        "f64::NAN" | "F64::NAN" => Some(syn::parse_quote!(F64::c_nan())),
                        "f64::max" => Some(syn::parse_quote!(F64::max)),
                        "f64::min" => Some(syn::parse_quote!(F64::min)),
                        _ => None,
                    };
                    if let Some(r) = rep {
                        *e = r;
                        self.ctx.used("R10");
                        return;
                    }
                }
                if self.ctx.on("R13") && s == "IndexSet::new" {
                    *e = syn::parse_quote!(SSet::new);
                    self.ctx.used("R13");
                    return;
                }
                if self.ctx.on("R13") && s == "IndexMap::with_capacity" {
                    // the capacity is a performance hint only
                    *e = syn::parse_quote!(SMap::with_capacity);
                    self.ctx.used("R13");
                    return;
                }
                if self.ctx.on("R13") && s == "IndexMap::new" {
                    *e = syn::parse_quote!(SMap::new);
                    self.ctx.used("R13");
                    return;
                }
                // R20: consts that became functions
                if let Some(last) = p.path.segments.last() {
                    if self.ctx.const_fns.contains(&last.ident.to_string()) {
                        let path = p.clone();
                        *e = syn::parse_quote!(#path());
                        self.ctx.used("R20");
                    }
                }
            }
            _ => {}
        }
    }
}

// R2: a constant pattern `f64::INFINITY` / `f64::NEG_INFINITY` / .. matches with == as well
fn is_f64_const_path(p: &syn::Path) -> bool {
    p.segments.len() == 2 && p.segments[0].ident == "f64"
        && matches!(p.segments[1].ident.to_string().as_str(), "INFINITY" | "NEG_INFINITY" | "EPSILON" | "MAX" | "MIN")
}
