//! Weaving of contract text at structurally found positions (DESIGN §3.1, §3.8).
use crate::rules::Rules;
use crate::{lost, norm, tokens_norm, unparse_items, Block, Contracts, Ctx};
use proc_macro2::Span;
use quote::{quote, ToTokens};
use serde_json::{json, Value};
use syn::visit_mut::VisitMut;

fn mk_macro_stmt(name: &str) -> syn::Stmt {
    let id = syn::Ident::new(name, Span::call_site());
    syn::parse_quote!(#id!();)
}

fn sel_words(sel: &str) -> Vec<String> {
    // split selector into words, keeping quoted strings together
    let mut out = vec![];
    let mut cur = String::new();
    let mut inq = false;
    for ch in sel.chars() {
        if ch == '"' {
            inq = !inq;
            cur.push(ch);
        } else if ch.is_whitespace() && !inq {
            if !cur.is_empty() {
                out.push(std::mem::take(&mut cur));
            }
        } else {
            cur.push(ch);
        }
    }
    if !cur.is_empty() {
        out.push(cur);
    }
    out
}

#[derive(Debug, Clone)]
enum Pos {
    Sig { ret: Option<String>, assumed: bool },
    Entry,
    End,
    Loop { k: usize, part: String }, // part: spec | start | end
    After { text: String, nth: usize, before: bool },
    Tail { k: Option<(usize, usize)> },
    Ret { k: Option<(usize, usize)> },
    Closure { k: usize },
    KeepArms,
    Attr,
    LetType { name: String },
}

fn parse_range(s: &str) -> Option<(usize, usize)> {
    if s == "*" { return None; }
    match s.split_once('-') {
        Some((a, b)) => Some((a.parse().ok()?, b.parse().ok()?)),
        None => { let k: usize = s.parse().ok()?; Some((k, k)) }
    }
}

fn parse_sel(name: &str, sel: &str) -> Pos {
    let w = sel_words(sel);
    let bad = || -> ! { lost(&format!("bad selector `@fn {} {}`", name, sel)) };
    if w.is_empty() {
        return Pos::Sig { ret: None, assumed: false };
    }
    let mut i = 0;
    let mut assumed = false;
    if w[0] == "@assumed" {
        assumed = true;
        i = 1;
        if w.len() == 1 {
            return Pos::Sig { ret: None, assumed };
        }
    }
    if w[i] == "->" {
        if w.len() != i + 2 {
            bad();
        }
        return Pos::Sig { ret: Some(w[i + 1].clone()), assumed };
    }
    if assumed {
        bad();
    }
    match w[0].as_str() {
        "@entry" => Pos::Entry,
        "@end" => Pos::End,
        "@attr" => Pos::Attr,
        "@keep-arms" => Pos::KeepArms,
        "@lettype" => Pos::LetType { name: w.get(1).cloned().unwrap_or_else(|| bad()) },
        "@loop" => {
            let k = w.get(1).and_then(|s| s.parse().ok()).unwrap_or_else(|| bad());
            let part = match w.get(2).map(|s| s.as_str()) {
                None | Some("@spec") => "spec",
                Some("@start") => "start",
                Some("@end") => "end",
                _ => bad(),
            };
            Pos::Loop { k, part: part.to_string() }
        }
        "@after" | "@before" => {
            let t = w.get(1).unwrap_or_else(|| bad());
            let text = t.trim_matches('"').to_string();
            let nth = w.get(2).and_then(|s| s.strip_prefix('#')).and_then(|s| s.parse().ok()).unwrap_or(1);
            Pos::After { text: norm(&text), nth, before: w[0] == "@before" }
        }
        "@tail" => Pos::Tail { k: w.get(1).and_then(|s| parse_range(s)) },
        "@return" => Pos::Ret { k: w.get(1).and_then(|s| parse_range(s)) },
        "@closure" => Pos::Closure { k: w.get(1).and_then(|s| s.parse().ok()).unwrap_or_else(|| bad()) },
        _ => bad(),
    }
}

// ---------- marker insertion visitors ----------

struct LoopMarker {
    n: usize,
    ends: Vec<usize>,
}
impl LoopMarker {
    fn mark(&mut self, body: &mut syn::Block) {
        self.n += 1;
        let k = self.n;
        body.stmts.insert(0, mk_macro_stmt(&format!("vx_m_loop_{}", k)));
        if self.ends.contains(&k) {
            // make sure a trailing expression statement gets a semicolon
            if let Some(syn::Stmt::Expr(_, semi @ None)) = body.stmts.last_mut() {
                *semi = Some(Default::default());
            }
            body.stmts.push(mk_macro_stmt(&format!("vx_m_loopend_{}", k)));
        }
    }
}
impl VisitMut for LoopMarker {
    fn visit_expr_for_loop_mut(&mut self, i: &mut syn::ExprForLoop) {
        self.mark(&mut i.body);
        syn::visit_mut::visit_expr_for_loop_mut(self, i);
    }
    fn visit_expr_while_mut(&mut self, i: &mut syn::ExprWhile) {
        self.mark(&mut i.body);
        syn::visit_mut::visit_expr_while_mut(self, i);
    }
    fn visit_expr_loop_mut(&mut self, i: &mut syn::ExprLoop) {
        self.mark(&mut i.body);
        syn::visit_mut::visit_expr_loop_mut(self, i);
    }
    fn visit_expr_closure_mut(&mut self, _i: &mut syn::ExprClosure) {
        // loops inside closures are not numbered
    }
}

struct StmtMarker {
    text: String,
    nth: usize,
    before: bool,
    marker: String,
    seen: usize,
    done: bool,
}
impl VisitMut for StmtMarker {
    fn visit_block_mut(&mut self, b: &mut syn::Block) {
        let mut i = 0;
        while i < b.stmts.len() {
            if !self.done {
                let t = tokens_norm(&b.stmts[i]);
                if t.starts_with(&self.text) && !t.starts_with("vx_m_") {
                    self.seen += 1;
                    if self.seen == self.nth {
                        self.done = true;
                        if self.before {
                            b.stmts.insert(i, mk_macro_stmt(&self.marker));
                            i += 1;
                        } else {
                            let len = b.stmts.len();
                            if let syn::Stmt::Expr(_, semi @ None) = &mut b.stmts[i] {
                                // a unit-typed tail (`if .. {} else {}` ending an arm) may be followed by ghost code; a value-typed tail
                                // would make the woven text ill-typed, which the verifier reports (exit 2), so this is safe
                                *semi = Some(Default::default());
                            }
                            b.stmts.insert(i + 1, mk_macro_stmt(&self.marker));
                            i += 1;
                        }
                    }
                }
            }
            i += 1;
        }
        syn::visit_mut::visit_block_mut(self, b);
    }
}

fn wrap_leaf(e: &mut syn::Expr, n: &mut usize, want: &dyn Fn(usize) -> bool) {
    match e {
        syn::Expr::If(i) => {
            tail_of_block(&mut i.then_branch, n, want);
            if let Some((_, el)) = &mut i.else_branch {
                wrap_leaf(el, n, want);
            }
        }
        syn::Expr::Match(m) => {
            for arm in m.arms.iter_mut() {
                wrap_leaf(&mut arm.body, n, want);
            }
        }
        syn::Expr::Block(b) => tail_of_block(&mut b.block, n, want),
        syn::Expr::Return(_) | syn::Expr::Break(_) | syn::Expr::Continue(_) => {}
        syn::Expr::Macro(m) if {
            let p = tokens_norm(&m.mac.path);
            p == "unreachable" || p == "panic" || p == "unimplemented" || p == "todo"
        } => {}
        _ => {
            *n += 1;
            if want(*n) {
                let id = syn::Ident::new(&format!("vx_m_tail_{}", *n), Span::call_site());
                let inner = e.clone();
                *e = syn::parse_quote!({ let r__ = #inner; #id!(); r__ });
            }
        }
    }
}
fn tail_of_block(b: &mut syn::Block, n: &mut usize, want: &dyn Fn(usize) -> bool) {
    let before = *n;
    let mut wrapped_block = false;
    if let Some(syn::Stmt::Expr(e, None)) = b.stmts.last_mut() {
        let was_block = matches!(e, syn::Expr::Block(_));
        wrap_leaf(e, n, want);
        wrapped_block = !was_block && *n > before && matches!(e, syn::Expr::Block(_));
    }
    // a wrapped tail `{ let r__ = ..; hint; r__ }` directly after a loop body reads as a clause of that loop: separate the two
    let k = b.stmts.len();
    if wrapped_block && k >= 2 {
        if let syn::Stmt::Expr(syn::Expr::ForLoop(_) | syn::Expr::While(_) | syn::Expr::Loop(_), _) = &b.stmts[k - 2] {
            b.stmts.insert(k - 1, syn::parse_quote!(let vx_sep = ();));
        }
    }
}

struct RetMarker<'a> {
    n: usize,
    want: &'a dyn Fn(usize) -> bool,
}
impl<'a> VisitMut for RetMarker<'a> {
    fn visit_expr_mut(&mut self, e: &mut syn::Expr) {
        syn::visit_mut::visit_expr_mut(self, e);
        if let syn::Expr::Return(r) = e {
            self.n += 1;
            if (self.want)(self.n) {
                let id = syn::Ident::new(&format!("vx_m_ret_{}", self.n), Span::call_site());
                match &r.expr {
                    Some(v) => {
                        let v = v.clone();
                        *e = syn::parse_quote!({ let r__ = #v; #id!(); return r__; });
                    }
                    None => {
                        *e = syn::parse_quote!({ #id!(); return; });
                    }
                }
            }
        }
    }
    fn visit_expr_closure_mut(&mut self, _i: &mut syn::ExprClosure) {}
}

struct ClosureCutter {
    n: usize,
    want: Vec<usize>,
    bodies: Vec<(usize, String)>,
}
impl VisitMut for ClosureCutter {
    fn visit_expr_mut(&mut self, e: &mut syn::Expr) {
        if let syn::Expr::Closure(c) = e {
            self.n += 1;
            let k = self.n;
            // number nested closures too (pre-order)
            syn::visit_mut::visit_expr_mut(self, &mut c.body);
            if self.want.contains(&k) {
                let body = &c.body;
                let blk: syn::Block = match &**body {
                    syn::Expr::Block(b) if b.attrs.is_empty() && b.label.is_none() => b.block.clone(),
                    other => syn::parse_quote!({ #other }),
                };
                let f: syn::ItemFn = syn::parse_quote!(fn vx_c() #blk);
                let printed = unparse_items(vec![syn::Item::Fn(f)]);
                let start = printed.find('{').unwrap();
                self.bodies.push((k, printed[start..].trim_end().to_string()));
                let id = syn::Ident::new(&format!("vx_m_closure_{}", k), Span::call_site());
                *e = syn::parse_quote!(#id!());
            }
            return;
        }
        syn::visit_mut::visit_expr_mut(self, e);
    }
}

// ---------- arm masking ----------
fn mask_match(m: &mut syn::ExprMatch, keeps: &[Vec<String>], call: &syn::Expr, masked: &mut Vec<String>, kept: &mut Vec<String>, prefix: &str) {
    for arm in m.arms.iter_mut() {
        let p = tokens_norm(&arm.pat);
        let here: Vec<&Vec<String>> = keeps.iter().filter(|k| !k.is_empty() && p.starts_with(&k[0])).collect();
        if here.is_empty() {
            masked.push(format!("{}{}", prefix, p));
            arm.body = Box::new(call.clone());
            arm.guard = arm.guard.take();
            continue;
        }
        let deeper: Vec<Vec<String>> = here.iter().filter(|k| k.len() > 1).map(|k| k[1..].to_vec()).collect();
        if deeper.is_empty() {
            kept.push(format!("{}{}", prefix, p));
            continue;
        }
        // descend into the arm body: it must be (a block holding only) a match
        let inner: Option<&mut syn::ExprMatch> = match &mut *arm.body {
            syn::Expr::Match(mm) => Some(mm),
            syn::Expr::Block(b) if !b.block.stmts.is_empty() => match b.block.stmts.last_mut() {
                Some(syn::Stmt::Expr(syn::Expr::Match(mm), None)) => Some(mm),
                _ => None,
            },
            _ => None,
        };
        match inner {
            Some(mm) => mask_match(mm, &deeper, call, masked, kept, &format!("{}{} / ", prefix, p)),
            None => lost(&format!("@keep-arms: arm `{}` has no nested match to descend into", p)),
        }
    }
}

fn find_top_match(b: &mut syn::Block) -> Option<&mut syn::ExprMatch> {
    match b.stmts.last_mut() {
        Some(syn::Stmt::Expr(syn::Expr::Match(m), _)) => Some(m),
        _ => None,
    }
}

// ---------- main entry ----------
#[allow(clippy::too_many_arguments)]
pub fn emit_fn(owner: Option<&str>, name: &str, mut f: syn::ItemFn, contracts: &mut Contracts, ctx: &mut Ctx, report: &mut Vec<Value>, assumed_list: &mut Vec<String>) -> String {
    let mut blocks: Vec<Block> = contracts.by_fn.get(name).cloned().unwrap_or_default();
    let poss: Vec<Pos> = blocks.iter().map(|b| parse_sel(name, &b.selector)).collect();
    f.attrs.clear();
    f.vis = syn::parse_quote!(pub);
    // R24: by-value `mut self` / `mut x: T` parameters (unsupported by the verifier) -> immutable parameter + `let mut` rebinding
    {
        let mut pre: Vec<syn::Stmt> = vec![];
        let mut rename_self = false;
        for a in f.sig.inputs.iter_mut() {
            match a {
                syn::FnArg::Receiver(r) if r.reference.is_none() && r.mutability.is_some() => {
                    r.mutability = None;
                    rename_self = true;
                }
                syn::FnArg::Typed(pt) => {
                    if let syn::Pat::Ident(pi) = &mut *pt.pat {
                        if pi.mutability.is_some() && pi.by_ref.is_none() {
                            pi.mutability = None;
                            let id = pi.ident.clone();
                            pre.push(syn::parse_quote!(let mut #id = #id;));
                        }
                    }
                }
                _ => {}
            }
        }
        if rename_self {
            struct SelfRenamer;
            impl VisitMut for SelfRenamer {
                fn visit_ident_mut(&mut self, i: &mut syn::Ident) {
                    if i == "self" { *i = syn::Ident::new("vx_self", i.span()); }
                }
                fn visit_macro_mut(&mut self, _m: &mut syn::Macro) {}
            }
            SelfRenamer.visit_block_mut(&mut f.block);
            pre.insert(0, syn::parse_quote!(let mut vx_self = self;));
        }
        if !pre.is_empty() {
            ctx.used("R24");
            for (i, st) in pre.into_iter().enumerate() { f.block.stmts.insert(i, st); }
        }
    }
    ctx.counter = 0; // hoisted-bound names vx_n<k> are numbered per function
    if ctx.on("R48") {
        // R48: a function returning Result<Vec<_>, _> whose tail is `A.iter().map(|p| BODY).collect()` (collect into a Result: elements in
        // order, stop at the first Err) -> push loop; BODY is inlined, so its `?` / `return Err(..)` leave the FUNCTION with that error,
        // which is what collect would have returned
        let ret_is_result_vec = match &f.sig.output { syn::ReturnType::Type(_, t) => norm(&t.to_token_stream().to_string()).starts_with("Result<Vec<"), _ => false };
        if ret_is_result_vec {
            if let Some(syn::Stmt::Expr(syn::Expr::MethodCall(col), None)) = f.block.stmts.last().cloned() {
                if col.method == "collect" && col.args.is_empty() {
                    if let syn::Expr::MethodCall(map) = &*col.receiver {
                        if map.method == "map" && map.args.len() == 1 {
                            if let (syn::Expr::Closure(cl), syn::Expr::MethodCall(it)) = (&map.args[0], &*map.receiver) {
                                if it.method == "iter" && it.args.is_empty() && cl.inputs.len() == 1 {
                                    let a = &it.receiver;
                                    let pat = match &cl.inputs[0] { syn::Pat::Type(pt) => (*pt.pat).clone(), p => p.clone() };
                                    let body = &cl.body;
                                    let elem_ty: Option<syn::Type> = match &f.sig.output { syn::ReturnType::Type(_, t) => {
                                        // Result<Vec<T>, E> -> Vec<T>
                                        if let syn::Type::Path(tp) = &**t { tp.path.segments.last().and_then(|s| match &s.arguments { syn::PathArguments::AngleBracketed(ab) => ab.args.first().and_then(|g| match g { syn::GenericArgument::Type(t) => Some(t.clone()), _ => None }), _ => None }) } else { None }
                                    }, _ => None };
                                    let vty = elem_ty.unwrap_or_else(|| syn::parse_quote!(Vec<_>));
                                    let n = f.block.stmts.len();
                                    let new_stmts: Vec<syn::Stmt> = vec![
                                        syn::parse_quote!(let mut vx_rc_out: #vty = Vec::new();),
                                        syn::parse_quote!(let vx_rc_n = #a.len();),
                                        syn::Stmt::Expr(syn::parse_quote!(for vx_rc_i in 0..vx_rc_n {
                                            let #pat = &#a[vx_rc_i];
                                            let vx_rc_item = match #body { Ok(vx_rc_v) => vx_rc_v, Err(vx_rc_e) => return Err(vx_rc_e) };
                                            vx_rc_out.push(vx_rc_item);
                                        }), None),
                                        syn::Stmt::Expr(syn::parse_quote!(Ok(vx_rc_out)), None),
                                    ];
                                    f.block.stmts.truncate(n - 1);
                                    f.block.stmts.extend(new_stmts);
                                    ctx.used("R48");
                                }
                            }
                        }
                    }
                }
            }
        }
    }
    {
        // the closure-inlining rules (R22, R34, R37, R46-R53, R56, R57) put a closure body into the enclosing function; a `return` inside it
        // would then leave the function instead of the closure: such a function is not extracted
        struct ClosureReturn { found: bool }
        impl<'ast> syn::visit::Visit<'ast> for ClosureReturn {
            fn visit_expr_closure(&mut self, c: &'ast syn::ExprClosure) {
                struct R { found: bool }
                impl<'ast> syn::visit::Visit<'ast> for R {
                    fn visit_expr_return(&mut self, _: &'ast syn::ExprReturn) { self.found = true; }
                    fn visit_expr_closure(&mut self, _: &'ast syn::ExprClosure) {}
                }
                let mut r = R { found: false };
                syn::visit::Visit::visit_expr(&mut r, &c.body);
                if r.found { self.found = true; }
                syn::visit::visit_expr_closure(self, c);
            }
        }
        let mut cr = ClosureReturn { found: false };
        syn::visit::Visit::visit_block(&mut cr, &f.block);
        if cr.found { lost(&format!("{}: a closure body contains `return` (inlining it would change its meaning)", name)); }
    }
    Rules { ctx }.visit_item_fn_mut(&mut f);

    let mut sig_block: Option<usize> = None;
    let mut attr_text = String::new();
    for (i, p) in poss.iter().enumerate() {
        match p {
            Pos::Sig { .. } => {
                if sig_block.is_some() {
                    lost(&format!("two signature contracts for {}", name));
                }
                sig_block = Some(i);
            }
            Pos::Attr => attr_text.push_str(&blocks[i].body),
            _ => {}
        }
    }
    let (ret_name, is_assumed) = match sig_block.map(|i| &poss[i]) {
        Some(Pos::Sig { ret, assumed }) => (ret.clone(), *assumed),
        _ => (None, false),
    };
    let sig_text = sig_block.map(|i| blocks[i].body.clone()).unwrap_or_default();

    // return type
    let ret_ty_text: Option<String> = match &f.sig.output {
        syn::ReturnType::Type(_, t) => Some(tokens_pretty_type(t)),
        syn::ReturnType::Default => None,
    };
    if ret_name.is_some() {
        if ret_ty_text.is_none() {
            lost(&format!("{}: contract names a result but the function returns nothing", name));
        }
        f.sig.output = syn::parse_quote!(-> VxRetMarker);
    }

    let fn_ident = f.sig.ident.to_string();
    let mut extra_items = String::new();
    let mut masked: Vec<String> = vec![];
    let mut kept: Vec<String> = vec![];

    // R27: type ascription on a local whose type inference needs the (woven) proof text: `let x = e` -> `let x: T = e`
    for (i, p) in poss.iter().enumerate() {
        if let Pos::LetType { name: lname } = p {
            struct LetTyper { name: String, ty: syn::Type, done: bool }
            impl VisitMut for LetTyper {
                fn visit_local_mut(&mut self, l: &mut syn::Local) {
                    if !self.done {
                        if let syn::Pat::Ident(pi) = &l.pat {
                            if pi.ident == self.name {
                                let pat = l.pat.clone();
                                let ty = self.ty.clone();
                                l.pat = syn::Pat::Type(syn::PatType { attrs: vec![], pat: Box::new(pat), colon_token: Default::default(), ty: Box::new(ty) });
                                self.done = true;
                            }
                        }
                    }
                    syn::visit_mut::visit_local_mut(self, l);
                }
            }
            let ty: syn::Type = syn::parse_str(blocks[i].body.trim()).unwrap_or_else(|e| lost(&format!("{}: @lettype {}: bad type: {}", name, lname, e)));
            let mut lt = LetTyper { name: lname.clone(), ty, done: false };
            lt.visit_block_mut(&mut f.block);
            if !lt.done { lost(&format!("{}: @lettype {}: no such local", name, lname)); }
            blocks[i].used = true;
            ctx.used("R27");
        }
    }
    // arm masking
    for (i, p) in poss.iter().enumerate() {
        if let Pos::KeepArms = p {
            let keeps: Vec<Vec<String>> = blocks[i].body.lines().map(|l| l.trim()).filter(|l| !l.is_empty()).map(|l| l.split(" / ").map(norm).collect()).collect();
            // a masked arm is not part of this slice: it is replaced by a diverging stub, so nothing is proved about it
            // (and nothing about it is used); it is listed as an assumed arm in the evidence
            let call: syn::Expr = syn::parse_quote!(vx_arm_not_in_slice());
            match find_top_match(&mut f.block) {
                Some(m) => mask_match(m, &keeps, &call, &mut masked, &mut kept, ""),
                None => lost(&format!("{}: @keep-arms but the body does not end in a match", name)),
            }
            for k in &keeps {
                let flat = k.join(" / ");
                if !kept.iter().any(|x| norm(x).starts_with(&norm(&flat)) || arm_path_matches(x, k)) {
                    lost(&format!("{}: @keep-arms entry `{}` matches no arm", name, flat));
                }
            }
            for mname in &masked {
                assumed_list.push(format!("arm `{}` of {} is not in this slice: assumed to satisfy {}'s contract (arm masking)", mname, name, name));
            }
            blocks[i].used = true;
        }
    }

    // closures (cut before markers so loop numbering ignores closure bodies)
    let want_closures: Vec<usize> = poss.iter().filter_map(|p| if let Pos::Closure { k } = p { Some(*k) } else { None }).collect();
    let mut cc = ClosureCutter { n: 0, want: want_closures.clone(), bodies: vec![] };
    if !want_closures.is_empty() {
        cc.visit_block_mut(&mut f.block);
        for k in &want_closures {
            if !cc.bodies.iter().any(|(kk, _)| kk == k) {
                lost(&format!("{}: @closure {} not found ({} closures)", name, k, cc.n));
            }
        }
    }

    // statements
    let mut skipped_stmt: Vec<usize> = vec![];
    for (i, p) in poss.iter().enumerate() {
        if let Pos::After { text, nth, before } = p {
            let mut sm = StmtMarker { text: text.clone(), nth: *nth, before: *before, marker: format!("vx_m_stmt_{}", i), seen: 0, done: false };
            sm.visit_block_mut(&mut f.block);
            if !sm.done {
                // a hint whose anchor statement no longer exists: in lenient mode (second attempt of the runner) the hint is dropped and
                // the verifier decides without it; a contract clause (signature, loop invariant) is never dropped
                if ctx.opts["lenient_hints"].as_bool().unwrap_or(false) {
                    eprintln!("vx: HINT-DROPPED: {}: statement selector \"{}\" #{}", name, text, nth);
                    skipped_stmt.push(i);
                    blocks[i].used = true;
                } else {
                    lost(&format!("{}: statement selector \"{}\" #{} not found", name, text, nth));
                }
            }
        }
    }
    // tails
    let tail_ks: Vec<Option<(usize, usize)>> = poss.iter().filter_map(|p| if let Pos::Tail { k } = p { Some(*k) } else { None }).collect();
    let mut n_tails = 0usize;
    if !tail_ks.is_empty() {
        let all = tail_ks.iter().any(|k| k.is_none());
        let ks: Vec<(usize, usize)> = tail_ks.iter().filter_map(|k| *k).collect();
        let want = move |n: usize| all || ks.iter().any(|(a, b)| *a <= n && n <= *b);
        tail_of_block(&mut f.block, &mut n_tails, &want);
        for (_, k) in tail_ks.iter().flatten() {
            if *k > n_tails {
                lost(&format!("{}: @tail {} but only {} tail positions", name, k, n_tails));
            }
        }
    }
    // returns
    let ret_ks: Vec<Option<(usize, usize)>> = poss.iter().filter_map(|p| if let Pos::Ret { k } = p { Some(*k) } else { None }).collect();
    let mut n_rets = 0usize;
    if !ret_ks.is_empty() {
        let all = ret_ks.iter().any(|k| k.is_none());
        let ks: Vec<(usize, usize)> = ret_ks.iter().filter_map(|k| *k).collect();
        let want = move |n: usize| all || ks.iter().any(|(a, b)| *a <= n && n <= *b);
        let mut rm = RetMarker { n: 0, want: &want };
        rm.visit_block_mut(&mut f.block);
        n_rets = rm.n;
        for (_, k) in ret_ks.iter().flatten() {
            if *k > n_rets {
                lost(&format!("{}: @return {} but only {} return statements", name, k, n_rets));
            }
        }
    }
    // loops
    let loop_ends: Vec<usize> = poss.iter().filter_map(|p| if let Pos::Loop { k, part } = p { if part == "end" { Some(*k) } else { None } } else { None }).collect();
    let mut lm = LoopMarker { n: 0, ends: loop_ends };
    lm.visit_block_mut(&mut f.block);
    let n_loops = lm.n;
    for p in &poss {
        if let Pos::Loop { k, .. } = p {
            if *k == 0 || *k > n_loops {
                lost(&format!("{}: @loop {} but the function has {} loops", name, k, n_loops));
            }
        }
    }
    // end marker
    let want_end = poss.iter().any(|p| matches!(p, Pos::End));
    if want_end {
        let unit_fn = ret_ty_text.is_none();
        if let Some(syn::Stmt::Expr(_, semi @ None)) = f.block.stmts.last_mut() {
            if unit_fn {
                *semi = Some(Default::default());
            } else {
                lost(&format!("{}: @end on a function with a tail expression (use @tail)", name));
            }
        }
        f.block.stmts.push(mk_macro_stmt("vx_m_end"));
    }
    // entry marker
    f.block.stmts.insert(0, mk_macro_stmt("vx_m_fn"));

    let mut printed = unparse_items(vec![syn::Item::Fn(f)]);

    // ---- textual weaving ----
    let bcast = if ctx.broadcast.is_empty() { String::new() } else { format!("broadcast use {};", ctx.broadcast.join(", ")) };
    // signature
    {
        let idx = printed.find("vx_m_fn!();").unwrap_or_else(|| lost("fn marker lost"));
        let head = &printed[..idx];
        let brace = head.rfind('{').unwrap();
        let mut sig = head[..brace].trim_end().to_string();
        if let (Some(rn), Some(rt)) = (&ret_name, &ret_ty_text) {
            sig = sig.replace("-> VxRetMarker", &format!("-> ({}: {})", rn, rt));
        }
        let rest = printed[idx + "vx_m_fn!();".len()..].to_string();
        let mut entry = String::new();
        entry.push_str(&bcast);
        for (i, p) in poss.iter().enumerate() {
            if let Pos::Entry = p {
                entry.push('\n');
                entry.push_str(&blocks[i].body);
                blocks[i].used = true;
            }
        }
        if ctx.canary {
            entry.push_str(&format!("\nproof {{ assert(false); }} // vx:canary {}\n", name));
        }
        if is_assumed {
            printed = format!("{}#[verifier::external_body]\n{}\n{}{{ unimplemented!() }}\n", attr_text, sig, sig_text);
            assumed_list.push(format!("{}: contract ASSUMED (@assumed, body not verified)", name));
        } else {
            printed = format!("{}{}\n{}{{\n    {}{}", attr_text, sig, sig_text, entry, rest);
        }
        if let Some(i) = sig_block {
            blocks[i].used = true;
        }
        for (i, p) in poss.iter().enumerate() {
            if let Pos::Attr = p {
                blocks[i].used = true;
            }
        }
    }
    if !is_assumed {
        // loops
        for k in 1..=n_loops {
            let m = format!("vx_m_loop_{}!();", k);
            let idx = match printed.find(&m) {
                Some(i) => i,
                None => lost(&format!("{}: loop marker {} lost", name, k)),
            };
            let brace = printed[..idx].rfind('{').unwrap();
            let mut spec = String::new();
            let mut start = String::new();
            start.push_str(&bcast);
            let mut end = String::new();
            for (i, p) in poss.iter().enumerate() {
                if let Pos::Loop { k: kk, part } = p {
                    if *kk == k {
                        blocks[i].used = true;
                        match part.as_str() {
                            "spec" => spec.push_str(&blocks[i].body),
                            "start" => {
                                start.push('\n');
                                start.push_str(&blocks[i].body)
                            }
                            _ => end.push_str(&blocks[i].body),
                        }
                    }
                }
            }
            if ctx.canary && ctx.opts["canary_loops"].as_bool().unwrap_or(false) {
                start.push_str(&format!("\nproof {{ assert(false); }} // vx:canary {} loop {}\n", name, k));
            }
            let before = printed[..brace].trim_end().to_string();
            let after = printed[idx + m.len()..].to_string();
            printed = format!("{}\n{}{{\n{}{}", before, spec, start, after);
            let me = format!("vx_m_loopend_{}!();", k);
            if let Some(j) = printed.find(&me) {
                printed = format!("{}{}{}", &printed[..j], end, &printed[j + me.len()..]);
            }
        }
        // statements / tails / returns / end
        for (i, p) in poss.iter().enumerate() {
            match p {
                Pos::After { .. } => {
                    if skipped_stmt.contains(&i) { continue; }
                    let m = format!("vx_m_stmt_{}!();", i);
                    let j = printed.find(&m).unwrap_or_else(|| lost("stmt marker lost"));
                    printed = format!("{}{}{}", &printed[..j], blocks[i].body, &printed[j + m.len()..]);
                    blocks[i].used = true;
                }
                Pos::End => {
                    let m = "vx_m_end!();";
                    let j = printed.find(m).unwrap_or_else(|| lost("end marker lost"));
                    printed = format!("{}{}{}", &printed[..j], blocks[i].body, &printed[j + m.len()..]);
                    blocks[i].used = true;
                }
                Pos::Closure { k } => {
                    let m = format!("vx_m_closure_{}!()", k);
                    let j = printed.find(&m).unwrap_or_else(|| lost("closure marker lost"));
                    let body = &cc.bodies.iter().find(|(kk, _)| kk == k).unwrap().1;
                    printed = format!("{}{} {}{}", &printed[..j], blocks[i].body.trim_end(), body, &printed[j + m.len()..]);
                    blocks[i].used = true;
                }
                _ => {}
            }
        }
        for n in 1..=n_tails {
            let m = format!("vx_m_tail_{}!();", n);
            if let Some(j) = printed.find(&m) {
                let mut text = String::new();
                for (i, p) in poss.iter().enumerate() {
                    if let Pos::Tail { k } = p {
                        if k.is_none() || k.map(|(a, b)| a <= n && n <= b).unwrap_or(false) {
                            text.push_str(&blocks[i].body);
                            blocks[i].used = true;
                        }
                    }
                }
                printed = format!("{}{}{}", &printed[..j], text, &printed[j + m.len()..]);
            }
        }
        for n in 1..=n_rets {
            let m = format!("vx_m_ret_{}!();", n);
            if let Some(j) = printed.find(&m) {
                let mut text = String::new();
                for (i, p) in poss.iter().enumerate() {
                    if let Pos::Ret { k } = p {
                        if k.is_none() || k.map(|(a, b)| a <= n && n <= b).unwrap_or(false) {
                            text.push_str(&blocks[i].body);
                            blocks[i].used = true;
                        }
                    }
                }
                printed = format!("{}{}{}", &printed[..j], text, &printed[j + m.len()..]);
            }
        }
    } else {
        for b in blocks.iter_mut() {
            b.used = true;
        }
    }
    if printed.contains("vx_m_") {
        lost(&format!("{}: unresolved marker left in output", name));
    }
    if let Some(v) = contracts.by_fn.get_mut(name) {
        *v = blocks;
    }
    report.push(json!({
        "fn": name,
        "contracted": sig_block.is_some() && !is_assumed,
        "assumed": is_assumed,
        "loops": n_loops,
        "kept_arms": kept,
        "masked_arms": masked,
    }));
    let _ = quote!();
    format!("// vx:fn-begin {}\n{}// vx:fn-end\n{}", name, printed, extra_items)
}

fn arm_path_matches(kept: &str, k: &[String]) -> bool {
    let parts: Vec<String> = kept.split(" / ").map(norm).collect();
    if parts.len() < k.len() {
        return false;
    }
    parts.iter().zip(k.iter()).all(|(p, q)| p.starts_with(q))
}

fn strip_decreases(sig: &str) -> String {
    // the contract-only twin is external_body: a decreases clause is not allowed there
    let mut out = String::new();
    let mut skipping = false;
    for l in sig.lines() {
        let t = l.trim_start();
        if t.starts_with("decreases") {
            skipping = true;
            continue;
        }
        if skipping && (t.starts_with("requires") || t.starts_with("ensures") || t.starts_with("returns")) {
            skipping = false;
        }
        if !skipping {
            out.push_str(l);
            out.push('\n');
        }
    }
    out
}

fn tokens_pretty_type(t: &syn::Type) -> String {
    let item: syn::ItemType = syn::parse_quote!(type VxT = #t;);
    let s = unparse_items(vec![syn::Item::Type(item)]);
    let a = s.find('=').unwrap();
    let b = s.rfind(';').unwrap();
    s[a + 1..b].trim().to_string()
}
