#!/usr/bin/env python3
"""developer aid: verify a @keep-arms unit one arm at a time to see which arm fails.  tools/arms.py <unit>"""
import sys, re, os, shutil, subprocess
sys.path.insert(0, '/verif')
from vlib import runner as R
unit = sys.argv[1]
u = R.load_units()[unit]
src = open(os.path.join(u['dir'], 'contract.rs')).read()
m = re.search(r"(?m)^(@fn \S+ @keep-arms)\n((?:    .*\n)+)", src)
arms = [l for l in m.group(2).split("\n") if l.strip()]
tmp = '/verif/work/arms_unit'
for a in arms:
    shutil.rmtree(tmp, ignore_errors=True); shutil.copytree(u['dir'], tmp)
    open(os.path.join(tmp, 'contract.rs'), 'w').write(src.replace(m.group(2), a + "\n"))
    uu = dict(u); uu['dir'] = tmp
    try:
        r = R.run_verus(uu, '/verif/work/dev')
        errs = [(e['msg'], e['clause'][:90]) for e in r['errors']]
        print(a.strip(), '->', 'OK' if not errs else errs)
    except R.Infra as e:
        print(a.strip(), '-> INFRA', str(e)[:300])
