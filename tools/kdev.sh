#!/bin/bash
# developer aid: tools/kdev.sh <unit> <harness> [timeout_s]  -- run one Kani harness of a unit in a throw-away scratch copy
set -e
U=$1; H=$2; T=${3:-300}
S=/var/tmp/kdev.$$
rm -rf $S; mkdir -p $S
rsync -a --exclude target --exclude .git /repo/packages/rooc/ $S/
TF=$(python3 -c "import tomllib;print(tomllib.load(open('/verif/units/$U/unit.toml','rb'))['target_file'].replace('packages/rooc/',''))")
MOD=verif_kani_$(echo $U | tr -c 'A-Za-z0-9\n' '_')
{ echo; echo "#[cfg(kani)]"; echo "mod $MOD {"; echo "#![allow(unused_imports, dead_code, unused_variables)]"; echo "use super::*;"; cat /verif/units/$U/harness.rs; echo "}"; } >> $S/$TF
cd $S
CARGO_NET_OFFLINE=true CARGO_TARGET_DIR=/verif/.cache/kani-target timeout $T cargo kani -Z function-contracts -Z stubbing --harness $H 2>&1 | grep -E "^(Checking|VERIFICATION|Verification Time|Failed Checks| - Stub|error|SUMMARY| \*\*)|panicked" | grep -v "^Check " | head -30
echo "exit=$?"
cd /; rm -rf $S
