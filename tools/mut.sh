#!/bin/bash
# developer aid: apply a sed mutation to a /repo file, run a unit, restore.   tools/mut.sh <repo-rel-file> <sed-expr> <unit>
f=/repo/$1
cp "$f" /var/tmp/mut.bak
sed -i "$2" "$f"
if cmp -s "$f" /var/tmp/mut.bak; then echo "MUTATION DID NOT APPLY"; fi
(cd /verif && ./check --unit "$3" 2>&1 | grep -E "FAIL|FAILURE|ERROR|canary" | head -${4:-6})
cp /var/tmp/mut.bak "$f"
git -C /repo status --short | head -3
