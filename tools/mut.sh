#!/bin/bash
# developer aid: apply a sed mutation to a /repo file, run a unit, restore (also on interruption).   tools/mut.sh <repo-rel-file> <sed-expr> <unit> [lines]
f=/repo/$1
bak=$(mktemp /var/tmp/mut.XXXXXX)
cp "$f" "$bak"
trap 'cp "$bak" "$f"; rm -f "$bak"' EXIT INT TERM
sed -i "$2" "$f"
if cmp -s "$f" "$bak"; then echo "MUTATION DID NOT APPLY"; fi
(cd /verif && timeout 600 ./check --unit "$3" 2>&1 | grep -E "FAIL|FAILURE|ERROR|canary" | head -${4:-6})
