#!/usr/bin/env python3
"""Write seeded/<id>/meta.json for every stored seed that has none.

Source of the text: the tables of DESIGN.md section 11.6 (seed | property | what it needs to manifest | caught by)
and the author's own notes (author_notes.txt: the commands the author ran and their results).  Table rows are
matched to directories in order of appearance: an id used in two rounds (S01, T07, ...) maps first to the
long-named directory of the early round (`S01-abs-sign-known-refactor`), then to the bare one (`S01`).
Existing meta.json files are never overwritten.  Developer aid; not part of any check.
"""
import json, os, re, sys

ROOT = os.path.dirname(os.path.dirname(os.path.abspath(__file__)))
SEEDED = os.path.join(ROOT, "seeded")


def table_rows():
    text = open(os.path.join(ROOT, "DESIGN.md"), encoding="utf-8").read()
    start = text.index("### 11.6 Seeded changes")
    end = text.index("### 11.11", start)
    for line in text[start:end].splitlines():
        if not line.startswith("| "):
            continue
        cells = [c.strip() for c in line.strip().strip("|").split(" | ")]
        if len(cells) < 4 or cells[0] in ("seed", "---"):
            continue
        ids = [i.strip() for i in cells[0].split("/")]
        if not all(re.fullmatch(r"[A-Z]\d+[a-z]?", i) for i in ids):
            continue
        for i in ids:
            yield i, cells[1], cells[2], " | ".join(cells[3:])


def main():
    dirs = sorted(d for d in os.listdir(SEEDED) if os.path.isdir(os.path.join(SEEDED, d)) and d != "harmless")
    taken = set()
    written = 0
    for sid, prop, needs, caught in table_rows():
        cands = [d for d in dirs if d.startswith(sid + "-") and d not in taken] + [d for d in dirs if d == sid and d not in taken]
        if not cands:
            print("no directory for table row", sid, file=sys.stderr)
            continue
        d = cands[0]
        taken.add(d)
        path = os.path.join(SEEDED, d, "meta.json")
        if os.path.exists(path):
            continue
        notes_path = os.path.join(SEEDED, d, "author_notes.txt")
        notes = open(notes_path, encoding="utf-8").read().strip() if os.path.exists(notes_path) else ""
        props = re.findall(r"C\d\d", prop)
        meta = {
            "property": props[0] if props else prop,
            "also_breaks": props[1:],
            "breaks": notes.split("\n\n")[0][:1200] if notes else needs,
            "needs_to_manifest": needs,
            "confirmed_by": "tools/confirm_seed.sh in a scratch worktree of /repo: the existing suite passes with the change, "
                            "demo.rs fails with the change and passes without it (the author's own commands and totals are in author_notes.txt)",
            "checks_run": "git -C /repo apply seeded/%s/patch.diff; ./check %s; git -C /repo checkout -- ." % (d, props[0] if props else prop),
            "result": caught,
            "author": "independent sub-agent given only the property record and a scratch worktree",
        }
        json.dump(meta, open(path, "w", encoding="utf-8"), indent=1, ensure_ascii=False)
        written += 1
    left = [d for d in dirs if not os.path.exists(os.path.join(SEEDED, d, "meta.json"))]
    print("written", written, "still without meta.json:", left)


if __name__ == "__main__":
    main()
